package rules

import (
	"fmt"
	"go/token"
	"go/types"
	"sort"
	"strings"

	"golang.org/x/tools/go/ssa"

	"psv/internal/an"
)

// C03 — what the nine spend builders (3 back-ends × preimage/csv/coop) put into
// the transaction they sign and broadcast.
//
// Every value is resolved context-sensitively: a "frame" is a call path from
// one implementation of swap.Wallet.Create*SpendingTransaction into in-module
// helpers; a parameter of a helper is replaced by the argument at that very
// call site, a helper's result by its return values. So the same rule text
// holds whether a step is inlined or extracted into a helper.
//
// Frozen tables (confirmed by reading the pinned tree; each entry carries its reason):
//   implementations  every production named type that implements swap.Wallet (found by types.Implements)
//   output locators  BitcoinOnChain.GetVoutAndVerify (#1), LiquidOnChain.FindVout / VoutFromTxHex (#0)
//   input sinks      wire.NewOutPoint(hash, index), transaction.NewTxInput(hash, index)
//   sighash          txscript.CalcWitnessSigHash, (*transaction.Transaction).HashForWitnessV0
//   wallet address   glightning NewAddr, lnrpc LightningClient.NewAddress, wallet.Wallet.GetAddress
//
// Uses c02WitnessShape / c02WitnessRoles / c02ArrayElems / c02ConstBytes from c02.go.

const (
	c03Wire   = "github.com/btcsuite/btcd/wire"
	c03ElemTx = "github.com/vulpemventures/go-elements/transaction"

	c03NewOutPoint = "func:" + c03Wire + ".NewOutPoint"
	c03NewTxInput  = "func:" + c03ElemTx + ".NewTxInput"
	c03NewMsgTx    = "func:" + c03Wire + ".NewMsgTx"
	c03NewTxOut    = "func:" + c03Wire + ".NewTxOut"
	c03AddTxOut    = "func:(*" + c03Wire + ".MsgTx).AddTxOut"
	c03NewTxOutput = "func:" + c03ElemTx + ".NewTxOutput"
	c03AddOutput   = "func:(*" + c03ElemTx + ".Transaction).AddOutput"
	c03SigHashBtc  = "func:" + c02TxscriptPath + ".CalcWitnessSigHash"
	c03SigHashElem = "func:(*" + c03ElemTx + ".Transaction).HashForWitnessV0"
	c03Sign        = "iface:swap.Signer.Sign"
	c03Script      = "func:onchain.ParamsToTxScript"
	c03LocBtc      = "func:(*onchain.BitcoinOnChain).GetVoutAndVerify"
	c03LocFind     = "func:(*onchain.LiquidOnChain).FindVout"
	c03LocHex      = "func:(*onchain.LiquidOnChain).VoutFromTxHex"
)

type c03Locator struct {
	Result    int // result index that is the vout
	TxArg     int // argument that carries the opening transaction (hex or decoded outputs); receiver is Args[0]
	ParamsArg int // argument that identifies the swap (OpeningParams, or the redeem script)
	ByScript  bool
	Verdict   int // result index of a boolean verdict, -1 if none
}

var c03Locators = map[string]c03Locator{
	c03LocBtc:  {Result: 1, TxArg: 1, ParamsArg: 2, Verdict: 0},
	c03LocFind: {Result: 0, TxArg: 1, ParamsArg: 2, ByScript: true, Verdict: -1},
	c03LocHex:  {Result: 0, TxArg: 1, ParamsArg: 2, ByScript: true, Verdict: -1},
}

// calls whose result is a function of their arguments only (decoders, hashes,
// script assembly); the tracer continues into every argument (and receiver).
var c03Through = map[string]bool{
	"func:encoding/hex.DecodeString":                                              true,
	"func:bytes.NewReader":                                                        true,
	"func:" + c03ElemTx + ".NewTxFromHex":                                         true,
	"func:(*" + c03ElemTx + ".Transaction).TxHash":                                true,
	"func:(*" + c03Wire + ".MsgTx).TxHash":                                        true,
	"func:lightning.MakePreimageFromStr":                                          true,
	"func:" + c02TxscriptPath + ".NewScriptBuilder":                               true,
	"func:(*" + c02TxscriptPath + ".ScriptBuilder).AddData":                       true,
	"func:(*" + c02TxscriptPath + ".ScriptBuilder).AddOp":                         true,
	"func:(*" + c02TxscriptPath + ".ScriptBuilder).Script":                        true,
	"func:" + c02TxscriptPath + ".PayToAddrScript":                                true,
	"func:github.com/btcsuite/btcd/btcutil.DecodeAddress":                         true,
	"iface:github.com/btcsuite/btcd/btcutil.Address.ScriptAddress":                true,
	"func:github.com/vulpemventures/go-elements/address.ToOutputScript":           true,
	"func:(*github.com/decred/dcrd/dcrec/secp256k1/v4/ecdsa.Signature).Serialize": true,
	"func:(*github.com/btcsuite/btcd/btcec/v2/ecdsa.Signature).Serialize":         true,
}

// wallet calls that hand out an address of the node's own wallet.
var c03AddressCalls = map[string]bool{
	"func:(*github.com/elementsproject/glightning/glightning.Lightning).NewAddr": true, // CLN `newaddr`
	"iface:github.com/lightningnetwork/lnd/lnrpc.LightningClient.NewAddress":     true, // LND NewAddress RPC
	"iface:wallet.Wallet.GetAddress":                                             true, // elementsd / LWK wallet
}

// methods that fill a freshly constructed transaction from a reader
var c03Fillers = map[string]bool{
	"func:(*" + c03Wire + ".MsgTx).Deserialize":          true,
	"func:(*" + c03Wire + ".MsgTx).DeserializeNoWitness": true,
	"func:(*" + c03Wire + ".MsgTx).BtcDecode":            true,
}

func init() {
	Register(&Prop{
		ID:   "C03",
		Expl: "For every implementation of swap.Wallet.Create{Preimage,Csv,Coop}SpendingTransaction (found by interface satisfaction: 3 back-ends × 3 paths) and with every value resolved context-sensitively through in-module helpers, decides: (R1) the outpoint index given to wire.NewOutPoint / transaction.NewTxInput comes only from an output locator (GetVoutAndVerify / FindVout / VoutFromTxHex) — never a constant, zero value or parameter — and that locator, as well as the outpoint's transaction hash, is applied to ClaimParams.OpeningTxHex of the call's own ClaimParams and to the call's own OpeningParams (directly or through ParamsToTxScript); (R2) the witness stored into the input is built by the constructor of the matching path with the signature of the right signer in each role (own ClaimParams.Signer; for coop the taker signer argument first, own signer second), the preimage from ClaimParams.Preimage, the script from ParamsToTxScript on the call's OpeningParams, and the input sequence is 0 / lock-time-disabled on the preimage and coop paths and, on the CSV path, comes from exactly the source that feeds the csv argument of that ParamsToTxScript call; (R3) every signature signs the result of the sighash call whose script argument is that same ParamsToTxScript result, with SIGHASH_ALL, input 0, and as amount OpeningParams.Amount (Bitcoin) / the value commitment of the located output (Liquid); (R4) the Bitcoin spend adds exactly one output and the Liquid spend one payee plus one explicit fee output with an empty script, outside loops, and the payee script derives only from a wallet address call, constants and the back-end's own configuration; (R5) wherever the locator's index is used, the locator's error result has been tested and — when the locator can return verdict=false together with a nil error — its boolean verdict as well (a wrapper that returns index and error together is followed to its callers); (R7) the transaction into which each builder puts its input (AddTxIn / AddInput / a store to the input list) is created with a constant version >= 2 — a violation on the CSV path, where OP_CHECKSEQUENCEVERIFY needs it; objects that are only deserialisation targets do not count; (R6) sibling agreement with the validator: on every success return of a Bitcoin output locator the reported index is the position, in the outputs of the transaction argument, of an output that was selected under BOTH `out.Value == int64(params.Amount)` and equality of its PkScript with a script derived from ParamsToTxScript(params, …) — the selection ValidateTx makes and the amount the builders sign for. A deviation is reported as a violation only when every source involved was interpreted; an uninterpreted helper, library call or shape ends in 'cannot decide'.",
		NotD: "Consensus validity of the built transaction, signature correctness, that the CSV has elapsed when the refund is broadcast, fee size (including the constant 200 sat that BitcoinOnChain.PrepareSpendingTransaction subtracts in addition to the fee), blinding arithmetic of the Liquid output.",
		Run:  runC03,
	})
}

// ---------------------------------------------------------------------------------
// context-sensitive backward tracer

type c03Frame struct {
	fn       *ssa.Function
	site     *ssa.Call
	parent   *c03Frame
	children map[*ssa.Call]*c03Frame
}

func (f *c03Frame) depth() int {
	n := 0
	for x := f; x != nil; x = x.parent {
		n++
	}
	return n
}

func (f *c03Frame) child(site *ssa.Call, callee *ssa.Function) *c03Frame {
	if f.children == nil {
		f.children = map[*ssa.Call]*c03Frame{}
	}
	if c, ok := f.children[site]; ok {
		return c
	}
	c := &c03Frame{fn: callee, site: site, parent: f}
	f.children[site] = c
	return c
}

func (f *c03Frame) onStack(fn *ssa.Function) bool {
	for x := f; x != nil; x = x.parent {
		if x.fn == fn {
			return true
		}
	}
	return false
}

type c03Leaf struct {
	Kind string // const | zero | param | call | field | alloc | global | unknown
	Name string
	Val  ssa.Value
	Call *ssa.Call
	Idx  int
	Fr   *c03Frame
	Base []c03Leaf // for field leaves: where the struct (pointer) comes from
}

func (l c03Leaf) String() string {
	s := l.Kind + ":" + l.Name
	if l.Kind == "call" {
		s += fmt.Sprintf("#%d", l.Idx)
	}
	if len(l.Base) > 0 {
		var bs []string
		for _, b := range l.Base {
			bs = append(bs, b.String())
		}
		sort.Strings(bs)
		s += "@(" + strings.Join(c03Uniq(bs), ",") + ")"
	}
	return s
}

func c03Uniq(in []string) []string {
	var out []string
	for i, s := range in {
		if i == 0 || s != in[i-1] {
			out = append(out, s)
		}
	}
	return out
}

type c03Set struct {
	Leaves []c03Leaf
	Ops    map[string]bool
}

func (s *c03Set) Names() []string {
	var out []string
	for _, l := range s.Leaves {
		out = append(out, l.String())
	}
	sort.Strings(out)
	return c03Uniq(out)
}

// OpsBeyond lists operators other than the allowed prefixes.
func (s *c03Set) OpsBeyond(allowed ...string) []string {
	var out []string
	for op := range s.Ops {
		ok := false
		for _, a := range allowed {
			if strings.HasPrefix(op, a) {
				ok = true
			}
		}
		if !ok {
			out = append(out, op)
		}
	}
	sort.Strings(out)
	return out
}

type c03Tracer struct {
	w    *an.World
	stop map[string]bool // in-module callees treated as opaque leaves
}

type c03Key struct {
	v  ssa.Value
	fr *c03Frame
}

func (t *c03Tracer) Trace(v ssa.Value, fr *c03Frame) *c03Set {
	s := &c03Set{Ops: map[string]bool{}}
	t.val(v, fr, s, map[c03Key]bool{})
	return s
}

func (t *c03Tracer) sub(v ssa.Value, fr *c03Frame, seen map[c03Key]bool) []c03Leaf {
	s := &c03Set{Ops: map[string]bool{}}
	t.val(v, fr, s, seen)
	return s.Leaves
}

func (t *c03Tracer) val(v ssa.Value, fr *c03Frame, s *c03Set, seen map[c03Key]bool) {
	if v == nil || seen[c03Key{v, fr}] {
		return
	}
	seen[c03Key{v, fr}] = true
	w := t.w
	leaf := func(kind, name string) {
		s.Leaves = append(s.Leaves, c03Leaf{Kind: kind, Name: name, Val: v, Fr: fr})
	}
	switch x := v.(type) {
	case *ssa.Const:
		if x.Value == nil {
			leaf("zero", "nil")
		} else {
			leaf("const", x.Value.ExactString())
		}
	case *ssa.Parameter:
		i := c02ParamIndex(x)
		if fr.parent != nil && i >= 0 && i < len(fr.site.Call.Args) {
			t.val(fr.site.Call.Args[i], fr.parent, s, seen)
			return
		}
		s.Leaves = append(s.Leaves, c03Leaf{Kind: "param", Name: fmt.Sprintf("param#%d", i), Val: v, Idx: i, Fr: fr})
	case *ssa.Phi:
		for _, e := range x.Edges {
			t.val(e, fr, s, seen)
		}
	case *ssa.ChangeType:
		t.val(x.X, fr, s, seen)
	case *ssa.ChangeInterface:
		t.val(x.X, fr, s, seen)
	case *ssa.MakeInterface:
		t.val(x.X, fr, s, seen)
	case *ssa.TypeAssert:
		t.val(x.X, fr, s, seen)
	case *ssa.Convert:
		s.Ops["convert:"+types.TypeString(x.Type(), nil)] = true
		t.val(x.X, fr, s, seen)
	case *ssa.Slice:
		if x.Low != nil || x.High != nil || x.Max != nil {
			s.Ops["slice"] = true
		}
		t.val(x.X, fr, s, seen)
	case *ssa.BinOp:
		s.Ops[x.Op.String()] = true
		t.val(x.X, fr, s, seen)
		t.val(x.Y, fr, s, seen)
	case *ssa.UnOp:
		if x.Op != token.MUL {
			s.Ops["unop"+x.Op.String()] = true
			t.val(x.X, fr, s, seen)
			return
		}
		switch a := x.X.(type) {
		case *ssa.Alloc:
			t.alloc(a, fr, s, seen)
		case *ssa.FieldAddr:
			t.field(a.X, a.Field, a, fr, s, seen)
		case *ssa.IndexAddr:
			s.Ops["index"] = true
			t.val(a.X, fr, s, seen)
		case *ssa.Global:
			s.Leaves = append(s.Leaves, c03Leaf{Kind: "global", Name: a.Name(), Val: a, Fr: fr})
		default:
			t.val(x.X, fr, s, seen)
		}
	case *ssa.Field:
		t.field(x.X, x.Field, x, fr, s, seen)
	case *ssa.FieldAddr:
		t.field(x.X, x.Field, x, fr, s, seen)
	case *ssa.IndexAddr:
		s.Ops["index"] = true
		t.val(x.X, fr, s, seen)
	case *ssa.Index:
		s.Ops["index"] = true
		t.val(x.X, fr, s, seen)
	case *ssa.Lookup:
		s.Ops["lookup"] = true
		t.val(x.X, fr, s, seen)
	case *ssa.Extract:
		if c, ok := x.Tuple.(*ssa.Call); ok {
			t.call(c, x.Index, fr, s, seen)
		} else {
			t.val(x.Tuple, fr, s, seen)
		}
	case *ssa.Call:
		t.call(x, 0, fr, s, seen)
	case *ssa.Alloc:
		t.alloc(x, fr, s, seen)
	case *ssa.MakeSlice, *ssa.MakeMap, *ssa.MakeChan:
		leaf("alloc", types.TypeString(v.Type(), nil))
	case *ssa.Global:
		leaf("global", x.Name())
	default:
		leaf("unknown", fmt.Sprintf("%T", v))
	}
	_ = w
}

// alloc: union of everything stored into a local (directly or per element).
func (t *c03Tracer) alloc(al *ssa.Alloc, fr *c03Frame, s *c03Set, seen map[c03Key]bool) {
	found := false
	if al.Referrers() != nil {
		for _, r := range *al.Referrers() {
			switch y := r.(type) {
			case *ssa.Store:
				if y.Addr == al {
					found = true
					t.val(y.Val, fr, s, seen)
				}
			case *ssa.IndexAddr:
				if y.Referrers() != nil {
					for _, rr := range *y.Referrers() {
						if st, ok := rr.(*ssa.Store); ok && st.Addr == y {
							found = true
							t.val(st.Val, fr, s, seen)
						}
					}
				}
			}
		}
	}
	if !found {
		kind := "zero"
		if al.Referrers() != nil {
			for _, r := range *al.Referrers() {
				if _, ok := r.(ssa.CallInstruction); ok {
					kind = "unknown" // filled by a callee through its address
				}
			}
			// a composite literal / a struct assigned field by field: the rules look at its fields
			for _, r := range *al.Referrers() {
				if fa, ok := r.(*ssa.FieldAddr); ok && fa.X == al && fa.Referrers() != nil {
					for _, rr := range *fa.Referrers() {
						if st, ok := rr.(*ssa.Store); ok && st.Addr == fa {
							kind = "alloc"
						}
					}
				}
			}
		}
		s.Leaves = append(s.Leaves, c03Leaf{Kind: kind, Name: "local " + types.TypeString(al.Type(), nil), Val: al, Fr: fr})
	}
}

func (t *c03Tracer) field(base ssa.Value, idx int, at ssa.Value, fr *c03Frame, s *c03Set, seen map[c03Key]bool) {
	name := an.FieldName(base.Type(), idx)
	// field of a local composite literal: the value stored into that field
	if al, ok := base.(*ssa.Alloc); ok && al.Referrers() != nil {
		found := false
		escapes := false
		for _, r := range *al.Referrers() {
			switch y := r.(type) {
			case *ssa.FieldAddr:
				if y.X == al && y.Field == idx && y.Referrers() != nil {
					for _, rr := range *y.Referrers() {
						if st, ok := rr.(*ssa.Store); ok && st.Addr == y {
							found = true
							t.val(st.Val, fr, s, seen)
						}
					}
				}
			case *ssa.Store:
				if y.Addr == al {
					found = true
					s.Ops["struct-copy"] = true
					t.val(y.Val, fr, s, seen)
				}
			case ssa.CallInstruction:
				escapes = true
			}
		}
		if found {
			return
		}
		if !escapes {
			s.Leaves = append(s.Leaves, c03Leaf{Kind: "zero", Name: "unset " + name, Val: at, Fr: fr})
			return
		}
	}
	b := t.sub(base, fr, seen)
	s.Leaves = append(s.Leaves, c03Leaf{Kind: "field", Name: name, Val: at, Fr: fr, Base: b})
}

func (t *c03Tracer) call(c *ssa.Call, idx int, fr *c03Frame, s *c03Set, seen map[c03Key]bool) {
	ci := t.w.Info(c)
	name := ci.Name
	args := func() {
		for _, a := range c.Call.Args {
			t.val(a, fr, s, seen)
		}
		if c.Call.IsInvoke() {
			t.val(c.Call.Value, fr, s, seen)
		}
	}
	switch {
	case c03Through[name]:
		s.Ops["via:"+name] = true
		args()
		return
	case name == "builtin:append" || name == "builtin:copy" || name == "builtin:min" || name == "builtin:max":
		args()
		return
	case name == "builtin:len" || name == "builtin:cap":
		s.Ops[strings.TrimPrefix(name, "builtin:")] = true
		args()
		return
	case ci.Static != nil && ci.PkgPath == "github.com/btcsuite/btcd/btcutil" &&
		(ci.Static.Name() == "ScriptAddress" || ci.Static.Name() == "DecodeAddress" || strings.HasPrefix(ci.Static.Name(), "NewAddress")):
		// btcutil address constructors / accessors: pure functions of their arguments
		s.Ops["via:"+name] = true
		args()
		return
	case ci.Static != nil && !t.w.InModule(ci.Static) && c03ValueOnlyStdlib(ci.PkgPath):
		// standard-library functions outside the packages that read the environment:
		// the result is a function of the arguments (and receiver) only
		s.Ops["via:"+name] = true
		args()
		return
	case name == c03NewMsgTx:
		// a fresh transaction that is filled from a reader: continue into the reader
		filled := false
		if c.Referrers() != nil {
			for _, r := range *c.Referrers() {
				fc, ok := r.(*ssa.Call)
				if !ok || !c03Fillers[t.w.Info(fc).Name] || len(fc.Call.Args) < 2 || fc.Call.Args[0] != c {
					continue
				}
				filled = true
				s.Ops["via:"+t.w.Info(fc).Name] = true
				for _, a := range fc.Call.Args[1:] {
					t.val(a, fr, s, seen)
				}
			}
		}
		if filled {
			return
		}
	}
	if !t.stop[name] && ci.Static != nil && t.w.InModule(ci.Static) && ci.Static.Blocks != nil && fr.depth() < 7 && !fr.onStack(ci.Static) {
		ch := fr.child(c, ci.Static)
		ei := an.ErrResultIndex(c)
		for _, r := range an.Returns(ci.Static) {
			if idx >= len(r.Results) {
				continue
			}
			// `return <zero>, err` exits: the zero value is a placeholder next to a
			// non-nil error, not a source (R5 checks that locator errors are tested)
			if ei >= 0 && ei != idx && ei < len(r.Results) && !an.IsNilConst(r.Results[ei]) && c03IsZeroConst(r.Results[idx]) {
				continue
			}
			t.val(r.Results[idx], ch, s, seen)
		}
		return
	}
	s.Leaves = append(s.Leaves, c03Leaf{Kind: "call", Name: name, Val: c, Call: c, Idx: idx, Fr: fr})
}

// c03ValueOnlyStdlib: a standard-library package (no dot in the first path
// element) that is not one of those whose results depend on the environment.
func c03ValueOnlyStdlib(pkg string) bool {
	if pkg == "" {
		return false
	}
	first := pkg
	if i := strings.Index(pkg, "/"); i >= 0 {
		first = pkg[:i]
	}
	if strings.Contains(first, ".") {
		return false
	}
	switch pkg {
	case "crypto/rand", "math/rand", "math/rand/v2", "time", "os", "os/exec", "net", "net/http", "sync", "sync/atomic",
		"context", "runtime", "reflect", "unsafe", "io/ioutil", "syscall", "log", "flag":
		return false
	}
	return true
}

func c03IsZeroConst(v ssa.Value) bool {
	c, ok := v.(*ssa.Const)
	if !ok {
		return false
	}
	if c.Value == nil {
		return true
	}
	switch c.Value.ExactString() {
	case "0", `""`, "false":
		return true
	}
	return false
}

// c03Roots drills field leaves down to what their struct comes from, stopping
// at leaves accepted by stopAt.
func c03Roots(ls []c03Leaf, stopAt func(c03Leaf) bool) []c03Leaf {
	var out []c03Leaf
	for _, l := range ls {
		if stopAt != nil && stopAt(l) {
			out = append(out, l)
			continue
		}
		if l.Kind == "field" && len(l.Base) > 0 {
			out = append(out, c03Roots(l.Base, stopAt)...)
			continue
		}
		out = append(out, l)
	}
	return out
}

func c03Describe(ls []c03Leaf) string {
	var out []string
	for _, l := range ls {
		out = append(out, l.String())
	}
	sort.Strings(out)
	return "[" + strings.Join(c03Uniq(out), ", ") + "]"
}

// ---------------------------------------------------------------------------------
// implementations and their frames

type c03Impl struct {
	fn      *ssa.Function
	kind    string // Preimage | Csv | Coop
	backend string
	root    *c03Frame
	frames  []*c03Frame
	paramsP int
	claimP  int
	signerP int
	tr      *c03Tracer
}

func (m *c03Impl) name(w *an.World) string { return w.FuncName(m.fn) }

// isParam: leaf is exactly parameter #i of the implementation itself.
func (m *c03Impl) isParam(l c03Leaf, i int) bool {
	return l.Kind == "param" && l.Fr == m.root && l.Idx == i
}

func (m *c03Impl) isFieldOfParam(l c03Leaf, field string, p int) bool {
	if l.Kind != "field" || l.Name != field || len(l.Base) == 0 {
		return false
	}
	for _, b := range l.Base {
		if !m.isParam(b, p) {
			return false
		}
	}
	return true
}

func (m *c03Impl) isOpeningHex(l c03Leaf) bool {
	return m.isFieldOfParam(l, "ClaimParams.OpeningTxHex", m.claimP)
}

// onlyOpeningHex: every root of the leaves is ClaimParams.OpeningTxHex of the own claim params.
func (m *c03Impl) onlyOpeningHex(ls []c03Leaf) bool {
	roots := c03Roots(ls, m.isOpeningHex)
	if len(roots) == 0 {
		return false
	}
	for _, r := range roots {
		if r.Kind == "const" {
			continue // version numbers of fresh transactions etc.
		}
		if !m.isOpeningHex(r) {
			return false
		}
	}
	for _, r := range roots {
		if m.isOpeningHex(r) {
			return true
		}
	}
	return false
}

func (m *c03Impl) onlyParam(ls []c03Leaf, p int) bool {
	if len(ls) == 0 {
		return false
	}
	for _, l := range ls {
		if !m.isParam(l, p) {
			return false
		}
	}
	return true
}

// buildFrames enumerates the call paths below the implementation.
func (m *c03Impl) buildFrames(w *an.World) {
	var rec func(fr *c03Frame)
	rec = func(fr *c03Frame) {
		m.frames = append(m.frames, fr)
		for _, ci := range an.Calls(fr.fn) {
			c, ok := ci.(*ssa.Call)
			if !ok {
				continue
			}
			info := w.Info(c)
			if info.Static == nil || !w.InModule(info.Static) || info.Static.Blocks == nil || m.tr.stop[info.Name] || c03Through[info.Name] {
				continue
			}
			if fr.depth() >= 6 || fr.onStack(info.Static) {
				continue
			}
			rec(fr.child(c, info.Static))
		}
	}
	rec(m.root)
}

type c03Site struct {
	fr *c03Frame
	in ssa.Instruction
}

// callsIn lists the calls with the given canonical names in all frames.
func (m *c03Impl) callsIn(w *an.World, names ...string) []c03Site {
	var out []c03Site
	for _, fr := range m.frames {
		for _, ci := range an.Calls(fr.fn) {
			n := w.Info(ci).Name
			for _, want := range names {
				if n == want {
					out = append(out, c03Site{fr, ci})
				}
			}
		}
	}
	return out
}

// c03LiteralField returns the values stored into field `key` (pkgpath.Type.Field)
// of a local struct.
func c03LiteralField(al *ssa.Alloc, key string) []ssa.Value {
	var out []ssa.Value
	if al.Referrers() == nil {
		return nil
	}
	for _, r := range *al.Referrers() {
		fa, ok := r.(*ssa.FieldAddr)
		if !ok || fa.X != al || c03FieldKey(fa) != key || fa.Referrers() == nil {
			continue
		}
		for _, rr := range *fa.Referrers() {
			if st, ok := rr.(*ssa.Store); ok && st.Addr == fa {
				out = append(out, st.Val)
			}
		}
	}
	return out
}

// c03Opaque: some leaf is something the tracer could not look into (an
// unresolved local, an interface / library call that is not in a rule table):
// a verdict based on such a set is "cannot decide", never a violation.
func c03Opaque(ls []c03Leaf, known func(c03Leaf) bool) bool {
	for _, l := range ls {
		if known != nil && known(l) {
			continue
		}
		if l.Kind == "call" && c03TableCall(l.Name) {
			continue // a call the rule tables identify: its meaning is known
		}
		switch l.Kind {
		case "unknown", "alloc", "call", "global":
			return true
		case "field":
			if len(l.Base) > 0 && c03Opaque(l.Base, known) {
				return true
			}
		}
	}
	return false
}

// c03TableCall: the callee is named in one of the frozen tables of this file.
func c03TableCall(name string) bool {
	if _, ok := c03Locators[name]; ok {
		return true
	}
	switch name {
	case c03Script, c03Sign, c03SigHashBtc, c03SigHashElem, c03NewTxOut, c03NewTxOutput, c03NewOutPoint, c03NewTxInput:
		return true
	}
	return c03AddressCalls[name]
}

func c03FieldKey(fa *ssa.FieldAddr) string {
	n := an.NamedOf(fa.X.Type())
	if n == nil || n.Obj().Pkg() == nil {
		return an.FieldName(fa.X.Type(), fa.Field)
	}
	return n.Obj().Pkg().Path() + "." + an.FieldName(fa.X.Type(), fa.Field)
}

// storesIn lists stores to the given pkgpath.Type.Field keys in all frames.
func (m *c03Impl) storesIn(keys ...string) []c03Site {
	var out []c03Site
	for _, fr := range m.frames {
		for _, b := range fr.fn.Blocks {
			for _, in := range b.Instrs {
				st, ok := in.(*ssa.Store)
				if !ok {
					continue
				}
				fa, ok := st.Addr.(*ssa.FieldAddr)
				if !ok {
					continue
				}
				k := c03FieldKey(fa)
				for _, want := range keys {
					if k == want {
						out = append(out, c03Site{fr, st})
					}
				}
			}
		}
	}
	return out
}

func c03InLoop(b *ssa.BasicBlock) bool {
	return an.ReachBlocks(b.Succs, nil, nil)[b]
}

// c03Implementations finds the production types implementing swap.Wallet.
func c03Implementations(c *an.Check, tr *c03Tracer) []*c03Impl {
	w := c.W
	wal := w.Named("swap", "Wallet")
	if wal == nil {
		c.Anchor("swap.Wallet does not resolve")
		return nil
	}
	it, ok := wal.Underlying().(*types.Interface)
	if !ok {
		c.Anchor("swap.Wallet is not an interface")
		return nil
	}
	var out []*c03Impl
	rels := make([]string, 0, len(w.ByRel))
	for r := range w.ByRel {
		rels = append(rels, r)
	}
	sort.Strings(rels)
	for _, rel := range rels {
		if an.IsTestSupport(rel) {
			continue
		}
		p := w.ByRel[rel]
		sc := p.Types.Scope()
		for _, n := range sc.Names() {
			tn, ok := sc.Lookup(n).(*types.TypeName)
			if !ok || tn.IsAlias() {
				continue
			}
			nt, ok := tn.Type().(*types.Named)
			if !ok {
				continue
			}
			if _, isI := nt.Underlying().(*types.Interface); isI {
				continue
			}
			if !types.Implements(types.NewPointer(nt), it) && !types.Implements(nt, it) {
				continue
			}
			for _, kind := range []string{"Preimage", "Csv", "Coop"} {
				meth := "Create" + kind + "SpendingTransaction"
				fn := w.Method(nt, meth)
				if fn == nil || fn.Blocks == nil {
					c.Anchor("%s.%s.%s has no body", rel, n, meth)
					continue
				}
				m := &c03Impl{fn: fn, kind: kind, backend: rel + "." + n, paramsP: -1, claimP: -1, signerP: -1, tr: tr}
				for i, prm := range fn.Params {
					if i == 0 {
						continue
					}
					if pn := an.NamedOf(prm.Type()); pn != nil {
						switch pn.Obj().Name() {
						case "OpeningParams":
							m.paramsP = i
						case "ClaimParams":
							m.claimP = i
						case "Signer":
							m.signerP = i
						}
					}
				}
				if m.paramsP < 0 || m.claimP < 0 || (kind == "Coop" && m.signerP < 0) {
					c.Anchor("%s: parameters (OpeningParams, ClaimParams[, Signer]) not found", w.FuncName(fn))
					continue
				}
				m.root = &c03Frame{fn: fn}
				m.buildFrames(w)
				out = append(out, m)
			}
		}
	}
	return out
}

// ---------------------------------------------------------------------------------

func runC03(c *an.Check) {
	c.Rule("C03.R1", "the outpoint index comes only from an output locator applied to the call's ClaimParams.OpeningTxHex and OpeningParams; the outpoint hash is the hash of that same transaction")
	c.Rule("C03.R2", "witness constructor, signer roles, preimage, script and input sequence match the spend path (sequence 0 on preimage/coop; on CSV the source of the script's csv argument)")
	c.Rule("C03.R3", "each signature signs the sighash computed over the witness script with SIGHASH_ALL, input 0 and OpeningParams.Amount (Bitcoin) / the located output's value commitment (Liquid)")
	c.Rule("C03.R4", "exactly one payee output (plus the explicit Liquid fee output), outside loops, whose script derives from a wallet address call")
	c.Rule("C03.R6", "sibling agreement with the validator: on every success return of a Bitcoin output locator the returned index is that of an output selected under BOTH `out.Value == params.Amount` and equality of its script with the script derived from ParamsToTxScript(params, …) — the selection ValidateTx makes (C01.R6) and the amount the builders sign for (R3)")
	c.Rule("C03.R7", "the transaction object that receives the spending input is created with a constant version >= 2 (BIP68/BIP112: OP_CHECKSEQUENCEVERIFY fails in a version-1 transaction, so every CSV refund would be invalid); wire.NewMsgTx(v) / &wire.MsgTx{Version: v} and transaction.NewTx(v) / &transaction.Transaction{Version: v} alike")
	c.Rule("C03.R5", "the index of a locator is only used after its error — and, if verdict=false can come with a nil error, its verdict — has been tested")
	w := c.W

	stop := map[string]bool{c03Script: true}
	for n := range c03Locators {
		stop[n] = true
	}
	witFns := map[string]*ssa.Function{}
	witRoles := map[string]map[string]int{}
	for _, t := range c02WitnessTemplates {
		fn := w.Func("onchain", t.Fn)
		if fn == nil {
			c.Anchor("onchain.%s does not resolve", t.Fn)
			continue
		}
		witFns[t.Fn] = fn
		stop["func:"+w.FuncName(fn)] = true
		if shape, problem := c02WitnessShape(w, fn); problem == "" {
			if roles, mismatch := c02WitnessRoles(shape, t.Tmpl); mismatch == "" {
				witRoles[t.Fn] = roles
			}
		}
	}
	for _, anchor := range [][2]string{{"onchain", "ParamsToTxScript"}, {"onchain", "(*BitcoinOnChain).GetVoutAndVerify"}, {"onchain", "(*LiquidOnChain).FindVout"}} {
		if w.Func(anchor[0], anchor[1]) == nil {
			c.Anchor("%s.%s does not resolve", anchor[0], anchor[1])
		}
	}
	if len(c.Anchors) > 0 {
		return
	}
	tr := &c03Tracer{w: w, stop: stop}
	impls := c03Implementations(c, tr)
	if !c.AtLeast("C03", "implementations of swap.Wallet.Create*SpendingTransaction", len(impls), 9) {
		return
	}
	// csv parameter position of ParamsToTxScript
	entry := w.Func("onchain", "ParamsToTxScript")
	scriptParamsIdx, scriptCsvIdx := -1, -1
	for i, p := range entry.Params {
		if n := an.NamedOf(p.Type()); n != nil && n.Obj().Name() == "OpeningParams" {
			scriptParamsIdx = i
		} else if b, ok := p.Type().Underlying().(*types.Basic); ok && b.Info()&types.IsInteger != 0 {
			scriptCsvIdx = i
		}
	}
	if scriptParamsIdx < 0 || scriptCsvIdx < 0 {
		c.Anchor("onchain.ParamsToTxScript no longer has the (params, csv) signature")
		return
	}

	n1, n2, n3, n4, nLocImpl := 0, 0, 0, 0, 0
	r5sites := map[*ssa.Call]*c03Impl{}
	var r5order []*ssa.Call
	for _, m := range impls {
		locs, found := c03R1(c, m)
		if found {
			n1++
		}
		for _, l := range locs {
			if _, ok := r5sites[l]; !ok {
				r5sites[l] = m
				r5order = append(r5order, l)
			}
		}
		// locator calls in the frames that R1 did not reach still count for R5
		var names []string
		for n := range c03Locators {
			names = append(names, n)
		}
		sort.Strings(names)
		if len(locs) > 0 || len(m.callsIn(w, names...)) > 0 {
			nLocImpl++
		}
		for _, s := range m.callsIn(w, names...) {
			if lc, ok := s.in.(*ssa.Call); ok {
				if _, ok := r5sites[lc]; !ok {
					r5sites[lc] = m
					r5order = append(r5order, lc)
				}
			}
		}
		ws, foundW := c03R2(c, m, witFns, witRoles, scriptParamsIdx, scriptCsvIdx)
		if foundW {
			n2++
			// R3 starts from the sighash calls R2 resolved; where R2 already
			// reports the witness, R3 has no instance of its own
			if ws == nil || len(ws.sighash) == 0 || c03R3(c, m, ws, locs) {
				n3++
			}
		}
		if c03R4(c, m) {
			n4++
		}
	}
	c.AtLeast("C03.R1", "implementations with a resolved outpoint", n1, 9)
	c.AtLeast("C03.R2", "implementations with a resolved witness", n2, 9)
	c.AtLeast("C03.R3", "implementations with a resolved sighash", n3, 9)
	c.AtLeast("C03.R4", "implementations with resolved outputs", n4, 9)
	c03R5(c, r5order, r5sites, nLocImpl)
	c03R6(c, tr, scriptParamsIdx)
	c03R7(c, impls)
}

// ---------------------------------------------------------------------------------
// R1

// c03R1 returns the locator calls that feed the outpoint index and whether
// the input construction was found at all.
func c03R1(c *an.Check, m *c03Impl) ([]*ssa.Call, bool) {
	w := c.W
	cons := m.name(w) + " outpoint"
	type sink struct {
		fr        *c03Frame
		pos       token.Pos
		idx, hash ssa.Value
	}
	var sinks []sink
	for _, s := range m.callsIn(w, c03NewOutPoint, c03NewTxInput) {
		cc := s.in.(*ssa.Call)
		sinks = append(sinks, sink{s.fr, cc.Pos(), cc.Call.Args[1], cc.Call.Args[0]})
	}
	for _, s := range m.storesIn(c03Wire+".OutPoint.Index", c03ElemTx+".TxInput.Index") {
		st := s.in.(*ssa.Store)
		var hash ssa.Value
		if al, ok := st.Addr.(*ssa.FieldAddr).X.(*ssa.Alloc); ok {
			hs := append(c03LiteralField(al, c03Wire+".OutPoint.Hash"), c03LiteralField(al, c03ElemTx+".TxInput.Hash")...)
			if len(hs) == 1 {
				hash = hs[0]
			}
		}
		sinks = append(sinks, sink{s.fr, st.Pos(), st.Val, hash})
	}
	if len(sinks) == 0 {
		c.Unknown("C03.R1", cons, w.Pos(m.fn.Pos()), "no wire.NewOutPoint / transaction.NewTxInput call and no store to an outpoint index is reached from this implementation")
		return nil, false
	}
	var locs []*ssa.Call
	for _, sk := range sinks {
		pos := w.Pos(sk.pos)
		set := m.tr.Trace(sk.idx, sk.fr)
		bad, unknown := "", ""
		// a deviation is a violation only if every source was interpreted
		isScript := func(l c03Leaf) bool { return l.Kind == "call" && l.Name == c03Script }
		flag := func(ls []c03Leaf, msg string) {
			if c03Opaque(ls, isScript) {
				unknown = msg + " (some sources are not interpretable)"
			} else {
				bad = msg
			}
		}
		if ops := set.OpsBeyond("convert:"); len(ops) > 0 {
			unknown = fmt.Sprintf("the outpoint index is computed (%v) from %v", ops, set.Names())
		}
		for _, l := range set.Leaves {
			loc, isLoc := c03Locators[l.Name]
			switch {
			case l.Kind == "call" && isLoc && l.Idx == loc.Result:
				locs = append(locs, l.Call)
				// the transaction the locator looks at
				txs := m.tr.Trace(l.Call.Call.Args[loc.TxArg], l.Fr)
				if !m.onlyOpeningHex(txs.Leaves) {
					roots := c03Roots(txs.Leaves, m.isOpeningHex)
					flag(roots, fmt.Sprintf("the output locator %s is applied to %s, not (only) to ClaimParams.OpeningTxHex of this call", strings.TrimPrefix(l.Name, "func:"), c03Describe(roots)))
				}
				// the swap it looks for
				ps := m.tr.Trace(l.Call.Call.Args[loc.ParamsArg], l.Fr)
				if !loc.ByScript {
					if !m.onlyParam(ps.Leaves, m.paramsP) {
						flag(ps.Leaves, fmt.Sprintf("the output locator searches with %s, not with the OpeningParams of this call", c03Describe(ps.Leaves)))
					}
				} else {
					okScript := len(ps.Leaves) > 0
					for _, sl := range ps.Leaves {
						if sl.Kind != "call" || sl.Name != c03Script || sl.Idx != 0 {
							okScript = false
							continue
						}
						pp := m.tr.Trace(sl.Call.Call.Args[0], sl.Fr)
						if !m.onlyParam(pp.Leaves, m.paramsP) {
							okScript = false
						}
					}
					if !okScript {
						flag(ps.Leaves, fmt.Sprintf("the output locator searches for a script from %s, not for ParamsToTxScript of this call's OpeningParams", c03Describe(ps.Leaves)))
					}
				}
			case l.Kind == "const" || l.Kind == "zero":
				bad = "the outpoint index is the constant " + l.Name + " on some path: the spend takes output " + l.Name + " of the opening transaction wherever the swap output really is"
			case l.Kind == "param":
				bad = "the outpoint index is a caller-supplied parameter of the wallet interface, not a located output"
			case l.Kind == "unknown":
				unknown = "the outpoint index comes from " + l.String()
			default:
				// a call / field / global this rule has no table entry for: it may well be a locator
				unknown = "the outpoint index comes from " + l.String() + ", which is not a known output locator"
			}
		}
		if len(set.Leaves) == 0 {
			unknown = "the outpoint index has no sources"
		}
		// hash of the spent transaction
		if bad == "" && unknown == "" && sk.hash != nil {
			hs := m.tr.Trace(sk.hash, sk.fr)
			if !m.onlyOpeningHex(hs.Leaves) {
				roots := c03Roots(hs.Leaves, m.isOpeningHex)
				if c03Opaque(roots, nil) {
					unknown = "cannot tell which transaction's hash goes into the outpoint: " + c03Describe(roots)
				} else {
					bad = "the outpoint's transaction hash derives from " + c03Describe(roots) + ", not from ClaimParams.OpeningTxHex of this call"
				}
			}
		}
		switch {
		case bad != "":
			c.Bad("C03.R1", cons, pos, bad)
		case unknown != "":
			c.Unknown("C03.R1", cons, pos, unknown)
		default:
			c.OK("C03.R1", cons, pos, "index from "+strings.Join(set.Names(), ", ")+" applied to ClaimParams.OpeningTxHex / OpeningParams of the call")
		}
	}
	return locs, true
}

// ---------------------------------------------------------------------------------
// R2

type c03Witness struct {
	script   *ssa.Call // the ParamsToTxScript call whose result is the witness script
	scriptFr *c03Frame
	sighash  []c03Leaf // sighash calls whose result is signed
}

// constOnly: every source of v is the integer constant want ("ok"), some
// source is another constant ("bad"), or v is not a constant ("unknown").
func (m *c03Impl) constOnly(v ssa.Value, fr *c03Frame, want int64) string {
	set := m.tr.Trace(v, fr)
	if len(set.Leaves) == 0 || len(set.OpsBeyond("convert:")) > 0 {
		return "unknown"
	}
	for _, l := range set.Leaves {
		if l.Kind != "const" {
			return "unknown"
		}
	}
	for _, l := range set.Leaves {
		if n, ok := an.ConstInt(l.Val); !ok || n != want {
			return "bad"
		}
	}
	return "ok"
}

// sameScriptCall: l is another ParamsToTxScript call with provably the same
// arguments as the one whose result is in the witness.
func (m *c03Impl) sameScriptCall(l c03Leaf, ws *c03Witness) bool {
	if l.Kind != "call" || l.Name != c03Script || ws.script == nil || len(l.Call.Call.Args) != len(ws.script.Call.Args) {
		return false
	}
	for i := range l.Call.Call.Args {
		a := m.tr.Trace(l.Call.Call.Args[i], l.Fr)
		b := m.tr.Trace(ws.script.Call.Args[i], ws.scriptFr)
		if len(a.Leaves) == 0 || c03Opaque(a.Leaves, nil) || c03Opaque(b.Leaves, nil) {
			return false
		}
		if len(a.OpsBeyond("convert:")) > 0 || len(b.OpsBeyond("convert:")) > 0 {
			return false
		}
		if strings.Join(a.Names(), ",") != strings.Join(b.Names(), ",") {
			return false
		}
	}
	return true
}

func c03SameCall(a c03Leaf, call *ssa.Call, fr *c03Frame) bool {
	return a.Kind == "call" && a.Call == call && a.Fr == fr
}

// c03StripZero removes `0 | x`, `x | 0`, `x + 0`, `x ^ 0`.
func c03StripZero(v ssa.Value) ssa.Value {
	for {
		b, ok := v.(*ssa.BinOp)
		if !ok || (b.Op != token.OR && b.Op != token.ADD && b.Op != token.XOR) {
			return v
		}
		if n, ok := an.ConstInt(b.X); ok && n == 0 {
			if _, isC := b.X.(*ssa.Const); isC {
				v = b.Y
				continue
			}
		}
		if n, ok := an.ConstInt(b.Y); ok && n == 0 {
			if _, isC := b.Y.(*ssa.Const); isC {
				v = b.X
				continue
			}
		}
		return v
	}
}

func c03R2(c *an.Check, m *c03Impl, witFns map[string]*ssa.Function, witRoles map[string]map[string]int, scriptParamsIdx, scriptCsvIdx int) (*c03Witness, bool) {
	w := c.W
	cons := m.name(w) + " witness"
	want := map[string]string{"Preimage": "GetPreimageWitness", "Csv": "GetCsvWitness", "Coop": "GetCooperativeWitness"}[m.kind]
	stores := m.storesIn(c03Wire+".TxIn.Witness", c03ElemTx+".TxInput.Witness")
	if len(stores) == 0 {
		c.Unknown("C03.R2", cons, w.Pos(m.fn.Pos()), "no store to the Witness field of an input is reached from this implementation")
		return nil, false
	}
	res := &c03Witness{}
	bad, unknown := "", ""
	var pos token.Pos
	for _, s := range stores {
		st := s.in.(*ssa.Store)
		pos = st.Pos()
		set := m.tr.Trace(st.Val, s.fr)
		if len(set.Leaves) != 1 || set.Leaves[0].Kind != "call" {
			unknown = "the witness is not the result of a single constructor call: " + strings.Join(set.Names(), ", ")
			continue
		}
		wl := set.Leaves[0]
		callee := wl.Call.Call.StaticCallee()
		which := ""
		for n, fn := range witFns {
			if fn == callee {
				which = n
			}
		}
		if which == "" {
			unknown = "the witness is built by " + wl.Name + ", which is not one of the three witness constructors"
			continue
		}
		if which != want {
			bad = fmt.Sprintf("the %s spend uses the witness of another path (%s instead of %s): the script branch it satisfies is not the one this transaction is built for", m.kind, which, want)
			continue
		}
		roles := witRoles[which]
		if roles == nil {
			unknown = "onchain." + which + " does not have the protocol shape (see C02.R4); cannot assign roles to its arguments"
			continue
		}
		arg := func(role string) ssa.Value { return wl.Call.Call.Args[roles[role]] }
		// script
		ss := m.tr.Trace(arg("script"), wl.Fr)
		if len(ss.Leaves) != 1 || ss.Leaves[0].Kind != "call" || ss.Leaves[0].Name != c03Script || ss.Leaves[0].Idx != 0 {
			msg := "the witness script is " + strings.Join(ss.Names(), ", ") + ", not the result of ParamsToTxScript"
			hasScript := false
			for _, l := range ss.Leaves {
				if l.Kind == "call" && l.Name == c03Script {
					hasScript = true
				}
			}
			if hasScript || len(ss.Leaves) == 0 || c03Opaque(ss.Leaves, nil) {
				unknown = msg + " alone"
			} else {
				bad = msg
			}
			continue
		}
		if ops := ss.OpsBeyond("convert:"); len(ops) > 0 {
			unknown = fmt.Sprintf("the witness script is modified (%v)", ops)
			continue
		}
		res.script, res.scriptFr = ss.Leaves[0].Call, ss.Leaves[0].Fr
		pp := m.tr.Trace(res.script.Call.Args[scriptParamsIdx], res.scriptFr)
		if !m.onlyParam(pp.Leaves, m.paramsP) {
			msg := "the witness script is built from " + c03Describe(pp.Leaves) + ", not from the OpeningParams of this call"
			if c03Opaque(pp.Leaves, nil) {
				unknown = msg
			} else {
				bad = msg
			}
			continue
		}
		// signatures
		type sigSpec struct {
			role string
			own  bool
		}
		var sigs []sigSpec
		switch m.kind {
		case "Coop":
			sigs = []sigSpec{{"takerSig", false}, {"makerSig", true}}
		default:
			sigs = []sigSpec{{"sig", true}}
		}
		for _, sp := range sigs {
			sg := m.tr.Trace(arg(sp.role), wl.Fr)
			if len(sg.Leaves) != 1 || sg.Leaves[0].Kind != "call" || sg.Leaves[0].Name != c03Sign || sg.Leaves[0].Idx != 0 {
				unknown = "witness item <" + sp.role + "> comes from " + strings.Join(sg.Names(), ", ") + ", not from one Signer.Sign call"
				break
			}
			if ops := sg.OpsBeyond("convert:", "via:"); len(ops) > 0 {
				unknown = fmt.Sprintf("witness item <%s> is modified (%v)", sp.role, ops)
				break
			}
			sl := sg.Leaves[0]
			who := m.tr.Trace(sl.Call.Call.Value, sl.Fr)
			isOwn := len(who.Leaves) > 0
			isArg := len(who.Leaves) > 0
			for _, l := range who.Leaves {
				if !m.isFieldOfParam(l, "ClaimParams.Signer", m.claimP) {
					isOwn = false
				}
				if m.signerP < 0 || !m.isParam(l, m.signerP) {
					isArg = false
				}
			}
			switch {
			case (sp.own && !isOwn || !sp.own && !isArg) && (len(who.Leaves) == 0 || c03Opaque(who.Leaves, nil)):
				unknown = fmt.Sprintf("cannot tell who signs witness item <%s>: %s", sp.role, c03Describe(who.Leaves))
			case sp.own && !isOwn:
				bad = fmt.Sprintf("witness item <%s> is signed by %s, the path needs the signature of ClaimParams.Signer", sp.role, c03Describe(who.Leaves))
			case !sp.own && !isArg:
				bad = fmt.Sprintf("witness item <%s> (first signature of the coop witness, checked against the taker key) is signed by %s, not by the taker signer argument", sp.role, c03Describe(who.Leaves))
			}
			hs := m.tr.Trace(sl.Call.Call.Args[0], sl.Fr)
			if len(hs.Leaves) != 1 || hs.Leaves[0].Kind != "call" || (hs.Leaves[0].Name != c03SigHashBtc && hs.Leaves[0].Name != c03SigHashElem) || hs.Leaves[0].Idx != 0 {
				if bad == "" && unknown == "" {
					msg := "the signature in <" + sp.role + "> signs " + strings.Join(hs.Names(), ", ") + ", not the result of the witness-v0 sighash call"
					isSH := func(l c03Leaf) bool { return l.Kind == "call" && (l.Name == c03SigHashBtc || l.Name == c03SigHashElem) }
					if len(hs.Leaves) == 0 || c03Opaque(hs.Leaves, isSH) {
						unknown = msg
					} else {
						bad = msg
					}
				}
			} else if ops := hs.OpsBeyond("convert:"); len(ops) > 0 {
				unknown = fmt.Sprintf("the signed hash is modified (%v)", ops)
			} else {
				res.sighash = append(res.sighash, hs.Leaves[0])
			}
			if bad != "" || unknown != "" {
				break
			}
		}
		if bad != "" || unknown != "" {
			continue
		}
		// preimage
		if m.kind == "Preimage" {
			ps := m.tr.Trace(arg("preimage"), wl.Fr)
			okP := len(ps.Leaves) > 0
			for _, l := range ps.Leaves {
				if !m.isFieldOfParam(l, "ClaimParams.Preimage", m.claimP) {
					okP = false
				}
			}
			if !okP {
				msg := "the preimage item of the witness comes from " + strings.Join(ps.Names(), ", ") + ", not from ClaimParams.Preimage"
				if len(ps.Leaves) == 0 || c03Opaque(ps.Leaves, nil) {
					unknown = msg
				} else {
					bad = msg
				}
				continue
			}
		}
	}
	// sequence
	seqOK := ""
	if bad == "" && unknown == "" {
		seqStores := m.storesIn(c03Wire+".TxIn.Sequence", c03ElemTx+".TxInput.Sequence")
		if len(seqStores) == 0 {
			if m.kind == "Csv" {
				bad = "the input sequence is never set: the library default 0xffffffff disables relative lock-time and OP_CHECKSEQUENCEVERIFY fails"
			} else {
				seqOK = "sequence left at the library default (relative lock-time disabled)"
			}
		}
		wpos := pos
		for _, s := range seqStores {
			st := s.in.(*ssa.Store)
			pos = st.Pos()
			set := m.tr.Trace(c03StripZero(st.Val), s.fr)
			// `0 | csv` inside a helper: strip again after resolving the parameter
			var leaves []c03Leaf
			for _, l := range set.Leaves {
				if l.Kind == "const" && l.Name == "0" && (set.Ops["|"] || set.Ops["+"] || set.Ops["^"]) && len(set.Leaves) > 1 {
					continue // neutral element of the remaining or/add
				}
				leaves = append(leaves, l)
			}
			if ops := set.OpsBeyond("convert:", "|", "+", "^"); len(ops) > 0 {
				unknown = fmt.Sprintf("the input sequence is computed (%v) from %v", ops, set.Names())
				break
			}
			if (set.Ops["|"] || set.Ops["+"] || set.Ops["^"]) && len(leaves) > 1 {
				unknown = fmt.Sprintf("the input sequence combines several values: %v", set.Names())
				break
			}
			if len(leaves) == 0 {
				unknown = "the input sequence has no sources"
				break
			}
			switch m.kind {
			case "Preimage", "Coop":
				for _, l := range leaves {
					n, isInt := an.ConstInt(l.Val)
					switch {
					case l.Kind != "const" || !isInt:
						// a violation only when the value is positively the swap's CSV
						isCSV := l.Kind == "field" && l.Name == "OpeningParams.CSV"
						for _, cl := range m.tr.Trace(res.script.Call.Args[scriptCsvIdx], res.scriptFr).Leaves {
							if cl.Kind != "const" && cl.String() == l.String() {
								isCSV = true
							}
						}
						if isCSV {
							bad = fmt.Sprintf("the input sequence of the %s spend is %s, the swap's CSV: a relative lock-time on this path delays the claim until the refund path is open as well (protocol: sequence 0)", m.kind, l.String())
						} else if unknown == "" {
							unknown = fmt.Sprintf("the input sequence of the %s spend is %s; cannot tell whether it is 0", m.kind, l.String())
						}
					case n != 0 && n&(1<<31) == 0:
						bad = fmt.Sprintf("the input sequence of the %s spend is the constant %d, i.e. a relative lock-time of that many blocks (protocol: sequence 0)", m.kind, n)
					}
				}
				if bad != "" {
					unknown = ""
				}
				if bad == "" {
					seqOK = "sequence " + c03Describe(leaves)
				}
			case "Csv":
				cs := m.tr.Trace(res.script.Call.Args[scriptCsvIdx], res.scriptFr)
				if ops := cs.OpsBeyond("convert:"); len(ops) > 0 {
					unknown = fmt.Sprintf("the csv argument of the script is computed (%v)", ops)
					break
				}
				a, b := c03Describe(leaves), c03Describe(cs.Leaves)
				switch {
				case a == b:
					seqOK = "sequence and script csv both from " + a
				case (a == "[const:1008]" && strings.Contains(b, "OpeningParams.CSV")) || (b == "[const:1008]" && strings.Contains(a, "OpeningParams.CSV")):
					unknown = "sequence is " + a + " and the script csv is " + b + ": equal only for Bitcoin swaps (C02.R3), not decidable here"
				case c03Opaque(leaves, nil) || c03Opaque(cs.Leaves, nil) || len(cs.Leaves) == 0:
					unknown = "sequence is " + a + " and the script csv is " + b + ": cannot tell whether they are the same value"
				default:
					bad = "the CSV refund sets the input sequence from " + a + " while the script it spends was built with the csv " + b + ": OP_CHECKSEQUENCEVERIFY compares the two, so the refund is invalid (too small) or needlessly late (too large)"
				}
			}
			if bad != "" || unknown != "" {
				break
			}
		}
		if bad == "" && unknown == "" {
			pos = wpos
		}
	}
	p := w.Pos(pos)
	switch {
	case bad != "":
		c.Bad("C03.R2", cons, p, bad)
	case unknown != "":
		c.Unknown("C03.R2", cons, p, unknown)
	default:
		c.OK("C03.R2", cons, p, "onchain."+want+" with own/taker signers, script from ParamsToTxScript(own params); "+seqOK)
	}
	if res.script == nil {
		return nil, true
	}
	return res, true
}

// ---------------------------------------------------------------------------------
// R3

func c03R3(c *an.Check, m *c03Impl, ws *c03Witness, locs []*ssa.Call) bool {
	w := c.W
	cons := m.name(w) + " sighash"
	if len(ws.sighash) == 0 {
		// R2 already reports why; do not count this implementation
		return false
	}
	bad, unknown := "", ""
	var pos token.Pos
	for _, sh := range ws.sighash {
		call := sh.Call
		pos = call.Pos()
		var scriptArg, typeArg, idxArg, amtArg ssa.Value
		a := call.Call.Args
		if sh.Name == c03SigHashBtc {
			if len(a) != 6 {
				unknown = "unexpected CalcWitnessSigHash signature"
				break
			}
			scriptArg, typeArg, idxArg, amtArg = a[0], a[2], a[4], a[5]
		} else {
			if len(a) != 5 {
				unknown = "unexpected HashForWitnessV0 signature"
				break
			}
			idxArg, scriptArg, amtArg, typeArg = a[1], a[2], a[3], a[4]
		}
		ss := m.tr.Trace(scriptArg, sh.Fr)
		if len(ss.Leaves) != 1 || ss.Leaves[0].Idx != 0 || !(c03SameCall(ss.Leaves[0], ws.script, ws.scriptFr) || m.sameScriptCall(ss.Leaves[0], ws)) {
			msg := "the sighash is computed over " + strings.Join(ss.Names(), ", ") + ", not over the ParamsToTxScript result that is placed in the witness: the signature does not commit to the script it is checked against"
			isScript := func(l c03Leaf) bool { return l.Kind == "call" && l.Name == c03Script }
			if len(ss.Leaves) == 0 || c03Opaque(ss.Leaves, isScript) {
				unknown = msg
			} else {
				hasScript := false
				for _, l := range ss.Leaves {
					if isScript(l) {
						hasScript = true
					}
				}
				if hasScript && len(ss.Leaves) == 1 {
					unknown = msg + " (another ParamsToTxScript call whose arguments this rule cannot prove equal)"
				} else {
					bad = msg
				}
			}
			break
		}
		if ops := ss.OpsBeyond("convert:"); len(ops) > 0 {
			unknown = fmt.Sprintf("the sighash script is modified (%v)", ops)
			break
		}
		if verdict := m.constOnly(typeArg, sh.Fr, 1); verdict == "bad" {
			bad = "the sighash type is not the constant SIGHASH_ALL (1) that the witness constructors append"
			break
		} else if verdict == "unknown" {
			unknown = "the sighash type is not a compile-time constant"
			break
		}
		if verdict := m.constOnly(idxArg, sh.Fr, 0); verdict == "bad" {
			bad = "the sighash is computed for an input other than the constant 0 (the spend has exactly one input)"
			break
		} else if verdict == "unknown" {
			unknown = "the sighash input index is not a compile-time constant"
			break
		}
		if sh.Name == c03SigHashBtc {
			as := m.tr.Trace(amtArg, sh.Fr)
			okA := len(as.Leaves) > 0
			for _, l := range as.Leaves {
				if !m.isFieldOfParam(l, "OpeningParams.Amount", m.paramsP) {
					okA = false
				}
			}
			if ops := as.OpsBeyond("convert:", "index", "via:"); len(ops) > 0 && c03Opaque(as.Leaves, nil) {
				unknown = fmt.Sprintf("the amount committed to by the signature is computed (%v) from %v", ops, as.Names())
				break
			} else if len(ops) > 0 {
				bad = fmt.Sprintf("the amount committed to by the signature is computed (%v) from %v instead of being OpeningParams.Amount, the value of the output the locator accepts", ops, as.Names())
				break
			}
			if !okA {
				// equivalent: the value of the located output itself (the locator accepts only value == Amount)
				if verdict, _ := c03LocatedValue(m, amtArg, sh.Fr, locs, c03Wire+".TxOut.Value"); verdict != "ok" {
					msg := "the amount committed to by the signature comes from " + strings.Join(as.Names(), ", ") + ", neither OpeningParams.Amount nor the value of the located output"
					if len(as.Leaves) == 0 || c03Opaque(as.Leaves, nil) || verdict == "unknown" {
						unknown = msg
					} else {
						bad = msg
					}
					break
				}
			}
		} else {
			// value commitment of the located output: outs[i].Value with i from the locator
			verdict, why := c03LocatedValue(m, amtArg, sh.Fr, locs, c03ElemTx+".TxOutput.Value")
			switch verdict {
			case "bad":
				bad = why
			case "unknown":
				unknown = why
			}
			if bad != "" || unknown != "" {
				break
			}
		}
	}
	p := w.Pos(pos)
	switch {
	case bad != "":
		c.Bad("C03.R3", cons, p, bad)
	case unknown != "":
		c.Unknown("C03.R3", cons, p, unknown)
	default:
		c.OK("C03.R3", cons, p, fmt.Sprintf("%d signature(s) over the witness script, SIGHASH_ALL, input 0, amount of the swap output", len(ws.sighash)))
	}
	return true
}

// c03LocatedValue: v is outs[i].<valueField> with i from a locator of this
// implementation and outs from ClaimParams.OpeningTxHex.
func c03LocatedValue(m *c03Impl, v ssa.Value, fr *c03Frame, locs []*ssa.Call, valueField string) (verdict, why string) {
	up := func(x ssa.Value) ssa.Value { // parameters of helpers -> arguments; conversions stripped
		for {
			if cv, ok := x.(*ssa.Convert); ok {
				x = cv.X
				continue
			}
			if prm, ok := x.(*ssa.Parameter); ok && fr.parent != nil {
				if i := c02ParamIndex(prm); i >= 0 && i < len(fr.site.Call.Args) {
					x, fr = fr.site.Call.Args[i], fr.parent
					continue
				}
			}
			return x
		}
	}
	v = up(v)
	ld, ok := v.(*ssa.UnOp)
	if ok && ld.Op == token.MUL {
		if fa, ok := ld.X.(*ssa.FieldAddr); ok && c03FieldKey(fa) == valueField {
			if el, ok := up(fa.X).(*ssa.UnOp); ok && el.Op == token.MUL {
				if ia, ok := el.X.(*ssa.IndexAddr); ok {
					is := m.tr.Trace(ia.Index, fr)
					okIdx := len(is.Leaves) > 0 && len(is.OpsBeyond("convert:")) == 0
					for _, l := range is.Leaves {
						loc, known := c03Locators[l.Name]
						isLoc := l.Kind == "call" && known && l.Idx == loc.Result
						if isLoc && len(locs) > 0 { // R1 resolved the outpoint: it must be the same locator call
							isLoc = false
							for _, lc := range locs {
								if l.Call == lc {
									isLoc = true
								}
							}
						}
						if !isLoc {
							okIdx = false
						}
					}
					if !okIdx && (len(is.Leaves) == 0 || c03Opaque(is.Leaves, func(l c03Leaf) bool { _, k := c03Locators[l.Name]; return k })) {
						return "unknown", "cannot tell which output's value is signed for: " + strings.Join(is.Names(), ", ")
					}
					if !okIdx {
						return "bad", "the value commitment signed for is that of output " + strings.Join(is.Names(), ", ") + ", not of the output whose index goes into the outpoint"
					}
					os := m.tr.Trace(ia.X, fr)
					if !m.onlyOpeningHex(os.Leaves) && c03Opaque(c03Roots(os.Leaves, m.isOpeningHex), nil) {
						return "unknown", "cannot tell from which transaction the signed value is taken: " + c03Describe(c03Roots(os.Leaves, m.isOpeningHex))
					}
					if !m.onlyOpeningHex(os.Leaves) {
						return "bad", "the value commitment signed for is taken from a transaction other than ClaimParams.OpeningTxHex: " + c03Describe(c03Roots(os.Leaves, m.isOpeningHex))
					}
					return "ok", ""
				}
			}
		}
	}
	as := m.tr.Trace(v, fr)
	for _, l := range as.Leaves {
		if l.Kind == "field" && l.Name == "TxOutput.Value" {
			return "unknown", "the sighash value is a TxOutput.Value reached in a form this rule does not resolve: " + strings.Join(as.Names(), ", ")
		}
	}
	if len(as.Leaves) == 0 || c03Opaque(as.Leaves, nil) {
		return "unknown", "the sighash value comes from " + strings.Join(as.Names(), ", ") + "; cannot tell whether it is the located output's value"
	}
	return "bad", "the Liquid sighash commits to " + strings.Join(as.Names(), ", ") + " instead of the value commitment of the located (confidential) output: the signature cannot verify"
}

// ---------------------------------------------------------------------------------
// R4

// payeeVerdict: "ok" when the script derives from a wallet address call (plus
// constants and the back-end's own configuration), "bad" when it positively
// derives from call parameters / swap data, "unknown" when a source could not
// be interpreted.
func (m *c03Impl) payeeVerdict(leaves []c03Leaf) (verdict, why string) {
	isAddr := func(l c03Leaf) bool { return l.Kind == "call" && c03AddressCalls[l.Name] && l.Idx == 0 }
	roots := c03Roots(leaves, isAddr)
	nAddr := 0
	foreign, opaque := "", ""
	for _, r := range roots {
		switch {
		case isAddr(r):
			nAddr++
		case r.Kind == "const" || r.Kind == "zero":
		case m.isParam(r, 0):
			// configuration of the back-end itself (chain parameters, network)
		case r.Kind == "param" || r.Kind == "field":
			foreign = r.String()
		default:
			opaque = r.String()
		}
	}
	switch {
	case foreign != "":
		return "bad", "the destination script of the spend derives from " + foreign + " (all sources: " + c03Describe(leaves) + "): only a fresh address of the node's own wallet may be paid"
	case opaque != "":
		return "unknown", "the destination script of the spend derives from " + opaque + ", which this rule cannot interpret (all sources: " + c03Describe(leaves) + ")"
	case nAddr == 0:
		return "bad", "the destination script of the spend does not derive from any wallet address call (sources: " + c03Describe(leaves) + ")"
	}
	return "ok", ""
}

// c03OutputScripts resolves an output value (the argument of AddTxOut /
// AddOutput or an element of Transaction.Outputs) to the script values it is
// built with: the constructor call's script argument or the script field of a
// struct literal. Each script comes with the frame it lives in.
func (m *c03Impl) outputScripts(v ssa.Value, fr *c03Frame, ctor string, scriptArg int, scriptField string) (scripts []c03Key, problem string) {
	set := m.tr.Trace(v, fr)
	if len(set.Leaves) == 0 {
		return nil, "the output has no sources"
	}
	for _, l := range set.Leaves {
		switch {
		case l.Kind == "call" && l.Name == ctor && scriptArg < len(l.Call.Call.Args):
			scripts = append(scripts, c03Key{l.Call.Call.Args[scriptArg], l.Fr})
		case l.Kind == "alloc":
			al, ok := l.Val.(*ssa.Alloc)
			if !ok {
				return nil, "the output is " + l.String()
			}
			vals := c03LiteralField(al, scriptField)
			if len(vals) == 0 {
				// a literal without the script field: an empty script
				scripts = append(scripts, c03Key{nil, l.Fr})
			}
			for _, sv := range vals {
				scripts = append(scripts, c03Key{sv, l.Fr})
			}
		default:
			return nil, "the output is built by " + l.String() + ", neither the library constructor nor a struct literal"
		}
	}
	return scripts, ""
}

// c03OnePath: all instructions lie in one function and are executed on one
// common path (each pair is ordered by reachability or shares a block).
func c03OnePath(sites []c03Site) bool {
	for i := range sites {
		for j := i + 1; j < len(sites); j++ {
			a, b := sites[i], sites[j]
			if a.fr != b.fr {
				return false
			}
			if a.in.Block() == b.in.Block() {
				continue
			}
			if !an.ReachBlocks(a.in.Block().Succs, nil, nil)[b.in.Block()] && !an.ReachBlocks(b.in.Block().Succs, nil, nil)[a.in.Block()] {
				return false
			}
		}
	}
	return true
}

func c03R4(c *an.Check, m *c03Impl) bool {
	w := c.W
	cons := m.name(w) + " outputs"
	adds := m.callsIn(w, c03AddTxOut)
	outStores := m.storesIn(c03ElemTx + ".Transaction.Outputs")
	addOuts := m.callsIn(w, c03AddOutput)
	rawStores := m.storesIn(c03Wire + ".MsgTx.TxOut")
	nLiquid := len(outStores) + len(addOuts)
	switch {
	case len(rawStores) > 0:
		c.Unknown("C03.R4", cons, w.Pos(rawStores[0].in.Pos()), "the output list of the Bitcoin transaction is assigned directly; only AddTxOut is supported")
		return true
	case len(adds) > 0 && nLiquid > 0:
		c.Unknown("C03.R4", cons, w.Pos(m.fn.Pos()), "both a Bitcoin and a Liquid transaction are built")
		return true
	case len(adds) == 0 && nLiquid == 0:
		c.Unknown("C03.R4", cons, w.Pos(m.fn.Pos()), "no AddTxOut / AddOutput call and no store to Transaction.Outputs is reached from this implementation")
		return false
	}
	if len(adds) > 0 {
		pos := w.Pos(adds[0].in.Pos())
		if len(adds) != 1 {
			var ps []string
			for _, a := range adds {
				ps = append(ps, w.Pos(a.in.Pos()))
			}
			msg := fmt.Sprintf("the spend adds %d outputs (%s): the swap amount must go to a single output of the own wallet", len(adds), strings.Join(ps, ", "))
			if c03OnePath(adds) {
				c.Bad("C03.R4", cons, pos, msg)
			} else {
				c.Unknown("C03.R4", cons, pos, msg+" — the calls lie on alternative paths, cannot count the outputs of one execution")
			}
			return true
		}
		a := adds[0]
		cc := a.in.(*ssa.Call)
		if c03InLoop(cc.Block()) {
			c.Unknown("C03.R4", cons, pos, "AddTxOut is executed in a loop: the number of outputs depends on data")
			return true
		}
		scripts, problem := m.outputScripts(cc.Call.Args[1], a.fr, c03NewTxOut, 1, c03Wire+".TxOut.PkScript")
		if problem != "" {
			c.Unknown("C03.R4", cons, pos, problem)
			return true
		}
		var leaves []c03Leaf
		for _, sc := range scripts {
			if sc.v == nil {
				continue
			}
			leaves = append(leaves, m.tr.Trace(sc.v, sc.fr).Leaves...)
		}
		verdict, why := m.payeeVerdict(leaves)
		switch verdict {
		case "ok":
			c.OK("C03.R4", cons, pos, "one output, script from a wallet address call")
		case "bad":
			c.Bad("C03.R4", cons, pos, why)
		default:
			c.Unknown("C03.R4", cons, pos, why)
		}
		return true
	}
	// Liquid
	var sites []c03Site
	sites = append(append(sites, outStores...), addOuts...)
	pos := w.Pos(sites[0].in.Pos())
	payees, fees := 0, 0
	bad, unknown := "", ""
	type elem struct {
		v  ssa.Value
		fr *c03Frame
	}
	var elems []elem
	for _, s := range sites {
		if c03InLoop(s.in.Block()) {
			unknown = "outputs are added in a loop: their number depends on data"
			break
		}
		switch x := s.in.(type) {
		case *ssa.Store:
			es, problem := c03AppendedOutputs(w, x)
			if problem != "" {
				unknown = problem
				break
			}
			for _, e := range es {
				elems = append(elems, elem{e, s.fr})
			}
		case *ssa.Call:
			if len(x.Call.Args) != 2 {
				unknown = "unexpected AddOutput signature"
				break
			}
			elems = append(elems, elem{x.Call.Args[1], s.fr})
		}
	}
	for _, e := range elems {
		if unknown != "" {
			break
		}
		scripts, problem := m.outputScripts(e.v, e.fr, c03NewTxOutput, 2, c03ElemTx+".TxOutput.Script")
		if problem != "" || len(scripts) != 1 {
			unknown = "an output cannot be resolved: " + problem
			break
		}
		sc := scripts[0]
		empty := sc.v == nil || an.IsNilConst(sc.v)
		if !empty {
			if b, isConst := c02ConstBytes(w, sc.v, &c02Frame{fn: sc.fr.fn}, 0); isConst && len(b) == 0 {
				empty = true
			}
		}
		if empty {
			fees++
			continue
		}
		payees++
		verdict, why := m.payeeVerdict(m.tr.Trace(sc.v, sc.fr).Leaves)
		switch verdict {
		case "bad":
			bad = why
		case "unknown":
			unknown = why
		}
	}
	switch {
	case bad != "":
		c.Bad("C03.R4", cons, pos, bad)
	case unknown != "":
		c.Unknown("C03.R4", cons, pos, unknown)
	case payees != 1 || fees != 1:
		msg := fmt.Sprintf("the Liquid spend has %d payee output(s) and %d explicit fee output(s); it must have exactly one of each", payees, fees)
		if c03OnePath(sites) {
			c.Bad("C03.R4", cons, pos, msg)
		} else {
			c.Unknown("C03.R4", cons, pos, msg+" — the outputs are added on alternative paths")
		}
	default:
		c.OK("C03.R4", cons, pos, "one payee output with a script from a wallet address call, one explicit fee output")
	}
	return true
}

func c03HasNil(vs []ssa.Value) bool {
	for _, v := range vs {
		if v == nil {
			return true
		}
	}
	return false
}

// c03AppendedOutputs: the elements added by `tx.Outputs = append(tx.Outputs, a, b)` or `tx.Outputs = []*TxOutput{a, b}`.
func c03AppendedOutputs(w *an.World, st *ssa.Store) ([]ssa.Value, string) {
	switch x := st.Val.(type) {
	case *ssa.Call:
		if w.Info(x).Name == "builtin:append" && len(x.Call.Args) == 2 {
			base := x.Call.Args[0]
			okBase := false
			if ld, ok := base.(*ssa.UnOp); ok && ld.Op == token.MUL {
				if fa, ok := ld.X.(*ssa.FieldAddr); ok && c03FieldKey(fa) == c03ElemTx+".Transaction.Outputs" {
					okBase = true
				}
			}
			if !okBase {
				return nil, "Transaction.Outputs is assigned an append to something other than itself"
			}
			if elems, ok := c02ArrayElems(x.Call.Args[1]); ok && !c03HasNil(elems) {
				return elems, ""
			}
			return nil, "Transaction.Outputs is extended by a slice whose elements are not visible"
		}
	case *ssa.Slice:
		if elems, ok := c02ArrayElems(x); ok && !c03HasNil(elems) {
			return elems, ""
		}
	}
	return nil, "Transaction.Outputs is assigned a value of unsupported form"
}

// ---------------------------------------------------------------------------------
// R5

// c03NilOnFalse: can the locator return verdict=false with a nil error?
func c03NilOnFalse(w *an.World, fn *ssa.Function, verdictIdx, errIdx int) (positions []string, undecided string) {
	for _, r := range an.Returns(fn) {
		if verdictIdx >= len(r.Results) || errIdx >= len(r.Results) {
			continue
		}
		vc, ok := r.Results[verdictIdx].(*ssa.Const)
		if !ok {
			return nil, "verdict of " + w.FuncName(fn) + " is not a constant at " + w.Pos(r.Pos())
		}
		if vc.Value != nil && vc.Value.ExactString() == "true" {
			continue
		}
		e := r.Results[errIdx]
		if an.IsNilConst(e) {
			positions = append(positions, w.Pos(r.Pos()))
			continue
		}
		known := ""
		for _, f := range w.FactsDominatingBlock(r.Block()) {
			if !f.NonNum {
				continue
			}
			if (f.LV == e && an.IsNilConst(f.RV)) || (f.RV == e && an.IsNilConst(f.LV)) {
				known = f.Rel
			}
		}
		switch known {
		case "==":
			positions = append(positions, w.Pos(r.Pos()))
		case "!=":
		default:
			if c, ok := e.(*ssa.Call); ok {
				n := w.Info(c).Name
				if n == "func:errors.New" || n == "func:fmt.Errorf" {
					continue
				}
			}
			return nil, "cannot tell whether the error returned with verdict=false at " + w.Pos(r.Pos()) + " is nil"
		}
	}
	return positions, ""
}

// c03ReturnsAlso: the return statement also returns one of vals (directly or through a phi).
func c03ReturnsAlso(ret *ssa.Return, vals []ssa.Value) bool {
	for _, r := range ret.Results {
		for _, v := range vals {
			if r == v {
				return true
			}
			if ph, ok := r.(*ssa.Phi); ok {
				for _, e := range ph.Edges {
					if e == v {
						return true
					}
				}
			}
		}
	}
	return false
}

// c03CallersGuard: ret returns the index (one of idxVals) of a wrapper together
// with its error; every production caller must use that result only after
// testing the wrapper's error. Returns "" when that holds, else why not.
func c03CallersGuard(w *an.World, ret *ssa.Return, idxVals []ssa.Value) string {
	fn := ret.Parent()
	k := -1
	for i, r := range ret.Results {
		for _, v := range idxVals {
			if r == v {
				k = i
			}
		}
	}
	if k < 0 {
		return "the index is returned by " + w.FuncName(fn) + " in a form this rule does not follow"
	}
	n := 0
	for _, caller := range prodFuncs(w) {
		for _, ci := range an.Calls(caller) {
			cc, ok := ci.(*ssa.Call)
			if !ok || cc.Call.StaticCallee() != fn {
				continue
			}
			n++
			okE, _ := an.OkEdges(cc)
			for _, rv := range an.ResultValues(cc, k) {
				if rv.Referrers() == nil {
					continue
				}
				for _, u := range *rv.Referrers() {
					if len(okE) == 0 || !an.EdgesDominate(okE, u.Block()) {
						return w.FuncName(caller) + " uses the index returned by " + w.FuncName(fn) + " at " + w.Pos(u.Pos()) + " without having tested its error"
					}
				}
			}
		}
	}
	if n == 0 {
		return "no static production caller of " + w.FuncName(fn) + " found"
	}
	return ""
}

func c03R5(c *an.Check, order []*ssa.Call, sites map[*ssa.Call]*c03Impl, nLocImpl int) {
	w := c.W
	n := 0
	for _, call := range order {
		name := w.Info(call).Name
		loc := c03Locators[name]
		callee := call.Call.StaticCallee()
		n++
		cons := w.FuncName(call.Parent()) + " call " + strings.TrimPrefix(name, "func:")
		pos := w.Pos(call.Pos())
		var uses []ssa.Instruction
		for _, rv := range an.ResultValues(call, loc.Result) {
			if rv.Referrers() != nil {
				uses = append(uses, *rv.Referrers()...)
			}
		}
		if len(uses) == 0 {
			c.OK("C03.R5", cons, pos, "the index is not used")
			continue
		}
		okE, _ := an.OkEdges(call)
		errIdx := an.ErrResultIndex(call)
		consumed := func(idx int) bool { // the result is read somewhere
			for _, rv := range an.ResultValues(call, idx) {
				if rv.Referrers() != nil && len(*rv.Referrers()) > 0 {
					return true
				}
			}
			return false
		}
		var unguarded, propagated []string
		for _, u := range uses {
			if len(okE) > 0 && an.EdgesDominate(okE, u.Block()) {
				continue
			}
			// `return idx, err`: a wrapper hands index and error to its caller together
			if ret, ok := u.(*ssa.Return); ok && c03ReturnsAlso(ret, an.ResultValues(call, errIdx)) {
				if why := c03CallersGuard(w, ret, an.ResultValues(call, loc.Result)); why == "" {
					continue
				} else {
					propagated = append(propagated, why)
					continue
				}
			}
			unguarded = append(unguarded, w.Pos(u.Pos()))
		}
		if len(unguarded) > 0 {
			msg := "the located index is used at " + strings.Join(unguarded, ", ") + " on a path where the locator's error has not been tested: after a failed search the index is the zero value"
			if len(okE) == 0 && consumed(errIdx) {
				c.Unknown("C03.R5", cons, pos, msg+" (the error is consumed in a form this rule does not interpret)")
			} else {
				c.Bad("C03.R5", cons, pos, msg)
			}
			continue
		}
		if len(propagated) > 0 {
			c.Unknown("C03.R5", cons, pos, "index and error are returned together to the callers: "+strings.Join(propagated, "; "))
			continue
		}
		if loc.Verdict < 0 {
			c.OK("C03.R5", cons, pos, "index used only after err == nil (this locator has no separate verdict)")
			continue
		}
		nilFalse, undec := c03NilOnFalse(w, callee, loc.Verdict, errIdx)
		if undec != "" {
			c.Unknown("C03.R5", cons, pos, undec)
			continue
		}
		if len(nilFalse) == 0 {
			c.OK("C03.R5", cons, pos, "the locator never returns verdict=false with a nil error; testing the error suffices")
			continue
		}
		var tEdges []an.Edge
		for _, rv := range an.ResultValues(call, loc.Verdict) {
			te, _ := an.BoolEdges(rv)
			tEdges = append(tEdges, te...)
		}
		var unverified []string
		for _, u := range uses {
			if len(tEdges) == 0 || !an.EdgesDominate(tEdges, u.Block()) {
				unverified = append(unverified, w.Pos(u.Pos()))
			}
		}
		if len(unverified) > 0 && len(tEdges) == 0 && consumed(loc.Verdict) {
			c.Unknown("C03.R5", cons, pos, "the locator's verdict is consumed in a form this rule does not interpret; cannot tell whether the index is used only when it is true")
			continue
		}
		c.Decide(len(unverified) == 0, "C03.R5", cons, pos, "index used only under verdict == true",
			fmt.Sprintf("%s returns (false, 0, nil) at %s when no output has the swap amount or the first such output carries another script; this caller discards the verdict and uses the index (%s): it then spends/sign for output 0 of a transaction in which the swap output was NOT found", strings.TrimPrefix(name, "func:"), strings.Join(nilFalse, " and "), strings.Join(unverified, ", ")))
	}
	_ = n
	// floor on semantic instances: every spend builder reaches a locator (possibly a shared one)
	c.AtLeast("C03.R5", "spend builders that reach an output locator", nLocImpl, 9)
	// the same locator outside the spend builders (opening transaction): C08.R5's instances
	for _, fn := range prodFuncs(w) {
		for _, ci := range an.Calls(fn) {
			cc, ok := ci.(*ssa.Call)
			if !ok {
				continue
			}
			if _, isLoc := c03Locators[w.Info(cc).Name]; isLoc && sites[cc] == nil {
				c.Note("C03.R5", w.FuncName(fn)+" call "+strings.TrimPrefix(w.Info(cc).Name, "func:"), w.Pos(cc.Pos()), "locator call outside the spend builders — not an instance of C03 (opening / validation side, see C01 and C08.R5)")
			}
		}
	}
}

// ---------------------------------------------------------------------------------
// R6: what the Bitcoin output locator selects

func c03Strip(v ssa.Value) ssa.Value {
	for {
		switch x := v.(type) {
		case *ssa.Convert:
			v = x.X
		case *ssa.ChangeType:
			v = x.X
		default:
			return v
		}
	}
}

// c03Operands: transitive operand closure of the roots.
func c03Operands(roots ...ssa.Value) map[ssa.Value]bool {
	seen := map[ssa.Value]bool{}
	var visit func(v ssa.Value)
	visit = func(v ssa.Value) {
		if v == nil || seen[v] {
			return
		}
		seen[v] = true
		if in, ok := v.(ssa.Instruction); ok {
			for _, op := range in.Operands(nil) {
				if op != nil && *op != nil {
					visit(*op)
				}
			}
		}
	}
	for _, r := range roots {
		visit(r)
	}
	return seen
}

type c03Cmp struct {
	edge an.Edge
	a, b ssa.Value
}

// c03EqualityFacts: edges on which bytes.Equal(a,b) is true or bytes.Compare(a,b) == 0.
func c03EqualityFacts(w *an.World, fn *ssa.Function) []c03Cmp {
	var out []c03Cmp
	for _, f := range w.Facts(fn) {
		var cmp *ssa.Call
		switch {
		case f.Rel == "true":
			if cc, ok := f.Cond.(*ssa.Call); ok && w.Info(cc).Name == "func:bytes.Equal" {
				cmp = cc
			}
		case f.Rel == "==" && !f.NonNum && f.Const == 0 && len(f.Terms) == 1:
			for _, side := range []ssa.Value{f.LV, f.RV} {
				if side == nil {
					continue
				}
				if cc, ok := c03Strip(side).(*ssa.Call); ok && w.Info(cc).Name == "func:bytes.Compare" {
					cmp = cc
				}
			}
		}
		if cmp != nil && len(cmp.Call.Args) == 2 {
			out = append(out, c03Cmp{edge: f.Edge, a: cmp.Call.Args[0], b: cmp.Call.Args[1]})
		}
	}
	return out
}

// c03HelperAtoms: facts dominating blk whose condition is a call this rule
// does not interpret (an in-module predicate, a closure) — a test may hide there.
func c03HelperAtoms(w *an.World, facts []an.Fact) []string {
	var out []string
	for _, f := range facts {
		if f.Rel != "true" && f.Rel != "false" {
			continue
		}
		cc, ok := f.Cond.(*ssa.Call)
		if !ok {
			continue
		}
		n := w.Info(cc).Name
		if n == "func:bytes.Equal" {
			continue
		}
		out = append(out, n)
	}
	return out
}

func c03FactsAt(w *an.World, blk *ssa.BasicBlock) []an.Fact {
	facts := w.FactsDominatingBlock(blk)
	if len(blk.Preds) == 1 {
		for _, f := range w.Facts(blk.Parent()) {
			if f.Edge.To() == blk && f.Edge.From == blk.Preds[0] {
				facts = append(facts, f)
			}
		}
	}
	return facts
}

// c03AmountHelper: call is `pred(out, params)` of an in-module function whose
// single result is `out.Value == int64(params.Amount)` of its own parameters.
func c03AmountHelper(w *an.World, f an.Fact, out, params ssa.Value) bool {
	cc, ok := f.Cond.(*ssa.Call)
	if !ok || f.Rel != "true" {
		return false
	}
	g := cc.Call.StaticCallee()
	if g == nil || !w.InModule(g) || g.Blocks == nil {
		return false
	}
	oi, pi := -1, -1
	for i, a := range cc.Call.Args {
		if a == out {
			oi = i
		}
		if a == params {
			pi = i
		}
	}
	rets := an.Returns(g)
	if oi < 0 || pi < 0 || len(rets) != 1 || len(rets[0].Results) != 1 || oi >= len(g.Params) || pi >= len(g.Params) {
		return false
	}
	bo, ok := rets[0].Results[0].(*ssa.BinOp)
	if !ok || bo.Op != token.EQL {
		return false
	}
	isField := func(v ssa.Value, key string, base ssa.Value) bool {
		ld, ok := c03Strip(v).(*ssa.UnOp)
		if !ok || ld.Op != token.MUL {
			return false
		}
		fa, ok := ld.X.(*ssa.FieldAddr)
		return ok && fa.X == base && strings.HasSuffix(c03FieldKey(fa), key)
	}
	for _, pr := range [][2]ssa.Value{{bo.X, bo.Y}, {bo.Y, bo.X}} {
		if isField(pr[0], "TxOut.Value", g.Params[oi]) && isField(pr[1], "OpeningParams.Amount", g.Params[pi]) {
			return true
		}
	}
	return false
}

type c03Point struct {
	blk  *ssa.BasicBlock // facts dominating this block hold at the point
	via  *an.Edge        // plus the fact of this edge (phi expansion), may be nil
	idx  ssa.Value       // the index reported at the point
	sure bool            // the verdict is the constant true here (or the locator has no verdict and err is nil)
}

// c03SuccessPoints expands a return statement into the points at which the
// locator may report success: a returned phi verdict / error / index is split
// into (incoming value, predecessor) pairs.
func c03SuccessPoints(w *an.World, r *ssa.Return, loc c03Locator, errIdx int) []c03Point {
	blk := r.Block()
	phiIn := func(v ssa.Value) *ssa.Phi {
		if ph, ok := v.(*ssa.Phi); ok && ph.Block() == blk {
			return ph
		}
		return nil
	}
	var verdict, errv ssa.Value
	if loc.Verdict >= 0 && loc.Verdict < len(r.Results) {
		verdict = r.Results[loc.Verdict]
	}
	if errIdx >= 0 && errIdx < len(r.Results) {
		errv = r.Results[errIdx]
	}
	idx := r.Results[loc.Result]
	isFalse := func(v ssa.Value) bool {
		k, ok := v.(*ssa.Const)
		return ok && k.Value != nil && k.Value.ExactString() == "false"
	}
	isTrue := func(v ssa.Value) bool {
		k, ok := v.(*ssa.Const)
		return ok && k.Value != nil && k.Value.ExactString() == "true"
	}
	nonNilErr := func(e ssa.Value, at *ssa.BasicBlock) bool {
		if e == nil || an.IsNilConst(e) {
			return false
		}
		if cc, ok := e.(*ssa.Call); ok {
			n := w.Info(cc).Name
			if n == "func:errors.New" || n == "func:fmt.Errorf" {
				return true
			}
		}
		for _, f := range w.FactsDominatingBlock(at) {
			if f.NonNum && f.Rel == "!=" && ((f.LV == e && an.IsNilConst(f.RV)) || (f.RV == e && an.IsNilConst(f.LV))) {
				return true
			}
		}
		return false
	}
	vph, eph, iph := phiIn(verdict), phiIn(errv), phiIn(idx)
	if vph == nil && eph == nil {
		if (verdict != nil && isFalse(verdict)) || nonNilErr(errv, blk) {
			return nil
		}
		return []c03Point{{blk: blk, idx: idx, sure: (verdict == nil && an.IsNilConst(errv)) || (verdict != nil && isTrue(verdict))}}
	}
	var out []c03Point
	for k, pred := range blk.Preds {
		v, e, i := verdict, errv, idx
		if vph != nil {
			v = vph.Edges[k]
		}
		if eph != nil {
			e = eph.Edges[k]
		}
		if iph != nil {
			i = iph.Edges[k]
		}
		if (v != nil && isFalse(v)) || nonNilErr(e, pred) {
			continue
		}
		var via *an.Edge
		for si, sc := range pred.Succs {
			if sc == blk {
				via = &an.Edge{From: pred, Idx: si}
			}
		}
		out = append(out, c03Point{blk: pred, via: via, idx: i, sure: (v == nil && an.IsNilConst(e)) || (v != nil && isTrue(v))})
	}
	return out
}

func c03R6(c *an.Check, tr *c03Tracer, scriptParamsIdx int) {
	w := c.W
	var names []string
	for n, l := range c03Locators {
		if !l.ByScript {
			names = append(names, n)
		}
	}
	sort.Strings(names)
	nRet := 0
	for _, name := range names {
		loc := c03Locators[name]
		var fn *ssa.Function
		for _, f := range prodFuncs(w) {
			if "func:"+w.FuncName(f) == name {
				fn = f
			}
		}
		if fn == nil || loc.ParamsArg >= len(fn.Params) || loc.TxArg >= len(fn.Params) {
			c.Anchor("output locator %s does not resolve", name)
			continue
		}
		params := ssa.Value(fn.Params[loc.ParamsArg])
		root := &c03Frame{fn: fn}
		m := &c03Impl{fn: fn, root: root, tr: tr, paramsP: loc.ParamsArg, claimP: -1, signerP: -1}
		errIdx := -1
		res := fn.Signature.Results()
		for i := res.Len() - 1; i >= 0; i-- {
			if an.IsErrorType(res.At(i).Type()) {
				errIdx = i
				break
			}
		}
		for _, r := range an.Returns(fn) {
			if loc.Result >= len(r.Results) {
				continue
			}
			for _, pt := range c03SuccessPoints(w, r, loc, errIdx) {
				r, ptBlk, ptVia, ptIdx, ptSure := r, pt.blk, pt.via, pt.idx, pt.sure
				nRet++
				cons := strings.TrimPrefix(name, "func:") + " success return"
				pos := w.Pos(r.Pos())
				// (a) script equality on an output
				var out ssa.Value
				scriptNote := ""
				for _, cmp := range c03EqualityFacts(w, fn) {
					if !(an.EdgeDominates(cmp.edge, ptBlk) || (ptVia != nil && cmp.edge == *ptVia)) {
						continue
					}
					for _, pr := range [][2]ssa.Value{{cmp.a, cmp.b}, {cmp.b, cmp.a}} {
						ld, ok := c03Strip(pr[1]).(*ssa.UnOp)
						if !ok || ld.Op != token.MUL {
							continue
						}
						fa, ok := ld.X.(*ssa.FieldAddr)
						if !ok || c03FieldKey(fa) != c03Wire+".TxOut.PkScript" {
							continue
						}
						ss := tr.Trace(pr[0], root)
						okScript, opaque := false, false
						isScriptLeaf := func(l c03Leaf) bool { return l.Kind == "call" && l.Name == c03Script }
						for _, l := range c03Roots(ss.Leaves, isScriptLeaf) {
							switch {
							case l.Kind == "call" && l.Name == c03Script && l.Idx == 0:
								pp := tr.Trace(l.Call.Call.Args[scriptParamsIdx], l.Fr)
								if m.onlyParam(pp.Leaves, loc.ParamsArg) {
									okScript = true
								} else {
									scriptNote = "the expected script is built from " + c03Describe(pp.Leaves) + ", not from the locator's OpeningParams"
								}
							case l.Kind == "const" || l.Kind == "zero":
							case l.Kind == "param" && l.Fr == root && l.Idx == 0: // chain configuration of the receiver
							default:
								opaque = true
							}
						}
						if okScript && !opaque {
							out = fa.X
						} else if opaque && scriptNote == "" {
							scriptNote = "the script the output is compared with comes from " + strings.Join(ss.Names(), ", ") + " (not interpretable)"
						}
					}
				}
				if out == nil {
					helpers := c03HelperAtoms(w, w.FactsDominatingBlock(ptBlk))
					switch {
					case scriptNote != "":
						c.Unknown("C03.R6", cons, pos, scriptNote)
					case !ptSure:
						c.Unknown("C03.R6", cons, pos, "the verdict returned here is not a constant; cannot tell on which paths this return reports success")
					case len(helpers) > 0:
						c.Unknown("C03.R6", cons, pos, fmt.Sprintf("no bytes.Equal / bytes.Compare test of an output script dominates this return; the predicates %v are not interpreted", helpers))
					default:
						c.Bad("C03.R6", cons, pos, "the locator reports an index without the script of that output having been compared with the script of ParamsToTxScript(params): the builders spend an output that need not be the swap output")
					}
					continue
				}
				// (b) the output candidates and the amount test on each
				type cand struct {
					v   ssa.Value
					blk *ssa.BasicBlock
					k   int // phi edge, -1 if not a phi
				}
				var cands []cand
				var outPhi *ssa.Phi
				if ph, ok := out.(*ssa.Phi); ok {
					outPhi = ph
					for k, e := range ph.Edges {
						if an.IsNilConst(e) {
							continue
						}
						cands = append(cands, cand{e, ph.Block().Preds[k], k})
					}
				} else if in, ok := out.(ssa.Instruction); ok {
					cands = append(cands, cand{out, in.Block(), -1})
				}
				if len(cands) == 0 {
					c.Unknown("C03.R6", cons, pos, "cannot enumerate the outputs the compared script may belong to: "+w.Term(out))
					continue
				}
				idx := c03Strip(ptIdx)
				bad, unknown := "", ""
				for _, cd := range cands {
					// amount
					// facts at the selection of the candidate and facts at the success point itself
					// (the test may come before or after the output is picked)
					facts := append(c03FactsAt(w, cd.blk), w.FactsDominatingBlock(ptBlk)...)
					if ptVia != nil {
						for _, f := range w.Facts(fn) {
							if f.Edge == *ptVia {
								facts = append(facts, f)
							}
						}
					}
					found := false
					for _, f := range facts {
						if an.MatchLin(f, an.LinSpec{Rel: "==", Terms: map[string]int64{"OpeningParams.Amount": 1, "TxOut.Value": -1}}) {
							ops := c03Operands(f.LV, f.RV)
							if (ops[cd.v] || ops[out]) && ops[params] {
								found = true
							}
						}
						if c03AmountHelper(w, f, cd.v, params) || c03AmountHelper(w, f, out, params) {
							found = true
						}
					}
					if !found {
						if helpers := c03HelperAtoms(w, facts); len(helpers) > 0 {
							unknown = fmt.Sprintf("no `out.Value == params.Amount` fact at the selection of the output; the predicates %v are not interpreted", helpers)
						} else if !ptSure {
							unknown = "no `out.Value == params.Amount` fact at the selection of the output, and the verdict returned here is not a constant"
						} else {
							bad = "the output whose index is reported is not selected under `out.Value == int64(params.Amount)` (exact equality on that very output); its script alone decides: ValidateTx accepts the opening transaction by the first output with the swap AMOUNT and the builders sign for OpeningParams.Amount, so with a second output to the swap script in front of the real one the locator picks an output the validator never looked at and every claim / coop / CSV spend is invalid. Facts at the selection: " + an.DescribeFacts(facts)
						}
						continue
					}
					// (c) the reported index is the position of that output in the outputs of the given transaction
					ld, ok := c03Strip(cd.v).(*ssa.UnOp)
					var ia *ssa.IndexAddr
					if ok && ld.Op == token.MUL {
						ia, _ = ld.X.(*ssa.IndexAddr)
					}
					if ia == nil {
						unknown = "the selected output is not an element of a slice: " + w.Term(cd.v)
						continue
					}
					want := c03Strip(ia.Index)
					got := idx
					if ph, ok := idx.(*ssa.Phi); ok && outPhi != nil && ph.Block() == outPhi.Block() && cd.k >= 0 {
						got = c03Strip(ph.Edges[cd.k])
					}
					if got != want {
						if k, isConst := got.(*ssa.Const); isConst {
							bad = "the reported index is the constant " + k.String() + ", not the position of the selected output"
						} else {
							unknown = "cannot relate the reported index " + w.Term(got) + " to the position " + w.Term(want) + " of the selected output"
						}
						continue
					}
					txs := tr.Trace(ia.X, root)
					onlyTx := len(txs.Leaves) > 0
					for _, rt := range c03Roots(txs.Leaves, nil) {
						if rt.Kind == "const" {
							continue
						}
						if !(rt.Kind == "param" && rt.Fr == root && rt.Idx == loc.TxArg) {
							onlyTx = false
						}
					}
					if !onlyTx {
						unknown = "the outputs searched come from " + c03Describe(c03Roots(txs.Leaves, nil)) + ", not only from the transaction argument"
					}
				}
				switch {
				case bad != "":
					c.Bad("C03.R6", cons, pos, bad)
				case unknown != "":
					c.Unknown("C03.R6", cons, pos, unknown)
				default:
					c.OK("C03.R6", cons, pos, "index of the output selected under value == params.Amount and script == script(ParamsToTxScript(params))")
				}
			}
		}
	}
	c.AtLeast("C03.R6", "success returns of Bitcoin output locators", nRet, 1)
}

// ---------------------------------------------------------------------------------
// R7: version of the spending transaction

const (
	c03AddTxIn  = "func:(*" + c03Wire + ".MsgTx).AddTxIn"
	c03AddInput = "func:(*" + c03ElemTx + ".Transaction).AddInput"
	c03NewTx    = "func:" + c03ElemTx + ".NewTx"
)

func c03R7(c *an.Check, impls []*c03Impl) {
	w := c.W
	btcSites, liqSites := map[ssa.Value]bool{}, map[ssa.Value]bool{}
	for _, m := range impls {
		cons := m.name(w) + " spend tx version"
		// the transaction values that receive an input
		type recv struct {
			v   ssa.Value
			fr  *c03Frame
			pos token.Pos
		}
		var recvs []recv
		for _, s := range m.callsIn(w, c03AddTxIn, c03AddInput) {
			cc := s.in.(*ssa.Call)
			if len(cc.Call.Args) >= 1 {
				recvs = append(recvs, recv{cc.Call.Args[0], s.fr, cc.Pos()})
			}
		}
		for _, s := range m.storesIn(c03Wire+".MsgTx.TxIn", c03ElemTx+".Transaction.Inputs") {
			st := s.in.(*ssa.Store)
			recvs = append(recvs, recv{st.Addr.(*ssa.FieldAddr).X, s.fr, st.Pos()})
		}
		if len(recvs) == 0 {
			c.Unknown("C03.R7", cons, w.Pos(m.fn.Pos()), "no AddTxIn / AddInput call and no store to an input list is reached from this implementation")
			continue
		}
		bad, unknown, okDetail := "", "", ""
		var pos token.Pos
		for _, rc := range recvs {
			pos = rc.pos
			set := m.tr.Trace(rc.v, rc.fr)
			if len(set.Leaves) == 0 {
				unknown = "the transaction that receives the input has no sources"
				continue
			}
			for _, l := range set.Leaves {
				var version ssa.Value
				vfr := l.Fr
				missing := false
				switch {
				case l.Kind == "call" && (l.Name == c03NewMsgTx || l.Name == c03NewTx) && len(l.Call.Call.Args) == 1:
					version = l.Call.Call.Args[0]
					if l.Name == c03NewMsgTx {
						btcSites[l.Call] = true
					} else {
						liqSites[l.Call] = true
					}
					pos = l.Call.Pos()
				case l.Kind == "alloc":
					al, ok := l.Val.(*ssa.Alloc)
					if !ok {
						unknown = "the transaction that receives the input is " + l.String()
						continue
					}
					isBtc := strings.Contains(types.TypeString(al.Type(), nil), c03Wire+".MsgTx")
					isLiq := strings.Contains(types.TypeString(al.Type(), nil), c03ElemTx+".Transaction")
					if !isBtc && !isLiq {
						unknown = "the transaction that receives the input is " + l.String()
						continue
					}
					vals := append(c03LiteralField(al, c03Wire+".MsgTx.Version"), c03LiteralField(al, c03ElemTx+".Transaction.Version")...)
					if isBtc {
						btcSites[al] = true
					} else {
						liqSites[al] = true
					}
					pos = al.Pos()
					switch len(vals) {
					case 0:
						missing = true
					case 1:
						version = vals[0]
					default:
						unknown = "the version of the spending transaction is assigned more than once"
						continue
					}
				default:
					unknown = "the transaction that receives the input is created by " + l.String() + ", neither the library constructor nor a struct literal"
					continue
				}
				verdict, got := "bad", "0 (the literal leaves Version unset)"
				if !missing {
					vs := m.tr.Trace(version, vfr)
					verdict = "ok"
					if len(vs.Leaves) == 0 || len(vs.OpsBeyond("convert:")) > 0 {
						verdict = "unknown"
					}
					var names []string
					for _, vl := range vs.Leaves {
						n, isInt := an.ConstInt(vl.Val)
						switch {
						case vl.Kind != "const" || !isInt:
							verdict = "unknown"
						case n < 2 && verdict == "ok":
							verdict = "bad"
						}
						names = append(names, vl.String())
					}
					got = strings.Join(names, ", ")
				}
				switch verdict {
				case "unknown":
					unknown = "the version of the spending transaction is not a compile-time constant: " + got
				case "bad":
					if m.kind == "Csv" {
						bad = "the CSV refund is built as a version " + got + " transaction: BIP68/BIP112 give the input sequence its relative-lock-time meaning only for version >= 2, OP_CHECKSEQUENCEVERIFY fails otherwise, so the maker can never take the refund path"
					} else {
						okDetail = "version " + got + " (no OP_CHECKSEQUENCEVERIFY is executed on the " + m.kind + " path; harmless here, see the Csv builder of this back-end)"
					}
				default:
					if okDetail == "" {
						okDetail = "version " + got
					}
				}
			}
		}
		p := w.Pos(pos)
		switch {
		case bad != "":
			c.Bad("C03.R7", cons, p, bad)
		case unknown != "":
			c.Unknown("C03.R7", cons, p, unknown)
		default:
			c.OK("C03.R7", cons, p, okDetail)
		}
	}
	c.AtLeast("C03.R7", "Bitcoin spend-transaction creation sites", len(btcSites), 1)
	c.AtLeast("C03.R7", "Liquid spend-transaction creation sites", len(liqSites), 1)
}
