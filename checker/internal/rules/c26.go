package rules

import (
	"fmt"
	"go/constant"
	"go/token"
	"go/types"
	"reflect"
	"sort"
	"strings"

	"golang.org/x/tools/go/ssa"

	"psv/internal/an"
)

const (
	c26fxIsSuspicious = "iface:swap.Policy.IsPeerSuspicious"
	c26fxGuardSusp    = "iface:peersync.PeerGuard.Suspicious"
	c26fxSendCustom   = "iface:peersync.Lightning.SendCustomMessage"
)

func init() {
	Register(&Prop{
		ID: "C26",
		Expl: "Decides, over the state tables, the SSA of the swap service and of package peersync: " +
			"(R1) in every maker table the success edge of every state that builds the CSV spend enters a state whose action tree records swap.PeerNodeId with Policy.AddToSuspiciousPeerList, unconditionally (the call lies on every path of its action), and such a state has no other in-edge; " +
			"(R2) every way a swap with a peer can start passes the suspicious test on that very peer, with the failing edge refusing: (a) in tables of the responder role every first state from which an invoice/payment/funding state is reachable delegates to its inner action only under `!IsPeerSuspicious(swap.PeerNodeId)`, the other edge returns only the failure event and the failure edge of the table reaches no such state; PeerNodeId is written only from a constructor parameter; (b) every creation site of an initiator-role machine registers it (lockSwap) and starts it (SendEvent) only under `!IsPeerSuspicious(peer)` for the peer the machine is built for; (c) in peersync every call that sends a capability message (through the sender function value, the sender method, or Lightning.SendCustomMessage directly) and every SavePeerState of a peer that received a capability from a message is cut off from the entry by the edges `guard.Suspicious(same peer) == false` / `guard == nil`; " +
			"(R3) every implementation of PeerGuard.Suspicious answers with Policy.IsPeerSuspicious of its argument (false only without a policy), and both daemons hand the one policy object created from the policy file to the swap services and to peersync, which builds its guard from it. Quantified over all tables, states, edges, creation sites and send/store sites, i.e. over all later requests, initiations and peer-sync messages.",
		NotD: "That the add reaches the file (C25.R2) when the node runs without a policy file path: AddToSuspiciousPeerList then returns ErrNoPolicyFile, which the action logs and ignores (info under R1). Swaps already running with the peer when it is quarantined. Peer identity spoofing below the transport. A crash between the CSV spend and the terminal state (C15/C16).",
		Run:  runC26,
	})
}

func runC26(c *an.Check) {
	c.Rule("C26.R1", "maker tables: CSV-spend state --success--> state with AddToSuspiciousPeerList(swap.PeerNodeId) executed on every path; that state has no other in-edge")
	c.Rule("C26.R2", "suspicious test on the same peer dominates: (a) delegation of the first responder state, (b) lockSwap/SendEvent at initiator creation sites, (c) capability sends and capability stores in peersync")
	c.Rule("C26.R3", "PeerGuard.Suspicious delegates to Policy.IsPeerSuspicious; one policy object from CreateFromFile feeds swap services and the peersync guard")
	if !needEffects(c, fxCsvSpend, fxAddSuspicious, fxOpenTx, fxPay, fxGetPayreq, c26fxIsSuspicious, fxActionExecute, c26fxGuardSusp, c26fxSendCustom) {
		return
	}
	ts := tables(c)
	if ts == nil {
		return
	}
	c26r1(c, ts)
	c26r2a(c, ts)
	c26r2b(c, ts)
	c26r2c(c)
	c26r3(c)
}

// ---- value identity -------------------------------------------------------------------

func c26strip(v ssa.Value) ssa.Value {
	for {
		switch x := v.(type) {
		case *ssa.ChangeType:
			v = x.X
		case *ssa.MakeInterface:
			v = x.X
		case *ssa.ChangeInterface:
			v = x.X
		default:
			return v
		}
	}
}

// c26pureGetter: in-module method without parameters whose body only loads and returns.
func c26pureGetter(w *an.World, f *ssa.Function) bool {
	if f == nil || !w.InModule(f) || f.Blocks == nil || len(f.Params) != 1 {
		return false
	}
	for _, b := range f.Blocks {
		for _, in := range b.Instrs {
			switch in.(type) {
			case *ssa.FieldAddr, *ssa.Field, *ssa.UnOp, *ssa.Return, *ssa.ChangeType, *ssa.Convert, *ssa.MakeInterface:
			default:
				return false
			}
		}
	}
	return true
}

// c26SameVal: the two values are the same run-time value (same SSA value, the
// same field of the same object read twice, or the same pure getter on the same receiver).
func c26SameVal(w *an.World, a, b ssa.Value, d int) bool {
	a, b = c26strip(a), c26strip(b)
	if a == b {
		return true
	}
	if d > 4 {
		return false
	}
	switch x := a.(type) {
	case *ssa.Call:
		y, ok := b.(*ssa.Call)
		if !ok {
			return false
		}
		fx, fy := w.Info(x).Static, w.Info(y).Static
		if fx == nil || fx != fy || !c26pureGetter(w, fx) || len(x.Call.Args) != len(y.Call.Args) {
			return false
		}
		for i := range x.Call.Args {
			if !c26SameVal(w, x.Call.Args[i], y.Call.Args[i], d+1) {
				return false
			}
		}
		return true
	case *ssa.UnOp:
		y, ok := b.(*ssa.UnOp)
		if !ok || x.Op != token.MUL || y.Op != token.MUL {
			return false
		}
		fa, ok1 := x.X.(*ssa.FieldAddr)
		fb, ok2 := y.X.(*ssa.FieldAddr)
		if !ok1 || !ok2 || fa.Field != fb.Field {
			return false
		}
		// the same field of the same local/param object; no store to it in between is not tracked: only immutable message/param structs are read this way
		return c26SameVal(w, fa.X, fb.X, d+1) && !c26fieldStored(fa)
	case *ssa.Field:
		y, ok := b.(*ssa.Field)
		return ok && x.Field == y.Field && c26SameVal(w, x.X, y.X, d+1)
	}
	return false
}

// c26fieldStored: some store in the function writes the same field of the same base.
func c26fieldStored(fa *ssa.FieldAddr) bool {
	fn := fa.Parent()
	for _, b := range fn.Blocks {
		for _, in := range b.Instrs {
			if st, ok := in.(*ssa.Store); ok {
				if o, ok := st.Addr.(*ssa.FieldAddr); ok && o.Field == fa.Field && o.X == fa.X {
					return true
				}
			}
		}
	}
	return false
}

// ---- R1 ---------------------------------------------------------------------------------

func c26r1(c *an.Check, ts []*TI) {
	w := c.W
	mk := makers(ts)
	if !c.AtLeast("C26.R1", "maker tables", len(mk), 2) {
		return
	}
	nCsv := 0
	for _, t := range mk {
		csv := t.statesWith(fxCsvSpend)
		isCsv := map[string]bool{}
		for _, s := range csv {
			isCsv[s] = true
		}
		if len(csv) == 0 {
			c.Bad("C26.R1", t.key("*")+" csv-spend state", w.Pos(t.T.Pos), "maker table has no state that builds the CSV spend")
			continue
		}
		for _, cs := range csv {
			nCsv++
			e := t.T.States[cs]
			tgt, ok := e.Events[evSucceeded]
			if !ok {
				c.Bad("C26.R1", t.key(cs)+" --"+evSucceeded+"--> ?", t.pos(c, cs), "the CSV-spend state has no success edge")
				continue
			}
			c.Decide(t.Sum[tgt].HasEffect(fxAddSuspicious), "C26.R1", t.edgeKey(cs, evSucceeded), w.Pos(e.EventPos[evSucceeded]),
				"the state entered after the CSV refund was broadcast records the peer as suspicious",
				fmt.Sprintf("after the maker reclaimed its funds via CSV the swap enters %s whose action tree %v never calls Policy.AddToSuspiciousPeerList: the peer that let the swap time out is not quarantined and can repeat it", tgt, t.T.States[tgt].ActionNames()))
		}
		for _, s := range t.statesWith(fxAddSuspicious) {
			for _, in := range t.T.InEdges(s) {
				c.Decide(isCsv[in[0]] && in[1] == evSucceeded, "C26.R1", t.edgeKey(in[0], in[1])+" (in-edge of quarantine state)", w.Pos(t.T.States[in[0]].EventPos[in[1]]),
					"quarantine state entered only from the success of the CSV spend",
					"the state that marks the peer suspicious is entered by an edge that is not the success of the CSV spend: a peer is quarantined although no CSV refund happened")
			}
		}
	}
	c.AtLeast("C26.R1", "CSV-spend states in maker tables", nCsv, 2)
	// taker tables never quarantine
	for _, t := range takers(ts) {
		for _, s := range t.statesWith(fxAddSuspicious) {
			c.Bad("C26.R1", t.key(s)+" quarantine in taker table", t.pos(c, s), "a taker table marks its peer suspicious; only a maker is forced into a CSV refund")
		}
	}

	// the action(s): argument and unconditional execution
	sites := findCallSites(w, fxAddSuspicious)
	n := 0
	for _, site := range sites {
		fn := site.Parent()
		if w.FnRel(fn) != "swap" {
			continue
		}
		n++
		cons := w.FuncName(fn) + " call " + strings.TrimPrefix(fxAddSuspicious, "iface:")
		pos := w.Pos(site.Pos())
		args := site.Common().Args
		argOK := false
		if len(args) == 1 {
			if ld, ok := c26strip(args[0]).(*ssa.UnOp); ok && ld.Op == token.MUL {
				if fa, ok := ld.X.(*ssa.FieldAddr); ok && an.FieldName(fa.X.Type(), fa.Field) == "SwapData.PeerNodeId" {
					if _, isParam := fa.X.(*ssa.Parameter); isParam {
						argOK = true
					}
				}
			}
		}
		c.Decide(argOK, "C26.R1", cons+" argument", pos, "records PeerNodeId of the swap the action runs for", "the recorded id is not the PeerNodeId field of the action's swap: "+w.Term(args[0]))
		all := true
		for _, r := range c26Returns(fn) {
			if !an.MustPassInstr(r, []ssa.Instruction{site}) {
				all = false
			}
		}
		c.Decide(all, "C26.R1", cons+" unconditional", pos, "every path through the action executes the call", "some path through the action returns without recording the peer")
		if call, ok := site.(*ssa.Call); ok {
			if _, fail := an.OkEdges(call); len(fail) > 0 {
				evs := returnEventsFrom(w, fn, an.ReachBlocks(c26targets(fail), nil, nil))
				c.Note("C26.R1", cons+" error path", pos, fmt.Sprintf("an error of the add (e.g. ErrNoPolicyFile when the node has no policy file, or 'already marked') continues with %v: the quarantine is then not persisted — not decided", sortedKeysOf(evs)))
			}
		}
	}
	c.AtLeast("C26.R1", "AddToSuspiciousPeerList call sites in package swap", n, 1)
}

func c26targets(es []an.Edge) []*ssa.BasicBlock {
	var out []*ssa.BasicBlock
	for _, e := range es {
		out = append(out, e.To())
	}
	return out
}

func c26Returns(fn *ssa.Function) []*ssa.Return {
	if len(fn.Blocks) == 0 {
		return nil
	}
	reach := an.ReachBlocks([]*ssa.BasicBlock{fn.Blocks[0]}, nil, nil)
	var out []*ssa.Return
	for _, r := range an.Returns(fn) {
		if reach[r.Block()] {
			out = append(out, r)
		}
	}
	return out
}

// c26unwrap looks through the synthetic (*T).M wrapper of a value-receiver method.
func c26unwrap(w *an.World, fn *ssa.Function) *ssa.Function {
	for i := 0; i < 3 && fn != nil && fn.Synthetic != ""; i++ {
		var next *ssa.Function
		for _, ci := range an.Calls(fn) {
			if f := w.Info(ci).Static; f != nil && f.Name() == fn.Name() && f != fn {
				next = f
			}
		}
		if next == nil {
			break
		}
		fn = next
	}
	return fn
}

// ---- R2a: the gate inside responder tables -----------------------------------------------

func c26roleConst(c *an.Check, name string) (int64, bool) {
	p := c.W.ByRel["swap"]
	if p == nil {
		return 0, false
	}
	k, ok := p.Types.Scope().Lookup(name).(*types.Const)
	if !ok || k.Val().Kind() != constant.Int {
		c.Anchor("constant swap.%s does not resolve", name)
		return 0, false
	}
	v, _ := constant.Int64Val(k.Val())
	return v, true
}

var c26moneyFx = []string{fxOpenTx, fxPay, fxPayViaChannel, fxPayInvoice, fxGetPayreq}

func c26hasMoney(t *TI, from string) (string, bool) {
	reach := t.T.Reach(from)
	for _, s := range t.T.Order {
		if !reach[s] {
			continue
		}
		for _, fx := range c26moneyFx {
			if t.Sum[s].HasEffect(fx) {
				return s + " (" + strings.TrimPrefix(fx, "iface:swap.") + ")", true
			}
		}
	}
	return "", false
}

// c26swapPeerArg: v is swap.PeerNodeId of a *SwapData parameter.
func c26swapPeerArg(v ssa.Value) bool {
	ld, ok := c26strip(v).(*ssa.UnOp)
	if !ok || ld.Op != token.MUL {
		return false
	}
	fa, ok := ld.X.(*ssa.FieldAddr)
	if !ok || an.FieldName(fa.X.Type(), fa.Field) != "SwapData.PeerNodeId" {
		return false
	}
	_, isParam := fa.X.(*ssa.Parameter)
	return isParam
}

func c26condCall(f an.Fact) *ssa.Call {
	if call, ok := f.Cond.(*ssa.Call); ok {
		return call
	}
	return nil
}

func c26r2a(c *an.Check, ts []*TI) {
	w := c.W
	recvRole, ok := c26roleConst(c, "SWAPROLE_RECEIVER")
	if !ok {
		return
	}
	nGate, nTables := 0, 0
	for _, t := range ts {
		if t.T.Role != recvRole {
			continue
		}
		nTables++
		def := t.T.States[""]
		if def == nil {
			c.Anchor("table %s has no Default state", t.Name())
			continue
		}
		for _, ev := range def.SortedEvents() {
			s := def.Events[ev]
			where, money := c26hasMoney(t, s)
			cons := t.edgeKey("", ev) + " gate"
			if !money {
				c.OK("C26.R2", cons, w.Pos(def.EventPos[ev]), "no invoice, payment or funding state is reachable from this entry")
				continue
			}
			nGate++
			// walk the wrapper chain
			var gateFn *ssa.Function
			var gateFact an.Fact
			var deleg ssa.CallInstruction
			why := ""
			for _, fn := range t.Sum[s].Execs {
				fn = c26unwrap(w, fn)
				dcalls := callsNamed(w, fn, fxActionExecute)
				if len(dcalls) == 0 {
					why = fmt.Sprintf("action %s runs the request without a suspicious-peer test in front of it", w.FuncName(fn))
					break
				}
				all := true
				for _, dc := range dcalls {
					found := false
					for _, f := range w.FactsDominating(dc) {
						call := c26condCall(f)
						if call != nil && f.Rel == "false" && w.Info(call).Name == c26fxIsSuspicious && len(call.Call.Args) == 1 && c26swapPeerArg(call.Call.Args[0]) {
							found = true
							gateFact = f
						}
					}
					if !found {
						all = false
					}
					deleg = dc
				}
				if all {
					gateFn = fn
					break
				}
			}
			if gateFn == nil {
				if why == "" {
					why = "no wrapper of the action tree delegates under `!IsPeerSuspicious(swap.PeerNodeId)`"
				}
				c.Bad("C26.R2", cons, t.pos(c, s), fmt.Sprintf("a request of a quarantined peer reaches %s: %s (action tree %v)", where, why, t.T.States[s].ActionNames()))
				continue
			}
			_ = deleg
			// the suspicious edge only fails
			other := an.Edge{From: gateFact.Edge.From, Idx: 1 - gateFact.Edge.Idx}
			evs := returnEventsFrom(w, gateFn, an.ReachBlocks([]*ssa.BasicBlock{other.To()}, nil, nil))
			onlyFail := len(evs) > 0
			for e := range evs {
				if e != evFailed {
					onlyFail = false
				}
			}
			failTgt, hasFail := t.T.States[s].Events[evFailed]
			leak := ""
			if hasFail {
				leak, _ = c26hasMoney(t, failTgt)
			}
			switch {
			case !onlyFail:
				c.Bad("C26.R2", cons, w.Pos(gateFn.Pos()), fmt.Sprintf("the branch taken for a suspicious peer in %s returns %v, not only %s", w.FuncName(gateFn), sortedKeysOf(evs), evFailed))
			case !hasFail:
				c.Bad("C26.R2", cons, t.pos(c, s), "the gated state has no "+evFailed+" edge: the refusal is rejected as an unknown event and the swap stays in the gated state")
			case leak != "":
				c.Bad("C26.R2", cons, t.pos(c, s), "the failure edge of the gated state still reaches "+leak)
			default:
				c.OK("C26.R2", cons, t.pos(c, s), "delegation in "+w.FuncName(gateFn)+" is dominated by !IsPeerSuspicious(swap.PeerNodeId); the other edge only fails and the failure edge reaches no money state")
			}
		}
	}
	c.AtLeast("C26.R2", "responder tables", nTables, 2)
	c.AtLeast("C26.R2", "responder entries that need the gate", nGate, 2)

	// PeerNodeId is only ever written from a constructor parameter
	nw := 0
	for _, st := range w.FieldWriters("SwapData.PeerNodeId") {
		fn := st.Parent()
		if an.IsTestSupport(w.FnRel(fn)) || w.FnRel(fn) == "" {
			continue
		}
		nw++
		_, isParam := c26strip(st.Val).(*ssa.Parameter)
		_, isAlloc := st.Addr.(*ssa.FieldAddr).X.(*ssa.Alloc)
		c.Decide(isParam && isAlloc, "C26.R2", w.FuncName(fn)+" store SwapData.PeerNodeId", w.Pos(st.Pos()),
			"peer id set once, from a constructor parameter, on a new SwapData",
			"SwapData.PeerNodeId (the id the gate tests and the quarantine records) is written outside a constructor or from something else than a parameter: "+w.Term(st.Val))
	}
	c.AtLeast("C26.R2", "writers of SwapData.PeerNodeId", nw, 2)
}

// ---- R2b: creation sites of initiator machines ---------------------------------------------

// c26peerParam: index of the parameter of fn that ends up in SwapData.PeerNodeId (-1 if none).
func c26peerParam(w *an.World, fn *ssa.Function, depth int) int {
	if fn == nil || fn.Blocks == nil || depth > 3 {
		return -1
	}
	idxOf := func(v ssa.Value) int {
		p, ok := c26strip(v).(*ssa.Parameter)
		if !ok {
			return -1
		}
		for i, q := range fn.Params {
			if q == p {
				return i
			}
		}
		return -1
	}
	for _, st := range w.FieldWriters("SwapData.PeerNodeId") {
		if st.Parent() == fn {
			if i := idxOf(st.Val); i >= 0 {
				return i
			}
		}
	}
	for _, ci := range an.Calls(fn) {
		g := w.Info(ci).Static
		if g == nil || !w.InModule(g) || g == fn {
			continue
		}
		k := c26peerParam(w, g, depth+1)
		if k >= 0 && k < len(ci.Common().Args) {
			if i := idxOf(ci.Common().Args[k]); i >= 0 {
				return i
			}
		}
	}
	return -1
}

func c26r2b(c *an.Check, ts []*TI) {
	w := c.W
	sendRole, ok := c26roleConst(c, "SWAPROLE_SENDER")
	if !ok {
		return
	}
	lock := w.Func("swap", "(*SwapService).lockSwap")
	sendEv := w.Func("swap", "(*SwapStateMachine).SendEvent")
	if lock == nil || sendEv == nil {
		c.Anchor("(*SwapService).lockSwap / (*SwapStateMachine).SendEvent do not resolve")
		return
	}
	nSites, nEff, nTables := 0, 0, 0
	for _, t := range ts {
		if t.T.Role != sendRole {
			continue
		}
		nTables++
		ctor := w.Func("swap", t.T.Constructor)
		if ctor == nil {
			c.Anchor("constructor %q of table %s does not resolve", t.T.Constructor, t.Name())
			continue
		}
		pi := c26peerParam(w, ctor, 0)
		if pi < 0 {
			c.Unknown("C26.R2", w.FuncName(ctor)+" peer parameter", w.Pos(ctor.Pos()), "cannot tell which parameter of the constructor becomes SwapData.PeerNodeId")
			continue
		}
		for _, fn := range prodFuncs(w) {
			for _, ci := range an.Calls(fn) {
				if w.Info(ci).Static != ctor {
					continue
				}
				nSites++
				peer := ci.Common().Args[pi]
				fsm, _ := ci.(*ssa.Call)
				for _, eff := range an.Calls(fn) {
					callee := w.Info(eff).Static
					if callee != lock && callee != sendEv {
						continue
					}
					// only effects on the machine created here
					uses := false
					for _, a := range eff.Common().Args {
						if fsm != nil && c26strip(a) == ssa.Value(fsm) {
							uses = true
						}
					}
					if !uses {
						continue
					}
					nEff++
					cons := w.FuncName(fn) + " call " + callee.Name() + " on " + ctor.Name()
					facts := w.FactsDominating(eff)
					good := false
					for _, f := range facts {
						call := c26condCall(f)
						if call != nil && f.Rel == "false" && w.Info(call).Name == c26fxIsSuspicious && len(call.Call.Args) == 1 && c26SameVal(w, call.Call.Args[0], peer, 0) {
							good = true
						}
					}
					c.Decide(good, "C26.R2", cons, w.Pos(eff.Pos()),
						"dominated by !IsPeerSuspicious(peer) for the peer the machine is created for",
						"the node can start a swap with a quarantined peer: this call is not dominated by `!policy.IsPeerSuspicious(p)` with p the peer the state machine is created for ("+w.Term(peer)+"). Facts that hold: "+an.DescribeFacts(facts))
				}
			}
		}
	}
	c.AtLeast("C26.R2", "initiator tables", nTables, 2)
	c.AtLeast("C26.R2", "creation sites of initiator machines", nSites, 2)
	c.AtLeast("C26.R2", "lockSwap/SendEvent calls at initiator creation sites", nEff, 4)
}

// ---- R2c: peersync ---------------------------------------------------------------------------

type c26sink struct {
	site ssa.CallInstruction
	peer ssa.Value
	what string
}

func c26isNamed(t types.Type, rel, name string, w *an.World) bool {
	n, ok := t.(*types.Named)
	if !ok || n.Obj().Pkg() == nil || n.Obj().Name() != name {
		return false
	}
	r, ok := w.Rel(n.Obj().Pkg().Path())
	return ok && r == rel
}

// c26guarded: site is unreachable from the entry once the edges
// `Suspicious(peer)==false` and `guard==nil` are removed.
func c26guarded(w *an.World, site ssa.Instruction, peer ssa.Value) (bool, string) {
	fn := site.Parent()
	var cut []an.Edge
	nFalse := 0
	var seen []string
	for _, ci := range an.Calls(fn) {
		call, ok := ci.(*ssa.Call)
		if !ok || w.Info(ci).Name != c26fxGuardSusp || len(call.Call.Args) != 1 {
			continue
		}
		seen = append(seen, w.Term(call.Call.Args[0]))
		if !c26SameVal(w, call.Call.Args[0], peer, 0) {
			continue
		}
		_, f := an.BoolEdges(call)
		nFalse += len(f)
		cut = append(cut, f...)
	}
	for _, f := range w.Facts(fn) {
		if !f.NonNum || f.Rel != "==" {
			continue
		}
		var other ssa.Value
		switch {
		case an.IsNilConst(f.LV):
			other = f.RV
		case an.IsNilConst(f.RV):
			other = f.LV
		}
		if other != nil && c26isNamed(other.Type(), "peersync", "PeerGuard", w) {
			cut = append(cut, f.Edge)
		}
	}
	if nFalse == 0 {
		return false, fmt.Sprintf("no Suspicious test on this peer (tests on: %v)", seen)
	}
	if site.Block() == fn.Blocks[0] {
		return false, "the call sits in the entry block"
	}
	return an.EdgesDominate(cut, site.Block()), ""
}

// c26peerIDOf: the PeerID a value stands for: a PeerID itself, or a *Peer obtained
// from a call with exactly one PeerID argument.
func c26peerIDOf(w *an.World, v ssa.Value) ssa.Value {
	v = c26strip(v)
	if c26isNamed(v.Type(), "peersync", "PeerID", w) {
		return v
	}
	var call *ssa.Call
	switch x := v.(type) {
	case *ssa.Extract:
		call, _ = x.Tuple.(*ssa.Call)
	case *ssa.Call:
		call = x
	}
	if call == nil {
		return nil
	}
	var ids []ssa.Value
	for _, a := range call.Call.Args {
		if c26isNamed(a.Type(), "peersync", "PeerID", w) {
			ids = append(ids, a)
		}
	}
	if len(ids) == 1 {
		return ids[0]
	}
	return nil
}

func c26r2c(c *an.Check) {
	w := c.W
	var fns []*ssa.Function
	for _, fn := range prodFuncs(w) {
		if w.FnRel(fn) == "peersync" {
			fns = append(fns, fn)
		}
	}
	// sender functions: pass one of their parameters as the destination of SendCustomMessage
	sender := map[*ssa.Function]int{}
	var sinks []c26sink
	paramIdx := func(fn *ssa.Function, v ssa.Value) int {
		p, ok := c26strip(v).(*ssa.Parameter)
		if !ok {
			return -1
		}
		for i, q := range fn.Params {
			if q == p {
				return i
			}
		}
		return -1
	}
	nPrim := 0
	for _, fn := range fns {
		for _, ci := range callsNamed(w, fn, c26fxSendCustom) {
			nPrim++
			var to ssa.Value
			for _, a := range ci.Common().Args {
				if c26isNamed(a.Type(), "peersync", "PeerID", w) {
					to = a
				}
			}
			if to == nil {
				c.Unknown("C26.R2", w.FuncName(fn)+" call SendCustomMessage", w.Pos(ci.Pos()), "destination argument not found")
				continue
			}
			if i := paramIdx(fn, to); i >= 0 && fn.Parent() == nil {
				sender[fn] = i
			} else {
				sinks = append(sinks, c26sink{ci, to, "Lightning.SendCustomMessage"})
			}
		}
	}
	c.AtLeast("C26.R2", "SendCustomMessage call sites in peersync", nPrim, 1)
	// call sites of sender functions, transitively through wrappers that only forward a parameter
	for round := 0; round < 4; round++ {
		grew := false
		for _, fn := range fns {
			for _, ci := range an.Calls(fn) {
				callee := w.Info(ci).Static
				k, isSender := sender[callee]
				if !isSender || callee == fn {
					continue
				}
				peer := ci.Common().Args[k]
				if ok, _ := c26guarded(w, ci, peer); !ok {
					if i := paramIdx(fn, peer); i >= 0 && fn.Parent() == nil {
						if _, had := sender[fn]; !had {
							sender[fn] = i
							grew = true
						}
					}
				}
			}
		}
		if !grew {
			break
		}
	}
	for _, fn := range fns {
		for _, ci := range an.Calls(fn) {
			info := w.Info(ci)
			if k, ok := sender[info.Static]; ok && info.Static != fn {
				peer := ci.Common().Args[k]
				if _, fwd := sender[fn]; fwd && paramIdx(fn, peer) == sender[fn] {
					if ok, _ := c26guarded(w, ci, peer); !ok {
						continue // pure forwarder: its own call sites are the sinks
					}
				}
				sinks = append(sinks, c26sink{ci, peer, info.Static.Name()})
				continue
			}
			// dynamic call through a capabilitySender value
			if info.Static == nil && !ci.Common().IsInvoke() && c26isNamed(ci.Common().Value.Type(), "peersync", "capabilitySender", w) {
				var peer ssa.Value
				for _, a := range ci.Common().Args {
					if c26isNamed(a.Type(), "peersync", "PeerID", w) {
						peer = a
					}
				}
				if peer == nil {
					c.Unknown("C26.R2", w.FuncName(fn)+" call capabilitySender", w.Pos(ci.Pos()), "peer argument not found")
					continue
				}
				sinks = append(sinks, c26sink{ci, peer, "capabilitySender"})
			}
		}
	}
	// a sender function that is exported can be called from outside the package: its callers cannot be enumerated
	for fn := range sender {
		if fn.Object() != nil && fn.Object().Exported() {
			c.Bad("C26.R2", w.FuncName(fn)+" exported unguarded sender", w.Pos(fn.Pos()), "an exported function of peersync sends a capability message to its parameter without testing guard.Suspicious on it")
		}
		// used as a function value (bound method / closure): those uses are the capabilitySender calls above
	}
	// stores: SavePeerState of a peer that got a capability in the same function
	nStore := 0
	for _, fn := range fns {
		for _, uc := range an.Calls(fn) {
			ui := w.Info(uc)
			if ui.Static == nil || ui.Static.Name() != "UpdateCapability" || !c26isNamed(an.NamedOf(ui.Static.Signature.Recv().Type()), "peersync", "Peer", w) {
				continue
			}
			if fn.Signature.Recv() != nil && c26isNamed(an.NamedOf(fn.Signature.Recv().Type()), "peersync", "Peer", w) {
				continue // Peer's own methods
			}
			recv := uc.Common().Args[0]
			saved := false
			for _, sc := range an.Calls(fn) {
				si := w.Info(sc)
				if si.Static == nil || si.Static.Name() != "SavePeerState" || len(sc.Common().Args) < 2 || c26strip(sc.Common().Args[1]) != c26strip(recv) {
					continue
				}
				saved = true
				nStore++
				id := c26peerIDOf(w, recv)
				if id == nil {
					c.Unknown("C26.R2", w.FuncName(fn)+" call SavePeerState", w.Pos(sc.Pos()), "cannot relate the stored *Peer to a PeerID: "+w.Term(recv))
					continue
				}
				sinks = append(sinks, c26sink{sc, id, "SavePeerState(peer with new capability)"})
			}
			if !saved {
				c.Unknown("C26.R2", w.FuncName(fn)+" call UpdateCapability", w.Pos(uc.Pos()), "a received capability is put on a *Peer that is not stored in the same function: unsupported shape")
			}
		}
	}
	c.AtLeast("C26.R2", "capability stores (UpdateCapability followed by SavePeerState)", nStore, 1)

	nSend := 0
	seen := map[ssa.CallInstruction]bool{}
	for _, s := range sinks {
		if seen[s.site] {
			continue
		}
		seen[s.site] = true
		fn := s.site.Parent()
		if !strings.HasPrefix(s.what, "SavePeerState") {
			nSend++
		}
		cons := w.FuncName(fn) + " call " + s.what
		ok, why := c26guarded(w, s.site, s.peer)
		if why != "" {
			why = " — " + why
		}
		c.Decide(ok, "C26.R2", cons, w.Pos(s.site.Pos()),
			"cut off from the entry by guard.Suspicious(same peer)==false / guard==nil",
			"peer-sync reaches this call for a quarantined peer: not every path from the function entry passes the false edge of guard.Suspicious on "+w.Term(s.peer)+why)
	}
	c.AtLeast("C26.R2", "capability send sites in peersync", nSend, 4)
}

// ---- R3 ----------------------------------------------------------------------------------------

func c26r3(c *an.Check) {
	w := c.W
	pg := w.Named("peersync", "PeerGuard")
	polT := w.Named("policy", "Policy")
	if pg == nil || polT == nil {
		c.Anchor("peersync.PeerGuard / policy.Policy do not resolve")
		return
	}
	ifc, ok := pg.Underlying().(*types.Interface)
	if !ok {
		c.Anchor("peersync.PeerGuard is not an interface")
		return
	}
	isPolPtr := func(t types.Type) bool {
		p, ok := t.Underlying().(*types.Pointer)
		return ok && types.Identical(p.Elem(), polT)
	}
	nImpl := 0
	var names []string
	scope := w.ByRel["peersync"].Types.Scope()
	for _, nm := range scope.Names() {
		names = append(names, nm)
	}
	sort.Strings(names)
	for _, nm := range names {
		tn, ok := scope.Lookup(nm).(*types.TypeName)
		if !ok {
			continue
		}
		nt, ok := tn.Type().(*types.Named)
		if !ok || types.IsInterface(nt) {
			continue
		}
		if !types.Implements(nt, ifc) && !types.Implements(types.NewPointer(nt), ifc) {
			continue
		}
		fn := w.Method(nt, "Suspicious")
		if fn == nil || fn.Blocks == nil {
			continue
		}
		nImpl++
		cons := w.FuncName(fn)
		good := true
		why := ""
		for _, r := range c26Returns(fn) {
			v := c26strip(c26RetVal(r, 0))
			if call, ok := v.(*ssa.Call); ok {
				f := w.Info(call).Static
				if f != nil && f.Name() == "IsPeerSuspicious" && f.Signature.Recv() != nil && isPolPtr(f.Signature.Recv().Type()) && len(call.Call.Args) == 2 {
					ss := w.Sources(call.Call.Args[1], an.FlowOpts{ThroughCalls: map[string]bool{"func:(peersync.PeerID).String": true}})
					if ss.OnlyFrom(func(s an.Src) bool { return s.Kind == "param" && s.Idx == 1 }) {
						continue
					}
					good, why = false, "asks the policy about "+strings.Join(ss.Names(), ",")+" instead of its argument"
					continue
				}
				good, why = false, "answers with "+w.Term(v)
				continue
			}
			if k, ok := v.(*ssa.Const); ok && k.Value != nil && k.Value.String() == "false" {
				under := false
				for _, f := range w.FactsDominatingBlock(r.Block()) {
					if f.NonNum && f.Rel == "==" && ((an.IsNilConst(f.LV) && isPolPtr(f.RV.Type())) || (an.IsNilConst(f.RV) && isPolPtr(f.LV.Type()))) {
						under = true
					}
				}
				if under {
					continue
				}
				good, why = false, "answers false although a policy is configured"
				continue
			}
			good, why = false, "answers with "+w.Term(v)
		}
		c.Decide(good, "C26.R3", cons, w.Pos(fn.Pos()), "answers Policy.IsPeerSuspicious(argument); false only without a policy", "the peersync guard "+why+": peer-sync keeps answering and storing a quarantined peer")
	}
	c.AtLeast("C26.R3", "implementations of PeerGuard", nImpl, 1)

	// the predicate reads the list the quarantine action appends to
	c26listAgrees(c, polT)

	// wiring
	newPS := w.Func("peersync", "NewPeerSync")
	newPG := w.Func("peersync", "NewPeerGuard")
	newSS := w.Func("swap", "NewSwapServices")
	create := w.Func("policy", "CreateFromFile")
	if newPS == nil || newPG == nil || newSS == nil || create == nil {
		c.Anchor("peersync.NewPeerSync / peersync.NewPeerGuard / swap.NewSwapServices / policy.CreateFromFile do not resolve")
		return
	}
	polArg := func(ci ssa.CallInstruction) ssa.Value {
		callee := w.Info(ci).Static
		for i, a := range ci.Common().Args {
			if isPolPtr(c26strip(a).Type()) && i < len(callee.Params) {
				pt := callee.Params[i].Type()
				if isPolPtr(pt) || c26isNamed(pt, "swap", "Policy", w) {
					return c26strip(a)
				}
			}
		}
		return nil
	}
	srcCall := func(v ssa.Value) *ssa.Call {
		if v == nil {
			return nil
		}
		ss := w.Sources(v, an.FlowOpts{})
		var call *ssa.Call
		for _, l := range ss.Leaves {
			if l.Kind != "call" || l.Call == nil || w.Info(l.Call).Static != create || l.Idx != 0 {
				return nil
			}
			if call != nil && call != l.Call {
				return nil
			}
			call = l.Call
		}
		return call
	}
	nMain := 0
	for _, fn := range prodFuncs(w) {
		var ps, ss []ssa.CallInstruction
		for _, ci := range an.Calls(fn) {
			switch w.Info(ci).Static {
			case newPS:
				ps = append(ps, ci)
			case newSS:
				ss = append(ss, ci)
			}
		}
		for _, ci := range ps {
			nMain++
			cons := w.FuncName(fn) + " call NewPeerSync policy"
			a := srcCall(polArg(ci))
			good := a != nil && len(ss) > 0
			for _, si := range ss {
				if b := srcCall(polArg(si)); b == nil || b != a {
					good = false
				}
			}
			c.Decide(good, "C26.R3", cons, w.Pos(ci.Pos()), "peersync and the swap services get the one policy object created from the policy file",
				"peersync is not given the policy object (from policy.CreateFromFile) that the swap services use: quarantine entries made by the swap service are not seen by peer-sync")
		}
	}
	c.AtLeast("C26.R3", "daemons that wire NewPeerSync", nMain, 2)
	// inside peersync: guard built from the policy parameter and handed to handler and poller
	nG := 0
	for _, fn := range prodFuncs(w) {
		if w.FnRel(fn) != "peersync" {
			continue
		}
		for _, ci := range an.Calls(fn) {
			if w.Info(ci).Static != newPG {
				continue
			}
			nG++
			_, isParam := c26strip(ci.Common().Args[0]).(*ssa.Parameter)
			c.Decide(isParam && isPolPtr(ci.Common().Args[0].Type()), "C26.R3", w.FuncName(fn)+" call NewPeerGuard policy", w.Pos(ci.Pos()), "guard built from the policy parameter", "the guard is not built from the policy handed to "+w.FuncName(fn)+": "+w.Term(ci.Common().Args[0]))
			// every PeerGuard-typed argument passed on in this function is that guard
			for _, oc := range an.Calls(fn) {
				if oc == ci {
					continue
				}
				for _, a := range oc.Common().Args {
					if !c26isNamed(a.Type(), "peersync", "PeerGuard", w) {
						continue
					}
					ss := w.Sources(a, an.FlowOpts{})
					fromGuard := ss.OnlyFrom(func(s an.Src) bool { return s.Kind == "call" && s.Call == ci.(*ssa.Call) })
					callee := w.Info(oc).Name
					c.Decide(fromGuard, "C26.R3", w.FuncName(fn)+" guard passed to "+strings.TrimPrefix(callee, "func:"), w.Pos(oc.Pos()), "receives the guard built from the policy", "receives "+strings.Join(ss.Names(), ",")+" instead of the guard built from the policy")
				}
			}
		}
	}
	c.AtLeast("C26.R3", "NewPeerGuard call sites in peersync", nG, 1)
	// the constructor keeps the policy
	kept := false
	for _, b := range newPG.Blocks {
		for _, in := range b.Instrs {
			if al, ok := in.(*ssa.Alloc); ok {
				if v, ok := an.CompositeFieldValue(al, "policy"); ok && v == ssa.Value(newPG.Params[0]) {
					kept = true
				}
			}
		}
	}
	c.Decide(kept, "C26.R3", w.FuncName(newPG)+" keeps policy", w.Pos(newPG.Pos()), "the guard stores the policy parameter", "the guard constructor does not store its policy parameter in the guard")
}

// c26listAgrees: (*Policy).IsPeerSuspicious answers membership of its argument in
// exactly the list whose ini key (*Policy).AddToSuspiciousPeerList writes.
func c26listAgrees(c *an.Check, polT *types.Named) {
	w := c.W
	add := w.Method(polT, "AddToSuspiciousPeerList")
	is := w.Method(polT, "IsPeerSuspicious")
	st, ok := polT.Underlying().(*types.Struct)
	if add == nil || is == nil || !ok || add.Blocks == nil || is.Blocks == nil {
		c.Anchor("(*policy.Policy).AddToSuspiciousPeerList / IsPeerSuspicious do not resolve")
		return
	}
	// the written key
	keys := map[string]bool{}
	addKey := func(v ssa.Value) {
		if f, ok := an.ConstString(v); ok {
			if i := strings.Index(f, "="); i > 0 && (strings.TrimSpace(f[i+1:]) == "" || strings.TrimSpace(f[i+1:]) == "%s") {
				keys[strings.TrimSpace(f[:i])] = true
			}
		}
	}
	for _, b := range add.Blocks {
		for _, in := range b.Instrs {
			switch y := in.(type) {
			case *ssa.Call:
				if w.Info(y).Name == "func:fmt.Sprintf" && len(y.Call.Args) > 0 {
					addKey(y.Call.Args[0])
				}
			case *ssa.BinOp:
				if y.Op == token.ADD {
					addKey(y.X)
				}
			}
		}
	}
	cons := w.FuncName(is) + " reads the list " + add.Name() + " writes"
	if len(keys) != 1 {
		c.Unknown("C26.R3", cons, w.Pos(add.Pos()), fmt.Sprintf("cannot find the single `key=%%s` line written by %s (found %v)", w.FuncName(add), sortedKeys(keys)))
		return
	}
	key := sortedKeys(keys)[0]
	field := ""
	for i := 0; i < st.NumFields(); i++ {
		tag := reflect.StructTag(st.Tag(i))
		k := tag.Get("ini-name")
		if k == "" {
			k = tag.Get("long")
		}
		if k == key && tag.Get("no-ini") == "" {
			field = st.Field(i).Name()
		}
	}
	if field == "" {
		c.Bad("C26.R3", cons, w.Pos(add.Pos()), "the key "+key+" written by the quarantine is not the ini name of a Policy field")
		return
	}
	through := map[string]bool{}
	for _, ci := range an.Calls(is) {
		if n := w.Info(ci).Name; strings.HasPrefix(n, "func:slices.Contains") {
			through[n] = true
		}
	}
	got := map[string]bool{}
	param := false
	for _, r := range c26Returns(is) {
		v := r.Results[0]
		// deferred unlock: the result goes through a local
		ss := w.Sources(v, an.FlowOpts{ThroughCalls: through})
		for _, l := range ss.Leaves {
			switch l.Kind {
			case "field":
				got[l.Name] = true
			case "param":
				if l.Idx == 1 {
					param = true
				}
			case "const", "zero":
			default:
				got[l.String()] = true
			}
		}
	}
	want := "Policy." + field
	c.Decide(len(got) == 1 && got[want] && param && len(through) > 0, "C26.R3", cons, w.Pos(is.Pos()),
		"membership of the argument in "+want+" (ini key "+key+")",
		fmt.Sprintf("the quarantine is written under ini key %s = %s, but the predicate is computed from %v (argument used: %v): recorded peers are not recognised", key, want, sortedKeys(got), param))
}

// c26RetVal resolves result #idx of a return through the `*t0 = v; rundefers;
// t = *t0; return t` shape that functions with defers take in SSA.
func c26RetVal(r *ssa.Return, idx int) ssa.Value {
	v := r.Results[idx]
	ld, ok := v.(*ssa.UnOp)
	if !ok || ld.Op != token.MUL {
		return v
	}
	al, ok := ld.X.(*ssa.Alloc)
	if !ok {
		return v
	}
	var last ssa.Value
	for _, in := range r.Block().Instrs {
		if in == ssa.Instruction(ld) {
			break
		}
		if s, ok := in.(*ssa.Store); ok && s.Addr == al {
			last = s.Val
		}
	}
	if last != nil {
		return last
	}
	return v
}
