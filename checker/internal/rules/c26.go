package rules

import (
	"fmt"
	"go/constant"
	"go/token"
	"go/types"
	"reflect"
	"sort"
	"strings"

	"golang.org/x/tools/go/ssa"

	"psv/internal/an"
)

const (
	c26fxIsSuspicious = "iface:swap.Policy.IsPeerSuspicious"
	c26fxGuardSusp    = "iface:peersync.PeerGuard.Suspicious"
	c26fxSendCustom   = "iface:peersync.Lightning.SendCustomMessage"
)

func init() {
	Register(&Prop{
		ID: "C26",
		Expl: "Decides, over the state tables, the SSA of the swap service and of package peersync: " +
			"(R1) in every maker table the success edge of every state that builds the CSV spend enters a state whose action tree records swap.PeerNodeId with Policy.AddToSuspiciousPeerList, unconditionally (the call lies on every path of its action), and such a state has no other in-edge; " +
			"(R2) every way a swap with a peer can start passes the suspicious test on that very peer, with the failing edge refusing: (a) in tables of the responder role every first state from which an invoice/payment/funding state is reachable delegates to its inner action only under `!IsPeerSuspicious(swap.PeerNodeId)`, the other edge returns only the failure event and the failure edge of the table reaches no such state; PeerNodeId is written only from a constructor parameter; (b) every creation site of an initiator-role machine registers it (lockSwap) and starts it (SendEvent) only under `!IsPeerSuspicious(peer)` for the peer the machine is built for; (c) in peersync every call that sends a capability message (through the sender function value, the sender method, or Lightning.SendCustomMessage directly) and every SavePeerState of a peer that received a capability from a message is cut off from the entry by the edges `guard.Suspicious(same peer) == false` / `guard == nil`; " +
			"(R3) every implementation of PeerGuard.Suspicious answers with Policy.IsPeerSuspicious of its argument (false only without a policy), and both daemons hand the one policy object created from the policy file to the swap services and to peersync, which builds its guard from it; the guard constructor stores the shared policy pointer it is given (the address of a local copy or a freshly allocated policy is a snapshot: violation); IsPeerSuspicious reads the list whose ini key the quarantine writes and, when it uses an order-dependent lookup (slices.BinarySearch*, sort.Search*, sort.Find), every publication point of a policy object in package policy (exported constructors, whole-object overwrite) sorts that list after the ini parser filled it, and every rewrite of the policy file issued by a *Policy method deletes lines matched on an ini key (a rewrite handed only the bare pubkey with no key known to the helper would delete the peer's suspicious_peers line as a side effect; that the helper compares whole lines is C25.R3). Tests are recognised directly, through in-module helpers whose tested outcome implies them (bool or error result), through short-circuit values kept in locals, and in every caller of an unexported function; uninterpreted shapes end as undecided. Quantified over all tables, states, edges, creation sites and send/store sites, i.e. over all later requests, initiations and peer-sync messages.",
		NotD: "That the add reaches the file (C25.R2) when the node runs without a policy file path: AddToSuspiciousPeerList then returns ErrNoPolicyFile, which the action logs and ignores (info under R1). Swaps already running with the peer when it is quarantined. Peer identity spoofing below the transport. A crash between the CSV spend and the terminal state (C15/C16).",
		Run:  runC26,
	})
}

func runC26(c *an.Check) {
	c.Rule("C26.R1", "maker tables: CSV-spend state --success--> state with AddToSuspiciousPeerList(swap.PeerNodeId) executed on every path; that state has no other in-edge")
	c.Rule("C26.R2", "suspicious test on the same peer dominates: (a) delegation of the first responder state, (b) lockSwap/SendEvent at initiator creation sites, (c) capability sends and capability stores in peersync")
	c.Rule("C26.R3", "PeerGuard.Suspicious delegates to Policy.IsPeerSuspicious; one policy object from CreateFromFile feeds swap services and the peersync guard")
	if !needEffects(c, fxCsvSpend, fxAddSuspicious, fxOpenTx, fxPay, fxGetPayreq, c26fxIsSuspicious, fxActionExecute, c26fxGuardSusp, c26fxSendCustom) {
		return
	}
	ts := tables(c)
	if ts == nil {
		return
	}
	c26r1(c, ts)
	c26r2a(c, ts)
	c26r2b(c, ts)
	c26r2c(c)
	c26r3(c)
}

// ---- value identity -------------------------------------------------------------------

func c26strip(v ssa.Value) ssa.Value {
	for {
		switch x := v.(type) {
		case *ssa.ChangeType:
			v = x.X
		case *ssa.MakeInterface:
			v = x.X
		case *ssa.ChangeInterface:
			v = x.X
		default:
			return v
		}
	}
}

// c26pureGetter: in-module method without parameters whose body only loads and returns.
func c26pureGetter(w *an.World, f *ssa.Function) bool {
	if f == nil || !w.InModule(f) || f.Blocks == nil || len(f.Params) != 1 {
		return false
	}
	for _, b := range f.Blocks {
		for _, in := range b.Instrs {
			switch in.(type) {
			case *ssa.FieldAddr, *ssa.Field, *ssa.UnOp, *ssa.Return, *ssa.ChangeType, *ssa.Convert, *ssa.MakeInterface:
			default:
				return false
			}
		}
	}
	return true
}

// c26SameVal: the two values are the same run-time value (same SSA value, the
// same field of the same object read twice, or the same pure getter on the same receiver).
func c26SameVal(w *an.World, a, b ssa.Value, d int) bool {
	a, b = c26strip(a), c26strip(b)
	if a == b {
		return true
	}
	if d > 4 {
		return false
	}
	switch x := a.(type) {
	case *ssa.Call:
		y, ok := b.(*ssa.Call)
		if !ok {
			return false
		}
		fx, fy := w.Info(x).Static, w.Info(y).Static
		if fx == nil || fx != fy || !c26pureGetter(w, fx) || len(x.Call.Args) != len(y.Call.Args) {
			return false
		}
		for i := range x.Call.Args {
			if !c26SameVal(w, x.Call.Args[i], y.Call.Args[i], d+1) {
				return false
			}
		}
		return true
	case *ssa.UnOp:
		y, ok := b.(*ssa.UnOp)
		if !ok || x.Op != token.MUL || y.Op != token.MUL {
			return false
		}
		fa, ok1 := x.X.(*ssa.FieldAddr)
		fb, ok2 := y.X.(*ssa.FieldAddr)
		if !ok1 || !ok2 || fa.Field != fb.Field {
			return false
		}
		// the same field of the same local/param object; no store to it in between is not tracked: only immutable message/param structs are read this way
		return c26SameVal(w, fa.X, fb.X, d+1) && !c26fieldStored(fa)
	case *ssa.Field:
		y, ok := b.(*ssa.Field)
		return ok && x.Field == y.Field && c26SameVal(w, x.X, y.X, d+1)
	}
	return false
}

// c26fieldStored: some store in the function writes the same field of the same base.
func c26fieldStored(fa *ssa.FieldAddr) bool {
	fn := fa.Parent()
	for _, b := range fn.Blocks {
		for _, in := range b.Instrs {
			if st, ok := in.(*ssa.Store); ok {
				if o, ok := st.Addr.(*ssa.FieldAddr); ok && o.Field == fa.Field && o.X == fa.X {
					return true
				}
			}
		}
	}
	return false
}

// ---- helper transparency: bindings, result cases, facts implied by helper outcomes ------------

// c26bind binds the parameters of fn to the argument values of one call (in the
// frame described by up).
type c26bind struct {
	fn   *ssa.Function
	args []ssa.Value
	up   *c26bind
}

// c26desc names a value by its root (a value of the outermost frame) and the
// chain of fields selected from it.
type c26desc struct {
	root  ssa.Value
	chain []string
}

func (d c26desc) String(w *an.World) string {
	s := w.Term(d.root)
	for _, f := range d.chain {
		s += ">" + f
	}
	return s
}

// c26resolve follows parameters into the arguments of the binding and field
// loads down to the base value.
func c26resolve(v ssa.Value, b *c26bind, depth int) c26desc {
	v = c26strip(v)
	if depth > 12 {
		return c26desc{root: v}
	}
	switch y := v.(type) {
	case *ssa.Parameter:
		for bb := b; bb != nil; bb = bb.up {
			if y.Parent() != bb.fn {
				continue
			}
			for i, q := range bb.fn.Params {
				if q == y && i < len(bb.args) {
					return c26resolve(bb.args[i], bb.up, depth+1)
				}
			}
		}
	case *ssa.UnOp:
		if y.Op != token.MUL {
			break
		}
		switch a := y.X.(type) {
		case *ssa.FieldAddr:
			d := c26resolve(a.X, b, depth+1)
			d.chain = append(append([]string{}, d.chain...), an.FieldName(a.X.Type(), a.Field))
			return d
		case *ssa.Alloc:
			// a struct parameter spilled into a local: one whole-value store
			var whole []ssa.Value
			if a.Referrers() != nil {
				for _, r := range *a.Referrers() {
					if st, ok := r.(*ssa.Store); ok && st.Addr == a {
						whole = append(whole, st.Val)
					}
				}
			}
			if len(whole) == 1 {
				return c26resolve(whole[0], b, depth+1)
			}
		}
	case *ssa.FieldAddr:
		d := c26resolve(y.X, b, depth+1)
		d.chain = append(append([]string{}, d.chain...), an.FieldName(y.X.Type(), y.Field))
		return d
	case *ssa.Field:
		d := c26resolve(y.X, b, depth+1)
		d.chain = append(append([]string{}, d.chain...), an.FieldName(y.X.Type(), y.Field))
		return d
	case *ssa.Alloc:
		var whole []ssa.Value
		if y.Referrers() != nil {
			for _, r := range *y.Referrers() {
				if st, ok := r.(*ssa.Store); ok && st.Addr == y {
					whole = append(whole, st.Val)
				}
			}
		}
		if len(whole) == 1 {
			return c26resolve(whole[0], b, depth+1)
		}
	}
	return c26desc{root: v}
}

func c26sameDesc(w *an.World, a, b c26desc) bool {
	if len(a.chain) != len(b.chain) {
		return false
	}
	for i := range a.chain {
		if a.chain[i] != b.chain[i] {
			return false
		}
	}
	return c26SameVal(w, a.root, b.root, 0)
}

type c26retCase struct {
	val  ssa.Value
	at   *ssa.BasicBlock
	edge *an.Edge
}

func c26retCases(f *ssa.Function, idx int) []c26retCase {
	var out []c26retCase
	for _, r := range c26Returns(f) {
		if idx >= len(r.Results) {
			continue
		}
		out = append(out, c26expandPhi(c26RetVal(r, idx), r.Block(), nil, 0)...)
	}
	return out
}

func c26expandPhi(v ssa.Value, at *ssa.BasicBlock, edge *an.Edge, depth int) []c26retCase {
	// a defer-spilled or local result: the stores that reach the load
	if ld, ok := v.(*ssa.UnOp); ok && ld.Op == token.MUL && depth <= 3 {
		if al, ok := ld.X.(*ssa.Alloc); ok {
			stores, fromEntry := an.StoresReaching(ld, al)
			if len(stores) > 0 && !fromEntry {
				var out []c26retCase
				for _, st := range stores {
					out = append(out, c26expandPhi(st.Val, st.Block(), nil, depth+1)...)
				}
				return out
			}
		}
	}
	phi, ok := v.(*ssa.Phi)
	if !ok || depth > 3 {
		return []c26retCase{{v, at, edge}}
	}
	var out []c26retCase
	for i, e := range phi.Edges {
		pred := phi.Block().Preds[i]
		var ed *an.Edge
		for j, sc := range pred.Succs {
			if sc == phi.Block() {
				ed = &an.Edge{From: pred, Idx: j}
			}
		}
		out = append(out, c26expandPhi(e, pred, ed, depth+1)...)
	}
	return out
}

func c26factsAtCase(w *an.World, f *ssa.Function, rc c26retCase) []an.Fact {
	var out []an.Fact
	for _, fa := range w.Facts(f) {
		if rc.edge != nil && fa.Edge == *rc.edge {
			out = append(out, fa)
			continue
		}
		if fa.Edge.From != rc.at && an.EdgeDominates(fa.Edge, rc.at) {
			out = append(out, fa)
		}
	}
	return out
}

func c26mayBe(w *an.World, f *ssa.Function, rc c26retCase, want string) bool {
	switch y := rc.val.(type) {
	case *ssa.Const:
		if want == "nil" {
			return y.Value == nil
		}
		return y.Value != nil && y.Value.String() == want
	case *ssa.MakeInterface:
		return want != "nil"
	case *ssa.UnOp:
		if _, isG := y.X.(*ssa.Global); isG && y.Op == token.MUL && want == "nil" {
			return false
		}
	case *ssa.Call:
		if n := w.Info(y).Name; want == "nil" && (n == "func:errors.New" || n == "func:fmt.Errorf") {
			return false
		}
	}
	if want == "nil" {
		t := w.Term(rc.val)
		for _, fa := range c26factsAtCase(w, f, rc) {
			if fa.NonNum && fa.Rel == "!=" && ((fa.L == "nil" && fa.R == t) || (fa.R == "nil" && fa.L == t)) {
				return false
			}
		}
	}
	return true
}

// c26impliedBy: facts of helper h that hold whenever its result #idx is want
// ("nil", "true", "false"). When the only way to produce want is to return a
// non-constant value v, the synthetic fact "v is want" is included.
func c26impliedBy(w *an.World, h *ssa.Function, idx int, want string) []an.Fact {
	var keep []an.Fact
	first := true
	nCases := 0
	var only c26retCase
	for _, rc := range c26retCases(h, idx) {
		if !c26mayBe(w, h, rc, want) {
			continue
		}
		nCases++
		only = rc
		fs := c26factsAtCase(w, h, rc)
		if first {
			keep, first = fs, false
			continue
		}
		var nk []an.Fact
		for _, k := range keep {
			for _, g := range fs {
				if g.Edge == k.Edge {
					nk = append(nk, k)
					break
				}
			}
		}
		keep = nk
	}
	if nCases == 1 {
		if _, isC := only.val.(*ssa.Const); !isC {
			switch want {
			case "true", "false":
				// the returned value may itself be a short-circuit of several conditions
				if ops, isAnd, ok := an.PhiConjuncts(only.val); ok && ((isAnd && want == "true") || (!isAnd && want == "false")) {
					for _, o := range ops {
						keep = append(keep, an.Fact{Cond: o, Rel: want, Atom: w.Term(o)})
					}
				} else {
					keep = append(keep, an.Fact{Cond: only.val, Rel: want, Atom: w.Term(only.val)})
				}
			case "nil":
				keep = append(keep, an.Fact{NonNum: true, Rel: "==", LV: only.val, RV: ssa.NewConst(nil, only.val.Type()), L: w.Term(only.val), R: "nil"})
			}
		}
	}
	return keep
}

func c26helperOutcome(w *an.World, f an.Fact) (call *ssa.Call, idx int, want string) {
	asCall := func(v ssa.Value) (*ssa.Call, int) {
		switch y := v.(type) {
		case *ssa.Call:
			return y, 0
		case *ssa.Extract:
			if cl, ok := y.Tuple.(*ssa.Call); ok {
				return cl, y.Index
			}
		}
		return nil, -1
	}
	switch {
	case f.Rel == "true" || f.Rel == "false":
		if f.Cond != nil {
			call, idx = asCall(f.Cond)
		}
		want = f.Rel
	case f.NonNum && f.Rel == "==" && f.LV != nil && f.RV != nil && an.IsNilConst(f.LV):
		call, idx = asCall(f.RV)
		want = "nil"
	case f.NonNum && f.Rel == "==" && f.LV != nil && f.RV != nil && an.IsNilConst(f.RV):
		call, idx = asCall(f.LV)
		want = "nil"
	}
	if call == nil {
		return nil, -1, ""
	}
	h := w.Info(call).Static
	if h == nil || !w.InModule(h) || h.Blocks == nil {
		return nil, -1, ""
	}
	return call, idx, want
}

type c26dfact struct {
	f    an.Fact
	b    *c26bind
	root an.Fact // the fact of the queried function it was derived from
}

// c26factsFrom expands facts with what the tested outcomes of in-module helpers imply (depth 3).
func c26factsFrom(w *an.World, facts []an.Fact, base *c26bind) []c26dfact {
	var out []c26dfact
	var expand func(f an.Fact, b *c26bind, root an.Fact, depth int)
	expand = func(f an.Fact, b *c26bind, root an.Fact, depth int) {
		out = append(out, c26dfact{f, b, root})
		if depth >= 3 {
			return
		}
		call, idx, want := c26helperOutcome(w, f)
		if call == nil {
			return
		}
		h := w.Info(call).Static
		nb := &c26bind{fn: h, args: call.Call.Args, up: b}
		for _, g := range c26impliedBy(w, h, idx, want) {
			expand(g, nb, root, depth+1)
		}
	}
	for _, f := range facts {
		expand(f, base, f, 0)
	}
	return out
}

func c26factsAt(w *an.World, instr ssa.Instruction) []c26dfact {
	return c26factsFrom(w, w.FactsDominating(instr), nil)
}

// c26notSuspicious: the fact says that Policy.IsPeerSuspicious(x) is false; x is
// returned as seen from the queried function.
func c26notSuspicious(w *an.World, d c26dfact) (c26desc, bool) {
	if d.f.Rel != "false" || d.f.Cond == nil {
		return c26desc{}, false
	}
	call, ok := d.f.Cond.(*ssa.Call)
	if !ok {
		return c26desc{}, false
	}
	info := w.Info(call)
	var arg ssa.Value
	switch {
	case info.Name == c26fxIsSuspicious && len(call.Call.Args) == 1:
		arg = call.Call.Args[0]
	case info.Static != nil && info.Static.Name() == "IsPeerSuspicious" && w.FnRel(info.Static) == "policy" && len(call.Call.Args) == 2:
		arg = call.Call.Args[1]
	default:
		return c26desc{}, false
	}
	return c26resolve(arg, d.b, 0), true
}

// c26staticCallers: production call sites with the given static callee.
func c26staticCallers(w *an.World, fn *ssa.Function) []ssa.CallInstruction {
	var out []ssa.CallInstruction
	for _, g := range prodFuncs(w) {
		for _, ci := range an.Calls(g) {
			if w.Info(ci).Static == fn {
				out = append(out, ci)
			}
		}
	}
	return out
}

func c26exported(fn *ssa.Function) bool { return fn.Object() != nil && fn.Object().Exported() }

// ---- R1 ---------------------------------------------------------------------------------

func c26r1(c *an.Check, ts []*TI) {
	w := c.W
	mk := makers(ts)
	if !c.AtLeast("C26.R1", "maker tables", len(mk), 2) {
		return
	}
	nCsv := 0
	for _, t := range mk {
		csv := t.statesWith(fxCsvSpend)
		isCsv := map[string]bool{}
		for _, s := range csv {
			isCsv[s] = true
		}
		if len(csv) == 0 {
			c.Bad("C26.R1", t.key("*")+" csv-spend state", w.Pos(t.T.Pos), "maker table has no state that builds the CSV spend")
			continue
		}
		for _, cs := range csv {
			nCsv++
			e := t.T.States[cs]
			tgt, ok := e.Events[evSucceeded]
			if !ok {
				c.Bad("C26.R1", t.key(cs)+" --"+evSucceeded+"--> ?", t.pos(c, cs), "the CSV-spend state has no success edge")
				continue
			}
			if !t.Sum[tgt].HasEffect(fxAddSuspicious) && t.Sum[cs].HasEffect(fxAddSuspicious) {
				c.Unknown("C26.R1", t.edgeKey(cs, evSucceeded), w.Pos(e.EventPos[evSucceeded]), "the peer is recorded inside the CSV-spend state itself, not in the state entered on success: whether it happens exactly when the spend succeeded is not analysed")
				continue
			}
			if t.Sum[tgt].Unknown && !t.Sum[tgt].HasEffect(fxAddSuspicious) {
				c.Unknown("C26.R1", t.edgeKey(cs, evSucceeded), w.Pos(e.EventPos[evSucceeded]), "the action tree of "+tgt+" could not be summarised completely")
				continue
			}
			c.Decide(t.Sum[tgt].HasEffect(fxAddSuspicious), "C26.R1", t.edgeKey(cs, evSucceeded), w.Pos(e.EventPos[evSucceeded]),
				"the state entered after the CSV refund was broadcast records the peer as suspicious",
				fmt.Sprintf("after the maker reclaimed its funds via CSV the swap enters %s whose action tree %v never calls Policy.AddToSuspiciousPeerList: the peer that let the swap time out is not quarantined and can repeat it", tgt, t.T.States[tgt].ActionNames()))
		}
		for _, s := range t.statesWith(fxAddSuspicious) {
			for _, in := range t.T.InEdges(s) {
				c.Decide(isCsv[in[0]] && in[1] == evSucceeded, "C26.R1", t.edgeKey(in[0], in[1])+" (in-edge of quarantine state)", w.Pos(t.T.States[in[0]].EventPos[in[1]]),
					"quarantine state entered only from the success of the CSV spend",
					"the state that marks the peer suspicious is entered by an edge that is not the success of the CSV spend: a peer is quarantined although no CSV refund happened")
			}
		}
	}
	c.AtLeast("C26.R1", "CSV-spend states in maker tables", nCsv, 2)
	// taker tables never quarantine
	for _, t := range takers(ts) {
		for _, s := range t.statesWith(fxAddSuspicious) {
			c.Bad("C26.R1", t.key(s)+" quarantine in taker table", t.pos(c, s), "a taker table marks its peer suspicious; only a maker is forced into a CSV refund")
		}
	}

	// the action(s): argument and unconditional execution, seen from the Execute
	// of the action (the call itself may sit in a helper)
	execs := map[*ssa.Function]bool{}
	for _, t := range mk {
		for _, s := range t.statesWith(fxAddSuspicious) {
			for _, fn := range t.Sum[s].Execs {
				fn = c26unwrap(w, fn)
				if w.Summary(fn).HasEffect(fxAddSuspicious) {
					execs[fn] = true
				}
			}
		}
	}
	var efns []*ssa.Function
	for fn := range execs {
		efns = append(efns, fn)
	}
	sort.Slice(efns, func(i, j int) bool { return w.FuncName(efns[i]) < w.FuncName(efns[j]) })
	for _, fn := range efns {
		cons := w.FuncName(fn) + " call " + strings.TrimPrefix(fxAddSuspicious, "iface:")
		pos := w.Pos(fn.Pos())
		// argument of every add reachable from the action
		type addSite struct {
			site ssa.CallInstruction
			d    c26desc
		}
		var adds []addSite
		var walk func(f *ssa.Function, b *c26bind, depth int)
		walk = func(f *ssa.Function, b *c26bind, depth int) {
			for _, ci := range an.Calls(f) {
				info := w.Info(ci)
				if info.Name == fxAddSuspicious && len(ci.Common().Args) == 1 {
					adds = append(adds, addSite{ci, c26resolve(ci.Common().Args[0], b, 0)})
					continue
				}
				if h := info.Static; h != nil && h != f && w.InModule(h) && depth < 3 && w.Summary(h).HasEffect(fxAddSuspicious) {
					walk(h, &c26bind{fn: h, args: ci.Common().Args, up: b}, depth+1)
				}
			}
		}
		walk(fn, nil, 0)
		argVerdict, argWhy := "ok", ""
		for _, a := range adds {
			pos = w.Pos(a.site.Pos())
			p, isParam := a.d.root.(*ssa.Parameter)
			ofSwap := isParam && p.Parent() == fn && an.NamedOf(p.Type()) != nil && an.NamedOf(p.Type()).Obj().Name() == "SwapData"
			switch {
			case ofSwap && len(a.d.chain) == 1 && a.d.chain[0] == "SwapData.PeerNodeId":
			case ofSwap && len(a.d.chain) == 1, c26isConstVal(a.d.root):
				argVerdict, argWhy = "bad", a.d.String(w)
			default:
				if argVerdict != "bad" {
					argVerdict, argWhy = "unknown", a.d.String(w)
				}
			}
		}
		switch {
		case len(adds) == 0:
			c.Unknown("C26.R1", cons+" argument", pos, "the call is not found within three helper levels of the action")
		case argVerdict == "bad":
			c.Bad("C26.R1", cons+" argument", pos, "the recorded id is not the PeerNodeId field of the action's swap: "+argWhy)
		case argVerdict == "unknown":
			c.Unknown("C26.R1", cons+" argument", pos, "cannot relate the recorded id to the action's swap: "+argWhy)
		default:
			c.OK("C26.R1", cons+" argument", pos, "records PeerNodeId of the swap the action runs for")
		}
		// every path through the action executes an add (directly or in a helper that always adds)
		var carriers []ssa.Instruction
		for _, ci := range an.Calls(fn) {
			info := w.Info(ci)
			if info.IsGo || info.IsDefer {
				continue
			}
			if info.Name == fxAddSuspicious || c26alwaysAdds(w, info.Static, 0) {
				carriers = append(carriers, ci)
			}
		}
		all := len(carriers) > 0
		for _, r := range c26Returns(fn) {
			if !an.MustPassInstr(r, carriers) {
				all = false
			}
		}
		c.Decide(all, "C26.R1", cons+" unconditional", pos, "every path through the action executes the call", "some path through the action returns without recording the peer")
		for _, a := range adds {
			if call, ok := a.site.(*ssa.Call); ok {
				if _, fail := an.OkEdges(call); len(fail) > 0 {
					c.Note("C26.R1", cons+" error path", w.Pos(a.site.Pos()), "an error of the add (e.g. ErrNoPolicyFile when the node has no policy file, or 'already marked') is only logged: the quarantine is then not persisted — not decided")
				}
			}
		}
	}
	c.AtLeast("C26.R1", "actions that record the suspicious peer", len(efns), 1)
}

func c26isConstVal(v ssa.Value) bool { _, ok := v.(*ssa.Const); return ok }

// c26alwaysAdds: every path through the in-module helper executes AddToSuspiciousPeerList.
func c26alwaysAdds(w *an.World, h *ssa.Function, depth int) bool {
	if h == nil || !w.InModule(h) || h.Blocks == nil || depth > 3 || !w.Summary(h).HasEffect(fxAddSuspicious) {
		return false
	}
	var carriers []ssa.Instruction
	for _, ci := range an.Calls(h) {
		info := w.Info(ci)
		if info.IsGo || info.IsDefer {
			continue
		}
		if info.Name == fxAddSuspicious || (info.Static != h && c26alwaysAdds(w, info.Static, depth+1)) {
			carriers = append(carriers, ci)
		}
	}
	if len(carriers) == 0 {
		return false
	}
	for _, r := range c26Returns(h) {
		if !an.MustPassInstr(r, carriers) {
			return false
		}
	}
	return true
}

func c26targets(es []an.Edge) []*ssa.BasicBlock {
	var out []*ssa.BasicBlock
	for _, e := range es {
		out = append(out, e.To())
	}
	return out
}

func c26Returns(fn *ssa.Function) []*ssa.Return {
	if len(fn.Blocks) == 0 {
		return nil
	}
	reach := an.ReachBlocks([]*ssa.BasicBlock{fn.Blocks[0]}, nil, nil)
	var out []*ssa.Return
	for _, r := range an.Returns(fn) {
		if reach[r.Block()] {
			out = append(out, r)
		}
	}
	return out
}

// c26unwrap looks through the synthetic (*T).M wrapper of a value-receiver method.
func c26unwrap(w *an.World, fn *ssa.Function) *ssa.Function {
	for i := 0; i < 3 && fn != nil && fn.Synthetic != ""; i++ {
		var next *ssa.Function
		for _, ci := range an.Calls(fn) {
			if f := w.Info(ci).Static; f != nil && f.Name() == fn.Name() && f != fn {
				next = f
			}
		}
		if next == nil {
			break
		}
		fn = next
	}
	return fn
}

// ---- R2a: the gate inside responder tables -----------------------------------------------

func c26roleConst(c *an.Check, name string) (int64, bool) {
	p := c.W.ByRel["swap"]
	if p == nil {
		return 0, false
	}
	k, ok := p.Types.Scope().Lookup(name).(*types.Const)
	if !ok || k.Val().Kind() != constant.Int {
		c.Anchor("constant swap.%s does not resolve", name)
		return 0, false
	}
	v, _ := constant.Int64Val(k.Val())
	return v, true
}

var c26moneyFx = []string{fxOpenTx, fxPay, fxPayViaChannel, fxPayInvoice, fxGetPayreq}

func c26hasMoney(t *TI, from string) (string, bool) {
	reach := t.T.Reach(from)
	for _, s := range t.T.Order {
		if !reach[s] {
			continue
		}
		for _, fx := range c26moneyFx {
			if t.Sum[s].HasEffect(fx) {
				return s + " (" + strings.TrimPrefix(fx, "iface:swap.") + ")", true
			}
		}
	}
	return "", false
}

// c26swapPeerArg: v is swap.PeerNodeId of a *SwapData parameter.
func c26swapPeerArg(v ssa.Value) bool {
	ld, ok := c26strip(v).(*ssa.UnOp)
	if !ok || ld.Op != token.MUL {
		return false
	}
	fa, ok := ld.X.(*ssa.FieldAddr)
	if !ok || an.FieldName(fa.X.Type(), fa.Field) != "SwapData.PeerNodeId" {
		return false
	}
	_, isParam := fa.X.(*ssa.Parameter)
	return isParam
}

func c26condCall(f an.Fact) *ssa.Call {
	if call, ok := f.Cond.(*ssa.Call); ok {
		return call
	}
	return nil
}

func c26r2a(c *an.Check, ts []*TI) {
	w := c.W
	recvRole, ok := c26roleConst(c, "SWAPROLE_RECEIVER")
	if !ok {
		return
	}
	nGate, nTables := 0, 0
	for _, t := range ts {
		if t.T.Role != recvRole {
			continue
		}
		nTables++
		def := t.T.States[""]
		if def == nil {
			c.Anchor("table %s has no Default state", t.Name())
			continue
		}
		for _, ev := range def.SortedEvents() {
			s := def.Events[ev]
			where, money := c26hasMoney(t, s)
			cons := t.edgeKey("", ev) + " gate"
			if !money {
				c.OK("C26.R2", cons, w.Pos(def.EventPos[ev]), "no invoice, payment or funding state is reachable from this entry")
				continue
			}
			nGate++
			// walk the wrapper chain
			var gateFn *ssa.Function
			var gateFact an.Fact
			why := ""
			for _, fn := range t.Sum[s].Execs {
				fn = c26unwrap(w, fn)
				dcalls := callsNamed(w, fn, fxActionExecute)
				if len(dcalls) == 0 {
					why = fmt.Sprintf("action %s runs the request without a suspicious-peer test in front of it", w.FuncName(fn))
					break
				}
				all := true
				for _, dc := range dcalls {
					found := false
					for _, d := range c26factsAt(w, dc) {
						desc, ok := c26notSuspicious(w, d)
						if !ok {
							continue
						}
						p, isParam := desc.root.(*ssa.Parameter)
						if isParam && p.Parent() == fn && len(desc.chain) == 1 && desc.chain[0] == "SwapData.PeerNodeId" {
							found = true
							gateFact = d.root
						}
					}
					if !found {
						all = false
					}
				}
				if all {
					gateFn = fn
					break
				}
			}
			if gateFn == nil {
				if why == "" {
					why = "no wrapper of the action tree delegates under `!IsPeerSuspicious(swap.PeerNodeId)`"
				}
				// the refusal may sit in front of the machine: at every creation site of this table's machine
				if v, cw := c26creationGuarded(c, t); v == "ok" {
					c.OK("C26.R2", cons, t.pos(c, s), "no gate inside the machine, but every creation site of the machine is dominated by !IsPeerSuspicious(peer): "+cw)
					continue
				} else if v == "unknown" {
					c.Unknown("C26.R2", cons, t.pos(c, s), fmt.Sprintf("no gate found inside the machine (%s) and the creation sites cannot be decided: %s", why, cw))
					continue
				}
				c.Bad("C26.R2", cons, t.pos(c, s), fmt.Sprintf("a request of a quarantined peer reaches %s: %s (action tree %v)", where, why, t.T.States[s].ActionNames()))
				continue
			}
			// the suspicious edge only fails
			other := an.Edge{From: gateFact.Edge.From, Idx: 1 - gateFact.Edge.Idx}
			evs := returnEventsFrom(w, gateFn, an.ReachBlocks([]*ssa.BasicBlock{other.To()}, nil, nil))
			onlyFail := len(evs) > 0
			uninterpreted := false
			for e := range evs {
				if e != evFailed {
					onlyFail = false
				}
				if e == "?" {
					uninterpreted = true
				}
			}
			failTgt, hasFail := t.T.States[s].Events[evFailed]
			leak := ""
			if hasFail {
				leak, _ = c26hasMoney(t, failTgt)
			}
			switch {
			case !onlyFail && (uninterpreted || len(evs) == 0):
				c.Unknown("C26.R2", cons, w.Pos(gateFn.Pos()), fmt.Sprintf("the events returned on the branch taken for a suspicious peer in %s cannot be resolved (%v)", w.FuncName(gateFn), sortedKeysOf(evs)))
			case !onlyFail:
				c.Bad("C26.R2", cons, w.Pos(gateFn.Pos()), fmt.Sprintf("the branch taken for a suspicious peer in %s returns %v, not only %s", w.FuncName(gateFn), sortedKeysOf(evs), evFailed))
			case !hasFail:
				c.Bad("C26.R2", cons, t.pos(c, s), "the gated state has no "+evFailed+" edge: the refusal is rejected as an unknown event and the swap stays in the gated state")
			case leak != "":
				c.Bad("C26.R2", cons, t.pos(c, s), "the failure edge of the gated state still reaches "+leak)
			default:
				c.OK("C26.R2", cons, t.pos(c, s), "delegation in "+w.FuncName(gateFn)+" is dominated by !IsPeerSuspicious(swap.PeerNodeId); the other edge only fails and the failure edge reaches no money state")
			}
		}
	}
	c.AtLeast("C26.R2", "responder tables", nTables, 2)
	c.AtLeast("C26.R2", "responder entries that need the gate", nGate, 2)

	// PeerNodeId is only ever written from a constructor parameter
	nw := 0
	for _, st := range w.FieldWriters("SwapData.PeerNodeId") {
		fn := st.Parent()
		if an.IsTestSupport(w.FnRel(fn)) || w.FnRel(fn) == "" {
			continue
		}
		nw++
		_, isParam := c26strip(st.Val).(*ssa.Parameter)
		_, isAlloc := st.Addr.(*ssa.FieldAddr).X.(*ssa.Alloc)
		if isParam && isAlloc {
			c.OK("C26.R2", w.FuncName(fn)+" store SwapData.PeerNodeId", w.Pos(st.Pos()), "peer id set once, from a constructor parameter, on a new SwapData")
		} else {
			// a helper filling a new SwapData, or a normalised value: not interpreted
			c.Unknown("C26.R2", w.FuncName(fn)+" store SwapData.PeerNodeId", w.Pos(st.Pos()),
				"SwapData.PeerNodeId (the id the gate tests and the quarantine records) is written in a form that is not `new SwapData{PeerNodeId: parameter}`: cannot decide that it is the transport-level peer: "+w.Term(st.Val))
		}
	}
	c.AtLeast("C26.R2", "writers of SwapData.PeerNodeId", nw, 1)
}

// ---- R2b: creation sites of initiator machines ---------------------------------------------

// c26peerParam: index of the parameter of fn that ends up in SwapData.PeerNodeId (-1 if none).
func c26peerParam(w *an.World, fn *ssa.Function, depth int) int {
	if fn == nil || fn.Blocks == nil || depth > 3 {
		return -1
	}
	idxOf := func(v ssa.Value) int {
		p, ok := c26strip(v).(*ssa.Parameter)
		if !ok {
			return -1
		}
		for i, q := range fn.Params {
			if q == p {
				return i
			}
		}
		return -1
	}
	for _, st := range w.FieldWriters("SwapData.PeerNodeId") {
		if st.Parent() == fn {
			if i := idxOf(st.Val); i >= 0 {
				return i
			}
		}
	}
	for _, ci := range an.Calls(fn) {
		g := w.Info(ci).Static
		if g == nil || !w.InModule(g) || g == fn {
			continue
		}
		k := c26peerParam(w, g, depth+1)
		if k >= 0 && k < len(ci.Common().Args) {
			if i := idxOf(ci.Common().Args[k]); i >= 0 {
				return i
			}
		}
	}
	return -1
}

// c26guardedUp: instr (in its function) only executes after !IsPeerSuspicious(peer);
// the test may sit in the function, in a helper whose outcome is tested, or in
// every caller of an unexported function. "ok" | "bad" | "unknown".
func c26guardedUp(w *an.World, instr ssa.Instruction, peer ssa.Value, depth int) (string, string) {
	fn := instr.Parent()
	want := c26resolve(peer, nil, 0)
	for _, d := range c26factsAt(w, instr) {
		if desc, ok := c26notSuspicious(w, d); ok && c26sameDesc(w, desc, want) {
			return "ok", ""
		}
	}
	if fn.Parent() != nil {
		return "unknown", "inside a closure"
	}
	// the peer is a parameter (or a field of one) of an unexported function: the callers may test
	p, isParam := want.root.(*ssa.Parameter)
	if !isParam || p.Parent() != fn {
		return "bad", "the peer is computed in " + w.FuncName(fn) + " and not tested there"
	}
	if c26exported(fn) {
		return "bad", "the exported function " + w.FuncName(fn) + " does not test its peer"
	}
	if depth > 2 {
		return "unknown", "call chain too deep"
	}
	idx := -1
	for i, q := range fn.Params {
		if q == p {
			idx = i
		}
	}
	sites := c26staticCallers(w, fn)
	if len(sites) == 0 || idx < 0 {
		return "unknown", w.FuncName(fn) + " is unexported and has no static caller"
	}
	res, why := "ok", ""
	for _, s := range sites {
		if idx >= len(s.Common().Args) {
			return "unknown", "argument not found"
		}
		arg := s.Common().Args[idx]
		if len(want.chain) > 0 {
			return "unknown", "the peer is a field of a parameter; callers not analysed"
		}
		v, w2 := c26guardedUp(w, s, arg, depth+1)
		if v == "bad" {
			return "bad", "called from " + w.FuncName(s.Parent()) + ": " + w2
		}
		if v != "ok" {
			res, why = "unknown", w2
		}
	}
	return res, why
}

// c26creationSites evaluates lockSwap/SendEvent on the machines created by the constructor of t.
type c26effect struct {
	fn     *ssa.Function
	eff    ssa.CallInstruction
	callee *ssa.Function
	ctor   *ssa.Function
	peer   ssa.Value
}

func c26creationEffects(c *an.Check, t *TI) (effs []c26effect, nSites int, err string) {
	w := c.W
	lock := w.Func("swap", "(*SwapService).lockSwap")
	sendEv := w.Func("swap", "(*SwapStateMachine).SendEvent")
	if lock == nil || sendEv == nil {
		return nil, 0, "(*SwapService).lockSwap / (*SwapStateMachine).SendEvent do not resolve"
	}
	ctor := w.Func("swap", t.T.Constructor)
	if ctor == nil {
		return nil, 0, fmt.Sprintf("constructor %q of table %s does not resolve", t.T.Constructor, t.Name())
	}
	pi := c26peerParam(w, ctor, 0)
	if pi < 0 {
		return nil, 0, "cannot tell which parameter of " + w.FuncName(ctor) + " becomes SwapData.PeerNodeId"
	}
	for _, ci := range c26staticCallers(w, ctor) {
		fn := ci.Parent()
		nSites++
		peer := ci.Common().Args[pi]
		fsm, _ := ci.(*ssa.Call)
		for _, eff := range an.Calls(fn) {
			callee := w.Info(eff).Static
			if callee != lock && callee != sendEv {
				continue
			}
			uses := false
			for _, a := range eff.Common().Args {
				if fsm != nil && c26strip(a) == ssa.Value(fsm) {
					uses = true
				}
			}
			if uses {
				effs = append(effs, c26effect{fn, eff, callee, ctor, peer})
			}
		}
	}
	return effs, nSites, ""
}

// c26creationGuarded: every registration/start of a machine of table t is dominated by the suspicious test.
func c26creationGuarded(c *an.Check, t *TI) (string, string) {
	effs, n, err := c26creationEffects(c, t)
	if err != "" {
		return "unknown", err
	}
	if n == 0 || len(effs) == 0 {
		return "bad", "no creation site with lockSwap/SendEvent found"
	}
	res, why := "ok", ""
	for _, e := range effs {
		v, w2 := c26guardedUp(c.W, e.eff, e.peer, 0)
		if v == "bad" {
			return "bad", c.W.FuncName(e.fn) + ": " + w2
		}
		if v != "ok" {
			res, why = "unknown", w2
		}
	}
	return res, why
}

func c26r2b(c *an.Check, ts []*TI) {
	w := c.W
	sendRole, ok := c26roleConst(c, "SWAPROLE_SENDER")
	if !ok {
		return
	}
	nSites, nTables := 0, 0
	semantic := map[string]bool{}
	for _, t := range ts {
		if t.T.Role != sendRole {
			continue
		}
		nTables++
		effs, n, err := c26creationEffects(c, t)
		if err != "" {
			c.Unknown("C26.R2", t.Name()+" creation sites", w.Pos(t.T.Pos), err)
			continue
		}
		nSites += n
		for _, e := range effs {
			semantic[t.Name()+"/"+e.callee.Name()] = true
			cons := w.FuncName(e.fn) + " call " + e.callee.Name() + " on " + e.ctor.Name()
			v, why := c26guardedUp(w, e.eff, e.peer, 0)
			switch v {
			case "ok":
				c.OK("C26.R2", cons, w.Pos(e.eff.Pos()), "dominated by !IsPeerSuspicious(peer) for the peer the machine is created for")
			case "bad":
				c.Bad("C26.R2", cons, w.Pos(e.eff.Pos()), "the node can start a swap with a quarantined peer: this call is not dominated by `!policy.IsPeerSuspicious(p)` with p the peer the state machine is created for ("+w.Term(e.peer)+"): "+why+". Facts that hold: "+an.DescribeFacts(w.FactsDominating(e.eff)))
			default:
				c.Unknown("C26.R2", cons, w.Pos(e.eff.Pos()), "cannot decide whether the call is dominated by the suspicious test on "+w.Term(e.peer)+": "+why)
			}
		}
	}
	c.AtLeast("C26.R2", "initiator tables", nTables, 2)
	c.AtLeast("C26.R2", "creation sites of initiator machines", nSites, 2)
	// per initiator table: the machine is registered and started
	c.AtLeast("C26.R2", "(initiator table, lockSwap|SendEvent) pairs at creation sites", len(semantic), 4)
}

// ---- R2c: peersync ---------------------------------------------------------------------------

type c26sink struct {
	site ssa.CallInstruction
	peer ssa.Value
	what string
}

func c26isNamed(t types.Type, rel, name string, w *an.World) bool {
	n, ok := t.(*types.Named)
	if !ok || n.Obj().Pkg() == nil || n.Obj().Name() != name {
		return false
	}
	r, ok := w.Rel(n.Obj().Pkg().Path())
	return ok && r == rel
}

// c26isGuardNil: the fact says that a value of type PeerGuard is nil.
func c26isGuardNil(w *an.World, f an.Fact) bool {
	if !f.NonNum || f.Rel != "==" || f.LV == nil || f.RV == nil {
		return false
	}
	var other ssa.Value
	switch {
	case an.IsNilConst(f.LV):
		other = f.RV
	case an.IsNilConst(f.RV):
		other = f.LV
	}
	return other != nil && c26isNamed(other.Type(), "peersync", "PeerGuard", w)
}

// c26nilTestPred: pred ends in an If on `guard != nil` / `guard == nil`.
func c26nilTestPred(w *an.World, pred *ssa.BasicBlock) bool {
	if len(pred.Instrs) == 0 {
		return false
	}
	i, ok := pred.Instrs[len(pred.Instrs)-1].(*ssa.If)
	if !ok {
		return false
	}
	t, f := w.FactsOfIf(i)
	return c26isGuardNil(w, t) || c26isGuardNil(w, f)
}

// c26okEdges: the CFG edges of fn on which "guard == nil or guard.Suspicious(want) == false" is known.
// nTests counts the tests on the wanted peer, others lists the peers of tests on something else.
func c26okEdges(w *an.World, fn *ssa.Function, want c26desc, b *c26bind, depth int) (cut []an.Edge, nTests int, others []string) {
	matches := func(arg ssa.Value) bool {
		return c26sameDesc(w, c26resolve(arg, b, 0), want)
	}
	for _, ci := range an.Calls(fn) {
		call, ok := ci.(*ssa.Call)
		if !ok {
			continue
		}
		info := w.Info(ci)
		if info.Name == c26fxGuardSusp && len(call.Call.Args) == 1 {
			if !matches(call.Call.Args[0]) {
				others = append(others, w.Term(call.Call.Args[0]))
				continue
			}
			nTests++
			_, f := an.BoolEdges(call)
			cut = append(cut, f...)
			// the test folded into a local: `q := guard != nil && guard.Suspicious(x)` (q false is the
			// disjunction) and `ok := guard == nil || !guard.Suspicious(x)` (ok true is the disjunction)
			var vals []ssa.Value
			vals = append(vals, call)
			if call.Referrers() != nil {
				for _, r := range *call.Referrers() {
					if u, isNot := r.(*ssa.UnOp); isNot && u.Op == token.NOT {
						vals = append(vals, u)
					}
				}
			}
			for _, v := range vals {
				if v.Referrers() == nil {
					continue
				}
				_, negated := v.(*ssa.UnOp)
				for _, r := range *v.Referrers() {
					phi, isPhi := r.(*ssa.Phi)
					if !isPhi {
						continue
					}
					ops, isAnd, ok := an.PhiConjuncts(phi)
					if !ok || len(ops) != 1 || ops[0] != v || isAnd == negated {
						continue
					}
					onlyNil := true
					for i, e := range phi.Edges {
						if _, isC := e.(*ssa.Const); isC && !c26nilTestPred(w, phi.Block().Preds[i]) {
							onlyNil = false
						}
					}
					if !onlyNil {
						continue
					}
					pt, pf := an.BoolEdges(phi)
					if isAnd {
						cut = append(cut, pf...)
					} else {
						cut = append(cut, pt...)
					}
				}
			}
			continue
		}
		// a helper whose boolean answer implies the disjunction
		h := info.Static
		if h == nil || !w.InModule(h) || h.Blocks == nil || depth >= 2 || h == fn {
			continue
		}
		res := h.Signature.Results()
		if res.Len() != 1 {
			continue
		}
		if bt, isB := res.At(0).Type().Underlying().(*types.Basic); !isB || bt.Kind() != types.Bool {
			continue
		}
		nb := &c26bind{fn: h, args: call.Call.Args, up: b}
		for _, wantRes := range []string{"false", "true"} {
			if !c26helperImpliesOK(w, h, want, nb, wantRes, depth+1) {
				continue
			}
			nTests++
			t, f := an.BoolEdges(call)
			if wantRes == "false" {
				cut = append(cut, f...)
			} else {
				cut = append(cut, t...)
			}
		}
	}
	for _, f := range w.Facts(fn) {
		if c26isGuardNil(w, f) {
			cut = append(cut, f.Edge)
		}
	}
	return cut, nTests, others
}

// c26helperImpliesOK: whenever helper h answers wantRes, the guard is nil or the wanted peer is not suspicious.
func c26helperImpliesOK(w *an.World, h *ssa.Function, want c26desc, b *c26bind, wantRes string, depth int) bool {
	cut, n, _ := c26okEdges(w, h, want, b, depth)
	cases := 0
	for _, rc := range c26retCases(h, 0) {
		if !c26mayBe(w, h, rc, wantRes) {
			continue
		}
		cases++
		// the answer is the test itself
		v := rc.val
		neg := false
		if u, ok := v.(*ssa.UnOp); ok && u.Op == token.NOT {
			v, neg = u.X, true
		}
		if call, ok := v.(*ssa.Call); ok && w.Info(call).Name == c26fxGuardSusp && len(call.Call.Args) == 1 &&
			c26sameDesc(w, c26resolve(call.Call.Args[0], b, 0), want) && ((wantRes == "false") != neg) {
			continue
		}
		if n == 0 {
			return false
		}
		onEdge := false
		if rc.edge != nil {
			for _, e := range cut {
				if e == *rc.edge {
					onEdge = true
				}
			}
		}
		if onEdge || (rc.at != h.Blocks[0] && an.EdgesDominate(cut, rc.at)) {
			continue
		}
		return false
	}
	return cases > 0
}

// c26guarded: site is unreachable from the entry of its function once the edges
// `Suspicious(peer)==false` and `guard==nil` are removed. "ok" | "no" | "unknown".
func c26guarded(w *an.World, site ssa.Instruction, want c26desc) (string, string) {
	fn := site.Parent()
	cut, n, others := c26okEdges(w, fn, want, nil, 0)
	if n == 0 {
		return "no", fmt.Sprintf("no Suspicious test on this peer (tests on: %v)", others)
	}
	if site.Block() == fn.Blocks[0] {
		return "no", "the call sits in the entry block"
	}
	if an.EdgesDominate(cut, site.Block()) {
		return "ok", ""
	}
	return "no", "the test on this peer does not lie on every path"
}

// c26sinkVerdict: the sink is guarded in its function, or in every caller chain of an
// unexported function up to an entry point. "ok" | "bad" | "unknown".
func c26sinkVerdict(w *an.World, site ssa.Instruction, want c26desc, depth int) (string, string) {
	v, why := c26guarded(w, site, want)
	if v == "ok" {
		return "ok", ""
	}
	fn := site.Parent()
	p, isParam := want.root.(*ssa.Parameter)
	if !isParam || p.Parent() != fn {
		// the peer value is produced inside the function: no caller can have tested it
		return "bad", why
	}
	if c26exported(fn) && fn.Parent() == nil {
		return "bad", why + "; the exported function " + w.FuncName(fn) + " can be called with any peer"
	}
	if depth > 3 {
		return "unknown", "call chain too deep"
	}
	idx := -1
	for i, q := range fn.Params {
		if q == p {
			idx = i
		}
	}
	sites := c26staticCallers(w, fn)
	if len(sites) == 0 || idx < 0 {
		return "unknown", w.FuncName(fn) + " has no static caller (used as a function value?): " + why
	}
	res, rwhy := "ok", ""
	for _, s := range sites {
		if idx >= len(s.Common().Args) {
			return "unknown", "argument not found at a call of " + w.FuncName(fn)
		}
		up := c26resolve(s.Common().Args[idx], nil, 0)
		up.chain = append(append([]string{}, up.chain...), want.chain...)
		sv, sw := c26sinkVerdict(w, s, up, depth+1)
		if sv == "bad" {
			return "bad", "reached from " + w.FuncName(s.Parent()) + " without a test: " + sw
		}
		if sv != "ok" {
			res, rwhy = "unknown", sw
		}
	}
	return res, rwhy
}

// c26peerIDOf: the PeerID a value stands for: a PeerID itself, or a *Peer obtained
// from a call with exactly one PeerID argument.
func c26peerIDOf(w *an.World, v ssa.Value) ssa.Value {
	v = c26strip(v)
	if c26isNamed(v.Type(), "peersync", "PeerID", w) {
		return v
	}
	var call *ssa.Call
	switch x := v.(type) {
	case *ssa.Extract:
		call, _ = x.Tuple.(*ssa.Call)
	case *ssa.Call:
		call = x
	}
	if call == nil {
		return nil
	}
	var ids []ssa.Value
	for _, a := range call.Call.Args {
		if c26isNamed(a.Type(), "peersync", "PeerID", w) {
			ids = append(ids, a)
		}
	}
	if len(ids) == 1 {
		return ids[0]
	}
	return nil
}

func c26r2c(c *an.Check) {
	w := c.W
	var fns []*ssa.Function
	for _, fn := range prodFuncs(w) {
		if w.FnRel(fn) == "peersync" {
			fns = append(fns, fn)
		}
	}
	// sender functions: pass one of their parameters as the destination of SendCustomMessage
	sender := map[*ssa.Function]int{}
	var sinks []c26sink
	paramIdx := func(fn *ssa.Function, v ssa.Value) int {
		p, ok := c26strip(v).(*ssa.Parameter)
		if !ok {
			return -1
		}
		for i, q := range fn.Params {
			if q == p {
				return i
			}
		}
		return -1
	}
	nPrim := 0
	for _, fn := range fns {
		for _, ci := range callsNamed(w, fn, c26fxSendCustom) {
			nPrim++
			var to ssa.Value
			for _, a := range ci.Common().Args {
				if c26isNamed(a.Type(), "peersync", "PeerID", w) {
					to = a
				}
			}
			if to == nil {
				c.Unknown("C26.R2", w.FuncName(fn)+" call SendCustomMessage", w.Pos(ci.Pos()), "destination argument not found")
				continue
			}
			if i := paramIdx(fn, to); i >= 0 && fn.Parent() == nil {
				sender[fn] = i
			} else {
				sinks = append(sinks, c26sink{ci, to, "Lightning.SendCustomMessage"})
			}
		}
	}
	c.AtLeast("C26.R2", "SendCustomMessage call sites in peersync", nPrim, 1)
	// call sites of sender functions, transitively through wrappers that only forward a parameter
	for round := 0; round < 4; round++ {
		grew := false
		for _, fn := range fns {
			for _, ci := range an.Calls(fn) {
				callee := w.Info(ci).Static
				k, isSender := sender[callee]
				if !isSender || callee == fn {
					continue
				}
				peer := ci.Common().Args[k]
				if v, _ := c26guarded(w, ci, c26resolve(peer, nil, 0)); v != "ok" {
					if i := paramIdx(fn, peer); i >= 0 && fn.Parent() == nil {
						if _, had := sender[fn]; !had {
							sender[fn] = i
							grew = true
						}
					}
				}
			}
		}
		if !grew {
			break
		}
	}
	for _, fn := range fns {
		for _, ci := range an.Calls(fn) {
			info := w.Info(ci)
			if k, ok := sender[info.Static]; ok && info.Static != fn {
				peer := ci.Common().Args[k]
				if _, fwd := sender[fn]; fwd && paramIdx(fn, peer) == sender[fn] {
					if v, _ := c26guarded(w, ci, c26resolve(peer, nil, 0)); v != "ok" {
						continue // pure forwarder: its own call sites are the sinks
					}
				}
				sinks = append(sinks, c26sink{ci, peer, info.Static.Name()})
				continue
			}
			// dynamic call through a capabilitySender value
			if info.Static == nil && !ci.Common().IsInvoke() && c26isNamed(ci.Common().Value.Type(), "peersync", "capabilitySender", w) {
				var peer ssa.Value
				for _, a := range ci.Common().Args {
					if c26isNamed(a.Type(), "peersync", "PeerID", w) {
						peer = a
					}
				}
				if peer == nil {
					c.Unknown("C26.R2", w.FuncName(fn)+" call capabilitySender", w.Pos(ci.Pos()), "peer argument not found")
					continue
				}
				sinks = append(sinks, c26sink{ci, peer, "capabilitySender"})
			}
		}
	}
	// a sender function that is exported can be called from outside the package: its callers cannot be enumerated
	for fn := range sender {
		if fn.Object() != nil && fn.Object().Exported() {
			c.Bad("C26.R2", w.FuncName(fn)+" exported unguarded sender", w.Pos(fn.Pos()), "an exported function of peersync sends a capability message to its parameter without testing guard.Suspicious on it")
		}
		// used as a function value (bound method / closure): those uses are the capabilitySender calls above
	}
	// stores: SavePeerState of a peer that got a capability in the same function
	nStore := 0
	for _, fn := range fns {
		for _, uc := range an.Calls(fn) {
			ui := w.Info(uc)
			if ui.Static == nil || ui.Static.Name() != "UpdateCapability" || !c26isNamed(an.NamedOf(ui.Static.Signature.Recv().Type()), "peersync", "Peer", w) {
				continue
			}
			if fn.Signature.Recv() != nil && c26isNamed(an.NamedOf(fn.Signature.Recv().Type()), "peersync", "Peer", w) {
				continue // Peer's own methods
			}
			recv := uc.Common().Args[0]
			saved := false
			for _, sc := range an.Calls(fn) {
				si := w.Info(sc)
				if si.Static == nil || si.Static.Name() != "SavePeerState" || len(sc.Common().Args) < 2 || c26strip(sc.Common().Args[1]) != c26strip(recv) {
					continue
				}
				saved = true
				nStore++
				id := c26peerIDOf(w, recv)
				if id == nil {
					c.Unknown("C26.R2", w.FuncName(fn)+" call SavePeerState", w.Pos(sc.Pos()), "cannot relate the stored *Peer to a PeerID: "+w.Term(recv))
					continue
				}
				sinks = append(sinks, c26sink{sc, id, "SavePeerState(peer with new capability)"})
			}
			if !saved {
				c.Unknown("C26.R2", w.FuncName(fn)+" call UpdateCapability", w.Pos(uc.Pos()), "a received capability is put on a *Peer that is not stored in the same function: unsupported shape")
			}
		}
	}
	c.AtLeast("C26.R2", "capability stores (UpdateCapability followed by SavePeerState)", nStore, 1)

	nSend := 0
	seen := map[ssa.CallInstruction]bool{}
	for _, s := range sinks {
		if seen[s.site] {
			continue
		}
		seen[s.site] = true
		fn := s.site.Parent()
		if !strings.HasPrefix(s.what, "SavePeerState") {
			nSend++
		}
		cons := w.FuncName(fn) + " call " + s.what
		v, why := c26sinkVerdict(w, s.site, c26resolve(s.peer, nil, 0), 0)
		if why != "" {
			why = " — " + why
		}
		switch v {
		case "ok":
			c.OK("C26.R2", cons, w.Pos(s.site.Pos()), "cut off from the entry by guard.Suspicious(same peer)==false / guard==nil (in the function or in every caller)")
		case "bad":
			c.Bad("C26.R2", cons, w.Pos(s.site.Pos()), "peer-sync reaches this call for a quarantined peer: not every path from the function entry passes the false edge of guard.Suspicious on "+w.Term(s.peer)+why)
		default:
			c.Unknown("C26.R2", cons, w.Pos(s.site.Pos()), "cannot decide whether the call is only reached after guard.Suspicious on "+w.Term(s.peer)+" answered false"+why)
		}
	}
	// semantic floor: functions that send (not call sites)
	sendFns := map[*ssa.Function]bool{}
	for _, s := range sinks {
		if !strings.HasPrefix(s.what, "SavePeerState") {
			sendFns[s.site.Parent()] = true
		}
	}
	_ = nSend
	c.AtLeast("C26.R2", "functions of peersync that send capability messages", len(sendFns), 3)
}

// ---- R3 ----------------------------------------------------------------------------------------

func c26r3(c *an.Check) {
	w := c.W
	pg := w.Named("peersync", "PeerGuard")
	polT := w.Named("policy", "Policy")
	if pg == nil || polT == nil {
		c.Anchor("peersync.PeerGuard / policy.Policy do not resolve")
		return
	}
	ifc, ok := pg.Underlying().(*types.Interface)
	if !ok {
		c.Anchor("peersync.PeerGuard is not an interface")
		return
	}
	isPolPtr := func(t types.Type) bool {
		p, ok := t.Underlying().(*types.Pointer)
		return ok && types.Identical(p.Elem(), polT)
	}
	nImpl := 0
	var names []string
	scope := w.ByRel["peersync"].Types.Scope()
	for _, nm := range scope.Names() {
		names = append(names, nm)
	}
	sort.Strings(names)
	for _, nm := range names {
		tn, ok := scope.Lookup(nm).(*types.TypeName)
		if !ok {
			continue
		}
		nt, ok := tn.Type().(*types.Named)
		if !ok || types.IsInterface(nt) {
			continue
		}
		if !types.Implements(nt, ifc) && !types.Implements(types.NewPointer(nt), ifc) {
			continue
		}
		fn := w.Method(nt, "Suspicious")
		if fn == nil || fn.Blocks == nil {
			continue
		}
		nImpl++
		cons := w.FuncName(fn)
		verdict, why := "ok", ""
		worse := func(v, y string) {
			if v == "bad" || (v == "unknown" && verdict == "ok") {
				if verdict != "bad" {
					verdict, why = v, y
				}
			}
		}
		for _, rc := range c26retCases(fn, 0) {
			v := c26strip(rc.val)
			if call, ok := v.(*ssa.Call); ok {
				f := w.Info(call).Static
				if f != nil && f.Name() == "IsPeerSuspicious" && f.Signature.Recv() != nil && isPolPtr(f.Signature.Recv().Type()) && len(call.Call.Args) == 2 {
					ss := w.Sources(call.Call.Args[1], an.FlowOpts{ThroughCalls: map[string]bool{"func:(peersync.PeerID).String": true}})
					if ss.OnlyFrom(func(s an.Src) bool { return s.Kind == "param" && s.Idx == 1 }) {
						continue
					}
					if ss.OnlyFrom(func(s an.Src) bool { return s.Kind == "param" || s.Kind == "const" }) {
						worse("bad", "asks the policy about "+strings.Join(ss.Names(), ",")+" instead of its argument")
					} else {
						worse("unknown", "asks the policy about "+strings.Join(ss.Names(), ",")+", which is not recognised as its argument")
					}
					continue
				}
				if f != nil && w.FnRel(f) == "policy" && f.Signature.Recv() != nil && isPolPtr(f.Signature.Recv().Type()) {
					worse("bad", "answers with another policy predicate: "+w.Term(v))
				} else {
					worse("unknown", "answers with "+w.Term(v)+", which is not interpreted")
				}
				continue
			}
			if k, ok := v.(*ssa.Const); ok && k.Value != nil && k.Value.String() == "false" {
				under := false
				for _, f := range c26factsAtCase(w, fn, rc) {
					if f.NonNum && f.Rel == "==" && f.LV != nil && f.RV != nil && ((an.IsNilConst(f.LV) && isPolPtr(f.RV.Type())) || (an.IsNilConst(f.RV) && isPolPtr(f.LV.Type()))) {
						under = true
					}
				}
				if under {
					continue
				}
				if len(c26factsAtCase(w, fn, rc)) == 0 {
					worse("bad", "answers false unconditionally although a policy is configured")
				} else {
					worse("unknown", "answers false under a condition that is not `policy == nil`")
				}
				continue
			}
			if k, ok := v.(*ssa.Const); ok && k.Value != nil {
				worse("bad", "answers the constant "+k.Value.String())
				continue
			}
			worse("unknown", "answers with "+w.Term(v)+", which is not interpreted")
		}
		switch verdict {
		case "ok":
			c.OK("C26.R3", cons, w.Pos(fn.Pos()), "answers Policy.IsPeerSuspicious(argument); false only without a policy")
		case "bad":
			c.Bad("C26.R3", cons, w.Pos(fn.Pos()), "the peersync guard "+why+": peer-sync keeps answering and storing a quarantined peer")
		default:
			c.Unknown("C26.R3", cons, w.Pos(fn.Pos()), "the peersync guard "+why)
		}
	}
	c.AtLeast("C26.R3", "implementations of PeerGuard", nImpl, 1)

	// the predicate reads the list the quarantine action appends to
	c26listAgrees(c, polT)
	// no other policy operation deletes the quarantine line
	c26quarantineLineKept(c, polT)

	// wiring
	newPS := w.Func("peersync", "NewPeerSync")
	newPG := w.Func("peersync", "NewPeerGuard")
	newSS := w.Func("swap", "NewSwapServices")
	create := w.Func("policy", "CreateFromFile")
	if newPS == nil || newPG == nil || newSS == nil || create == nil {
		c.Anchor("peersync.NewPeerSync / peersync.NewPeerGuard / swap.NewSwapServices / policy.CreateFromFile do not resolve")
		return
	}
	polArg := func(ci ssa.CallInstruction) ssa.Value {
		callee := w.Info(ci).Static
		for i, a := range ci.Common().Args {
			if isPolPtr(c26strip(a).Type()) && i < len(callee.Params) {
				pt := callee.Params[i].Type()
				if isPolPtr(pt) || c26isNamed(pt, "swap", "Policy", w) {
					return c26strip(a)
				}
			}
		}
		return nil
	}
	srcCall := func(v ssa.Value) *ssa.Call {
		if v == nil {
			return nil
		}
		ss := w.Sources(v, an.FlowOpts{})
		var call *ssa.Call
		for _, l := range ss.Leaves {
			if l.Kind != "call" || l.Call == nil || w.Info(l.Call).Static != create || l.Idx != 0 {
				return nil
			}
			if call != nil && call != l.Call {
				return nil
			}
			call = l.Call
		}
		return call
	}
	nMain := 0
	for _, fn := range prodFuncs(w) {
		var ps, ss []ssa.CallInstruction
		for _, ci := range an.Calls(fn) {
			switch w.Info(ci).Static {
			case newPS:
				ps = append(ps, ci)
			case newSS:
				ss = append(ss, ci)
			}
		}
		for _, ci := range ps {
			nMain++
			cons := w.FuncName(fn) + " call NewPeerSync policy"
			a := srcCall(polArg(ci))
			good := a != nil && len(ss) > 0
			for _, si := range ss {
				if b := srcCall(polArg(si)); b == nil || b != a {
					good = false
				}
			}
			// positively wrong: the argument is nil or comes (also) from another constructor call
			positive := false
			if pa := polArg(ci); pa == nil {
				for _, x := range ci.Common().Args {
					if an.IsNilConst(x) && isPolPtr(x.Type()) {
						positive = true
					}
				}
			} else {
				for _, l := range w.Sources(pa, an.FlowOpts{}).Leaves {
					if l.Kind == "zero" || (l.Kind == "call" && l.Call != nil && w.Info(l.Call).Static != create && w.Info(l.Call).Static != nil && w.FnRel(w.Info(l.Call).Static) == "policy") {
						positive = true
					}
				}
			}
			msg := "peersync is not given the policy object (from policy.CreateFromFile) that the swap services use: quarantine entries made by the swap service are not seen by peer-sync"
			switch {
			case good:
				c.OK("C26.R3", cons, w.Pos(ci.Pos()), "peersync and the swap services get the one policy object created from the policy file")
			case positive:
				c.Bad("C26.R3", cons, w.Pos(ci.Pos()), msg)
			default:
				c.Unknown("C26.R3", cons, w.Pos(ci.Pos()), "cannot trace the policy arguments of NewPeerSync and NewSwapServices to one policy.CreateFromFile call: "+msg)
			}
		}
	}
	c.AtLeast("C26.R3", "daemons that wire NewPeerSync", nMain, 2)
	// inside peersync: guard built from the policy parameter and handed to handler and poller
	nG := 0
	for _, fn := range prodFuncs(w) {
		if w.FnRel(fn) != "peersync" {
			continue
		}
		for _, ci := range an.Calls(fn) {
			if w.Info(ci).Static != newPG {
				continue
			}
			nG++
			_, isParam := c26strip(ci.Common().Args[0]).(*ssa.Parameter)
			switch {
			case isParam && isPolPtr(ci.Common().Args[0].Type()):
				c.OK("C26.R3", w.FuncName(fn)+" call NewPeerGuard policy", w.Pos(ci.Pos()), "guard built from the policy parameter")
			case an.IsNilConst(ci.Common().Args[0]):
				c.Bad("C26.R3", w.FuncName(fn)+" call NewPeerGuard policy", w.Pos(ci.Pos()), "the guard is not built from the policy handed to "+w.FuncName(fn)+": "+w.Term(ci.Common().Args[0]))
			default:
				ssp := w.Sources(ci.Common().Args[0], an.FlowOpts{})
				if ssp.OnlyFrom(func(s an.Src) bool { return s.Kind == "param" }) {
					c.OK("C26.R3", w.FuncName(fn)+" call NewPeerGuard policy", w.Pos(ci.Pos()), "guard built from a value derived from the parameters")
				} else {
					c.Unknown("C26.R3", w.FuncName(fn)+" call NewPeerGuard policy", w.Pos(ci.Pos()), "cannot trace the policy given to the guard to the policy handed to "+w.FuncName(fn)+": "+strings.Join(ssp.Names(), ","))
				}
			}
			// every PeerGuard-typed argument passed on in this function is that guard
			for _, oc := range an.Calls(fn) {
				if oc == ci {
					continue
				}
				for _, a := range oc.Common().Args {
					if !c26isNamed(a.Type(), "peersync", "PeerGuard", w) {
						continue
					}
					ss := w.Sources(a, an.FlowOpts{})
					fromGuard := ss.OnlyFrom(func(s an.Src) bool { return s.Kind == "call" && s.Call == ci.(*ssa.Call) })
					callee := w.Info(oc).Name
					gcons := w.FuncName(fn) + " guard passed to " + strings.TrimPrefix(callee, "func:")
					switch {
					case fromGuard:
						c.OK("C26.R3", gcons, w.Pos(oc.Pos()), "receives the guard built from the policy")
					case ss.OnlyFrom(func(s an.Src) bool { return s.Kind == "zero" || s.Kind == "const" }):
						c.Bad("C26.R3", gcons, w.Pos(oc.Pos()), "receives "+strings.Join(ss.Names(), ",")+" instead of the guard built from the policy")
					default:
						c.Unknown("C26.R3", gcons, w.Pos(oc.Pos()), "receives "+strings.Join(ss.Names(), ",")+"; cannot decide that it is the guard built from the policy")
					}
				}
			}
		}
	}
	c.AtLeast("C26.R3", "NewPeerGuard call sites in peersync", nG, 1)
	// the constructor keeps the policy: every store into a *policy.Policy-typed field of the
	// guard object it builds is classified by where the stored pointer comes from
	kept, snapshot, unclear := 0, "", ""
	for _, b := range newPG.Blocks {
		for _, in := range b.Instrs {
			st, ok := in.(*ssa.Store)
			if !ok {
				continue
			}
			fa, ok := st.Addr.(*ssa.FieldAddr)
			if !ok || !isPolPtr(st.Val.Type()) {
				continue
			}
			if _, onNew := fa.X.(*ssa.Alloc); !onNew {
				continue
			}
			v := c26strip(st.Val)
			switch y := v.(type) {
			case *ssa.Parameter:
				if isPolPtr(y.Type()) {
					kept++
				} else {
					unclear = w.Term(v)
				}
			case *ssa.Alloc:
				// the address of a local / new(Policy): a private copy
				snapshot = "the address of a policy value local to the constructor (" + c26allocOrigin(w, y) + ")"
			case *ssa.Const:
				if y.Value != nil {
					unclear = w.Term(v)
				}
			case *ssa.Call, *ssa.Extract:
				call, _ := y.(*ssa.Call)
				if ex, isEx := y.(*ssa.Extract); isEx {
					call, _ = ex.Tuple.(*ssa.Call)
				}
				if call != nil && c26returnsFresh(w, w.Info(call).Static, 0) {
					snapshot = "a freshly allocated policy returned by " + w.Term(v)
				} else {
					unclear = w.Term(v)
				}
			default:
				unclear = w.Term(v)
			}
		}
	}
	kcons := w.FuncName(newPG) + " keeps policy"
	switch {
	case snapshot != "":
		c.Bad("C26.R3", kcons, w.Pos(newPG.Pos()), "the guard keeps a snapshot of the policy, not the shared object: it stores "+snapshot+". Every reload overwrites the shared policy.Policy in place, so a peer quarantined at run time (or any later change of the suspicious list) is invisible to peer-sync, which keeps polling and answering it until the next restart")
	case unclear != "":
		c.Unknown("C26.R3", kcons, w.Pos(newPG.Pos()), "the guard stores "+unclear+" as its policy; cannot decide that it is the shared policy object handed to the constructor")
	case kept > 0:
		c.OK("C26.R3", kcons, w.Pos(newPG.Pos()), "the guard stores the policy parameter")
	default:
		// stored through a helper, an embedded struct, …: not interpreted
		c.Unknown("C26.R3", kcons, w.Pos(newPG.Pos()), "cannot see the guard constructor store its policy parameter in the guard's policy field")
	}
}

// c26allocOrigin describes what is stored into a local.
func c26allocOrigin(w *an.World, al *ssa.Alloc) string {
	if al.Referrers() != nil {
		for _, r := range *al.Referrers() {
			if st, ok := r.(*ssa.Store); ok && st.Addr == ssa.Value(al) {
				return "filled from " + w.Term(st.Val)
			}
		}
	}
	return "new object"
}

// c26returnsFresh: every non-nil pointer result of the in-module function is allocated in it.
func c26returnsFresh(w *an.World, f *ssa.Function, depth int) bool {
	if f == nil || !w.InModule(f) || f.Blocks == nil || depth > 2 {
		return false
	}
	n := 0
	for _, rc := range c26retCases(f, 0) {
		switch y := c26strip(rc.val).(type) {
		case *ssa.Alloc:
			n++
		case *ssa.Const:
			if y.Value != nil {
				return false
			}
		case *ssa.Call:
			if !c26returnsFresh(w, w.Info(y).Static, depth+1) {
				return false
			}
			n++
		default:
			return false
		}
	}
	return n > 0
}

// c26listAgrees: (*Policy).IsPeerSuspicious answers membership of its argument in
// exactly the list whose ini key (*Policy).AddToSuspiciousPeerList writes.
func c26listAgrees(c *an.Check, polT *types.Named) {
	w := c.W
	add := w.Method(polT, "AddToSuspiciousPeerList")
	is := w.Method(polT, "IsPeerSuspicious")
	st, ok := polT.Underlying().(*types.Struct)
	if add == nil || is == nil || !ok || add.Blocks == nil || is.Blocks == nil {
		c.Anchor("(*policy.Policy).AddToSuspiciousPeerList / IsPeerSuspicious do not resolve")
		return
	}
	// the written key
	keys := map[string]bool{}
	uninterpretedLine := false
	addKey := func(v ssa.Value) {
		if f, ok := an.ConstString(v); ok {
			if i := strings.Index(f, "="); i > 0 && (strings.TrimSpace(f[i+1:]) == "" || strings.TrimSpace(f[i+1:]) == "%s") {
				keys[strings.TrimSpace(f[:i])] = true
			}
		}
	}
	for _, b := range add.Blocks {
		for _, in := range b.Instrs {
			switch y := in.(type) {
			case *ssa.Call:
				if w.Info(y).Name == "func:fmt.Sprintf" && len(y.Call.Args) > 0 {
					if f, ok := c26sprintfConst(y); ok {
						addKey(ssa.NewConst(constant.MakeString(f), types.Typ[types.String]))
					} else {
						uninterpretedLine = true
					}
				}
			case *ssa.BinOp:
				if y.Op == token.ADD {
					addKey(y.X)
				}
			}
		}
	}
	cons := w.FuncName(is) + " reads the list " + add.Name() + " writes"
	if len(keys) != 1 {
		c.Unknown("C26.R3", cons, w.Pos(add.Pos()), fmt.Sprintf("cannot find the single `key=%%s` line written by %s (found %v)", w.FuncName(add), sortedKeys(keys)))
		return
	}
	key := sortedKeys(keys)[0]
	field := ""
	for i := 0; i < st.NumFields(); i++ {
		tag := reflect.StructTag(st.Tag(i))
		k := tag.Get("ini-name")
		if k == "" {
			k = tag.Get("long")
		}
		if k == key && tag.Get("no-ini") == "" {
			field = st.Field(i).Name()
		}
	}
	if field == "" {
		if uninterpretedLine || strings.ContainsAny(key, "% ") {
			c.Unknown("C26.R3", cons, w.Pos(add.Pos()), "the line written by the quarantine is not understood (key "+key+")")
			return
		}
		c.Bad("C26.R3", cons, w.Pos(add.Pos()), "the key "+key+" written by the quarantine is not the ini name of a Policy field")
		return
	}
	through := map[string]bool{}
	for _, ci := range an.Calls(is) {
		info := w.Info(ci)
		if info.Static != nil && !w.InModule(info.Static) && !strings.HasPrefix(info.Name, "func:(*sync.") {
			through[info.Name] = true
		}
	}
	got := map[string]bool{}
	param := false
	for _, r := range c26Returns(is) {
		v := r.Results[0]
		// deferred unlock: the result goes through a local
		ss := w.Sources(v, an.FlowOpts{ThroughCalls: through})
		for _, l := range ss.Leaves {
			switch l.Kind {
			case "field":
				got[l.Name] = true
			case "param":
				if l.Idx == 1 {
					param = true
				}
			case "const", "zero":
			default:
				got[l.String()] = true
			}
		}
	}
	want := "Policy." + field
	// an order-dependent lookup needs the list sorted wherever a policy object is published
	for _, ci := range an.Calls(is) {
		n := w.Info(ci).Name
		if an.HasPrefixAny(n, "func:slices.BinarySearch", "func:sort.Search", "func:sort.Find") {
			c26sortedWherePublished(c, polT, is, field, strings.TrimPrefix(n, "func:"))
			break
		}
	}
	otherList := false
	uninterpreted := false
	for g := range got {
		switch {
		case g == want:
		case strings.HasPrefix(g, "Policy."):
			otherList = true
		default:
			uninterpreted = true
		}
	}
	msg := fmt.Sprintf("the quarantine is written under ini key %s = %s, but the predicate is computed from %v (argument used: %v): recorded peers are not recognised", key, want, sortedKeys(got), param)
	switch {
	case len(got) == 1 && got[want] && param:
		c.OK("C26.R3", cons, w.Pos(is.Pos()), "membership of the argument in "+want+" (ini key "+key+")")
	case (otherList || !got[want]) && !uninterpreted:
		c.Bad("C26.R3", cons, w.Pos(is.Pos()), msg)
	default:
		c.Unknown("C26.R3", cons, w.Pos(is.Pos()), "cannot interpret how the predicate is computed: "+msg)
	}
}

// c26RetVal resolves result #idx of a return through the `*t0 = v; rundefers;
// t = *t0; return t` shape that functions with defers take in SSA.
func c26RetVal(r *ssa.Return, idx int) ssa.Value {
	v := r.Results[idx]
	ld, ok := v.(*ssa.UnOp)
	if !ok || ld.Op != token.MUL {
		return v
	}
	al, ok := ld.X.(*ssa.Alloc)
	if !ok {
		return v
	}
	var last ssa.Value
	for _, in := range r.Block().Instrs {
		if in == ssa.Instruction(ld) {
			break
		}
		if s, ok := in.(*ssa.Store); ok && s.Addr == al {
			last = s.Val
		}
	}
	if last != nil {
		return last
	}
	return v
}

// c26sprintfConst substitutes the constant string arguments of a fmt.Sprintf call
// whose verbs are all %s; the non-constant arguments stay as %s.
func c26sprintfConst(call *ssa.Call) (string, bool) {
	f, ok := an.ConstString(call.Call.Args[0])
	if !ok || strings.Count(f, "%") != strings.Count(f, "%s") {
		return "", false
	}
	if len(call.Call.Args) < 2 {
		return f, strings.Count(f, "%") == 0
	}
	sl, ok := call.Call.Args[1].(*ssa.Slice)
	if !ok {
		return "", false
	}
	al, ok := sl.X.(*ssa.Alloc)
	if !ok || al.Referrers() == nil {
		return "", false
	}
	vals := map[int64]ssa.Value{}
	for _, ref := range *al.Referrers() {
		if ia, ok := ref.(*ssa.IndexAddr); ok && ia.Referrers() != nil {
			i, isC := an.ConstInt(ia.Index)
			for _, rr := range *ia.Referrers() {
				if st, ok := rr.(*ssa.Store); ok && st.Addr == ia {
					if _, dup := vals[i]; dup || !isC {
						return "", false
					}
					vals[i] = st.Val
				}
			}
		}
	}
	if len(vals) != strings.Count(f, "%s") {
		return "", false
	}
	var sb strings.Builder
	rest := f
	for i := int64(0); ; i++ {
		j := strings.Index(rest, "%s")
		if j < 0 {
			sb.WriteString(rest)
			break
		}
		sb.WriteString(rest[:j])
		rest = rest[j+2:]
		v := vals[i]
		if mi, ok := v.(*ssa.MakeInterface); ok {
			v = mi.X
		}
		if cs, ok := an.ConstString(v); ok && !strings.Contains(cs, "%") {
			sb.WriteString(cs)
		} else {
			sb.WriteString("%s")
		}
	}
	return sb.String(), true
}

// c26quarantineLineKept: every rewrite of the policy file issued by a *Policy
// method deletes lines matched on an ini key; a rewrite that is handed only the
// bare pubkey (and whose helper knows no key either) deletes the peer's
// suspicious_peers line together with whatever it meant to delete.
func c26quarantineLineKept(c *an.Check, polT *types.Named) {
	w := c.W
	st, ok := polT.Underlying().(*types.Struct)
	if !ok {
		return
	}
	iniKeys := map[string]bool{}
	for i := 0; i < st.NumFields(); i++ {
		tag := reflect.StructTag(st.Tag(i))
		k := tag.Get("ini-name")
		if k == "" {
			k = tag.Get("long")
		}
		if k != "" {
			iniKeys[k] = true
		}
	}
	rewrites := func(h *ssa.Function) bool {
		if h == nil || !w.InModule(h) || h.Blocks == nil || h.Signature.Recv() != nil {
			return false
		}
		for _, e := range w.Summary(h).Effects {
			if e.Name == "func:os.WriteFile" || e.Name == "func:os.Rename" {
				return true
			}
		}
		return false
	}
	n := 0
	for _, fn := range prodFuncs(w) {
		if w.FnRel(fn) != "policy" || fn.Parent() != nil || fn.Signature.Recv() == nil || an.NamedOf(fn.Signature.Recv().Type()) == nil || an.NamedOf(fn.Signature.Recv().Type()).Obj() != polT.Obj() {
			continue
		}
		for _, ci := range an.Calls(fn) {
			call, isCall := ci.(*ssa.Call)
			h := w.Info(ci).Static
			if !isCall || !rewrites(h) {
				continue
			}
			for _, a := range call.Call.Args {
				bt, isB := a.Type().Underlying().(*types.Basic)
				if !isB || bt.Kind() != types.String {
					continue
				}
				if d := c26resolve(a, nil, 0); len(d.chain) == 1 && d.chain[0] == "Policy.path" {
					continue
				}
				n++
				cons := w.FuncName(fn) + " rewrite keeps the quarantine line"
				line := ""
				switch y := c26strip(a).(type) {
				case *ssa.Const:
					line, _ = an.ConstString(y)
				case *ssa.Call:
					if w.Info(y).Name == "func:fmt.Sprintf" {
						line, _ = c26sprintfConst(y)
					}
				case *ssa.BinOp:
					if y.Op == token.ADD {
						line, _ = an.ConstString(y.X)
					}
				}
				key := ""
				if i := strings.Index(line, "="); i > 0 {
					key = strings.TrimSpace(line[:i])
				}
				if iniKeys[key] {
					c.OK("C26.R3", cons, w.Pos(ci.Pos()), "the deleted line is `"+key+"=…`: matched on the ini key (that the helper compares the whole line is C25.R3)")
					continue
				}
				if _, bare := c26strip(a).(*ssa.Parameter); !bare {
					c.Unknown("C26.R3", cons, w.Pos(ci.Pos()), "the line handed to "+w.FuncName(h)+" is not understood: "+w.Term(a))
					continue
				}
				// bare parameter: does the helper know a key?
				seen := map[*ssa.Function]bool{}
				var keyConsts []string
				var walk func(f *ssa.Function, depth int)
				walk = func(f *ssa.Function, depth int) {
					if f == nil || seen[f] || f.Blocks == nil || !w.InModule(f) || depth > 4 {
						return
					}
					seen[f] = true
					for _, b := range f.Blocks {
						for _, in := range b.Instrs {
							switch z := in.(type) {
							case *ssa.MakeClosure:
								if g, ok := z.Fn.(*ssa.Function); ok {
									walk(g, depth+1)
								}
							case ssa.CallInstruction:
								walk(w.Info(z).Static, depth+1)
							}
							for _, op := range in.Operands(nil) {
								if *op == nil {
									continue
								}
								if cs, ok := an.ConstString(*op); ok {
									for k := range iniKeys {
										if strings.Contains(cs, k) {
											keyConsts = append(keyConsts, cs)
										}
									}
								}
							}
						}
					}
				}
				walk(h, 0)
				if len(keyConsts) == 0 {
					c.Bad("C26.R3", cons, w.Pos(ci.Pos()), "the rewrite is handed only the bare pubkey and "+w.FuncName(h)+" contains no ini key: it deletes every line of that peer, including its suspicious_peers line — an unrelated policy operation lifts the quarantine, also after a restart")
				} else {
					sort.Strings(keyConsts)
					c.Unknown("C26.R3", cons, w.Pos(ci.Pos()), fmt.Sprintf("the rewrite is handed only the bare pubkey; %s contains the key constant(s) %v but how they enter the match is not analysed", w.FuncName(h), keyConsts))
				}
			}
		}
	}
	c.AtLeast("C26.R3", "policy-file rewrites issued by *Policy methods", n, 1)
}

// c26sortedWherePublished: the predicate finds its argument with an order-dependent
// lookup. That is membership only if the list is sorted in every policy object that
// is published: the object handed out by an exported constructor of package policy
// and the value copied over the live object by a whole-object overwrite. An object
// that was filled by the ini parser and is published without a sort of that field
// after the parse is a violation (file order is arbitrary).
func c26sortedWherePublished(c *an.Check, polT *types.Named, pred *ssa.Function, field, lookup string) {
	w := c.W
	isPolPtr := func(t types.Type) bool {
		p, ok := t.Underlying().(*types.Pointer)
		return ok && types.Identical(p.Elem(), polT)
	}
	parses := func(f *ssa.Function) bool {
		if f == nil || !w.InModule(f) || f.Blocks == nil {
			return false
		}
		for _, e := range w.Summary(f).Effects {
			if strings.HasSuffix(e.Name, "go-flags.IniParser).Parse") {
				return true
			}
		}
		return false
	}
	// sort calls on field `field` of object obj inside fn
	sortsOf := func(fn *ssa.Function, obj ssa.Value) []ssa.Instruction {
		var out []ssa.Instruction
		for _, ci := range an.Calls(fn) {
			n := w.Info(ci).Name
			if !an.HasPrefixAny(n, "func:slices.Sort", "func:sort.Strings", "func:sort.Slice", "func:sort.Sort", "func:sort.Stable") || len(ci.Common().Args) == 0 {
				continue
			}
			d := c26resolve(ci.Common().Args[0], nil, 0)
			if len(d.chain) == 1 && d.chain[0] == "Policy."+field && c26strip(d.root) == c26strip(obj) {
				out = append(out, ci)
			}
		}
		return out
	}
	var sortedResult func(f *ssa.Function, depth int) (string, string)
	// judge: object obj (a *Policy value in fn) is published at instruction pub
	judge := func(fn *ssa.Function, obj ssa.Value, pub ssa.Instruction, depth int) (string, string) {
		obj = c26strip(obj)
		if k, isC := obj.(*ssa.Const); isC && k.Value == nil {
			return "ok", "nil"
		}
		if an.MustPassInstr(pub, sortsOf(fn, obj)) {
			return "ok", "sorted in " + w.FuncName(fn)
		}
		var call *ssa.Call
		switch y := obj.(type) {
		case *ssa.Call:
			call = y
		case *ssa.Extract:
			call, _ = y.Tuple.(*ssa.Call)
		case *ssa.Alloc:
			// a literal: the list is whatever is stored; an empty/one-element literal is sorted
			if v, ok := an.CompositeFieldValue(y, field); ok {
				if c26trivialList(w, v) {
					return "ok", "literal with at most one element"
				}
				return "unknown", "the list of the literal built in " + w.FuncName(fn) + " is " + w.Term(v)
			}
			if parses(fn) {
				return "bad", w.FuncName(fn) + " fills the object with the ini parser and publishes it without sorting Policy." + field
			}
			return "ok", "literal that leaves the list empty"
		}
		if call == nil {
			return "unknown", "origin of the published object in " + w.FuncName(fn) + " not understood: " + w.Term(obj)
		}
		// the object is handed to the ini parser here (flags.NewParser(obj, …).Parse(r)) and not sorted afterwards
		if parses(fn) && !parses(w.Info(call).Static) {
			escapes := false
			if obj.Referrers() != nil {
				for _, r := range *obj.Referrers() {
					switch y := r.(type) {
					case ssa.CallInstruction:
						escapes = true
					case *ssa.MakeInterface:
						if y.Referrers() != nil {
							for _, r2 := range *y.Referrers() {
								if _, ok := r2.(ssa.CallInstruction); ok {
									escapes = true
								}
							}
						}
					}
				}
			}
			if escapes {
				return "bad", w.FuncName(fn) + " fills the object with the ini parser and publishes it without sorting Policy." + field
			}
		}
		g := w.Info(call).Static
		if g == nil || !w.InModule(g) || depth > 2 {
			return "unknown", "the published object comes from " + w.Term(obj)
		}
		v, why := sortedResult(g, depth+1)
		if v == "bad" {
			return "bad", w.FuncName(fn) + " publishes the object returned by " + w.FuncName(g) + " without sorting Policy." + field + " (" + why + ")"
		}
		return v, why
	}
	sortedResult = func(f *ssa.Function, depth int) (string, string) {
		res, why := "ok", "every result of "+w.FuncName(f)+" is sorted"
		for _, r := range c26Returns(f) {
			if len(r.Results) == 0 || !isPolPtr(r.Results[0].Type()) {
				continue
			}
			for _, rc := range c26expandPhi(c26RetVal(r, 0), r.Block(), nil, 0) {
				v, y := judge(f, rc.val, r, depth)
				if v == "bad" {
					return "bad", y
				}
				if v != "ok" {
					res, why = "unknown", y
				}
			}
		}
		return res, why
	}
	n := 0
	for _, fn := range prodFuncs(w) {
		if w.FnRel(fn) != "policy" || fn.Parent() != nil {
			continue
		}
		cons := w.FuncName(fn) + " publishes Policy." + field + " sorted"
		report := func(v, why, pos string) {
			n++
			switch v {
			case "ok":
				c.OK("C26.R3", cons, pos, "sorted before publication: "+why)
			case "bad":
				c.Bad("C26.R3", cons, pos, fmt.Sprintf("%s decides with %s, which needs Policy.%s in ascending order, but %s: the list is in file order, the search misses listed peers and a quarantined peer is treated as clean (two recorded peers not in ascending order suffice)", w.FuncName(pred), lookup, field, why))
			default:
				c.Unknown("C26.R3", cons, pos, fmt.Sprintf("%s decides with %s, which needs Policy.%s sorted; cannot decide for this publication: %s", w.FuncName(pred), lookup, field, why))
			}
		}
		// exported constructors
		if c26exported(fn) && fn.Signature.Recv() == nil && fn.Signature.Results().Len() > 0 && isPolPtr(fn.Signature.Results().At(0).Type()) {
			v, why := sortedResult(fn, 0)
			report(v, why, w.Pos(fn.Pos()))
		}
		// whole-object overwrite of a live object
		for _, b := range fn.Blocks {
			for _, in := range b.Instrs {
				st, ok := in.(*ssa.Store)
				if !ok || !isPolPtr(st.Addr.Type()) || !types.Identical(st.Val.Type(), polT) {
					continue
				}
				if _, fresh := st.Addr.(*ssa.Alloc); fresh {
					continue
				}
				ld, isLd := st.Val.(*ssa.UnOp)
				if !isLd || ld.Op != token.MUL {
					report("unknown", "overwrites the live object with "+w.Term(st.Val), w.Pos(st.Pos()))
					continue
				}
				v, why := judge(fn, ld.X, st, 0)
				report(v, why, w.Pos(st.Pos()))
			}
		}
		// direct assignment of the list on a live object
		for _, st := range w.FieldWriters("Policy." + field) {
			if st.Parent() != fn {
				continue
			}
			if fa, ok := st.Addr.(*ssa.FieldAddr); ok && isPolPtr(fa.X.Type()) {
				if _, fresh := fa.X.(*ssa.Alloc); !fresh {
					report("unknown", "assigns the list directly: "+w.Term(st.Val), w.Pos(st.Pos()))
				}
			}
		}
	}
	c.AtLeast("C26.R3", "publication points of policy objects", n, 2)
}

// c26trivialList: nil, or a package variable initialised once with a literal of at most one element.
func c26trivialList(w *an.World, v ssa.Value) bool {
	v = c26strip(v)
	if an.IsNilConst(v) {
		return true
	}
	ld, ok := v.(*ssa.UnOp)
	if !ok || ld.Op != token.MUL {
		return false
	}
	g, ok := ld.X.(*ssa.Global)
	if !ok {
		return false
	}
	n, small := 0, false
	for _, fn := range w.SrcFuncs(nil) {
		for _, b := range fn.Blocks {
			for _, in := range b.Instrs {
				st, ok := in.(*ssa.Store)
				if !ok || st.Addr != ssa.Value(g) {
					continue
				}
				n++
				if sl, ok := st.Val.(*ssa.Slice); ok {
					if al, ok := sl.X.(*ssa.Alloc); ok {
						if pt, ok := al.Type().Underlying().(*types.Pointer); ok {
							if at, ok := pt.Elem().Underlying().(*types.Array); ok && at.Len() <= 1 {
								small = true
							}
						}
					}
				}
			}
		}
	}
	return n == 1 && small
}
