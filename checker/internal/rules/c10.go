package rules

import (
	"fmt"
	"go/token"
	"go/types"
	"sort"
	"strings"

	"golang.org/x/tools/go/ssa"

	"psv/internal/an"
)

// C10 — at most one active swap per channel.
//
// The gate is SwapService.lockSwap. Its parameters are told apart by what the
// map insert does with them (key = id, value = machine, the remaining string =
// channel); scid normalisers are recognised by what they compute
// (strings.ReplaceAll between ':' and 'x'), not by name.

func init() {
	Register(&Prop{
		ID:   "C10",
		Expl: "Decides on SSA and the VTA call graph: (R1) activeSwaps is only ever assigned a fresh map and only inserted into by lockSwap; the conflict edge of every channel test in lockSwap cannot reach the insert and returns a non-nil error; every scan of the active swaps for the channel (in lockSwap or in a scan helper, whether or not the helper's answers are understood) and the insert lie behind one and the same acquisition of the service write lock with no release in between — a scan helper that takes the service lock itself, a scan before the acquisition, or an explicit unlock between scan and insert is a violation; every SendEvent/Recover outside the state machine's own methods is applied either to a machine taken from activeSwaps or to the very machine that the same function passed to lockSwap (or to a wrapper that succeeds only behind lockSwap's success edge), behind the success edge, and lockSwap is always given <machine>.SwapId.String() as key; (R2) both operands of every channel test in lockSwap (an == comparison, a norm(a)==norm(b) helper, or a lookup in a channel-keyed map whose inserts are examined too) are results of a scid normaliser (strings.ReplaceAll / Replace / a strings.Replacer built from exactly that pair between ':' and 'x', or any module function that returns only such results: Scid.ClnStyle/LndStyle, GetScidInBoltFormat; a value produced by a call that is not understood makes the rule undecided, not violated) of one and the same spelling, followed through all call sites of lockSwap; (R3) the channel of an existing entry that the test reads is a field or map written only by lockSwap (or a setter called only by lockSwap) from its channel parameter — not read from SwapData, which ApplyToSwapData fills later under another lock; (R4) below OnMessageReceived, every path from the error edge of lockSwap to a return sends MarshalPeerswapMessage(&CancelMessage{SwapId: requested id}) to the requesting peer (directly or through a helper that does so on all its paths), or hands the refusal up to a caller that does; (R5) every release of an activeSwaps entry (delete, or a call of a function that deletes its parameter) outside dead code is dominated by done == true of a SendEvent/Recover on the machine whose id (or activeSwaps lookup key) is released, also when machine and done flag are passed to a helper or the release sits in an unconditional helper whose callers are then examined. Quantifier: all call sites, all CFG paths, all call-graph callers.",
		NotD: "Whether the loop in lockSwap visits every entry (only the edges of the comparison are examined); run-time interleavings of two lockSwap callers beyond the fact that scan and insert sit in one critical section of the service lock; that a swap for which SendEvent returned done is terminal (C16) and that every terminal swap is eventually released (a leaked entry only over-blocks); channel ids that differ in more than the separator; the RPC front ends (peerswaprpc/server.go passes the ':' spelling, clightning_commands.go the 'x' spelling — they are reported as sources of the unnormalised operand, not checked themselves).",
		Run:  runC10,
	})
}

const (
	c10ActiveMap = "SwapService.activeSwaps"
	c10Send      = "iface:swap.Messenger.SendMessage"
)

type c10Ctx struct {
	c *an.Check
	w *an.World

	lockSwap, sendEvent, recoverFn, root, idString, marshal *ssa.Function
	tSM, tData, tId, tCancel, tSvc                          *types.Named

	idP, fsmP, chanP *ssa.Parameter

	normFns map[*ssa.Function]string // generic normaliser functions -> style ("x" or ":")
	through map[string]bool          // CallInfo names to look through when asking where a channel key comes from

	chanAlias  map[ssa.Value]bool // parameters of scan helpers that receive the (derived) channel
	scans      []c10Scan          // every scan found in lockSwap, also those whose answer shape is not understood
	lookupFns  map[*ssa.Function]int
	releaseFns map[*ssa.Function]int
	lockers    map[*ssa.Function]int // lockSwap and wrappers that succeed only behind its success edge -> machine parameter index
}

func runC10(c *an.Check) {
	c.Rule("C10.R1", "single gate: activeSwaps is inserted into only by lockSwap, whose conflict edge refuses; events go only to machines from activeSwaps or to the machine just locked in (success edge, own id)")
	c.Rule("C10.R2", "both operands of the channel test in lockSwap are scid-normalised to the same spelling")
	c.Rule("C10.R3", "the channel key of an existing entry is fixed by lockSwap at insertion, not read from SwapData")
	c.Rule("C10.R4", "request handlers answer a lockSwap refusal with a CancelMessage for the requested id to the requesting peer on every path")
	c.Rule("C10.R5", "activeSwaps entries are released only behind done == true of SendEvent/Recover on the same machine")

	w := c.W
	x := &c10Ctx{c: c, w: w, normFns: map[*ssa.Function]string{}, through: map[string]bool{}, lookupFns: map[*ssa.Function]int{}, releaseFns: map[*ssa.Function]int{}}
	if !needEffects(c, c10Send) {
		return
	}
	need := func(name string) *ssa.Function {
		fn := w.Func("swap", name)
		if fn == nil || fn.Blocks == nil {
			c.Anchor("function swap.%s does not resolve", name)
			return nil
		}
		return fn
	}
	x.lockSwap = c10FindGate(w) // by structure: the function that inserts a parameter into activeSwaps
	if x.lockSwap == nil {
		c.Anchor("no function of package swap performs `SwapService.activeSwaps[param] = param` (lockSwap)")
	}
	x.sendEvent = need("(*SwapStateMachine).SendEvent")
	x.recoverFn = need("(*SwapStateMachine).Recover")
	x.root = need("(*SwapService).OnMessageReceived")
	x.idString = need("(*SwapId).String")
	x.marshal = need("MarshalPeerswapMessage")
	x.tSM, x.tData, x.tId = w.Named("swap", "SwapStateMachine"), w.Named("swap", "SwapData"), w.Named("swap", "SwapId")
	x.tCancel, x.tSvc = w.Named("swap", "CancelMessage"), w.Named("swap", "SwapService")
	if x.tSM == nil || x.tData == nil || x.tId == nil || x.tCancel == nil || x.tSvc == nil {
		c.Anchor("types swap.SwapStateMachine / SwapData / SwapId / CancelMessage / SwapService do not resolve")
	}
	if len(c.Anchors) > 0 {
		return
	}
	if !x.lockParams() {
		return
	}
	x.findNormalisers()
	x.findMapFns()
	x.addLookupWrappers()
	x.findLockers()

	x.ruleR1()
	x.ruleR2R3()
	x.ruleR4()
	x.ruleR5()
}

// c10FindGate: the unique production function of package swap that inserts a
// parameter under a parameter key into SwapService.activeSwaps (lockSwap).
func c10FindGate(w *an.World) *ssa.Function {
	var found []*ssa.Function
	for _, fn := range prodFuncs(w) {
		if w.FnRel(fn) != "swap" {
			continue
		}
		for _, b := range fn.Blocks {
			for _, in := range b.Instrs {
				if mu, ok := in.(*ssa.MapUpdate); ok && c10IsActiveMap(mu.Map) {
					_, kp := c10Strip(mu.Key).(*ssa.Parameter)
					_, vp := c10Strip(mu.Value).(*ssa.Parameter)
					if kp && vp {
						found = append(found, fn)
					}
				}
			}
		}
	}
	if len(found) == 1 {
		return found[0]
	}
	if fn := w.Func("swap", "(*SwapService).lockSwap"); fn != nil && fn.Blocks != nil {
		return fn
	}
	return nil
}

// ---- helpers --------------------------------------------------------------------

func c10Strip(v ssa.Value) ssa.Value {
	for i := 0; i < 32; i++ {
		switch y := v.(type) {
		case *ssa.ChangeType:
			v = y.X
		case *ssa.MakeInterface:
			v = y.X
		case *ssa.ChangeInterface:
			v = y.X
		case *ssa.Convert:
			// string(Scid) / Scid(string): same characters
			if c10IsString(y.Type()) && c10IsString(y.X.Type()) {
				v = y.X
				continue
			}
			return v
		case *ssa.UnOp:
			// a variable captured by a closure lives in a cell that is assigned once
			if al, ok := y.X.(*ssa.Alloc); ok && y.Op == token.MUL && al.Referrers() != nil {
				var st []ssa.Value
				for _, r := range *al.Referrers() {
					if s, ok := r.(*ssa.Store); ok && s.Addr == ssa.Value(al) {
						st = append(st, s.Val)
					}
				}
				if len(st) == 1 {
					v = st[0]
					continue
				}
			}
			return v
		case *ssa.Phi:
			var one ssa.Value
			for _, e := range y.Edges {
				s := c10Strip(e)
				if one == nil {
					one = s
				} else if one != s {
					return v
				}
			}
			if one == nil {
				return v
			}
			v = one
		default:
			return v
		}
	}
	return v
}

func c10IsString(t types.Type) bool {
	b, ok := t.Underlying().(*types.Basic)
	return ok && b.Kind() == types.String
}

func c10ParamIndex(p *ssa.Parameter) int {
	for i, q := range p.Parent().Params {
		if q == p {
			return i
		}
	}
	return -1
}

func c10FieldLoad(v ssa.Value) (*ssa.FieldAddr, string) {
	u, ok := c10Strip(v).(*ssa.UnOp)
	if !ok || u.Op != token.MUL {
		return nil, ""
	}
	fa, ok := u.X.(*ssa.FieldAddr)
	if !ok {
		return nil, ""
	}
	return fa, an.FieldName(fa.X.Type(), fa.Field)
}

func c10IsActiveMap(v ssa.Value) bool {
	_, n := c10FieldLoad(v)
	return n == c10ActiveMap
}

func (x *c10Ctx) isPtrTo(t types.Type, n *types.Named) bool {
	p, ok := t.(*types.Pointer)
	if !ok {
		return false
	}
	m, ok := p.Elem().(*types.Named)
	return ok && m.Obj() == n.Obj()
}

func (x *c10Ctx) fname(fn *ssa.Function) string {
	return strings.TrimPrefix(x.w.FuncName(fn), "swap.")
}

func (x *c10Ctx) lockParams() bool {
	fn := x.lockSwap
	for _, b := range fn.Blocks {
		for _, in := range b.Instrs {
			mu, ok := in.(*ssa.MapUpdate)
			if !ok || !c10IsActiveMap(mu.Map) {
				continue
			}
			if p, ok := c10Strip(mu.Key).(*ssa.Parameter); ok {
				x.idP = p
			}
			if p, ok := c10Strip(mu.Value).(*ssa.Parameter); ok {
				x.fsmP = p
			}
		}
	}
	if x.idP == nil || x.fsmP == nil {
		x.c.Anchor("lockSwap: no `activeSwaps[idParam] = machineParam` insert found")
		return false
	}
	for i, p := range fn.Params {
		if i == 0 || p == x.idP || p == x.fsmP {
			continue
		}
		if c10IsString(p.Type()) {
			if x.chanP != nil {
				x.c.Anchor("lockSwap has more than one candidate channel parameter")
				return false
			}
			x.chanP = p
		}
	}
	if x.chanP == nil {
		x.c.Anchor("lockSwap has no channel parameter")
		return false
	}
	return true
}

// replaceStyle: call is strings.ReplaceAll(s, ":", "x") ("x") or (s, "x", ":") (":"),
// or strings.Replace(…, -1).
func (x *c10Ctx) replaceStyle(call *ssa.Call) (ssa.Value, string, bool) {
	ci := x.w.Info(call)
	a := call.Call.Args
	switch {
	case ci.Name == "func:strings.ReplaceAll" && len(a) == 3:
	case ci.Name == "func:strings.Replace" && len(a) == 4:
		if n, ok := an.ConstInt(a[3]); !ok || n >= 0 {
			return nil, "", false
		}
	case ci.Name == "func:(*strings.Replacer).Replace" && len(a) == 2:
		// receiver: strings.NewReplacer(old, new), directly or through a package variable
		if pairs, ok := x.replacerPairs(a[0]); ok && len(pairs) == 2 {
			switch {
			case pairs[0] == ":" && pairs[1] == "x":
				return a[1], "x", true
			case pairs[0] == "x" && pairs[1] == ":":
				return a[1], ":", true
			}
		}
		return nil, "", false
	default:
		return nil, "", false
	}
	o, ok1 := an.ConstString(a[1])
	n, ok2 := an.ConstString(a[2])
	if !ok1 || !ok2 {
		return nil, "", false
	}
	switch {
	case o == ":" && n == "x":
		return a[0], "x", true
	case o == "x" && n == ":":
		return a[0], ":", true
	}
	return nil, "", false
}

// replacerPairs: the constant arguments of the strings.NewReplacer call that
// produced v (v is the call itself or a load of a package variable that is
// assigned exactly once, in the package initialiser, from such a call).
func (x *c10Ctx) replacerPairs(v ssa.Value) ([]string, bool) {
	v = c10Strip(v)
	if u, ok := v.(*ssa.UnOp); ok && u.Op == token.MUL {
		g, ok := u.X.(*ssa.Global)
		if !ok {
			return nil, false
		}
		var stored []ssa.Value
		seenSt := map[*ssa.Store]bool{}
		fns := x.w.SrcFuncs(nil)
		if g.Pkg != nil {
			if ini := g.Pkg.Func("init"); ini != nil {
				fns = append(fns, ini)
			}
		}
		for _, fn := range fns {
			for _, b := range fn.Blocks {
				for _, in := range b.Instrs {
					if st, ok := in.(*ssa.Store); ok && st.Addr == ssa.Value(g) && !seenSt[st] {
						seenSt[st] = true
						stored = append(stored, st.Val)
					}
				}
			}
		}
		if len(stored) != 1 {
			return nil, false
		}
		v = c10Strip(stored[0])
	}
	call, ok := v.(*ssa.Call)
	if !ok || x.w.Info(call).Name != "func:strings.NewReplacer" || len(call.Call.Args) != 1 {
		return nil, false
	}
	sl, ok := call.Call.Args[0].(*ssa.Slice)
	if !ok {
		return nil, false
	}
	al, ok := sl.X.(*ssa.Alloc)
	if !ok || al.Referrers() == nil {
		return nil, false
	}
	out := map[int64]string{}
	for _, r := range *al.Referrers() {
		ia, ok := r.(*ssa.IndexAddr)
		if !ok || ia.Referrers() == nil {
			continue
		}
		idx, ok := an.ConstInt(ia.Index)
		if !ok {
			return nil, false
		}
		for _, rr := range *ia.Referrers() {
			if st, ok := rr.(*ssa.Store); ok && st.Addr == ssa.Value(ia) {
				cs, ok := an.ConstString(st.Val)
				if !ok {
					return nil, false
				}
				out[idx] = cs
			}
		}
	}
	res := make([]string, len(out))
	for i := range res {
		sv, ok := out[int64(i)]
		if !ok {
			return nil, false
		}
		res[i] = sv
	}
	return res, true
}

// normCall: call normalises a scid; style is the separator of the result.
func (x *c10Ctx) normCall(call *ssa.Call) (string, bool) {
	if _, st, ok := x.replaceStyle(call); ok {
		return st, true
	}
	if g := call.Common().StaticCallee(); g != nil {
		if st, ok := x.normFns[g]; ok {
			return st, true
		}
	}
	return "", false
}

// findNormalisers: module functions returning one string whose every result is
// "" or a ReplaceAll between the separators (directly or through another
// normaliser), all of one spelling.
func (x *c10Ctx) findNormalisers() {
	w := x.w
	cands := []*ssa.Function{}
	for _, fn := range prodFuncs(w) {
		res := fn.Signature.Results()
		if res.Len() == 1 && c10IsString(res.At(0).Type()) && fn.Parent() == nil {
			cands = append(cands, fn)
		}
	}
	for round := 0; round < 2; round++ {
		for _, fn := range cands {
			if _, done := x.normFns[fn]; done {
				continue
			}
			style, ok := "", true
			n := 0
			for _, r := range an.Returns(fn) {
				v := c10Strip(r.Results[0])
				if s, isC := an.ConstString(v); isC && s == "" {
					continue
				}
				call, isCall := v.(*ssa.Call)
				if !isCall {
					ok = false
					break
				}
				st, isN := x.normCall(call)
				if !isN || (style != "" && st != style) {
					ok = false
					break
				}
				style = st
				n++
			}
			if ok && n > 0 {
				x.normFns[fn] = style
			}
		}
	}
	x.through["func:strings.ReplaceAll"] = true
	x.through["func:strings.Replace"] = true
	for fn := range x.normFns {
		x.through["func:"+w.FuncName(fn)] = true
	}
}

// findMapFns: functions that look up / delete an activeSwaps entry keyed by a parameter.
func (x *c10Ctx) findMapFns() {
	for _, fn := range prodFuncs(x.w) {
		if x.w.FnRel(fn) != "swap" || fn == x.lockSwap {
			continue
		}
		for _, b := range fn.Blocks {
			for _, in := range b.Instrs {
				switch y := in.(type) {
				case *ssa.Lookup:
					if c10IsActiveMap(y.X) {
						if p, ok := c10Strip(y.Index).(*ssa.Parameter); ok {
							x.lookupFns[fn] = c10ParamIndex(p)
						}
					}
				case *ssa.Call:
					if x.w.Info(y).Name == "builtin:delete" && len(y.Call.Args) == 2 && c10IsActiveMap(y.Call.Args[0]) {
						if p, ok := c10Strip(y.Call.Args[1]).(*ssa.Parameter); ok {
							x.releaseFns[fn] = c10ParamIndex(p)
						}
					}
				}
			}
		}
	}
}

// addLookupWrappers: a function that returns result #0 of a lookup function
// called with one of its own parameters as key is a lookup function as well.
func (x *c10Ctx) addLookupWrappers() {
	for round := 0; round < 2; round++ {
		for _, g := range prodFuncs(x.w) {
			if _, done := x.lookupFns[g]; done || x.w.FnRel(g) != "swap" || g == x.lockSwap {
				continue
			}
			for _, ci := range an.Calls(g) {
				k, ok := ci.(*ssa.Call)
				if !ok {
					continue
				}
				ki, isL := x.lookupFns[k.Common().StaticCallee()]
				if !isL || ki >= len(k.Call.Args) {
					continue
				}
				p, isP := c10Strip(k.Call.Args[ki]).(*ssa.Parameter)
				if !isP || p.Parent() != g {
					continue
				}
				for _, r := range an.Returns(g) {
					for _, rv := range r.Results {
						if ex, isEx := c10Strip(rv).(*ssa.Extract); isEx && ex.Tuple == ssa.Value(k) && ex.Index == 0 {
							x.lookupFns[g] = c10ParamIndex(p)
						}
					}
				}
			}
		}
	}
}

// findLockers: lockSwap plus the functions that pass their machine parameter to
// a locker and can return a nil error only behind that call's success edge.
func (x *c10Ctx) findLockers() {
	x.lockers = map[*ssa.Function]int{x.lockSwap: c10ParamIndex(x.fsmP)}
	for round := 0; round < 2; round++ {
		for _, g := range prodFuncs(x.w) {
			if _, done := x.lockers[g]; done || x.w.FnRel(g) != "swap" || g.Parent() != nil {
				continue
			}
			for _, ci := range an.Calls(g) {
				k, ok := ci.(*ssa.Call)
				if !ok {
					continue
				}
				mi, isL := x.lockers[k.Common().StaticCallee()]
				if !isL || mi >= len(k.Call.Args) {
					continue
				}
				p, isP := c10Strip(k.Call.Args[mi]).(*ssa.Parameter)
				if !isP || p.Parent() != g {
					continue
				}
				okE, _ := an.OkEdges(k)
				all := len(okE) > 0
				for _, r := range an.Returns(g) {
					if c10RetErr(r) == "nonnil" {
						continue
					}
					// the error of the locker handed up under err != nil is non-nil as well
					handsUp := false
					_, failE := an.OkEdges(k)
					for _, ev := range an.ResultValues(k, an.ErrResultIndex(k)) {
						for _, res := range r.Results {
							if res == ev {
								for _, fe := range failE {
									if an.EdgeDominates(fe, r.Block()) {
										handsUp = true
									}
								}
							}
						}
					}
					if handsUp {
						continue
					}
					dom := false
					for _, e := range okE {
						if an.EdgeDominates(e, r.Block()) {
							dom = true
						}
					}
					if !dom {
						all = false
					}
				}
				if all {
					x.lockers[g] = c10ParamIndex(p)
				}
			}
		}
	}
}

// fromActiveMap: machine value m is an activeSwaps entry.
func (x *c10Ctx) fromActiveMap(m ssa.Value) bool {
	m = c10Strip(m)
	if ph, ok := m.(*ssa.Phi); ok {
		for _, e := range ph.Edges {
			if e == ssa.Value(ph) || !x.fromActiveMap(e) {
				return false
			}
		}
		return len(ph.Edges) > 0
	}
	var tuple ssa.Value = m
	if ex, ok := m.(*ssa.Extract); ok {
		tuple = ex.Tuple
	}
	switch t := tuple.(type) {
	case *ssa.Call:
		if g := t.Common().StaticCallee(); g != nil {
			_, ok := x.lookupFns[g]
			return ok
		}
	case *ssa.Lookup:
		return c10IsActiveMap(t.X)
	case *ssa.Next:
		if rg, ok := t.Iter.(*ssa.Range); ok {
			return c10IsActiveMap(rg.X)
		}
	}
	return false
}

// isIdString: v is <some *SwapId>.String().
func (x *c10Ctx) isIdString(v ssa.Value) bool {
	call, ok := c10Strip(v).(*ssa.Call)
	return ok && call.Common().StaticCallee() == x.idString
}

func (x *c10Ctx) isParam(v ssa.Value) bool {
	_, ok := c10Strip(v).(*ssa.Parameter)
	return ok
}

// ownId: v is <m>.SwapId.String(); returns m.
func (x *c10Ctx) ownId(v ssa.Value) (ssa.Value, bool) {
	call, ok := c10Strip(v).(*ssa.Call)
	if !ok || call.Common().StaticCallee() != x.idString || len(call.Call.Args) != 1 {
		return nil, false
	}
	fa, name := c10FieldLoad(call.Call.Args[0])
	if fa == nil || name != "SwapStateMachine.SwapId" {
		return nil, false
	}
	return c10Strip(fa.X), true
}

func c10RetErr(r *ssa.Return) string {
	for i := len(r.Results) - 1; i >= 0; i-- {
		v := r.Results[i]
		if !an.IsErrorType(v.Type()) {
			continue
		}
		if an.IsNilConst(v) {
			return "nil"
		}
		if u, ok := v.(*ssa.UnOp); ok && u.Op == token.MUL {
			if al, ok := u.X.(*ssa.Alloc); ok {
				var last ssa.Value
				for _, in := range r.Block().Instrs {
					if s, ok := in.(*ssa.Store); ok && s.Addr == ssa.Value(al) {
						last = s.Val
					}
				}
				if last == nil {
					return "?"
				}
				if an.IsNilConst(last) {
					return "nil"
				}
				v = last
			}
		}
		switch y := v.(type) {
		case *ssa.MakeInterface:
			return "nonnil" // a concrete error value
		case *ssa.UnOp:
			if _, isG := y.X.(*ssa.Global); isG && y.Op == token.MUL {
				return "nonnil" // a package-level error variable
			}
		case *ssa.Call:
			if g := y.Common().StaticCallee(); g != nil && g.Pkg != nil {
				if n := g.Pkg.Pkg.Path() + "." + g.Name(); n == "fmt.Errorf" || n == "errors.New" {
					return "nonnil"
				}
			}
		}
		return "?"
	}
	return "?"
}

func c10EventOf(call ssa.CallInstruction) string {
	args := call.Common().Args
	if len(args) >= 2 {
		if s, ok := an.ConstString(args[1]); ok {
			return s
		}
	}
	return ""
}

// ---- the channel tests of lockSwap ------------------------------------------------

// c10Test is one conflict test: a branch in lockSwap that decides whether the
// requested channel is already taken.
type c10Test struct {
	kind     string    // "==", "helper", "map"
	conflict an.Edge   // edge taken when the channel is taken
	param    ssa.Value // operand that derives from the channel parameter
	entry    ssa.Value // operand that describes the existing entry (nil for kind map)
	helper   *ssa.Function
	hStyle   string
	mapField string // kind map: "Type.field" of the channel-keyed map
	pos      token.Pos
	site     ssa.Instruction // the instruction of the analysed function where the scan happens (the branch, or the call of a scan helper)
	via      []*ssa.Function // scan helpers entered (outermost first)
}

// c10Scan is a place where lockSwap consults the active swaps about the channel.
type c10Scan struct {
	site ssa.Instruction
	via  []*ssa.Function
}

// fromChanParam: v is computed from lockSwap's channel parameter. Every call
// that takes such a value hands it on (an unrecognised normaliser must not drop
// the flow: whether it normalises is decided separately).
func (x *c10Ctx) fromChanParam(v ssa.Value) bool {
	return x.derives(v, map[ssa.Value]bool{}, 0)
}

func (x *c10Ctx) derives(v ssa.Value, seen map[ssa.Value]bool, depth int) bool {
	if v == nil || seen[v] || depth > 12 {
		return false
	}
	seen[v] = true
	if v == ssa.Value(x.chanP) || x.chanAlias[v] {
		return true
	}
	switch y := v.(type) {
	case *ssa.Call:
		for _, a := range y.Call.Args {
			if c10IsString(a.Type()) && x.derives(a, seen, depth+1) {
				return true
			}
		}
		if y.Call.IsInvoke() {
			return x.derives(y.Call.Value, seen, depth+1)
		}
	case *ssa.Phi:
		for _, e := range y.Edges {
			if x.derives(e, seen, depth+1) {
				return true
			}
		}
	case *ssa.ChangeType:
		return x.derives(y.X, seen, depth+1)
	case *ssa.Convert:
		return x.derives(y.X, seen, depth+1)
	case *ssa.MakeInterface:
		return x.derives(y.X, seen, depth+1)
	case *ssa.BinOp:
		return x.derives(y.X, seen, depth+1) || x.derives(y.Y, seen, depth+1)
	case *ssa.Slice:
		return x.derives(y.X, seen, depth+1)
	case *ssa.Extract:
		return x.derives(y.Tuple, seen, depth+1)
	case *ssa.UnOp:
		if al, ok := y.X.(*ssa.Alloc); ok && y.Op == token.MUL && al.Referrers() != nil {
			for _, r := range *al.Referrers() {
				if st, ok := r.(*ssa.Store); ok && st.Addr == ssa.Value(al) && x.derives(st.Val, seen, depth+1) {
					return true
				}
			}
		}
	}
	return false
}

func (x *c10Ctx) channelTests() (tests []c10Test, unknown []string) {
	if x.chanAlias == nil {
		x.chanAlias = map[ssa.Value]bool{}
	}
	x.scans = nil
	tests, unknown = x.channelTestsIn(x.lockSwap, 0)
	for _, t := range tests {
		x.scans = append(x.scans, c10Scan{t.site, t.via})
	}
	return
}

// c10RetVals: the values result #i of return r may carry, with the block where
// each is chosen (a named result spilled to a local because of a defer is
// resolved to the stores that reach the return).
func c10RetVals(r *ssa.Return, i int) (vals []ssa.Value, blks []*ssa.BasicBlock, ok bool) {
	v := r.Results[i]
	if u, isLoad := v.(*ssa.UnOp); isLoad && u.Op == token.MUL {
		if al, isAl := u.X.(*ssa.Alloc); isAl {
			stores, fromEntry := an.StoresReaching(u, al)
			if fromEntry || len(stores) == 0 {
				return nil, nil, false
			}
			for _, st := range stores {
				vals = append(vals, st.Val)
				blks = append(blks, st.Block())
			}
			return vals, blks, true
		}
	}
	return []ssa.Value{v}, []*ssa.BasicBlock{r.Block()}, true
}

// scanHelper: cond (a bool call result in fn) comes from a module function that
// is given the channel and scans for a conflict itself: its own channel tests
// are lifted, provided it answers true exactly on their conflict edges.
func (x *c10Ctx) scanHelper(cond ssa.Value, depth int) (sub []c10Test, why string, isHelper bool) {
	var call *ssa.Call
	bi := 0
	switch y := cond.(type) {
	case *ssa.Call:
		call = y
	case *ssa.Extract:
		call, _ = y.Tuple.(*ssa.Call)
		bi = y.Index
	}
	if call == nil {
		return nil, "", false
	}
	g := call.Common().StaticCallee()
	if g == nil || !x.w.InModule(g) || g.Blocks == nil || depth > 2 {
		return nil, "", false
	}
	ai, nStr := -1, 0
	for i, a := range call.Call.Args {
		if !c10IsString(a.Type()) {
			continue
		}
		nStr++
		if x.fromChanParam(a) {
			ai = i
		}
	}
	if ai < 0 || nStr != 1 || ai >= len(g.Params) {
		return nil, "", false
	}
	x.chanAlias[g.Params[ai]] = true
	sub, unk := x.channelTestsIn(g, depth+1)
	if len(sub) == 0 {
		return nil, "helper " + x.fname(g) + " is given the channel but no channel test was found in it" + strings.Join(unk, "; "), true
	}
	for i := range sub {
		sub[i].via = append([]*ssa.Function{g}, sub[i].via...)
	}
	if depth == 0 {
		// remembered for the atomicity clause whatever the answer analysis below says
		for _, t := range sub {
			x.scans = append(x.scans, c10Scan{call, t.via})
		}
	}
	// the helper must answer true on the conflict edges and false elsewhere
	conflictReach := map[*ssa.BasicBlock]bool{}
	for _, t := range sub {
		for b := range an.ReachBlocks([]*ssa.BasicBlock{t.conflict.To()}, nil, nil) {
			conflictReach[b] = true
		}
	}
	for _, r := range an.Returns(g) {
		if bi >= len(r.Results) {
			return nil, "helper " + x.fname(g) + ": unexpected result shape", true
		}
		if g.Recover != nil && r.Block() == g.Recover {
			continue // the path taken after a recovered panic
		}
		vals, blks, okv := c10RetVals(r, bi)
		if !okv {
			return nil, "helper " + x.fname(g) + ": cannot resolve its answer at " + x.w.Pos(r.Pos()), true
		}
		for vi, rv := range vals {
			cst, isC := c10Strip(rv).(*ssa.Const)
			if !isC || cst.Value == nil {
				return nil, "helper " + x.fname(g) + " does not return constant answers", true
			}
			val := cst.Value.String() == "true"
			onlyConflict := true
			// an answer chosen without passing a conflict edge?
			cut := map[an.Edge]bool{}
			for _, t := range sub {
				cut[t.conflict] = true
			}
			if an.ReachBlocks([]*ssa.BasicBlock{g.Blocks[0]}, cut, nil)[blks[vi]] {
				onlyConflict = false
			}
			switch {
			case val && !onlyConflict:
				return nil, "helper " + x.fname(g) + " can answer true without a channel conflict", true
			case !val && conflictReach[blks[vi]] && onlyConflict:
				return nil, "helper " + x.fname(g) + " answers false on a conflict", true
			}
		}
	}
	return sub, "", true
}

func (x *c10Ctx) channelTestsIn(fn *ssa.Function, depth int) (tests []c10Test, unknown []string) {
	w := x.w
	for _, b := range fn.Blocks {
		if len(b.Instrs) == 0 {
			continue
		}
		ifi, ok := b.Instrs[len(b.Instrs)-1].(*ssa.If)
		if !ok {
			continue
		}
		cond := ifi.Cond
		tE, fE := an.Edge{From: b, Idx: 0}, an.Edge{From: b, Idx: 1}
		for {
			u, ok := cond.(*ssa.UnOp)
			if !ok || u.Op != token.NOT {
				break
			}
			cond = u.X
			tE, fE = fE, tE
		}
		if sub, why, isHelper := x.scanHelper(cond, depth); isHelper {
			if why != "" {
				unknown = append(unknown, why)
				continue
			}
			for _, t := range sub {
				t.conflict = tE
				t.pos = cond.Pos()
				t.site = ifi
				tests = append(tests, t)
			}
			continue
		}
		switch y := cond.(type) {
		case *ssa.BinOp:
			if (y.Op != token.EQL && y.Op != token.NEQ) || !c10IsString(y.X.Type()) {
				continue
			}
			px, py := x.fromChanParam(y.X), x.fromChanParam(y.Y)
			if !px && !py {
				continue
			}
			if px && py {
				unknown = append(unknown, "comparison at "+w.Pos(y.Pos())+": both operands derive from the channel parameter")
				continue
			}
			t := c10Test{kind: "==", conflict: tE, param: y.X, entry: y.Y, pos: y.Pos(), site: ifi}
			if py {
				t.param, t.entry = y.Y, y.X
			}
			if y.Op == token.NEQ {
				t.conflict = fE
			}
			tests = append(tests, t)
		case *ssa.Call:
			g := y.Common().StaticCallee()
			if g == nil || !w.InModule(g) || g.Blocks == nil {
				continue
			}
			var pa, ea []ssa.Value
			for _, a := range y.Call.Args {
				if !c10IsString(a.Type()) {
					continue
				}
				if x.fromChanParam(a) {
					pa = append(pa, a)
				} else {
					ea = append(ea, a)
				}
			}
			if len(pa) == 0 {
				continue
			}
			if len(pa) != 1 || len(ea) != 1 {
				unknown = append(unknown, "helper "+x.fname(g)+" at "+w.Pos(y.Pos())+": cannot tell the operands apart")
				continue
			}
			st, ok := x.helperStyle(g)
			if !ok {
				unknown = append(unknown, "helper "+x.fname(g)+" at "+w.Pos(y.Pos())+" is not `norm(a) == norm(b)` over its parameters")
				continue
			}
			tests = append(tests, c10Test{kind: "helper", conflict: tE, param: pa[0], entry: ea[0], helper: g, hStyle: st, pos: y.Pos(), site: ifi})
		case *ssa.Extract:
			lk, ok := y.Tuple.(*ssa.Lookup)
			if !ok || y.Index != 1 || !lk.CommaOk || c10IsActiveMap(lk.X) {
				continue
			}
			if !x.fromChanParam(lk.Index) {
				continue
			}
			_, field := c10FieldLoad(lk.X)
			if field == "" {
				unknown = append(unknown, "lookup at "+w.Pos(lk.Pos())+": the channel-keyed map is not a struct field")
				continue
			}
			tests = append(tests, c10Test{kind: "map", conflict: tE, param: lk.Index, mapField: field, pos: lk.Pos(), site: ifi})
		}
	}
	return
}

// helperStyle: g(a, b string) returns norm(a) == norm(b) with one spelling.
func (x *c10Ctx) helperStyle(g *ssa.Function) (string, bool) {
	rets := an.Returns(g)
	if len(rets) != 1 || len(rets[0].Results) != 1 {
		return "", false
	}
	bo, ok := c10Strip(rets[0].Results[0]).(*ssa.BinOp)
	if !ok || bo.Op != token.EQL {
		return "", false
	}
	style := ""
	seen := map[ssa.Value]bool{}
	for _, op := range []ssa.Value{bo.X, bo.Y} {
		call, ok := c10Strip(op).(*ssa.Call)
		if !ok {
			return "", false
		}
		st, ok := x.normCall(call)
		if !ok || (style != "" && st != style) {
			return "", false
		}
		style = st
		// the subject must be a distinct parameter of g
		ss := x.w.Sources(call, an.FlowOpts{ThroughCalls: x.through})
		var p ssa.Value
		for _, l := range ss.Leaves {
			if l.Kind == "param" {
				p = l.Val
			}
		}
		if p == nil || seen[p] {
			return "", false
		}
		seen[p] = true
	}
	return style, true
}

// normLeaves classifies where a compared value comes from: every leaf must be
// a normaliser result. Returns the spellings found and the raw leaves.
func (x *c10Ctx) normLeaves(v ssa.Value) (styles map[string]bool, raw []string, unknown []string) {
	return x.normLeavesRec(v, map[string]bool{})
}

func (x *c10Ctx) normLeavesRec(v ssa.Value, fieldsSeen map[string]bool) (styles map[string]bool, raw []string, unknown []string) {
	styles = map[string]bool{}
	// recognised normalisers stay leaves; other module functions are opened
	stop := map[string]bool{}
	for fn := range x.normFns {
		stop["func:"+x.w.FuncName(fn)] = true
	}
	ss := x.w.Sources(v, an.FlowOpts{IntoCallers: true, IntoCallees: true, StopAt: stop})
	for _, l := range ss.Leaves {
		switch l.Kind {
		case "call":
			if l.Call != nil {
				if st, ok := x.normCall(l.Call); ok {
					styles[st] = true
					continue
				}
			}
			// a call that is not understood (library function, function without a
			// body): it may or may not produce one spelling
			unknown = append(unknown, "result of "+strings.TrimSuffix(strings.TrimPrefix(l.Name, "func:"), "#0")+" ("+x.w.Pos(l.Val.Pos())+") is not a recognised scid normaliser")
		case "param":
			if pv, ok := l.Val.(*ssa.Parameter); ok && pv.Parent() != nil && pv.Parent().Synthetic != "" {
				continue // a compiler-generated promoted-method wrapper that nothing calls
			}
			unknown = append(unknown, "parameter "+l.Name+" has no resolvable call site")
		case "field":
			st, r, u := x.fieldWritersNorm(l.Name, fieldsSeen)
			for k := range st {
				styles[k] = true
			}
			raw = append(raw, r...)
			unknown = append(unknown, u...)
		case "const":
			if l.Name == `""` {
				continue // "no channel": equal to nothing that is normalised
			}
			raw = append(raw, "constant "+l.Name)
		case "zero":
		default:
			unknown = append(unknown, l.String())
		}
	}
	return
}

// fieldWritersNorm: the values stored in field chain's last field (module-wide)
// are all normaliser results (a stored parameter is followed to the call sites).
func (x *c10Ctx) fieldWritersNorm(chain string, fieldsSeen map[string]bool) (styles map[string]bool, raw []string, unknown []string) {
	styles = map[string]bool{}
	last := chain
	if i := strings.LastIndex(chain, ">"); i >= 0 {
		last = chain[i+1:]
	}
	if fieldsSeen[last] {
		return
	}
	fieldsSeen[last] = true
	n := 0
	for _, st := range x.w.FieldWriters(last) {
		if an.IsTestSupport(x.w.FnRel(st.Parent())) {
			continue
		}
		n++
		sst, r, u := x.normLeavesRec(st.Val, fieldsSeen)
		for k := range sst {
			styles[k] = true
		}
		for _, rr := range r {
			raw = append(raw, "field "+last+" written in "+x.fname(st.Parent())+" ("+x.w.Pos(st.Pos())+") with "+rr)
		}
		unknown = append(unknown, u...)
	}
	if n == 0 {
		raw = append(raw, "field "+chain+" (filled by decoding a peer or user message, any spelling)")
	}
	return
}

// mapKeysNorm: every insert into the map field uses a normalised key; returns styles.
func (x *c10Ctx) mapInserts(field string) []*ssa.MapUpdate {
	var out []*ssa.MapUpdate
	for _, fn := range prodFuncs(x.w) {
		for _, b := range fn.Blocks {
			for _, in := range b.Instrs {
				if mu, ok := in.(*ssa.MapUpdate); ok {
					if _, n := c10FieldLoad(mu.Map); n == field {
						out = append(out, mu)
					}
				}
			}
		}
	}
	return out
}

// ---- R1 ---------------------------------------------------------------------------

func (x *c10Ctx) ruleR1() {
	c, w := x.c, x.w
	// (a) inserts and assignments
	nIns := 0
	for _, mu := range x.mapInserts(c10ActiveMap) {
		fn := mu.Parent()
		nIns++
		c.Decide(fn == x.lockSwap, "C10.R1", x.fname(fn)+" activeSwaps insert", w.Pos(mu.Pos()),
			"the insert is in lockSwap", "activeSwaps is inserted into outside lockSwap: the entry bypasses the one-swap-per-channel test")
	}
	c.AtLeast("C10.R1", "inserts into activeSwaps", nIns, 1)
	for _, st := range w.FieldWriters(c10ActiveMap) {
		fn := st.Parent()
		if an.IsTestSupport(w.FnRel(fn)) {
			continue
		}
		if _, fresh := c10Strip(st.Val).(*ssa.MakeMap); fresh {
			c.OK("C10.R1", x.fname(fn)+" activeSwaps assignment", w.Pos(st.Pos()), "assigned a fresh empty map")
		} else {
			c.Unknown("C10.R1", x.fname(fn)+" activeSwaps assignment", w.Pos(st.Pos()), "activeSwaps is assigned a value that is not a map literal / make(); cannot decide that it holds no entry that bypassed lockSwap")
		}
	}

	// (b) conflict edge refuses
	tests, unknown := x.channelTests()
	var inserts []*ssa.BasicBlock
	for _, mu := range x.mapInserts(c10ActiveMap) {
		if mu.Parent() == x.lockSwap {
			inserts = append(inserts, mu.Block())
		}
	}
	for _, t := range tests {
		cons := x.fname(x.lockSwap) + " conflict edge of channel test (" + t.kind + ")"
		reach := an.ReachBlocks([]*ssa.BasicBlock{t.conflict.To()}, nil, nil)
		bad := ""
		for _, b := range inserts {
			if reach[b] {
				bad = "the edge taken when the channel is already in use still reaches the insert"
			}
		}
		for _, r := range an.Returns(x.lockSwap) {
			if reach[r.Block()] {
				switch c10RetErr(r) {
				case "nil":
					bad = "the edge taken when the channel is already in use returns nil"
				case "?":
					if bad == "" {
						bad = "?"
					}
				}
			}
		}
		switch bad {
		case "":
			c.OK("C10.R1", cons, w.Pos(t.pos), "conflict returns an error without inserting")
		case "?":
			c.Unknown("C10.R1", cons, w.Pos(t.pos), "cannot resolve the error returned on the conflict edge")
		default:
			c.Bad("C10.R1", cons, w.Pos(t.pos), bad+": a second swap is locked in on the same channel")
		}
	}
	if len(tests) == 0 {
		if len(unknown) > 0 {
			c.Unknown("C10.R1", x.fname(x.lockSwap)+" channel test", w.Pos(x.lockSwap.Pos()), strings.Join(unknown, "; "))
		} else {
			c.Bad("C10.R1", x.fname(x.lockSwap)+" channel test", w.Pos(x.lockSwap.Pos()), "lockSwap inserts without any test that involves its channel parameter: any number of swaps can be active on one channel")
		}
	}

	// (b') scan and insert inside ONE critical section of the service lock,
	// decided independently of whether a scan helper's answers are understood
	x.ruleR1Atomic(inserts)

	// (c) events only to gated machines; (d) key is the machine's own id
	nLocked := 0
	for _, fn := range prodFuncs(w) {
		for _, ci := range an.Calls(fn) {
			g := ci.Common().StaticCallee()
			if g == x.lockSwap {
				args := ci.Common().Args
				keyArg := args[c10ParamIndex(x.idP)]
				m, ok := x.ownId(keyArg)
				cons := x.fname(fn) + " lockSwap key"
				badKey := "the entry is stored under an id that is not <machine>.SwapId.String(): lookups and RemoveActiveSwap(<machine>.SwapId) miss it, the channel stays locked or is never found"
				switch {
				case ok && m == c10Strip(args[c10ParamIndex(x.fsmP)]):
					c.OK("C10.R1", cons, w.Pos(ci.Pos()), "the entry is stored under the machine's own SwapId")
				case ok:
					c.Bad("C10.R1", cons, w.Pos(ci.Pos()), badKey+" (it is the id of another machine)")
				case x.isIdString(keyArg) || x.isParam(keyArg):
					// some SwapId, or a key handed in by the caller: may well be the machine's id
					c.Unknown("C10.R1", cons, w.Pos(ci.Pos()), "cannot decide that the key ("+w.Term(keyArg)+") is the SwapId of the machine that is locked in")
				default:
					c.Bad("C10.R1", cons, w.Pos(ci.Pos()), badKey+" (the key "+w.Term(keyArg)+" is not a swap id at all)")
				}
				continue
			}
			if g != x.sendEvent && g != x.recoverFn {
				continue
			}
			recv := c10Strip(ci.Common().Args[0])
			// the machine's own methods (recursion, Recover -> SendEvent)
			if p, ok := recv.(*ssa.Parameter); ok && c10ParamIndex(p) == 0 && fn.Signature.Recv() != nil && x.isPtrTo(p.Type(), x.tSM) {
				continue
			}
			cons := fmt.Sprintf("%s %s(%s)", x.fname(fn), g.Name(), c10EventOf(ci))
			if x.fromActiveMap(recv) {
				c.OK("C10.R1", cons, w.Pos(ci.Pos()), "receiver is an activeSwaps entry")
				continue
			}
			// locked in by this function
			verdict := "the machine is never passed to lockSwap (or a wrapper of it) in this function"
			for _, li := range an.Calls(fn) {
				lk, ok := li.(*ssa.Call)
				if !ok {
					continue
				}
				mi, isL := x.lockers[lk.Common().StaticCallee()]
				if !isL || mi >= len(lk.Call.Args) || c10Strip(lk.Call.Args[mi]) != recv {
					continue
				}
				okE, _ := an.OkEdges(lk)
				verdict = "lockSwap's error is not tested before the event (or the test does not dominate it)"
				for _, e := range okE {
					if an.EdgeDominates(e, ci.Block()) {
						verdict = ""
					}
				}
				if verdict == "" {
					break
				}
			}
			if verdict != "" {
				if p, isP := recv.(*ssa.Parameter); isP && p.Parent() == fn {
					switch v, why := x.gatedAtCallers(fn, p, 0); v {
					case "ok":
						c.OK("C10.R1", cons, w.Pos(ci.Pos()), "the machine is a parameter; at every call site it is an activeSwaps entry or was just locked in")
						continue
					case "unknown":
						c.Unknown("C10.R1", cons, w.Pos(ci.Pos()), why)
						continue
					default:
						verdict = why
					}
				}
			}
			if verdict == "" {
				nLocked += x.releaseWeight(fn, recv)
				c.OK("C10.R1", cons, w.Pos(ci.Pos()), "behind the success edge of lockSwap on the same machine")
			} else if !x.positivelyUngated(fn, recv) {
				nLocked++
				c.Unknown("C10.R1", cons, w.Pos(ci.Pos()), "cannot tell where the machine that receives the event comes from ("+w.Term(recv)+"): it is not recognisably an activeSwaps entry, a machine locked in here, a fresh machine or a stored one")
			} else {
				nLocked++
				c.Bad("C10.R1", cons, w.Pos(ci.Pos()), "an event is delivered to a machine that is neither an activeSwaps entry nor locked in here: "+verdict+"; the swap runs although another swap is active on the channel")
			}
		}
	}
	c.AtLeast("C10.R1", "creation/recovery sites (first event on a machine that is not taken from activeSwaps) examined", nLocked, 5)
}

// positivelyUngated: the machine is known to be outside the gate: it was passed
// to a locker in this function (whose result is then ignored), it is freshly
// constructed (a module function that returns only new objects, or a local
// literal), it comes from the store, or it is a parameter (callers examined
// separately).
func (x *c10Ctx) positivelyUngated(fn *ssa.Function, m ssa.Value) bool {
	for _, li := range an.Calls(fn) {
		if mi, isL := x.lockers[li.Common().StaticCallee()]; isL && mi < len(li.Common().Args) && c10Strip(li.Common().Args[mi]) == m {
			return true
		}
	}
	var tuple ssa.Value = m
	if ex, ok := m.(*ssa.Extract); ok {
		tuple = ex.Tuple
	}
	switch t := tuple.(type) {
	case *ssa.Alloc, *ssa.Parameter:
		return true
	case *ssa.Phi:
		for _, e := range t.Edges {
			if e != ssa.Value(t) && x.positivelyUngated(fn, c10Strip(e)) {
				return true
			}
		}
	case *ssa.Call:
		ci := x.w.Info(t)
		if strings.HasPrefix(ci.Name, "iface:swap.Store.") {
			return true
		}
		if g := ci.Static; g != nil && x.w.InModule(g) && g.Blocks != nil {
			fresh := true
			for _, r := range an.Returns(g) {
				if len(r.Results) == 0 {
					fresh = false
					continue
				}
				if _, isAlloc := c10Strip(r.Results[0]).(*ssa.Alloc); !isAlloc {
					fresh = false
				}
			}
			return fresh
		}
	case *ssa.UnOp, *ssa.Lookup, *ssa.Index, *ssa.IndexAddr:
		// an element of a list (e.g. the swaps returned by the store)
		return false
	}
	return false
}

// svcLockOp: call is Lock/RLock/Unlock/RUnlock on a sync mutex that is a field of
// SwapService (the service lock); returns the method name.
func (x *c10Ctx) svcLockOp(ci ssa.CallInstruction) string {
	g := ci.Common().StaticCallee()
	if g == nil || g.Pkg == nil || g.Pkg.Pkg.Path() != "sync" || len(ci.Common().Args) == 0 {
		return ""
	}
	switch g.Name() {
	case "Lock", "RLock", "Unlock", "RUnlock":
	default:
		return ""
	}
	fa, ok := ci.Common().Args[0].(*ssa.FieldAddr)
	if !ok {
		return ""
	}
	if n := an.NamedOf(fa.X.Type()); n == nil || n.Obj() != x.tSvc.Obj() {
		return ""
	}
	return g.Name()
}

// ruleR1Atomic: every scan of the active swaps for the channel and the insert
// happen under one acquisition of the service lock. A scan that runs under an
// acquisition that is released before the insert's acquisition lets two
// concurrent lock-ins both pass: positively Bad.
func (x *c10Ctx) ruleR1Atomic(inserts []*ssa.BasicBlock) {
	c, w := x.c, x.w
	fn := x.lockSwap
	cons := x.fname(fn) + " scan and insert in one critical section"
	pos := w.Pos(fn.Pos())
	var ins ssa.Instruction
	for _, b := range fn.Blocks {
		for _, in := range b.Instrs {
			if mu, ok := in.(*ssa.MapUpdate); ok && c10IsActiveMap(mu.Map) {
				ins = mu
			}
		}
	}
	// de-duplicated scan sites
	seen := map[ssa.Instruction]bool{}
	var scans []c10Scan
	for _, sc := range x.scans {
		if sc.site != nil && !seen[sc.site] {
			seen[sc.site] = true
			scans = append(scans, sc)
		}
	}
	if ins == nil || len(scans) == 0 {
		return // reported by the other clauses
	}
	// the write-lock acquisitions of lockSwap that lie on every path to the insert
	var held []ssa.CallInstruction
	var explicitUnlocks []ssa.CallInstruction
	for _, ci := range an.Calls(fn) {
		if _, isDefer := ci.(*ssa.Defer); isDefer {
			continue
		}
		switch x.svcLockOp(ci) {
		case "Lock":
			if an.MustPassInstr(ins, []ssa.Instruction{ci}) {
				held = append(held, ci)
			}
		case "Unlock", "RUnlock":
			explicitUnlocks = append(explicitUnlocks, ci)
		}
	}
	if len(held) == 0 {
		c.Unknown("C10.R1", cons, pos, "lockSwap does not take the write lock of the service on every path to the insert (does its caller hold it?); the atomicity of scan and insert cannot be decided")
		return
	}
	after := func(a, b ssa.Instruction) bool { // b can execute after a
		if a.Block() == b.Block() {
			return an.InstrIndex(a) < an.InstrIndex(b) || an.ReachBlocks(a.Block().Succs, nil, nil)[b.Block()]
		}
		return an.ReachBlocks(a.Block().Succs, nil, nil)[b.Block()]
	}
	var bad, unk []string
	for _, sc := range scans {
		where := w.Pos(sc.site.Pos())
		if ifi, isIf := sc.site.(*ssa.If); isIf {
			where = w.Pos(ifi.Cond.Pos())
			if ex, isEx := ifi.Cond.(*ssa.Extract); isEx {
				where = w.Pos(ex.Tuple.Pos())
			}
		}
		// a helper that takes the service lock itself gives it back before it returns
		own := ""
		for _, g := range sc.via {
			for _, ci := range an.Calls(g) {
				if op := x.svcLockOp(ci); op == "Lock" || op == "RLock" {
					own = x.fname(g) + " takes the service lock itself (" + op + " at " + w.Pos(ci.Pos()) + ") and releases it when it returns"
				}
			}
		}
		if own != "" {
			bad = append(bad, "the scan at "+where+" runs in its own critical section: "+own+", before lockSwap acquires the lock for the insert")
			continue
		}
		underSame := false
		for _, lk := range held {
			if !an.MustPassInstr(sc.site, []ssa.Instruction{lk}) {
				continue
			}
			released := false
			for _, u := range explicitUnlocks {
				if after(sc.site, u) && after(u, ins) {
					released = true
				}
			}
			if !released {
				underSame = true
			}
		}
		if underSame {
			continue
		}
		// before the acquisition, or the lock is given up in between
		before := false
		for _, lk := range held {
			if after(sc.site, lk) && !an.MustPassInstr(sc.site, []ssa.Instruction{lk}) {
				before = true
			}
		}
		switch {
		case before:
			bad = append(bad, "the scan at "+where+" runs before lockSwap acquires the write lock under which it inserts")
		default:
			for _, u := range explicitUnlocks {
				if after(sc.site, u) && after(u, ins) {
					bad = append(bad, "the service lock is released at "+w.Pos(u.Pos())+" between the scan at "+where+" and the insert")
				}
			}
			if len(bad) == 0 {
				unk = append(unk, "cannot relate the scan at "+where+" to the lock acquisition of the insert")
			}
		}
	}
	switch {
	case len(bad) > 0:
		c.Bad("C10.R1", cons, w.Pos(ins.Pos()), strings.Join(c10Uniq(bad), "; ")+". Interleaving: two lock-ins for the same channel both finish their scan before either inserts; both see no conflict and both swaps become active on one channel")
	case len(unk) > 0:
		c.Unknown("C10.R1", cons, w.Pos(ins.Pos()), strings.Join(c10Uniq(unk), "; "))
	default:
		c.OK("C10.R1", cons, w.Pos(ins.Pos()), "every channel scan and the insert lie behind the same write-lock acquisition with no release in between")
	}
}

// lockedBefore: machine m was passed to a locker in fn and at lies behind the
// locker's success edge; "" or the reason why not.
func (x *c10Ctx) lockedBefore(fn *ssa.Function, m ssa.Value, at *ssa.BasicBlock) string {
	verdict := "the machine is never passed to lockSwap (or a wrapper of it) in " + x.fname(fn)
	for _, li := range an.Calls(fn) {
		lk, ok := li.(*ssa.Call)
		if !ok {
			continue
		}
		mi, isL := x.lockers[lk.Common().StaticCallee()]
		if !isL || mi >= len(lk.Call.Args) || c10Strip(lk.Call.Args[mi]) != m {
			continue
		}
		okE, _ := an.OkEdges(lk)
		verdict = "lockSwap's error is not tested before the event (or the test does not dominate it)"
		for _, e := range okE {
			if an.EdgeDominates(e, at) {
				return ""
			}
		}
	}
	return verdict
}

// gatedAtCallers: parameter p of fn (a machine that fn sends an event to) is, at
// every production call site of fn, an activeSwaps entry or a machine locked in
// before the call. Verdicts "ok" / "bad" / "unknown".
func (x *c10Ctx) gatedAtCallers(fn *ssa.Function, p *ssa.Parameter, depth int) (string, string) {
	if depth > 3 {
		return "unknown", "call depth limit reached while following a machine parameter"
	}
	pi := c10ParamIndex(p)
	n := 0
	for _, caller := range prodFuncs(x.w) {
		for _, b := range caller.Blocks {
			for _, in := range b.Instrs {
				ci, isCall := in.(ssa.CallInstruction)
				if isCall && ci.Common().StaticCallee() == fn {
					n++
					if pi >= len(ci.Common().Args) {
						return "unknown", "cannot match the arguments of " + x.fname(fn) + " in " + x.fname(caller)
					}
					arg := c10Strip(ci.Common().Args[pi])
					if x.fromActiveMap(arg) || x.lockedBefore(caller, arg, ci.Block()) == "" {
						continue
					}
					if ap, isP := arg.(*ssa.Parameter); isP && ap.Parent() == caller {
						// the receiver of a state machine method: its own recursion
						if c10ParamIndex(ap) == 0 && caller.Signature.Recv() != nil && x.isPtrTo(ap.Type(), x.tSM) {
							continue
						}
						if v, why := x.gatedAtCallers(caller, ap, depth+1); v != "ok" {
							return v, why
						}
						continue
					}
					return "bad", "in " + x.fname(caller) + " (" + x.w.Pos(ci.Pos()) + ") " + x.fname(fn) + " is given a machine that is neither an activeSwaps entry nor locked in there"
				}
				for _, op := range in.Operands(nil) {
					if f, isF := (*op).(*ssa.Function); isF && f == fn && !(isCall && ci.Common().StaticCallee() == fn) {
						return "unknown", x.fname(fn) + " is used as a function value in " + x.fname(caller)
					}
				}
			}
		}
	}
	if n == 0 {
		return "unknown", x.fname(fn) + " sends an event to a machine parameter and has no static production caller"
	}
	return "ok", ""
}

// ---- R2 / R3 -----------------------------------------------------------------------

func (x *c10Ctx) ruleR2R3() {
	c, w := x.c, x.w
	tests, unknown := x.channelTests()
	if len(tests) == 0 {
		// reported by R1
		if len(unknown) > 0 {
			c.Unknown("C10.R2", x.fname(x.lockSwap)+" channel test", w.Pos(x.lockSwap.Pos()), strings.Join(unknown, "; "))
		} else {
			c.Bad("C10.R2", x.fname(x.lockSwap)+" channel test", w.Pos(x.lockSwap.Pos()), "no channel test to normalise")
		}
		return
	}
	for i, t := range tests {
		suffix := ""
		if len(tests) > 1 {
			suffix = fmt.Sprintf(" #%d", i+1)
		}
		cons2 := x.fname(x.lockSwap) + " channel test operands" + suffix
		cons3 := x.fname(x.lockSwap) + " channel of existing entries" + suffix
		pos := w.Pos(t.pos)
		hist := "History: the LND daemon initiates a swap on `1:2:3` (ShortChannelID.String()), the CLN peer (or the local CLN rpc) then requests a swap on the same channel written `1x2x3`; the strings differ, both are locked in"

		// ---- R2
		styles := map[string]bool{}
		var raw, unk []string
		switch t.kind {
		case "==":
			for _, op := range []ssa.Value{t.param, t.entry} {
				st, r, u := x.normLeaves(op)
				for k := range st {
					styles[k] = true
				}
				raw = append(raw, r...)
				unk = append(unk, u...)
			}
		case "helper":
			styles[t.hStyle] = true
		case "map":
			st, r, u := x.normLeaves(t.param)
			for k := range st {
				styles[k] = true
			}
			raw, unk = append(raw, r...), append(unk, u...)
			ins := x.mapInserts(t.mapField)
			if len(ins) == 0 {
				raw = append(raw, "nothing is ever inserted into "+t.mapField)
			}
			for _, mu := range ins {
				st, r, u := x.normLeaves(mu.Key)
				for k := range st {
					styles[k] = true
				}
				raw, unk = append(raw, r...), append(unk, u...)
			}
		}
		switch {
		case len(raw) > 0:
			c.Bad("C10.R2", cons2, pos, "compared without scid normalisation: "+strings.Join(c10Uniq(raw), "; ")+". "+hist)
		case len(unk) > 0:
			c.Unknown("C10.R2", cons2, pos, "cannot classify: "+strings.Join(c10Uniq(unk), "; "))
		case len(styles) != 1:
			c.Bad("C10.R2", cons2, pos, fmt.Sprintf("the operands are normalised to different spellings %v and can never be equal", sortedKeys(styles)))
		default:
			c.OK("C10.R2", cons2, pos, "both operands are normalised to the '"+sortedKeys(styles)[0]+"' spelling")
		}

		// ---- R3
		switch t.kind {
		case "map":
			bad := []string{}
			for _, mu := range x.mapInserts(t.mapField) {
				if mu.Parent() != x.lockSwap {
					bad = append(bad, "insert in "+x.fname(mu.Parent())+" at "+w.Pos(mu.Pos()))
				} else if !x.fromChanParam(mu.Key) {
					bad = append(bad, "insert at "+w.Pos(mu.Pos())+" is not keyed by the channel parameter")
				}
			}
			if len(bad) == 0 {
				c.OK("C10.R3", cons3, pos, "the channel map is filled only by lockSwap from its channel parameter")
			} else {
				c.Unknown("C10.R3", cons3, pos, "cannot decide that the channel map is filled at lock time: "+strings.Join(bad, "; "))
			}
		default:
			ss := w.Sources(t.entry, an.FlowOpts{IntoCallees: true, ThroughCalls: x.through})
			var late, unk3 []string
			okFields := []string{}
			for _, l := range ss.Leaves {
				switch l.Kind {
				case "const", "zero":
				case "field":
					if strings.Contains(l.Name, "SwapData.") || strings.Contains(l.Name, "SwapStateMachine.Data") {
						late = append(late, l.Name)
						continue
					}
					last := l.Name
					if i := strings.LastIndex(last, ">"); i >= 0 {
						last = last[i+1:]
					}
					if why := x.writtenOnlyByLock(last); why != "" {
						unk3 = append(unk3, why)
					} else {
						okFields = append(okFields, last)
					}
				default:
					unk3 = append(unk3, l.String())
				}
			}
			switch {
			case len(late) > 0:
				c.Bad("C10.R3", cons3, pos, "the channel of an existing entry is read from "+strings.Join(c10Uniq(late), ", ")+", which is empty when lockSwap inserts the entry and is filled by ApplyToSwapData during the first SendEvent under the machine's own mutex. History: two requests (or a request and a local swap) for the same channel arrive together; the first is inserted with an empty channel, the second passes the test before the first SendEvent has applied the request, both swaps run on one channel")
			case len(unk3) > 0:
				c.Unknown("C10.R3", cons3, pos, "cannot decide that the key is fixed at insertion: "+strings.Join(c10Uniq(unk3), "; "))
			case len(okFields) == 0:
				c.Unknown("C10.R3", cons3, pos, "the entry operand has no field source")
			default:
				c.OK("C10.R3", cons3, pos, "read from "+strings.Join(c10Uniq(okFields), ", ")+", written only by lockSwap from its channel parameter")
			}
		}
	}
}

// writtenOnlyByLock: "" when every production write of field ("Type.Field",
// plain store or map insert) is in lockSwap and stores a value derived from the
// channel parameter; otherwise the reason.
func (x *c10Ctx) writtenOnlyByLock(field string) string {
	n := 0
	for _, st := range x.w.FieldWriters(field) {
		fn := st.Parent()
		if an.IsTestSupport(x.w.FnRel(fn)) {
			continue
		}
		if _, fresh := c10Strip(st.Val).(*ssa.MakeMap); fresh {
			continue
		}
		n++
		if fn != x.lockSwap {
			if why := x.setterOnlyFromLock(fn, st.Val); why != "" {
				return "field " + field + " is also written in " + x.fname(fn) + " (" + x.w.Pos(st.Pos()) + "): " + why
			}
			continue
		}
		if !x.fromChanParam(st.Val) {
			return "field " + field + " is written in lockSwap with a value that does not come from the channel parameter"
		}
	}
	for _, mu := range x.mapInserts(field) {
		n++
		if mu.Parent() != x.lockSwap {
			return "map " + field + " is also inserted into in " + x.fname(mu.Parent()) + " (" + x.w.Pos(mu.Pos()) + ")"
		}
		if !x.fromChanParam(mu.Value) && !x.fromChanParam(mu.Key) {
			return "map " + field + " is filled in lockSwap with a value that does not come from the channel parameter"
		}
	}
	if n == 0 {
		return "field " + field + " has no writer"
	}
	return ""
}

// setterOnlyFromLock: fn stores one of its parameters and every production use
// of fn is a static call inside lockSwap whose argument comes from the channel
// parameter; "" or the reason why not.
func (x *c10Ctx) setterOnlyFromLock(fn *ssa.Function, val ssa.Value) string {
	p, ok := c10Strip(val).(*ssa.Parameter)
	if !ok || p.Parent() != fn {
		return "the stored value is not a parameter of a setter"
	}
	pi := c10ParamIndex(p)
	n := 0
	for _, caller := range prodFuncs(x.w) {
		for _, b := range caller.Blocks {
			for _, in := range b.Instrs {
				if ci, isCall := in.(ssa.CallInstruction); isCall && ci.Common().StaticCallee() == fn {
					n++
					if caller != x.lockSwap {
						return "it is also called from " + x.fname(caller)
					}
					if pi >= len(ci.Common().Args) || !x.fromChanParam(ci.Common().Args[pi]) {
						return "lockSwap passes it a value that does not come from the channel parameter"
					}
					continue
				}
				// the function used as a value
				for _, op := range in.Operands(nil) {
					if f, isF := (*op).(*ssa.Function); isF && f == fn {
						if ci, isCall := in.(ssa.CallInstruction); !isCall || ci.Common().StaticCallee() != fn {
							return "it is used as a function value in " + x.fname(caller)
						}
					}
				}
			}
		}
	}
	if n == 0 {
		return "it has no call site"
	}
	return ""
}

func c10Uniq(in []string) []string {
	m := map[string]bool{}
	for _, s := range in {
		m[s] = true
	}
	return sortedKeys(m)
}

// ---- R4 ---------------------------------------------------------------------------

func (x *c10Ctx) ruleR4() {
	c, w := x.c, x.w
	// functions below OnMessageReceived (static calls, not into SendEvent) with the
	// parameters that carry the peer id of the message
	peerIdx := -1
	for i, p := range x.root.Params {
		if i > 0 && c10IsString(p.Type()) {
			peerIdx = i
			break
		}
	}
	if peerIdx < 0 {
		c.Anchor("OnMessageReceived has no string parameter (peer id)")
		return
	}
	type frame struct {
		fn    *ssa.Function
		peers map[ssa.Value]bool
	}
	seen := map[*ssa.Function]bool{}
	var handlers []frame
	var walk func(f frame, depth int)
	walk = func(f frame, depth int) {
		if seen[f.fn] || depth > 5 {
			return
		}
		seen[f.fn] = true
		hasLock := false
		for _, ci := range an.Calls(f.fn) {
			g := ci.Common().StaticCallee()
			if g == nil || g == x.sendEvent || g == x.recoverFn {
				continue
			}
			if g == x.lockSwap {
				hasLock = true
				continue
			}
			if !w.InModule(g) || g.Blocks == nil {
				continue
			}
			nf := frame{fn: g, peers: map[ssa.Value]bool{}}
			for i, p := range g.Params {
				if i < len(ci.Common().Args) && f.peers[c10Strip(ci.Common().Args[i])] {
					nf.peers[p] = true
				}
			}
			walk(nf, depth+1)
		}
		_ = hasLock
		handlers = append(handlers, f)
	}
	walk(frame{fn: x.root, peers: map[ssa.Value]bool{x.root.Params[peerIdx]: true}}, 0)
	sort.Slice(handlers, func(i, j int) bool { return w.FuncName(handlers[i].fn) < w.FuncName(handlers[j].fn) })
	helpers := x.cancelHelpers()
	// lockLike: lockSwap and the functions that hand its refusal up to their caller
	lockLike := map[*ssa.Function]bool{x.lockSwap: true}
	type verdict struct {
		cons, pos, state, detail string
	}
	verdicts := map[ssa.CallInstruction]verdict{}
	nSites := 0
	for round := 0; round < 4; round++ {
		for _, h := range handlers {
			fn := h.fn
			stop, cut, near := x.cancelSends(fn, h.peers, helpers, false)
			for _, ci := range an.Calls(fn) {
				lk, ok := ci.(*ssa.Call)
				if !ok || !lockLike[lk.Common().StaticCallee()] {
					continue
				}
				cons := x.fname(fn) + " lockSwap refusal"
				if lk.Common().StaticCallee() != x.lockSwap {
					cons = x.fname(fn) + " refusal handed up by " + x.fname(lk.Common().StaticCallee())
				}
				pos := w.Pos(lk.Pos())
				_, failE := an.OkEdges(lk)
				if len(failE) == 0 {
					verdicts[ci] = verdict{cons, pos, "bad", "the error of the lock is never tested: the requester gets no cancel"}
					continue
				}
				bad, unsure := "", ""
				propagates := fn != x.root && fn.Signature.Results().Len() > 0
				for _, fe := range failE {
					reach := an.ReachBlocks([]*ssa.BasicBlock{fe.To()}, cut, stop)
					for _, r := range an.Returns(fn) {
						if !reach[r.Block()] || stop[r.Block()] {
							continue
						}
						bad = "a path from the refusal to the return at " + w.Pos(r.Pos()) + " sends no CancelMessage for the requested id to the requesting peer"
						if u := x.uninterpretedSend(fn, reach, helpers); u != "" {
							unsure = u
						}
						// does this return hand the refusal to the caller?
						handsUp := c10RetErr(r) == "nonnil"
						for i := len(r.Results) - 1; i >= 0 && !handsUp; i-- {
							for _, ev := range an.ResultValues(lk, an.ErrResultIndex(lk)) {
								if r.Results[i] == ev {
									handsUp = true
								}
							}
						}
						if !handsUp {
							propagates = false
						}
					}
				}
				switch {
				case bad == "":
					verdicts[ci] = verdict{cons, pos, "ok", "every path from the error edge sends MarshalPeerswapMessage(&CancelMessage{SwapId: requested id}) to the peer"}
				case propagates:
					lockLike[fn] = true
					verdicts[ci] = verdict{cons, pos, "up", "the refusal is returned to the caller, which is examined instead"}
				case unsure != "":
					verdicts[ci] = verdict{cons, pos, "unknown", unsure}
				default:
					if len(near) > 0 {
						bad += " (sends that do not qualify: " + strings.Join(near, "; ") + ")"
					}
					verdicts[ci] = verdict{cons, pos, "bad", bad + ": the peer keeps waiting for an agreement on a channel that is busy"}
				}
			}
		}
	}
	for _, h := range handlers {
		for _, ci := range an.Calls(h.fn) {
			v, ok := verdicts[ci]
			if !ok {
				continue
			}
			nSites++
			switch v.state {
			case "ok":
				c.OK("C10.R4", v.cons, v.pos, v.detail)
			case "up":
				c.Note("C10.R4", v.cons, v.pos, v.detail)
			case "unknown":
				c.Unknown("C10.R4", v.cons, v.pos, v.detail)
			default:
				c.Bad("C10.R4", v.cons, v.pos, v.detail)
			}
		}
	}
	c.AtLeast("C10.R4", "lockSwap refusals examined below OnMessageReceived", nSites, 1)
}

// uninterpretedSend: among the blocks in reach, fn calls a module function (or
// starts a goroutine / calls a closure) that sends a message but is not a
// recognised cancel helper, or sends a payload that was not built by
// MarshalPeerswapMessage from a literal: the cancel may be sent in a way that is
// not understood.
func (x *c10Ctx) uninterpretedSend(fn *ssa.Function, reach map[*ssa.BasicBlock]bool, helpers map[*ssa.Function]c10CancelHelper) string {
	w := x.w
	for _, ci := range an.Calls(fn) {
		if !reach[ci.Block()] {
			continue
		}
		if w.Info(ci).Name == c10Send {
			args := ci.Common().Args
			if len(args) != 3 {
				continue
			}
			// payload not produced by MarshalPeerswapMessage(&CancelMessage{…}) in this function
			ex, ok := c10Strip(args[1]).(*ssa.Extract)
			if !ok {
				return "the payload sent at " + w.Pos(ci.Pos()) + " is not built here by MarshalPeerswapMessage; cannot tell whether it is the cancel"
			}
			mc, ok := ex.Tuple.(*ssa.Call)
			if !ok || mc.Common().StaticCallee() != x.marshal {
				return "the payload sent at " + w.Pos(ci.Pos()) + " is not built here by MarshalPeerswapMessage; cannot tell whether it is the cancel"
			}
			if _, isLit := c10Strip(mc.Call.Args[0]).(*ssa.Alloc); !isLit {
				return "the message marshalled for the send at " + w.Pos(ci.Pos()) + " is not a literal; cannot tell whether it is the cancel"
			}
			continue
		}
		g := ci.Common().StaticCallee()
		if g == nil || !w.InModule(g) || g.Blocks == nil || g == x.marshal {
			continue
		}
		if _, isH := helpers[g]; isH {
			continue
		}
		for _, e := range w.Summary(g).Effects {
			if e.Name == c10Send || e.Name == "go:"+c10Send {
				return x.fname(g) + " (called at " + w.Pos(ci.Pos()) + ") sends a message but is not a recognised cancel helper"
			}
		}
	}
	return ""
}

// c10CancelHelper: a function that sends a cancel for (its id parameter) to
// (its peer parameter) on every path.
type c10CancelHelper struct {
	peerIdx, idIdx int
}

// cancelSends returns the blocks of fn that send a qualifying cancel (directly
// or through a helper), the edges taken when MarshalPeerswapMessage fails
// (nothing can be sent then; these paths are exempt) and the sends that do not
// qualify. With strictParam the id must be a parameter of fn (helper analysis).
func (x *c10Ctx) cancelSends(fn *ssa.Function, peers map[ssa.Value]bool, helpers map[*ssa.Function]c10CancelHelper, strictParam bool) (stop map[*ssa.BasicBlock]bool, cut map[an.Edge]bool, near []string) {
	w := x.w
	stop, cut = map[*ssa.BasicBlock]bool{}, map[an.Edge]bool{}
	for _, ci := range an.Calls(fn) {
		if _, isGo := ci.(*ssa.Go); isGo {
			continue
		}
		args := ci.Common().Args
		if w.Info(ci).Name == c10Send && len(args) == 3 {
			why := x.isCancelFor(peers, args)
			if why == "" && strictParam {
				ex := c10Strip(args[1]).(*ssa.Extract)
				al := c10Strip(ex.Tuple.(*ssa.Call).Call.Args[0]).(*ssa.Alloc)
				idv, _ := an.CompositeFieldValue(al, "SwapId")
				if _, isP := c10Strip(idv).(*ssa.Parameter); !isP {
					why = "the id is not the helper's parameter"
				}
			}
			if why == "" {
				stop[ci.Block()] = true
			} else {
				near = append(near, w.Pos(ci.Pos())+": "+why)
			}
			continue
		}
		g := ci.Common().StaticCallee()
		if g == x.marshal {
			if k, ok := ci.(*ssa.Call); ok {
				_, failE := an.OkEdges(k)
				for _, e := range failE {
					cut[e] = true
				}
			}
			continue
		}
		if hp, ok := helpers[g]; ok && hp.peerIdx < len(args) && hp.idIdx < len(args) {
			if !peers[c10Strip(args[hp.peerIdx])] {
				near = append(near, w.Pos(ci.Pos())+": "+x.fname(g)+" is not addressed to the requesting peer")
				continue
			}
			if !x.idLikePtr(args[hp.idIdx]) {
				near = append(near, w.Pos(ci.Pos())+": "+x.fname(g)+" is not given the requested id")
				continue
			}
			stop[ci.Block()] = true
		}
	}
	return
}

// idLikePtr: a *SwapId that is a parameter or a *SwapId field of a message / machine.
func (x *c10Ctx) idLikePtr(v ssa.Value) bool {
	v = c10Strip(v)
	if !x.isPtrTo(v.Type(), x.tId) {
		return false
	}
	switch y := v.(type) {
	case *ssa.Parameter:
		return true
	case *ssa.UnOp:
		_, isFA := y.X.(*ssa.FieldAddr)
		return isFA && y.Op == token.MUL
	}
	return false
}

// cancelHelpers finds the functions of package swap with one string and one
// *SwapId parameter that send a CancelMessage{SwapId: idParam} to the string
// parameter on every path from entry to return (marshal failures excepted).
func (x *c10Ctx) cancelHelpers() map[*ssa.Function]c10CancelHelper {
	out := map[*ssa.Function]c10CancelHelper{}
	for _, g := range prodFuncs(x.w) {
		if x.w.FnRel(g) != "swap" || g.Parent() != nil || g == x.lockSwap {
			continue
		}
		hp := c10CancelHelper{peerIdx: -1, idIdx: -1}
		for i, p := range g.Params {
			if i == 0 && g.Signature.Recv() != nil {
				continue
			}
			if x.isPtrTo(p.Type(), x.tId) && hp.idIdx < 0 {
				hp.idIdx = i
			}
		}
		if hp.idIdx < 0 || len(callsNamed(x.w, g, c10Send)) == 0 {
			continue
		}
		// try every string parameter as the peer
		for i, p := range g.Params {
			if (i == 0 && g.Signature.Recv() != nil) || !c10IsString(p.Type()) {
				continue
			}
			stop, cut, _ := x.cancelSends(g, map[ssa.Value]bool{p: true}, nil, true)
			if len(stop) == 0 {
				continue
			}
			reach := an.ReachBlocks([]*ssa.BasicBlock{g.Blocks[0]}, cut, stop)
			all := true
			for _, r := range an.Returns(g) {
				if reach[r.Block()] && !stop[r.Block()] {
					all = false
				}
			}
			if all {
				hp.peerIdx = i
				out[g] = hp
				break
			}
		}
	}
	return out
}

// isCancelFor: SendMessage(peer, bytes, type) carries a CancelMessage for the
// request's id to the request's peer; "" or the reason why not.
func (x *c10Ctx) isCancelFor(peers map[ssa.Value]bool, args []ssa.Value) string {
	if !peers[c10Strip(args[0])] {
		return "not addressed to the requesting peer"
	}
	ex, ok := c10Strip(args[1]).(*ssa.Extract)
	if !ok || ex.Index != 0 {
		return "payload is not the result of MarshalPeerswapMessage"
	}
	mc, ok := ex.Tuple.(*ssa.Call)
	if !ok || mc.Common().StaticCallee() != x.marshal || len(mc.Call.Args) != 1 {
		return "payload is not the result of MarshalPeerswapMessage"
	}
	al, ok := c10Strip(mc.Call.Args[0]).(*ssa.Alloc)
	if !ok || !x.isPtrTo(al.Type(), x.tCancel) {
		return "marshalled message is not a CancelMessage literal"
	}
	idv, ok := an.CompositeFieldValue(al, "SwapId")
	if !ok {
		return "CancelMessage.SwapId is not set"
	}
	idv = c10Strip(idv)
	if !x.isPtrTo(idv.Type(), x.tId) {
		return "CancelMessage.SwapId has an unexpected type"
	}
	switch y := idv.(type) {
	case *ssa.Parameter:
		return ""
	case *ssa.UnOp:
		if _, isFA := y.X.(*ssa.FieldAddr); isFA && y.Op == token.MUL {
			return "" // message.SwapId / machine.SwapId
		}
	}
	return "CancelMessage.SwapId is not the requested id (" + x.w.Term(idv) + ")"
}

// ---- R5 ---------------------------------------------------------------------------

func (x *c10Ctx) ruleR5() {
	c, w := x.c, x.w
	if !c.AtLeast("C10.R5", "functions that delete an activeSwaps entry keyed by a parameter", len(x.releaseFns), 1) {
		return
	}
	// raw deletes must be inside release functions (keyed by the parameter)
	rawDeletes := map[ssa.CallInstruction]bool{}
	for _, fn := range prodFuncs(w) {
		for _, ci := range an.Calls(fn) {
			if w.Info(ci).Name != "builtin:delete" || !c10IsActiveMap(ci.Common().Args[0]) {
				continue
			}
			if _, ok := x.releaseFns[fn]; ok {
				if _, isP := c10Strip(ci.Common().Args[1]).(*ssa.Parameter); isP {
					continue
				}
			}
			// a delete that is not keyed by a parameter is a release site itself
			rawDeletes[ci] = true
		}
	}
	cg := w.CG()
	// functions whose value is taken somewhere in production code (callbacks,
	// bound method values): they are live even without a resolved call edge
	addrTaken := map[*ssa.Function]bool{}
	for _, fn := range prodFuncs(w) {
		for _, b := range fn.Blocks {
			for _, in := range b.Instrs {
				var static *ssa.Function
				if ci, ok := in.(ssa.CallInstruction); ok {
					static = ci.Common().StaticCallee()
				}
				for _, op := range in.Operands(nil) {
					if f, ok := (*op).(*ssa.Function); ok && f != static {
						addrTaken[f] = true
					}
				}
			}
		}
	}
	var live func(fn *ssa.Function, seen map[*ssa.Function]bool) bool
	live = func(fn *ssa.Function, seen map[*ssa.Function]bool) bool {
		if seen[fn] {
			return false
		}
		seen[fn] = true
		if addrTaken[fn] {
			return true
		}
		n := cg.Nodes[fn]
		if n == nil {
			return false
		}
		for _, e := range n.In {
			if e.Caller == nil || e.Caller.Func == nil {
				continue
			}
			cf := e.Caller.Func
			if cf.Synthetic != "" { // bound-method / thunk wrappers
				if live(cf, seen) {
					return true
				}
				continue
			}
			if w.InModule(cf) && !an.IsTestSupport(w.FnRel(cf)) {
				return true
			}
		}
		return false
	}
	prodCallers := func(fn *ssa.Function) int {
		if live(fn, map[*ssa.Function]bool{}) {
			return 1
		}
		return 0
	}
	nSites, nInst := 0, 0
	for _, fn := range prodFuncs(w) {
		top := an.EnclosingTop(fn)
		for _, ci := range an.Calls(fn) {
			g := ci.Common().StaticCallee()
			ki, isRel := x.releaseFns[g]
			gname := "delete(activeSwaps)"
			switch {
			case rawDeletes[ci]:
				ki = 1
			case g == nil || !isRel:
				continue
			default:
				gname = g.Name()
			}
			nSites++
			cons := x.fname(fn) + " " + gname
			pos := w.Pos(ci.Pos())
			m, ok := x.ownId(ci.Common().Args[ki])
			if !ok {
				// the key the machine was looked up with in activeSwaps is its own key as well
				m, ok = x.lookedUpUnder(fn, ci.Common().Args[ki])
			}
			nInst += x.releaseWeight(fn, m)
			why := ""
			if !ok {
				why = "the released key is neither <machine>.SwapId.String() nor the key a machine of this function was looked up with"
				if _, isP := c10Strip(ci.Common().Args[ki]).(*ssa.Parameter); isP {
					// a key handed in by the caller: cannot be related to a machine here
					c.Unknown("C10.R5", cons, pos, "the released key is a parameter of "+x.fname(fn)+"; cannot relate it to the machine whose event finished")
					continue
				}
			} else {
				why = "not dominated by done == true of a SendEvent/Recover on the released machine"
				for _, ei := range an.Calls(fn) {
					k, ok := ei.(*ssa.Call)
					if !ok {
						continue
					}
					eg := k.Common().StaticCallee()
					if (eg != x.sendEvent && eg != x.recoverFn) || c10Strip(k.Call.Args[0]) != m {
						continue
					}
					for _, dv := range an.ResultValues(k, 0) {
						te, _ := an.BoolEdges(dv)
						for _, e := range te {
							if an.EdgeDominates(e, ci.Block()) {
								why = ""
							}
						}
					}
				}
			}
			if why != "" && ok {
				if hw, handled := x.releaseViaParams(fn, ci, m, prodCallers); handled {
					why = hw
				} else if mp, isP := m.(*ssa.Parameter); isP && mp.Parent() == fn {
					// an unconditional release helper f(machine): its callers decide
					switch v, lw := x.releaseLift(fn, mp, 0); v {
					case "ok":
						why = ""
					case "unknown":
						c.Unknown("C10.R5", cons, pos, lw)
						continue
					case "bad":
						why = lw
					}
				}
			}
			if why == "" {
				c.OK("C10.R5", cons, pos, "behind done == true of the event on the same machine")
				continue
			}
			if top.Parent() == nil && prodCallers(top) == 0 && top == fn {
				c.Note("C10.R5", cons+" (dead)", pos, "unconditional release in a function without production callers in the call graph: ignored while it stays unreachable ("+why+")")
				continue
			}
			if g := x.uninterpretedDoneGuard(ci.Block()); g != "" {
				c.Unknown("C10.R5", cons, pos, why+"; but the release lies behind "+g+", whose relation to the result of SendEvent/Recover is not understood")
				continue
			}
			c.Bad("C10.R5", cons, pos, why+": the channel is unlocked while the swap is still running and a second swap can be started on it")
		}
	}
	_ = nSites
	c.AtLeast("C10.R5", "release instances (a release in a helper counts once per call of the helper)", nInst, 15)
}

// uninterpretedDoneGuard: block b is dominated by the true edge of a boolean
// that is not directly a result of SendEvent/Recover (a merged local, a field,
// the result of some other call): it may carry the done flag.
func (x *c10Ctx) uninterpretedDoneGuard(b *ssa.BasicBlock) string {
	for _, f := range x.w.FactsDominatingBlock(b) {
		if f.Rel != "true" || f.Cond == nil {
			continue
		}
		if bt, ok := f.Cond.Type().Underlying().(*types.Basic); !ok || bt.Kind() != types.Bool {
			continue
		}
		switch y := f.Cond.(type) {
		case *ssa.Extract:
			if k, ok := y.Tuple.(*ssa.Call); ok {
				if g := k.Common().StaticCallee(); g == x.sendEvent || g == x.recoverFn {
					continue // interpreted exactly by the caller
				}
			}
			return "the boolean " + x.w.Term(y) + " (" + x.w.Pos(y.Pos()) + ")"
		case *ssa.Phi, *ssa.Call, *ssa.UnOp, *ssa.Parameter, *ssa.Field:
			return "the boolean " + x.w.Term(y) + " (" + x.w.Pos(f.Cond.Pos()) + ")"
		}
	}
	return ""
}

// doneDominates: block at of fn lies behind done == true of a SendEvent/Recover on machine m.
func (x *c10Ctx) doneDominates(fn *ssa.Function, at *ssa.BasicBlock, m ssa.Value) bool {
	for _, ei := range an.Calls(fn) {
		k, ok := ei.(*ssa.Call)
		if !ok {
			continue
		}
		eg := k.Common().StaticCallee()
		if (eg != x.sendEvent && eg != x.recoverFn) || c10Strip(k.Call.Args[0]) != m {
			continue
		}
		for _, dv := range an.ResultValues(k, 0) {
			te, _ := an.BoolEdges(dv)
			for _, e := range te {
				if an.EdgeDominates(e, at) {
					return true
				}
			}
		}
	}
	return false
}

// releaseLift: fn releases its machine parameter p unconditionally; every
// production call of fn must then lie behind done == true for the machine it is
// given. Verdicts "ok", "bad", "unknown", "none" (no static caller).
func (x *c10Ctx) releaseLift(fn *ssa.Function, p *ssa.Parameter, depth int) (string, string) {
	if depth > 2 {
		return "unknown", "call depth limit reached while following a release helper"
	}
	pi := c10ParamIndex(p)
	n := 0
	for _, caller := range prodFuncs(x.w) {
		for _, ci := range an.Calls(caller) {
			if ci.Common().StaticCallee() != fn {
				continue
			}
			n++
			if pi >= len(ci.Common().Args) {
				return "unknown", "cannot match the arguments of " + x.fname(fn)
			}
			arg := c10Strip(ci.Common().Args[pi])
			if x.doneDominates(caller, ci.Block(), arg) {
				continue
			}
			if ap, isP := arg.(*ssa.Parameter); isP && ap.Parent() == caller {
				if v, why := x.releaseLift(caller, ap, depth+1); v == "ok" {
					continue
				} else if v != "none" {
					return v, why
				}
			}
			if g := x.uninterpretedDoneGuard(ci.Block()); g != "" {
				return "unknown", "the release helper " + x.fname(fn) + " is called in " + x.fname(caller) + " behind " + g + ", whose relation to the result of SendEvent/Recover is not understood"
			}
			return "bad", "the release helper " + x.fname(fn) + " is called in " + x.fname(caller) + " (" + x.w.Pos(ci.Pos()) + ") without done == true of a SendEvent/Recover on the released machine"
		}
	}
	if n == 0 {
		return "none", ""
	}
	return "ok", ""
}

// lookedUpUnder: key is the very value under which a machine that fn sends an
// event to was looked up in activeSwaps; returns that machine.
func (x *c10Ctx) lookedUpUnder(fn *ssa.Function, key ssa.Value) (ssa.Value, bool) {
	key = c10Strip(key)
	for _, ei := range an.Calls(fn) {
		k, ok := ei.(*ssa.Call)
		if !ok {
			continue
		}
		if eg := k.Common().StaticCallee(); eg != x.sendEvent && eg != x.recoverFn {
			continue
		}
		m := c10Strip(k.Call.Args[0])
		var tuple ssa.Value = m
		if ex, ok := m.(*ssa.Extract); ok {
			tuple = ex.Tuple
		}
		switch t := tuple.(type) {
		case *ssa.Call:
			if ki, ok := x.lookupFns[t.Common().StaticCallee()]; ok && ki < len(t.Call.Args) && c10Strip(t.Call.Args[ki]) == key {
				return m, true
			}
		case *ssa.Lookup:
			if c10IsActiveMap(t.X) && c10Strip(t.Index) == key {
				return m, true
			}
		}
	}
	return nil, false
}

// releaseWeight: 1, or the number of production call sites of fn when the
// released machine is a parameter of fn (a shared delivery/finish helper stands
// for all the handlers that use it).
func (x *c10Ctx) releaseWeight(fn *ssa.Function, m ssa.Value) int {
	p, ok := m.(*ssa.Parameter)
	if !ok || p.Parent() != fn {
		return 1
	}
	n := 0
	for _, caller := range prodFuncs(x.w) {
		for _, ci := range an.Calls(caller) {
			if ci.Common().StaticCallee() == fn {
				n++
			}
		}
	}
	if n == 0 {
		return 1
	}
	return n
}

// releaseViaParams handles a release inside a helper `f(machine, done bool)`:
// the release must be dominated by the true edge of a bool parameter, the
// released machine must be a parameter, and at every production call site the
// bool argument must be result #0 of SendEvent/Recover on the machine argument.
// handled=false when the site does not have this shape.
func (x *c10Ctx) releaseViaParams(fn *ssa.Function, site ssa.CallInstruction, m ssa.Value, prodCallers func(*ssa.Function) int) (why string, handled bool) {
	w := x.w
	mp, ok := m.(*ssa.Parameter)
	if !ok || mp.Parent() != fn {
		return "", false
	}
	var dp *ssa.Parameter
	for _, p := range fn.Params {
		if b, isB := p.Type().(*types.Basic); !isB || b.Kind() != types.Bool {
			continue
		}
		te, _ := an.BoolEdges(p)
		for _, e := range te {
			if an.EdgeDominates(e, site.Block()) {
				dp = p
			}
		}
	}
	if dp == nil {
		return "", false
	}
	node := w.CG().Nodes[fn]
	n := 0
	if node != nil {
		for _, in := range node.In {
			if in.Site == nil || in.Caller == nil || in.Caller.Func == nil || an.IsTestSupport(w.FnRel(in.Caller.Func)) || !w.InModule(in.Caller.Func) {
				continue
			}
			n++
			args := in.Site.Common().Args
			mi, di := c10ParamIndex(mp), c10ParamIndex(dp)
			if in.Site.Common().IsInvoke() || mi >= len(args) || di >= len(args) {
				return "called through an interface from " + x.fname(in.Caller.Func) + ": cannot match the arguments", true
			}
			ex, isEx := c10Strip(args[di]).(*ssa.Extract)
			var k *ssa.Call
			if isEx && ex.Index == 0 {
				k, _ = ex.Tuple.(*ssa.Call)
			}
			if k == nil || (k.Common().StaticCallee() != x.sendEvent && k.Common().StaticCallee() != x.recoverFn) {
				return "the done flag passed by " + x.fname(in.Caller.Func) + " (" + w.Pos(in.Site.Pos()) + ") is not the result of SendEvent/Recover", true
			}
			if c10Strip(k.Call.Args[0]) != c10Strip(args[mi]) {
				return "the done flag passed by " + x.fname(in.Caller.Func) + " (" + w.Pos(in.Site.Pos()) + ") belongs to another machine than the one released", true
			}
		}
	}
	if n == 0 {
		return "", false
	}
	return "", true
}
