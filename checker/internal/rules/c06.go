package rules

import (
	"fmt"
	"strings"

	"golang.org/x/tools/go/ssa"

	"psv/internal/an"
)

func init() {
	Register(&Prop{
		ID:   "C06",
		Expl: "Decides, over the four state tables extracted from swap/*.go and the SSA effect summaries of every action, that (R1) no state reachable by ANY event sequence from the success target of the claim-payment state has a key-disclosing action, and the only terminal state reachable is the preimage-claimed one; (R2) CoopCloseMessage.Privkey is only written inside actions used by taker tables; (R3) the pay state and its successors are not FailOnrecover and every call that creates a claim payment is dominated by a guard on the persisted preimage, so a restart between the post-payment store write and the next state does not re-pay and fall into the failure edge; (R4) where negotiation timers are armed and that they are never cancelled (so OnTimeout must be safe in every later state). The quantifier is over all states, edges and call sites, i.e. over all histories of accepted events.",
		NotD: "Whether an HTLC is still in flight when the payment call returns an error (run-time state of the Lightning node); timing.",
		Run:  runC06,
	})
}

func runC06(c *an.Check) {
	c.Rule("C06.R1", "no state reachable (over all events) from the success target of the pay state discloses the key; reachable terminals ⊆ {preimage-claimed}")
	c.Rule("C06.R2", "stores to CoopCloseMessage.Privkey occur only in actions of taker tables")
	c.Rule("C06.R3", "pay state and its successors are not FailOnrecover; every claim-payment call is dominated by the `ClaimPreimage == \"\"` guard whose other edge only succeeds")
	c.Rule("C06.R4", "negotiation timers are armed only in the first action of a table (info: whether toCancel is ever invoked)")
	if !needEffects(c, fxPay, fxPreimageSpend, fxAddTimeout) {
		return
	}
	ts := tables(c)
	if ts == nil {
		return
	}
	tk := takers(ts)
	if !c.AtLeast("C06", "taker tables", len(tk), 2) {
		return
	}
	dis := disclosingFuncs(c.W)
	if !c.AtLeast("C06", "disclosing functions", len(dis), 1) {
		return
	}
	w := c.W

	for _, t := range tk {
		pays := t.statesWith(fxPay)
		for _, p := range pays {
			pe := t.T.States[p]
			tgt, ok := pe.Events[evSucceeded]
			if !ok {
				c.Bad("C06.R1", t.key(p), t.pos(c, p), "pay state has no success edge")
				continue
			}
			// the preimage-claimed terminal: success target of the state with the preimage spend
			okTerm := map[string]bool{}
			for _, cs := range t.statesWith(fxPreimageSpend) {
				if x, ok := t.T.States[cs].Events[evSucceeded]; ok {
					okTerm[x] = true
				}
			}
			reach := t.T.Reach(tgt)
			for _, s := range t.T.Order {
				if !reach[s] {
					continue
				}
				e := t.T.States[s]
				if s == tgt {
					// the target itself
					c.Decide(!t.discloses(w, s, dis), "C06.R1", t.key(p)+" --"+evSucceeded+"--> "+s, t.pos(c, s),
						"target of the successful payment does not disclose", "the state entered after a successful payment discloses the key")
				}
				if e.Terminal() {
					c.Decide(okTerm[s], "C06.R1", t.key(s)+" terminal-after-payment", t.pos(c, s),
						"terminal reached after payment is the preimage-claimed state",
						"a terminal state other than the preimage-claimed one is reachable after the claim payment succeeded: "+strings.Join(t.T.FindPath(tgt, s), " ; "))
				}
				for _, ev := range e.SortedEvents() {
					nx := e.Events[ev]
					bad := t.discloses(w, nx, dis)
					c.Decide(!bad, "C06.R1", t.edgeKey(s, ev), w.Pos(e.EventPos[ev]),
						"edge after payment does not lead into a disclosing action",
						fmt.Sprintf("after the claim payment succeeded (%s --%s--> %s) event %s moves the swap into %s whose action %v sends the private key", p, evSucceeded, tgt, ev, nx, t.T.States[nx].ActionNames()),
					)
				}
			}
			// R3 flags
			c.Decide(!pe.FailOnRecover, "C06.R3", t.key(p)+" FailOnrecover", t.pos(c, p), "pay state is re-executed on recovery, not failed", "pay state is FailOnrecover: a restart after the payment went out takes the failure edge to disclosure")
			for _, s := range t.T.Order {
				if reach[s] && !t.T.States[s].Terminal() {
					c.Decide(!t.T.States[s].FailOnRecover, "C06.R3", t.key(s)+" FailOnrecover", t.pos(c, s), "post-payment state is not FailOnrecover", "post-payment state is FailOnrecover")
				}
			}
		}
	}

	// R2: who writes the key field
	inTaker := map[*ssa.Function]bool{}
	inOther := map[*ssa.Function]string{}
	for _, t := range ts {
		isTaker := false
		for _, x := range tk {
			if x == t {
				isTaker = true
			}
		}
		for _, s := range t.T.Order {
			for _, fn := range t.Sum[s].Execs {
				if isTaker {
					inTaker[fn] = true
				} else {
					inOther[fn] = t.key(s)
				}
			}
		}
	}
	for fn, sts := range dis {
		name := w.FuncName(fn)
		pos := w.Pos(sts[0].Pos())
		switch {
		case inOther[fn] != "":
			c.Bad("C06.R2", name, pos, "a key-disclosing action is used by a non-taker table: "+inOther[fn])
		case inTaker[fn]:
			c.OK("C06.R2", name, pos, "disclosing action appears only in taker tables")
		default:
			c.Bad("C06.R2", name, pos, "CoopCloseMessage.Privkey is written outside the actions of the taker tables")
		}
	}

	// R3: guard on the persisted preimage before every payment-creating call
	nPay := 0
	for _, fn := range prodFuncs(w) {
		if w.FnRel(fn) != "swap" {
			continue
		}
		for _, call := range callsNamed(w, fn, fxPay) {
			nPay++
			facts := w.FactsDominating(call)
			cons := w.FuncName(fn) + " call " + strings.TrimPrefix(fxPay, "iface:")
			var guard *an.Fact
			for i, f := range facts {
				if an.EqIs(f, "==", "SwapData.ClaimPreimage", `""`) {
					guard = &facts[i]
				}
			}
			if guard == nil {
				c.Bad("C06.R3", cons, w.Pos(call.Pos()),
					"the claim payment is started without testing the persisted ClaimPreimage: a crash after the post-payment store write and before the next state is stored re-executes this action, pays again, and an 'already paid' error takes the failure edge to key disclosure. Facts that do hold: "+an.DescribeFacts(facts))
				continue
			}
			// the other edge of that guard must only succeed
			other := an.Edge{From: guard.Edge.From, Idx: 1 - guard.Edge.Idx}
			reach := an.ReachBlocks([]*ssa.BasicBlock{other.To()}, nil, nil)
			evs := returnEventsFrom(w, fn, reach)
			okOnly := true
			if other.To() == guard.Edge.To() {
				okOnly = false
			}
			// the blocks reachable from the "already have a preimage" edge must not reach the pay call
			if reach[call.Block()] {
				okOnly = false
			}
			for ev := range evs {
				if ev != evSucceeded {
					okOnly = false
				}
			}
			imp := impureCallsIn(w, fn, alreadyDoneRegion(w, fn, "SwapData.ClaimPreimage"))
			c.Decide(len(imp) == 0, "C06.R3", cons+" already-paid path", w.Pos(call.Pos()),
				"a swap whose preimage is already recorded succeeds without consulting outside services",
				"on re-execution with the preimage already recorded (restart after a successful payment) the action still calls "+strings.Join(imp, "; ")+" before it returns: if that fails, or the payment window has meanwhile closed, the failure edge sends coop_close with the key although the invoice was paid")
			c.Decide(okOnly, "C06.R3", cons, w.Pos(call.Pos()),
				"payment is skipped and success returned when the preimage is already recorded",
				fmt.Sprintf("the branch taken when a preimage is already recorded can still pay or fail (returns %v)", sortedKeysOf(evs)))
		}
	}
	c.AtLeast("C06.R3", "claim-payment call sites", nPay, 1)

	// R4: timers
	f := ts[0].F
	sites := findCallSites(w, fxAddTimeout)
	c.AtLeast("C06.R4", "addNewTimeOut call sites", len(sites), 3)
	for _, site := range sites {
		fn := site.Parent()
		// which states run this function?
		first := true
		used := false
		for _, t := range ts {
			for _, s := range t.T.Order {
				for _, ef := range t.Sum[s].Effects {
					if ef.Info.Instr == site {
						used = true
						// s must be the target of an edge out of Default
						isFirst := false
						for _, ev := range t.T.States[""].SortedEvents() {
							if t.T.States[""].Events[ev] == s {
								isFirst = true
							}
						}
						if !isFirst {
							first = false
						}
					}
				}
			}
		}
		_ = f
		c.Decide(used && first, "C06.R4", w.FuncName(fn)+" addNewTimeOut", w.Pos(site.Pos()),
			"negotiation timer armed in the first state of its table(s)", "a timeout is armed outside the first state of a table: OnTimeout provenance changed")
	}
	// is toCancel ever invoked?
	invoked := false
	for _, fn := range prodFuncs(w) {
		for _, call := range an.Calls(fn) {
			if strings.HasPrefix(w.Info(call).Name, "dyn:SwapData.toCancel") {
				invoked = true
			}
		}
	}
	c.Note("C06.R4", "SwapData.toCancel invoked", "-", fmt.Sprintf("%v — when false the negotiation timer is never cancelled and Event_OnTimeout can arrive in every later state, which is why R1 quantifies over all events", invoked))
}

func sortedKeysOf(m map[string][]*ssa.Return) []string {
	k := map[string]bool{}
	for x := range m {
		k[x] = true
	}
	return sortedKeys(k)
}
