package rules

import (
	"fmt"
	"go/constant"
	"go/token"
	"go/types"
	"sort"
	"strings"
	"sync"

	"golang.org/x/tools/go/ssa"

	"psv/internal/an"
)

func init() {
	Register(&Prop{
		ID:   "C06",
		Expl: "Decides, over the four state tables extracted from swap/*.go and the SSA effect summaries of every action, that (R1) no state reachable by ANY event sequence from the success target of the claim-payment state has a key-disclosing action, and the only terminal state reachable is the preimage-claimed one; (R2) CoopCloseMessage.Privkey is only written inside actions used by taker tables, or in helpers/closures all of whose production callers are (transitively) such actions; (R3) the pay state and its successors are not FailOnrecover and, on every static call chain from a table action to a call that creates a claim payment, some call of the chain is dominated by a guard on the persisted preimage (written directly, with len(), through a getter or a predicate helper) whose other branch only succeeds without consulting outside services, so a restart between the post-payment store write and the next state does not re-pay and fall into the failure edge; (R4) that every action which arms a negotiation timer (directly or through a helper) is run only by first states of the tables, and whether the timers are ever cancelled (so OnTimeout must be safe in every later state). (R5) that no state at or after the pay state is FailOnrecover with an Event_ActionFailed edge from which a disclosing action is reachable (Recover injects that event although the payment may already be made); (R6) that every payment RPC reached from the LightningClient implementations of RebalancePayment, PayInvoiceViaChannel and RecoverClaimPayment (lnd: router SendPaymentV2 / TrackPaymentV2 and the other payment streams; CLN: waitsendpay) is not bounded by a deadline of the adapter's own making - the context comes from the client's lifetime context (constructor parameter, Background, WithCancel/WithValue of those), never from context.WithTimeout/WithDeadline, directly or through a helper, and the waitsendpay timeout is the constant 0 - because the pay action reads any error of these calls as 'not paid' and ends in coop_close with the key. (R7) that every call of the claim-payment primitive reached from a paying action (the paying action is identified also when the call sits in a goroutine or closure) is made synchronously and its error is tested on the way back to the action: a payment started in a goroutine whose result the caller waits for in a select with another arm (ctx.Done(), timer) lets the action fail while the HTLC is in flight. The quantifier is over all states, edges and call sites, i.e. over all histories of accepted events.",
		NotD: "Whether an HTLC is still in flight when the payment call returns an error for reasons outside the adapter (connection loss, stream.Recv failing, the node shutting down - run-time state of the Lightning node): R6 decides only deadlines the adapter imposes on itself; timing.",
		Run:  runC06,
	})
}

func runC06(c *an.Check) {
	c.Rule("C06.R1", "no state reachable (over all events) from the success target of the pay state discloses the key; reachable terminals ⊆ {preimage-claimed}")
	c.Rule("C06.R2", "stores to CoopCloseMessage.Privkey occur only in actions of taker tables (or in helpers whose every production caller is such an action)")
	c.Rule("C06.R3", "pay state and its successors are not FailOnrecover; every claim-payment call is dominated (in the action or at a call leading to it) by the `ClaimPreimage == \"\"` guard whose other edge only succeeds")
	c.Rule("C06.R4", "negotiation timers are armed only in the first action of a table (info: whether toCancel is ever invoked)")
	c.Rule("C06.R5", "a FailOnrecover state at or after the claim payment must not lead, through the Event_ActionFailed that Recover injects, to a key-disclosing action")
	c.Rule("C06.R7", "every claim-payment call reached from a paying action is a synchronous call whose error result is tested on the way to the action's decision: the action cannot report failure while the payment is still in flight")
	c.Rule("C06.R6", "the payment RPCs behind RebalancePayment / PayInvoiceViaChannel / RecoverClaimPayment run without a self-imposed deadline (client lifetime context; CLN waitsendpay timeout 0): their error means 'not paid' to the pay action")
	if !needEffects(c, fxPay, fxPreimageSpend, fxAddTimeout) {
		return
	}
	ts := tables(c)
	if ts == nil {
		return
	}
	tk := c06Takers(c.W, ts)
	if !c.AtLeast("C06", "taker tables", len(tk), 2) {
		return
	}
	dis := disclosingFuncs(c.W)
	if !c.AtLeast("C06", "disclosing functions", len(dis), 1) {
		return
	}
	w := c.W
	idx := c06BuildCallIdx(w)

	for _, t := range tk {
		pays := c06PayStates(c.W, t)
		for _, p := range pays {
			pe := t.T.States[p]
			tgt, ok := pe.Events[evSucceeded]
			if !ok {
				c.Unknown("C06.R1", t.key(p), t.pos(c, p), "the pay state has no "+evSucceeded+" edge: the state entered after a successful payment cannot be identified")
				continue
			}
			// the preimage-claimed terminal: success target of the state with the preimage spend
			okTerm := map[string]bool{}
			for _, cs := range t.statesWith(fxPreimageSpend) {
				if x, ok := t.T.States[cs].Events[evSucceeded]; ok {
					okTerm[x] = true
				}
			}
			reach := t.T.Reach(tgt)
			for _, s := range t.T.Order {
				if !reach[s] {
					continue
				}
				e := t.T.States[s]
				if e.Terminal() && len(okTerm) == 0 {
					c.Unknown("C06.R1", t.key(s)+" terminal-after-payment", t.pos(c, s), "the preimage-claimed terminal state cannot be identified (no state of this table builds the preimage spend synchronously)")
					continue
				}
				if s == tgt {
					// the target itself
					c.Decide(!t.discloses(w, s, dis), "C06.R1", t.key(p)+" --"+evSucceeded+"--> "+s, t.pos(c, s),
						"target of the successful payment does not disclose", "the state entered after a successful payment discloses the key")
				}
				if e.Terminal() {
					c.Decide(okTerm[s], "C06.R1", t.key(s)+" terminal-after-payment", t.pos(c, s),
						"terminal reached after payment is the preimage-claimed state",
						"a terminal state other than the preimage-claimed one is reachable after the claim payment succeeded: "+strings.Join(t.T.FindPath(tgt, s), " ; "))
				}
				for _, ev := range e.SortedEvents() {
					nx := e.Events[ev]
					bad := t.discloses(w, nx, dis)
					c.Decide(!bad, "C06.R1", t.edgeKey(s, ev), w.Pos(e.EventPos[ev]),
						"edge after payment does not lead into a disclosing action",
						fmt.Sprintf("after the claim payment succeeded (%s --%s--> %s) event %s moves the swap into %s whose action %v sends the private key", p, evSucceeded, tgt, ev, nx, t.T.States[nx].ActionNames()),
					)
				}
			}
			// R3 flags
			c.Decide(!pe.FailOnRecover, "C06.R3", t.key(p)+" FailOnrecover", t.pos(c, p), "pay state is re-executed on recovery, not failed", "pay state is FailOnrecover: a restart after the payment went out takes the failure edge to disclosure")
			for _, s := range t.T.Order {
				if reach[s] && !t.T.States[s].Terminal() {
					c.Decide(!t.T.States[s].FailOnRecover, "C06.R3", t.key(s)+" FailOnrecover", t.pos(c, s), "post-payment state is not FailOnrecover", "post-payment state is FailOnrecover")
				}
			}
			// R5: Recover() answers a FailOnrecover state with Event_ActionFailed. The
			// record is written after every action, so a swap found in the pay state (or
			// a later one) may already have paid: the injected failure must not lead to
			// a disclosing action.
			for _, s := range t.T.Order {
				if s != p && !reach[s] {
					continue
				}
				e := t.T.States[s]
				if e.Terminal() {
					continue
				}
				cons := t.key(s) + " recover-after-payment"
				if !e.FailOnRecover {
					if s == p {
						c.OK("C06.R5", cons, t.pos(c, s), "the pay state is re-executed on recovery (its action is guarded by the persisted preimage), not failed")
					}
					continue
				}
				nx, ok := e.Events[evFailed]
				if !ok {
					c.OK("C06.R5", cons, t.pos(c, s), "FailOnrecover state without an "+evFailed+" edge: nothing is disclosed (that the swap is then stuck is C15.R6)")
					continue
				}
				var leak []string
				fr := t.T.Reach(nx)
				for _, x := range t.T.Order {
					if fr[x] && t.discloses(w, x, dis) {
						leak = append(leak, x+" via "+strings.Join(t.T.FindPath(nx, x), " ; "))
					}
				}
				c.Decide(len(leak) == 0, "C06.R5", cons, t.pos(c, s),
					"the failure injected on recovery does not lead to a key-disclosing action",
					"the state is FailOnrecover and the record is written after every action: a crash after the claim payment was made (or recorded) and before the next state is stored leaves the swap here; Recover() then injects "+evFailed+" -> "+nx+", from where a key-disclosing action is reachable ("+strings.Join(leak, " | ")+"): the key is sent in coop_close for an invoice that was paid")
			}
		}
	}

	// R2: who writes the key field
	inTaker := map[*ssa.Function]bool{}
	inOther := map[*ssa.Function]string{}
	for _, t := range ts {
		isTaker := false
		for _, x := range tk {
			if x == t {
				isTaker = true
			}
		}
		for _, s := range t.T.Order {
			for _, fn := range t.Sum[s].Execs {
				if isTaker {
					inTaker[fn] = true
				} else {
					inOther[fn] = t.key(s)
				}
			}
		}
	}
	var disFns []*ssa.Function
	for fn := range dis {
		disFns = append(disFns, fn)
	}
	sort.Slice(disFns, func(i, j int) bool { return w.FuncName(disFns[i]) < w.FuncName(disFns[j]) })
	for _, fn := range disFns {
		name := w.FuncName(fn)
		pos := w.Pos(dis[fn][0].Pos())
		v, why := c06Discloser(w, idx, fn, inTaker, inOther, 0, map[*ssa.Function]bool{})
		switch v {
		case c06OK:
			c.OK("C06.R2", name, pos, why)
		case c06Bad:
			c.Bad("C06.R2", name, pos, why)
		default:
			c.Unknown("C06.R2", name, pos, why)
		}
	}

	// R3: guard on the persisted preimage before every payment-creating call
	type payUse struct {
		in    ssa.CallInstruction
		roots map[*ssa.Function]bool
	}
	payUses := map[ssa.CallInstruction]*payUse{}
	payStates := map[string]bool{}
	for _, t := range ts {
		for _, s := range t.T.Order {
			for _, ex := range t.Sum[s].Execs {
				for _, site := range c06PaySites(w, ex, 0, map[*ssa.Function]bool{}) {
					u := payUses[site]
					if u == nil {
						u = &payUse{in: site, roots: map[*ssa.Function]bool{}}
						payUses[site] = u
					}
					u.roots[ex] = true
					payStates[t.key(s)] = true
				}
			}
		}
	}
	for _, fn := range prodFuncs(w) {
		if w.FnRel(fn) != "swap" || isDummy(w, fn) {
			continue
		}
		for _, call := range callsNamed(w, fn, fxPay) {
			if payUses[call] == nil {
				c.Unknown("C06.R3", w.FuncName(fn)+" call "+strings.TrimPrefix(fxPay, "iface:"), w.Pos(call.Pos()),
					"a claim payment is started by code that no action of a state table reaches synchronously: the restart behaviour of this call is not covered by the rule")
			}
		}
	}
	var uses []*payUse
	for _, u := range payUses {
		uses = append(uses, u)
	}
	sort.Slice(uses, func(i, j int) bool { return uses[i].in.Pos() < uses[j].in.Pos() })
	const field = "SwapData.ClaimPreimage"
	for _, u := range uses {
		var roots []*ssa.Function
		for r := range u.roots {
			roots = append(roots, r)
		}
		sort.Slice(roots, func(i, j int) bool { return w.FuncName(roots[i]) < w.FuncName(roots[j]) })
		for _, root := range roots {
			cons := w.FuncName(root) + " call " + strings.TrimPrefix(fxPay, "iface:")
			pos := w.Pos(u.in.Pos())
			chains := c06Chains(w, idx, root, u.in, true)
			if len(chains) == 0 {
				c.Unknown("C06.R3", cons, pos, "the static call chain from the action to the payment call cannot be reconstructed")
				continue
			}
			var impBad, impUnk []string
			var facts []an.Fact
			unguarded, opaque := "", ""
			for _, ch := range chains {
				g := c06ChainGuard(w, ch, field, false, false)
				facts = append(facts, g.facts...)
				switch {
				case g.field != "":
					impBad = append(impBad, g.impure...)
					impUnk = append(impUnk, g.impureAfter...)
				case g.opaque != "":
					opaque = g.opaque
				default:
					unguarded = c06ChainString(w, ch)
				}
			}
			switch {
			case unguarded != "":
				c.Bad("C06.R3", cons, pos,
					"the claim payment is started without a guard on the persisted ClaimPreimage whose already-paid branch only succeeds (call chain "+unguarded+"): a crash after the post-payment store write and before the next state is stored re-executes this action, pays again, and an 'already paid' error takes the failure edge to key disclosure. Facts that do hold: "+an.DescribeFacts(facts))
				continue
			case opaque != "":
				c.Unknown("C06.R3", cons, pos, "cannot decide whether the payment is guarded: "+opaque)
				continue
			}
			switch {
			case len(impBad) > 0:
				c.Bad("C06.R3", cons+" already-paid path", pos,
					"on re-execution with the preimage already recorded (restart after a successful payment) the action still calls "+strings.Join(c06Uniq(impBad), "; ")+" before it returns: if that fails, or the payment window has meanwhile closed, the failure edge sends coop_close with the key although the invoice was paid")
			case len(impUnk) > 0:
				c.Unknown("C06.R3", cons+" already-paid path", pos,
					"the ClaimPreimage guard sits inside a helper; after it returns the caller calls outside services ("+strings.Join(c06Uniq(impUnk), "; ")+") and the rule cannot separate the first execution from the re-execution there")
			default:
				c.OK("C06.R3", cons+" already-paid path", pos, "a swap whose preimage is already recorded succeeds without consulting outside services")
			}
			c.OK("C06.R3", cons, pos, "payment is skipped and success returned when the preimage is already recorded")
		}
	}
	c.AtLeast("C06.R3", "states whose action starts the claim payment", len(payStates), 2)

	// R4: timers. The semantic instance is (table, state that arms a timer),
	// found through the effect summaries, so a shared arming helper counts once
	// per state that uses it.
	armStates := 0
	armExecs := map[*ssa.Function][]string{} // exec -> states that are not first states
	armPos := map[*ssa.Function]ssa.CallInstruction{}
	reached := map[ssa.CallInstruction]bool{}
	for _, t := range ts {
		first := map[string]bool{}
		if d := t.T.States[""]; d != nil {
			for _, ev := range d.SortedEvents() {
				first[d.Events[ev]] = true
			}
		}
		if len(first) == 0 {
			c.Unknown("C06.R4", t.key("")+" first states", t.pos(c, ""), "the table has no default state with outgoing events: its first states cannot be identified")
			continue
		}
		for _, s := range t.T.Order {
			armed := false
			for _, ex := range t.Sum[s].Execs {
				sites := w.Summary(ex).Sites(fxAddTimeout)
				if len(sites) == 0 {
					continue
				}
				armed = true
				for _, ef := range sites {
					reached[ef.Info.Instr] = true
				}
				if _, ok := armExecs[ex]; !ok {
					armExecs[ex] = nil
					armPos[ex] = sites[0].Info.Instr
				}
				if !first[s] {
					armExecs[ex] = append(armExecs[ex], t.key(s))
				}
			}
			if armed {
				armStates++
			}
		}
	}
	c.AtLeast("C06.R4", "(table, state) pairs that arm a negotiation timer", armStates, 4)
	var armFns []*ssa.Function
	for fn := range armExecs {
		armFns = append(armFns, fn)
	}
	sort.Slice(armFns, func(i, j int) bool { return w.FuncName(armFns[i]) < w.FuncName(armFns[j]) })
	for _, fn := range armFns {
		late := armExecs[fn]
		c.Decide(len(late) == 0, "C06.R4", w.FuncName(fn)+" addNewTimeOut", w.Pos(armPos[fn].Pos()),
			"negotiation timer armed in the first state of its table(s)", "a timeout is armed outside the first state of a table ("+strings.Join(late, ", ")+"): OnTimeout provenance changed")
	}
	for _, site := range findCallSites(w, fxAddTimeout) {
		if !reached[site] && !isDummy(w, site.Parent()) {
			c.Unknown("C06.R4", w.FuncName(site.Parent())+" addNewTimeOut", w.Pos(site.Pos()),
				"a timeout is armed by code that no action of a state table reaches synchronously: its provenance is not covered by the rule")
		}
	}
	// R6: the adapters must not give up on a payment that is still outstanding
	c06PaymentDeadlines(c)

	// R7: the payment result is awaited
	for _, u := range uses {
		var roots []*ssa.Function
		for r := range u.roots {
			roots = append(roots, r)
		}
		sort.Slice(roots, func(i, j int) bool { return w.FuncName(roots[i]) < w.FuncName(roots[j]) })
		for _, root := range roots {
			c06PaymentAwaited(c, idx, root, u.in)
		}
	}

	// is toCancel ever invoked?
	invoked := false
	for _, fn := range prodFuncs(w) {
		for _, call := range an.Calls(fn) {
			if strings.HasPrefix(w.Info(call).Name, "dyn:SwapData.toCancel") {
				invoked = true
			}
		}
	}
	c.Note("C06.R4", "SwapData.toCancel invoked", "-", fmt.Sprintf("%v — when false the negotiation timer is never cancelled and Event_OnTimeout can arrive in every later state, which is why R1 quantifies over all events", invoked))
}

func sortedKeysOf(m map[string][]*ssa.Return) []string {
	k := map[string]bool{}
	for x := range m {
		k[x] = true
	}
	return sortedKeys(k)
}

// ---- paying actions, also through goroutines; R7 ------------------------------------------------

// c06PaySites: the claim-payment calls fn reaches synchronously or through the
// goroutines (go statements, at any depth <= 3 of nesting) it starts.
func c06PaySites(w *an.World, fn *ssa.Function, depth int, seen map[*ssa.Function]bool) []ssa.CallInstruction {
	if fn == nil || fn.Blocks == nil || seen[fn] || depth > 3 {
		return nil
	}
	seen[fn] = true
	var out []ssa.CallInstruction
	for _, ef := range w.Summary(fn).Effects {
		if ef.Name == fxPay {
			out = append(out, ef.Info.Instr)
		}
		if ef.Info.IsGo {
			for _, g := range c06Callees(w, ef.Info.Instr) {
				out = append(out, c06PaySites(w, g, depth+1, seen)...)
			}
		}
	}
	return out
}

// c06PayStates: the states of t whose action tree reaches the claim payment.
func c06PayStates(w *an.World, t *TI) []string {
	var out []string
	for _, s := range t.T.Order {
		hit := false
		for _, ex := range t.Sum[s].Execs {
			if len(c06PaySites(w, ex, 0, map[*ssa.Function]bool{})) > 0 {
				hit = true
			}
		}
		if hit {
			out = append(out, s)
		}
	}
	return out
}

// c06Takers: tables with a paying state (by effect, also through goroutines).
func c06Takers(w *an.World, ts []*TI) []*TI {
	var out []*TI
	for _, t := range ts {
		if len(c06PayStates(w, t)) > 0 {
			out = append(out, t)
		}
	}
	return out
}

// c06PaymentAwaited decides R7 for one payment call reached from action root.
func c06PaymentAwaited(c *an.Check, idx *c06CallIdx, root *ssa.Function, site ssa.CallInstruction) {
	w := c.W
	cons := w.FuncName(root) + " awaits " + strings.TrimPrefix(fxPay, "iface:")
	pos := w.Pos(site.Pos())
	chains := c06Chains(w, idx, root, site, true)
	if len(chains) == 0 {
		c.Unknown("C06.R7", cons, pos, "the call chain from the action to the payment call cannot be reconstructed")
		return
	}
	bad, unk := "", ""
	for _, ch := range chains {
		// a go statement on the chain: the payment runs concurrently with the action
		goAt := -1
		for k, st := range ch {
			if _, isGo := st.Call.(*ssa.Go); isGo {
				goAt = k
			}
		}
		if goAt >= 0 {
			starter := ch[goAt].Fn
			abandon := ""
			// the channels on which the goroutine delivers, and how the function that
			// started it waits for them
			results := c06ResultChans(ch[goAt].Call)
			awaited := false
			for _, b := range starter.Blocks {
				for _, in := range b.Instrs {
					switch x := in.(type) {
					case *ssa.Select:
						for _, st := range x.States {
							if st.Dir == types.RecvOnly && results[c06ChanKey(st.Chan, nil)] {
								if len(x.States) >= 2 || !x.Blocking {
									abandon = w.Pos(x.Pos())
								} else {
									awaited = true
								}
							}
						}
					case *ssa.UnOp:
						if x.Op == token.ARROW && results[c06ChanKey(x.X, nil)] {
							awaited = true
						}
					}
				}
			}
			if abandon == "" && awaited {
				continue // started concurrently but unconditionally waited for
			}
			if abandon != "" {
				bad = "the payment is started in a goroutine by " + w.FuncName(starter) + " (" + w.Pos(ch[goAt].Call.Pos()) + ") and its result is waited for in a select with another arm (" + abandon + "): when that arm fires (retry context done, timer) the caller returns an error and the action reports failure while the HTLC is still in flight; the failure edge sends coop_close with the key and the goroutine's preimage is dropped"
			} else if unk == "" {
				unk = "the payment is started in a goroutine by " + w.FuncName(starter) + "; how its result is awaited is not interpreted"
			}
			continue
		}
		// synchronous: the error must be tested somewhere on the way up
		tested := false
		for k := len(ch) - 1; k >= 0; k-- {
			cv, ok := ch[k].Call.(*ssa.Call)
			if !ok {
				break // defer: result lost
			}
			if okE, _ := an.OkEdges(cv); len(okE) > 0 {
				tested = true
				break
			}
			if !c06PassThrough(cv) {
				break
			}
		}
		if !tested && unk == "" {
			unk = "the error result of the payment call is not tested on the way to the action's decision (chain " + c06ChainString(w, ch) + ")"
		}
	}
	switch {
	case bad != "":
		c.Bad("C06.R7", cons, pos, bad)
	case unk != "":
		c.Unknown("C06.R7", cons, pos, unk)
	default:
		c.OK("C06.R7", cons, pos, "the payment call is synchronous and its error is tested: the action decides only after the payment call returned")
	}
}

// c06ChanKey normalises a channel value: a local variable holding one
// make(chan) is that make; a captured variable / parameter of a goroutine is
// the value bound at the go statement.
func c06ChanKey(v ssa.Value, goCall ssa.CallInstruction) ssa.Value {
	for i := 0; i < 8 && v != nil; i++ {
		switch x := v.(type) {
		case *ssa.ChangeType:
			v = x.X
			continue
		case *ssa.UnOp:
			if x.Op == token.MUL {
				v = x.X
				continue
			}
		case *ssa.Alloc:
			var stored []ssa.Value
			if x.Referrers() != nil {
				for _, r := range *x.Referrers() {
					if st, ok := r.(*ssa.Store); ok && st.Addr == x {
						stored = append(stored, st.Val)
					}
				}
			}
			if len(stored) == 1 {
				v = stored[0]
				continue
			}
		case *ssa.FreeVar:
			if goCall != nil {
				if mc, ok := goCall.Common().Value.(*ssa.MakeClosure); ok {
					for j, fv := range x.Parent().FreeVars {
						if fv == x && j < len(mc.Bindings) {
							v = mc.Bindings[j]
							goCall = nil
						}
					}
					if goCall == nil {
						continue
					}
				}
			}
		case *ssa.Parameter:
			if goCall != nil && goCall.Common().StaticCallee() == x.Parent() {
				for j, p := range x.Parent().Params {
					if p == x && j < len(goCall.Common().Args) {
						v = goCall.Common().Args[j]
						goCall = nil
					}
				}
				if goCall == nil {
					continue
				}
			}
		}
		break
	}
	return v
}

// c06ResultChans: the channels (normalised in the starter's frame) on which the
// function started by the go statement sends.
func c06ResultChans(goCall ssa.CallInstruction) map[ssa.Value]bool {
	out := map[ssa.Value]bool{}
	g := goCall.Common().StaticCallee()
	if g == nil {
		return out
	}
	for _, b := range g.Blocks {
		for _, in := range b.Instrs {
			if snd, ok := in.(*ssa.Send); ok {
				out[c06ChanKey(snd.Chan, goCall)] = true
			}
		}
	}
	return out
}

// c06PassThrough: the call's results are returned as they are (`return f(…)`).
func c06PassThrough(call *ssa.Call) bool {
	refs := call.Referrers()
	if refs == nil || len(*refs) == 0 {
		return false
	}
	for _, r := range *refs {
		switch x := r.(type) {
		case *ssa.Return, *ssa.DebugRef:
		case *ssa.Extract:
			if x.Referrers() == nil {
				return false
			}
			for _, rr := range *x.Referrers() {
				switch rr.(type) {
				case *ssa.Return, *ssa.DebugRef:
				default:
					return false
				}
			}
		default:
			return false
		}
	}
	return true
}

// ---- R6: no self-imposed deadline on payment RPCs -------------------------------------------

// lnd RPCs that start or follow a payment (context is argument 0 of the invoke).
var c06LndPaymentRPC = map[string]bool{
	"SendPaymentV2": true, "TrackPaymentV2": true, "TrackPayments": true, "SendToRouteV2": true, "SendToRoute": true,
	"SendPayment": true, "SendPaymentSync": true, "SendToRouteSync": true,
}

// CLN calls that wait for a payment, with the index (in Call.Args, receiver
// first) of their timeout parameter.
var c06ClnPaymentWait = map[string]int{
	"func:(*github.com/elementsproject/glightning/glightning.Lightning).WaitSendPay":     2,
	"func:(*github.com/elementsproject/glightning/glightning.Lightning).WaitSendPayPart": 2,
}

const (
	c06CtxLifetime = iota
	c06CtxDeadline
	c06CtxUnknown
)

func c06PaymentDeadlines(c *an.Check) {
	w := c.W
	idx := c06BuildCallIdx(w)
	pairs := 0
	for _, meth := range []string{"RebalancePayment", "PayInvoiceViaChannel", "RecoverClaimPayment"} {
		for _, fn := range implementers(w, "swap", "LightningClient", meth) {
			if isDummy(w, fn) {
				continue
			}
			name := w.FuncName(fn)
			done := map[string]bool{}
			for _, ef := range w.Summary(fn).Effects {
				ci := ef.Info
				call := ci.Instr
				if _, isGo := call.(*ssa.Go); isGo {
					continue
				}
				rpc := ""
				ctxArg, timeoutArg := -1, -1
				switch {
				case ci.Iface != nil && c06LndPaymentRPC[ci.Method] && strings.Contains(ci.PkgPath, "lnd/lnrpc"):
					rpc, ctxArg = ci.Iface.Obj().Name()+"."+ci.Method, 0
				case ci.Static != nil:
					if ti, ok := c06ClnPaymentWait[ci.Name]; ok {
						rpc, timeoutArg = ci.Static.Name(), ti
					}
				}
				if rpc == "" {
					continue
				}
				cons := name + " payment RPC " + rpc
				if !done[cons] {
					done[cons] = true
					pairs++
				}
				pos := w.Pos(call.Pos())
				args := call.Common().Args
				if timeoutArg >= 0 {
					if timeoutArg >= len(args) {
						c.Unknown("C06.R6", cons, pos, "unexpected argument list")
						continue
					}
					chains := c06Chains(w, idx, fn, call, false)
					vals := c06ArgValues(args[timeoutArg], chains)
					verdict := c06CtxLifetime
					detail := ""
					for _, v := range vals {
						if n, ok := an.ConstInt(v); ok {
							if n != 0 {
								verdict, detail = c06CtxDeadline, fmt.Sprintf("timeout %d s", n)
							}
						} else if verdict != c06CtxDeadline {
							verdict, detail = c06CtxUnknown, "timeout "+w.Term(v)
						}
					}
					switch verdict {
					case c06CtxLifetime:
						c.OK("C06.R6", cons, pos, "waits for the payment without a timeout (0 = until it is settled or failed)")
					case c06CtxDeadline:
						c.Bad("C06.R6", cons, pos, "the adapter waits for the payment with its own "+detail+": when it elapses the call returns an error while the HTLC is still outstanding; the pay action reads that as 'not paid' and its failure edge sends coop_close with the key")
					default:
						c.Unknown("C06.R6", cons, pos, "the timeout handed to the payment wait is not a constant ("+detail+")")
					}
					continue
				}
				if ctxArg >= len(args) {
					c.Unknown("C06.R6", cons, pos, "unexpected argument list")
					continue
				}
				chains := c06Chains(w, idx, fn, call, false)
				verdict, why := c06CtxLifetime, ""
				if len(chains) == 0 {
					chains = [][]c06Step{{{call.Parent(), call}}}
				}
				for _, ch := range chains {
					v, y := c06CtxOrigin(w, args[ctxArg], ch, 0, map[ssa.Value]bool{})
					if v == c06CtxDeadline || (v == c06CtxUnknown && verdict == c06CtxLifetime) {
						verdict, why = v, y
					}
				}
				switch verdict {
				case c06CtxLifetime:
					c.OK("C06.R6", cons, pos, "the RPC runs under the client's lifetime context: it returns only when the payment is settled or failed, or the connection is lost")
				case c06CtxDeadline:
					c.Bad("C06.R6", cons, pos, "the payment RPC runs under a context with a deadline of the adapter's own making ("+why+"): lnd's payment timeout bounds path finding only, a held HTLC stays IN_FLIGHT; when the deadline expires the call returns an error while the payment is outstanding, the pay action reads that as 'not paid' and its failure edge sends coop_close with the key")
				default:
					c.Unknown("C06.R6", cons, pos, "the origin of the context handed to the payment RPC cannot be resolved ("+why+")")
				}
			}
		}
	}
	c.AtLeast("C06.R6", "(LightningClient payment method, payment RPC) pairs analysed", pairs, 6)
}

// c06ArgValues resolves a value that may be a parameter of the functions on
// the chains to the arguments passed at the calls above.
func c06ArgValues(v ssa.Value, chains [][]c06Step) []ssa.Value {
	if _, isPar := v.(*ssa.Parameter); !isPar || len(chains) == 0 {
		return []ssa.Value{v}
	}
	var out []ssa.Value
	for _, ch := range chains {
		out = append(out, c06BindUp(v, ch))
	}
	return out
}

// c06BindUp follows parameter v of the last function of ch up the chain.
func c06BindUp(v ssa.Value, ch []c06Step) ssa.Value {
	up, _ := c06BindUpChain(v, ch)
	return up
}

// c06BindUpChain follows parameter v of the last function of ch to the argument
// passed by the caller (repeatedly); it returns the value and the chain that
// ends in the function holding it.
func c06BindUpChain(v ssa.Value, ch []c06Step) (ssa.Value, []c06Step) {
	for len(ch) >= 2 {
		p, ok := v.(*ssa.Parameter)
		if !ok || p.Parent() != ch[len(ch)-1].Fn {
			return v, ch
		}
		prev := ch[len(ch)-2]
		if prev.Call == nil || prev.Call.Common().StaticCallee() != p.Parent() {
			return v, ch
		}
		args := prev.Call.Common().Args
		found := false
		for i, q := range p.Parent().Params {
			if q == p && i < len(args) {
				v, found = args[i], true
			}
		}
		if !found {
			return v, ch
		}
		ch = ch[:len(ch)-1]
	}
	return v, ch
}

// c06CtxOrigin classifies where a context value comes from. ch is the call
// chain whose last step lies in the function that holds v (used to bind
// parameters to the arguments of the callers).
func c06CtxOrigin(w *an.World, v ssa.Value, ch []c06Step, depth int, seen map[ssa.Value]bool) (int, string) {
	if depth > 12 {
		return c06CtxUnknown, "derivation too deep"
	}
	if seen[v] {
		return c06CtxLifetime, ""
	}
	seen[v] = true
	merge := func(vals []ssa.Value, chs [][]c06Step) (int, string) {
		verdict, why := c06CtxLifetime, ""
		for i, x := range vals {
			v2, y := c06CtxOrigin(w, x, chs[i], depth+1, seen)
			if v2 == c06CtxDeadline {
				return v2, y
			}
			if v2 == c06CtxUnknown {
				verdict, why = v2, y
			}
		}
		return verdict, why
	}
	same := func(vals []ssa.Value) [][]c06Step {
		out := make([][]c06Step, len(vals))
		for i := range out {
			out[i] = ch
		}
		return out
	}
	switch x := v.(type) {
	case *ssa.ChangeInterface:
		return c06CtxOrigin(w, x.X, ch, depth+1, seen)
	case *ssa.ChangeType:
		return c06CtxOrigin(w, x.X, ch, depth+1, seen)
	case *ssa.MakeInterface:
		return c06CtxOrigin(w, x.X, ch, depth+1, seen)
	case *ssa.Phi:
		return merge(x.Edges, same(x.Edges))
	case *ssa.Extract:
		if call, ok := x.Tuple.(*ssa.Call); ok && x.Index == 0 {
			return c06CtxCall(w, call, ch, depth, seen)
		}
		return c06CtxUnknown, "tuple component " + w.Term(v)
	case *ssa.Call:
		return c06CtxCall(w, x, ch, depth, seen)
	case *ssa.Parameter:
		if up, rest := c06BindUpChain(x, ch); up != ssa.Value(x) {
			return c06CtxOrigin(w, up, rest, depth+1, seen)
		}
		return c06CtxUnknown, "parameter " + x.Name() + " of " + w.FuncName(x.Parent())
	case *ssa.FreeVar:
		return c06CtxUnknown, "captured variable " + x.Name()
	case *ssa.UnOp:
		if x.Op == token.MUL {
			switch a := x.X.(type) {
			case *ssa.FieldAddr:
				return c06CtxField(w, an.FieldName(a.X.Type(), a.Field), depth, seen)
			case *ssa.Alloc:
				var vals []ssa.Value
				if a.Referrers() != nil {
					for _, r := range *a.Referrers() {
						if st, ok := r.(*ssa.Store); ok && st.Addr == a {
							vals = append(vals, st.Val)
						}
					}
				}
				if len(vals) == 0 {
					return c06CtxUnknown, "local never assigned"
				}
				return merge(vals, same(vals))
			case *ssa.Global:
				return c06CtxUnknown, "global " + a.Name()
			}
		}
	case *ssa.Field:
		return c06CtxField(w, an.FieldName(x.X.Type(), x.Field), depth, seen)
	}
	return c06CtxUnknown, w.Term(v)
}

// c06CtxCall: a context produced by a call.
func c06CtxCall(w *an.World, call *ssa.Call, ch []c06Step, depth int, seen map[ssa.Value]bool) (int, string) {
	ci := w.Info(call)
	args := call.Common().Args
	switch ci.Name {
	case "func:context.Background", "func:context.TODO":
		return c06CtxLifetime, ""
	case "func:context.WithTimeout", "func:context.WithDeadline", "func:context.WithTimeoutCause", "func:context.WithDeadlineCause":
		return c06CtxDeadline, strings.TrimPrefix(ci.Name, "func:") + " at " + w.Pos(call.Pos())
	case "func:context.WithCancel", "func:context.WithCancelCause", "func:context.WithValue", "func:context.WithoutCancel":
		if len(args) > 0 {
			return c06CtxOrigin(w, args[0], ch, depth+1, seen)
		}
	}
	if g := ci.Static; g != nil && w.InModule(g) && g.Blocks != nil {
		// a helper that builds the context: its returned values, parameters bound to this call
		sub := append(append([]c06Step{}, ch...), c06Step{})
		sub[len(sub)-1] = c06Step{Fn: g}
		// make the previous step the call itself so that parameters of g bind to its arguments
		if len(sub) >= 2 {
			sub[len(sub)-2] = c06Step{Fn: call.Parent(), Call: call}
		}
		verdict, why := c06CtxLifetime, ""
		n := 0
		for _, r := range an.Returns(g) {
			for _, res := range r.Results {
				if !c06IsContext(res.Type()) {
					continue
				}
				n++
				v2, y := c06CtxOrigin(w, res, sub, depth+1, seen)
				if v2 == c06CtxDeadline {
					return v2, y + " (through " + w.FuncName(g) + ")"
				}
				if v2 == c06CtxUnknown {
					verdict, why = v2, y
				}
			}
		}
		if n > 0 {
			return verdict, why
		}
	}
	return c06CtxUnknown, "result of " + strings.TrimPrefix(ci.Name, "func:")
}

func c06IsContext(t types.Type) bool {
	n, ok := t.(*types.Named)
	return ok && n.Obj().Pkg() != nil && n.Obj().Pkg().Path() == "context" && n.Obj().Name() == "Context"
}

// c06CtxField: a context kept in a struct field is the lifetime context when
// every production store to that field is one (constructor parameter,
// Background, WithCancel of those …); a parameter of the storing function is
// taken as the lifetime context handed to the constructor.
func c06CtxField(w *an.World, key string, depth int, seen map[ssa.Value]bool) (int, string) {
	writers := w.FieldWriters(key)
	verdict, why := c06CtxLifetime, ""
	n := 0
	for _, st := range writers {
		fn := st.Parent()
		if an.IsTestSupport(w.FnRel(fn)) || isDummy(w, fn) {
			continue
		}
		n++
		if _, isPar := st.Val.(*ssa.Parameter); isPar {
			continue // handed in by whoever constructs the client: its lifetime
		}
		v2, y := c06CtxOrigin(w, st.Val, []c06Step{{Fn: fn}}, depth+1, seen)
		if v2 == c06CtxDeadline {
			return v2, "field " + key + " is set from " + y
		}
		if v2 == c06CtxUnknown {
			if _, isPar := st.Val.(*ssa.Parameter); !isPar {
				verdict, why = v2, "field "+key+" set from "+y
			}
		}
	}
	if n == 0 {
		return c06CtxUnknown, "field " + key + " is never assigned by production code"
	}
	return verdict, why
}

const (
	c06OK = iota
	c06Bad
	c06Unknown
)

// c06Discloser classifies a function that writes CoopCloseMessage.Privkey (or
// calls one that does): fine when it is an action of taker tables only, or a
// helper all of whose production callers are fine (transitively, depth <= 4).
func c06Discloser(w *an.World, idx *c06CallIdx, fn *ssa.Function, inTaker map[*ssa.Function]bool, inOther map[*ssa.Function]string, depth int, onPath map[*ssa.Function]bool) (int, string) {
	name := w.FuncName(fn)
	switch {
	case inOther[fn] != "":
		return c06Bad, "a key-disclosing action is used by a non-taker table: " + inOther[fn]
	case inTaker[fn]:
		return c06OK, "disclosing action appears only in taker tables"
	case depth >= 4:
		return c06Unknown, "call depth exceeded while looking for the callers of " + name
	case onPath[fn]:
		return c06OK, "recursive"
	}
	if c06ValueUse(w, fn) {
		return c06Unknown, name + " is used as a function value: its callers cannot be enumerated"
	}
	sites := idx.sites[fn]
	if len(sites) == 0 {
		if fn.Signature.Recv() != nil {
			return c06Unknown, "method " + name + " writes the key and has no static production caller (it may be invoked through an interface); it is not an action of a taker table"
		}
		if fn.Parent() != nil {
			return c06Unknown, "closure " + name + " writes the key and its invocation cannot be found"
		}
		if o := fn.Object(); o != nil && (o.Exported() || o.Name() == "main" || o.Name() == "init") {
			return c06Bad, "CoopCloseMessage.Privkey is written on a path that starts at " + name + ", which is not an action of a taker table"
		}
		return c06OK, name + " is never referenced by production code"
	}
	onPath[fn] = true
	defer func() { onPath[fn] = false }()
	verdict, why := c06OK, ""
	var callers []string
	for _, s := range sites {
		v, y := c06Discloser(w, idx, s.Parent(), inTaker, inOther, depth+1, onPath)
		callers = append(callers, w.FuncName(s.Parent()))
		switch {
		case v == c06Bad:
			return c06Bad, "the key is written in " + name + ", called by " + w.FuncName(s.Parent()) + ": " + y
		case v == c06Unknown && verdict == c06OK:
			verdict, why = c06Unknown, y
		}
	}
	if verdict == c06OK {
		return c06OK, "helper whose only production callers are actions of taker tables (" + strings.Join(c06Uniq(callers), ", ") + ")"
	}
	return verdict, why
}

// c06ValueUse: fn is referenced other than as the callee of a call (method
// value, callback, stored closure).
func c06ValueUse(w *an.World, fn *ssa.Function) bool {
	for _, g := range prodFuncs(w) {
		for _, b := range g.Blocks {
			for _, in := range b.Instrs {
				switch x := in.(type) {
				case *ssa.MakeClosure:
					hit := x.Fn == fn
					if !hit {
						for _, f := range funcValues(x) {
							if f == fn {
								hit = true
							}
						}
					}
					if !hit || x.Referrers() == nil {
						continue
					}
					for _, r := range *x.Referrers() {
						call, ok := r.(ssa.CallInstruction)
						if !ok {
							if _, dbg := r.(*ssa.DebugRef); dbg {
								continue
							}
							return true
						}
						_ = call // callee position or an argument: both are call sites of the index
					}
				default:
					var ops []*ssa.Value
					ops = in.Operands(ops)
					for i, op := range ops {
						if op == nil || *op != ssa.Value(fn) {
							continue
						}
						if call, ok := in.(ssa.CallInstruction); ok && i == 0 && call.Common().Value == ssa.Value(fn) {
							continue
						}
						return true
					}
				}
			}
		}
	}
	return false
}

// ==== shared-begin: call-chain / guard helpers (the same code, up to the prefix, in each of this author's rule files) ====

func c06Uniq(in []string) []string {
	m := map[string]bool{}
	for _, s := range in {
		m[s] = true
	}
	return sortedKeys(m)
}

func c06ChainString(w *an.World, ch []c06Step) string {
	var p []string
	for _, st := range ch {
		p = append(p, w.FuncName(st.Fn))
	}
	return strings.Join(p, " -> ")
}

type c06GuardResult struct {
	field       string // guarding field, "" if none
	opaque      string // why the chain could not be interpreted (then field == "")
	facts       []an.Fact
	impure      []string // outside-service calls that certainly lie on the already-done path
	impureAfter []string // outside-service calls in callers after a guarded helper returned
}

// c06After: blocks that execute after call succeeded (after the call when its
// error is not tested or it has none).
func c06After(call ssa.CallInstruction) map[*ssa.BasicBlock]bool {
	if cv, ok := call.(*ssa.Call); ok {
		if okE, _ := an.OkEdges(cv); len(okE) > 0 {
			var st []*ssa.BasicBlock
			for _, e := range okE {
				st = append(st, e.To())
			}
			return an.ReachBlocks(st, nil, nil)
		}
	}
	after := an.ReachFromInstr(call)
	after[call.Block()] = true
	return after
}

// c06ChainGuard looks for a guard `SwapData.X is zero` that dominates one call
// of the chain, with X assigned after the effect at that level or further down.
//
// only restricts the search to one field ("" = any persisted field);
// needAssigned demands the assignment after the effect; allowNext accepts an
// already-done branch that delegates to the next action of a wrapper.
func c06ChainGuard(w *an.World, ch []c06Step, only string, needAssigned, allowNext bool) c06GuardResult {
	var res c06GuardResult
	for k, st := range ch {
		facts := w.FactsDominating(st.Call)
		res.facts = append(res.facts, facts...)
		for _, f := range facts {
			fld := c06ZeroFactField(w, f)
			if fld == "" || (only != "" && fld != only) {
				continue
			}
			// assigned after the effect: at this level after the call, or at a deeper level
			assigned := false
			for j := k; j < len(ch); j++ {
				after := c06After(ch[j].Call)
				for _, s := range storesTo(ch[j].Fn, fld) {
					if after[s.Block()] {
						assigned = true
					}
				}
				// through a recording helper called after the effect
				for _, call := range an.Calls(ch[j].Fn) {
					if !after[call.Block()] || call == ch[j].Call {
						continue
					}
					if g := call.Common().StaticCallee(); g != nil && w.InModule(g) && c06FnStores(w, g, fld) {
						assigned = true
					}
				}
			}
			if !assigned && needAssigned {
				continue
			}
			// the "already done" edge must not reach the guarded call nor return a failure
			other := an.Edge{From: f.Edge.From, Idx: 1 - f.Edge.Idx}
			reach := an.ReachBlocks([]*ssa.BasicBlock{other.To()}, nil, nil)
			if reach[st.Call.Block()] {
				continue
			}
			bad, unres := false, false
			for ev := range returnEventsFrom(w, st.Fn, reach) {
				if ev == "?" {
					unres = true
				} else if ev != evSucceeded && !(ev == "NEXT" && allowNext) {
					bad = true
				}
			}
			for _, r := range an.Returns(st.Fn) {
				if !reach[r.Block()] {
					continue
				}
				for _, rv := range r.Results {
					if an.IsErrorType(rv.Type()) && !an.IsNilConst(rv) && !c06OnlyNil(w, rv) {
						bad = true
					}
				}
			}
			if bad {
				continue
			}
			if unres {
				res.opaque = "the already-done branch of the guard on " + fld + " in " + w.FuncName(st.Fn) + " returns an event that cannot be resolved"
				continue
			}
			res.field = fld
			res.impure, res.impureAfter = nil, nil
			// purity of the already-done path: the guard's function with the zero
			// edges removed, and everything the callers above run before the call
			res.impure = append(res.impure, impureCallsIn(w, st.Fn, c06DoneRegion(w, st.Fn, fld))...)
			for j := 0; j < k; j++ {
				before, after := c06BeforeAfter(ch[j].Call)
				res.impure = append(res.impure, impureCallsIn(w, ch[j].Fn, before)...)
				for _, x := range c06ImpureExcept(w, ch[j].Fn, after, ch[j].Call) {
					res.impureAfter = append(res.impureAfter, x)
				}
			}
		}
		if res.field != "" {
			return res
		}
	}
	if only != "" && res.opaque == "" {
		// a dominating condition that talks about the field in a form that is not
		// understood: do not claim the guard is missing
		short := only[strings.LastIndex(only, ".")+1:]
		for _, f := range res.facts {
			if strings.Contains(f.String(), short) && c06ZeroFactField(w, f) == "" && !c06NonZeroFact(w, f, only) {
				res.opaque = "a condition that dominates the call mentions " + only + " in a form the rule does not interpret: " + f.String()
			}
		}
	}
	return res
}

// c06NonZeroFact: f says that field is NOT zero (the interpreted opposite of a guard).
func c06NonZeroFact(w *an.World, f an.Fact, field string) bool {
	if !f.NonNum || f.Rel != "!=" {
		return false
	}
	g := f
	g.Rel = "=="
	return c06ZeroFactField(w, g) == field
}

// c06OnlyNil: an error value that can only be nil (named result never assigned).
func c06OnlyNil(w *an.World, v ssa.Value) bool {
	src := w.Sources(v, an.FlowOpts{})
	return len(src.Leaves) > 0 && src.OnlyFrom(func(s an.Src) bool { return s.Kind == "zero" && s.Name == "nil" })
}

// c06BeforeAfter: blocks from which call's block is reachable without having
// executed it (strictly before) / blocks reachable after it.
func c06BeforeAfter(call ssa.CallInstruction) (before, after map[*ssa.BasicBlock]bool) {
	fn := call.Parent()
	after = an.ReachFromInstr(call)
	before = map[*ssa.BasicBlock]bool{}
	// backward reachability from the call's block
	work := []*ssa.BasicBlock{call.Block()}
	seen := map[*ssa.BasicBlock]bool{call.Block(): true}
	for len(work) > 0 {
		b := work[len(work)-1]
		work = work[:len(work)-1]
		for _, p := range b.Preds {
			if !seen[p] {
				seen[p] = true
				work = append(work, p)
			}
		}
	}
	for _, b := range fn.Blocks {
		if seen[b] && b != call.Block() {
			before[b] = true
		}
	}
	return before, after
}

// c06ImpureExcept lists outside-service calls in region other than `except`.
func c06ImpureExcept(w *an.World, fn *ssa.Function, region map[*ssa.BasicBlock]bool, except ssa.CallInstruction) []string {
	r2 := map[*ssa.BasicBlock]bool{}
	for b := range region {
		if b != except.Block() {
			r2[b] = true
		}
	}
	return impureCallsIn(w, fn, r2)
}

// c06FnStores: g, or a function it reaches synchronously, stores field fld.
func c06FnStores(w *an.World, g *ssa.Function, fld string) bool {
	if g == nil || g.Blocks == nil {
		return false
	}
	if len(storesTo(g, fld)) > 0 {
		return true
	}
	for _, ef := range w.Summary(g).Effects {
		if ef.Info.Static != nil && w.InModule(ef.Info.Static) && ef.Info.Static.Blocks != nil && len(storesTo(ef.Info.Static, fld)) > 0 {
			return true
		}
	}
	return false
}

// c06ZeroGuardField returns "SwapData.X" when fact f says that persisted field
// X of SwapData holds its zero value ("" / nil).
func c06ZeroGuardField(f an.Fact) string {
	if !f.NonNum || f.Rel != "==" {
		return ""
	}
	for _, pair := range [][2]string{{f.L, f.R}, {f.R, f.L}} {
		if (pair[1] == `""` || pair[1] == "nil") && strings.HasPrefix(pair[0], "field:SwapData.") && !strings.Contains(pair[0], ">") {
			return strings.TrimPrefix(pair[0], "field:")
		}
	}
	return ""
}

// c06ZeroFactField is c06ZeroGuardField extended to predicate helpers: the fact
// `p(swap) is true/false` where the in-module function p returns that value only
// when SwapData.X is zero.
func c06ZeroFactField(w *an.World, f an.Fact) string {
	if fld := c06ZeroGuardField(f); fld != "" {
		return fld
	}
	// `swap.GetX() == ""` where the in-module getter returns the field itself
	if f.NonNum && f.Rel == "==" {
		for _, pair := range [][2]ssa.Value{{f.LV, f.RV}, {f.RV, f.LV}} {
			if pair[0] == nil || pair[1] == nil {
				continue
			}
			zero := an.IsNilConst(pair[1])
			if s, ok := an.ConstString(pair[1]); ok && s == "" {
				zero = true
			}
			if !zero {
				continue
			}
			if fld := c06GetterField(w, pair[0]); fld != "" {
				return fld
			}
		}
	}
	if f.Rel != "true" && f.Rel != "false" {
		return ""
	}
	call, ok := f.Cond.(*ssa.Call)
	if !ok {
		return ""
	}
	g := call.Common().StaticCallee()
	if g == nil || !w.InModule(g) || g.Blocks == nil {
		return ""
	}
	return c06PredZeroField(w, g, f.Rel == "true")
}

// c06GetterField: v is the result of an in-module getter whose every return is
// the SwapData field X of its receiver/argument: "SwapData.X".
func c06GetterField(w *an.World, v ssa.Value) string {
	for {
		switch x := v.(type) {
		case *ssa.ChangeType:
			v = x.X
			continue
		case *ssa.Convert:
			v = x.X
			continue
		}
		break
	}
	call, ok := v.(*ssa.Call)
	if !ok {
		return ""
	}
	g := call.Common().StaticCallee()
	if g == nil || !w.InModule(g) || g.Blocks == nil || g.Signature.Results().Len() != 1 {
		return ""
	}
	field := ""
	for _, r := range an.Returns(g) {
		if len(r.Results) != 1 {
			return ""
		}
		t := w.Term(r.Results[0])
		if !strings.HasPrefix(t, "field:SwapData.") || strings.Contains(t, ">") || (field != "" && field != t) {
			return ""
		}
		field = t
	}
	return strings.TrimPrefix(field, "field:")
}

// c06PredZeroField: field X such that every return of g that may yield `want`
// happens only when SwapData.X is zero; "" if there is no such field.
func c06PredZeroField(w *an.World, g *ssa.Function, want bool) string {
	res := g.Signature.Results()
	if res.Len() != 1 {
		return ""
	}
	if b, ok := res.At(0).Type().Underlying().(*types.Basic); !ok || b.Info()&types.IsBoolean == 0 {
		return ""
	}
	field := ""
	okAll := true
	note := func(fld string) {
		if fld == "" || (field != "" && field != fld) {
			okAll = false
			return
		}
		field = fld
	}
	var eval func(v ssa.Value, blk *ssa.BasicBlock, edge []an.Fact, depth int)
	eval = func(v ssa.Value, blk *ssa.BasicBlock, edge []an.Fact, depth int) {
		if depth > 6 {
			okAll = false
			return
		}
		switch x := v.(type) {
		case *ssa.Const:
			if x.Value == nil || x.Value.Kind() != constant.Bool {
				okAll = false
				return
			}
			if constant.BoolVal(x.Value) != want {
				return
			}
			fld := ""
			for _, f := range append(append([]an.Fact{}, w.FactsDominatingBlock(blk)...), edge...) {
				if z := c06ZeroGuardField(f); z != "" {
					fld = z
				}
			}
			note(fld)
		case *ssa.BinOp:
			// (X == zero) yields `want` only when X is zero iff the comparison's
			// polarity equals want
			fld, isEq := c06ZeroCompare(w, x)
			if fld == "" || isEq != want {
				okAll = false
				return
			}
			note(fld)
		case *ssa.UnOp:
			if x.Op == token.NOT {
				// !(inner): want from inner == !want
				sub := c06PredValueZero(w, x.X, !want)
				note(sub)
				return
			}
			okAll = false
		case *ssa.Phi:
			for i, e := range x.Edges {
				pred := x.Block().Preds[i]
				var ef []an.Fact
				for _, f := range w.Facts(g) {
					if f.Edge.From == pred && f.Edge.To() == x.Block() {
						ef = append(ef, f)
					}
				}
				eval(e, pred, ef, depth+1)
			}
		default:
			okAll = false
		}
	}
	for _, r := range an.Returns(g) {
		if len(r.Results) != 1 {
			return ""
		}
		eval(r.Results[0], r.Block(), nil, 0)
	}
	if !okAll {
		return ""
	}
	return field
}

// c06PredValueZero: for a comparison value, the field that is zero whenever the
// value equals want.
func c06PredValueZero(w *an.World, v ssa.Value, want bool) string {
	bo, ok := v.(*ssa.BinOp)
	if !ok {
		return ""
	}
	fld, isEq := c06ZeroCompare(w, bo)
	if fld == "" || isEq != want {
		return ""
	}
	return fld
}

// c06ZeroCompare recognises `swap.X == ""` / `swap.X != nil` …; isEq tells
// whether the comparison is true when X is zero.
func c06ZeroCompare(w *an.World, bo *ssa.BinOp) (field string, isEq bool) {
	if bo.Op != token.EQL && bo.Op != token.NEQ {
		return "", false
	}
	for _, pair := range [][2]ssa.Value{{bo.X, bo.Y}, {bo.Y, bo.X}} {
		zero := an.IsNilConst(pair[1])
		if s, ok := an.ConstString(pair[1]); ok && s == "" {
			zero = true
		}
		if !zero {
			continue
		}
		t := w.Term(pair[0])
		if strings.HasPrefix(t, "field:SwapData.") && !strings.Contains(t, ">") {
			return strings.TrimPrefix(t, "field:"), bo.Op == token.EQL
		}
	}
	return "", false
}

// c06DoneRegion: the blocks of fn that can execute while field is already set
// (every edge that carries the fact `field is zero`, directly or through a
// predicate helper, removed).
func c06DoneRegion(w *an.World, fn *ssa.Function, field string) map[*ssa.BasicBlock]bool {
	if len(fn.Blocks) == 0 {
		return nil
	}
	cut := cutEdges(w, fn, func(f an.Fact) bool { return c06ZeroFactField(w, f) == field })
	return an.ReachBlocks([]*ssa.BasicBlock{fn.Blocks[0]}, cut, nil)
}

// ---- call index and call chains ------------------------------------------------------

// c06CallIdx: production call sites per static callee; a closure passed as an
// argument counts as called by the call it is passed to (as in an.Summary).
type c06CallIdx struct {
	sites map[*ssa.Function][]ssa.CallInstruction
}

var c06IdxCache sync.Map // *an.World -> *c06CallIdx

func c06BuildCallIdx(w *an.World) *c06CallIdx {
	if v, ok := c06IdxCache.Load(w); ok {
		return v.(*c06CallIdx)
	}
	idx := &c06CallIdx{sites: map[*ssa.Function][]ssa.CallInstruction{}}
	defer c06IdxCache.Store(w, idx)
	for _, fn := range prodFuncs(w) {
		if isDummy(w, fn) {
			continue
		}
		for _, call := range an.Calls(fn) {
			for _, g := range c06Callees(w, call) {
				idx.sites[g] = append(idx.sites[g], call)
			}
		}
	}
	return idx
}

// c06Callees: the in-module functions a call runs synchronously (its static
// callee and closures passed to it).
func c06Callees(w *an.World, call ssa.CallInstruction) []*ssa.Function {
	var out []*ssa.Function
	if g := call.Common().StaticCallee(); g != nil && w.InModule(g) && g.Blocks != nil {
		out = append(out, g)
	}
	for _, a := range call.Common().Args {
		if mc, ok := a.(*ssa.MakeClosure); ok {
			if g, ok := mc.Fn.(*ssa.Function); ok && g.Blocks != nil {
				out = append(out, g)
			}
		}
	}
	return out
}

// c06Step is one call of a chain: Call is an instruction of Fn.
type c06Step struct {
	Fn   *ssa.Function
	Call ssa.CallInstruction
}

// c06Chains returns the static call chains root -> … -> site (depth <= 6): each
// chain lists the call made in root, the call made in its callee, …, and ends
// with site itself. `go` statements are followed only when followGo is set.
func c06Chains(w *an.World, idx *c06CallIdx, root *ssa.Function, site ssa.CallInstruction, followGo bool) [][]c06Step {
	target := site.Parent()
	// functions from which target is reachable
	canReach := map[*ssa.Function]bool{target: true}
	frontier := []*ssa.Function{target}
	for d := 0; d < 6 && len(frontier) > 0; d++ {
		var next []*ssa.Function
		for _, f := range frontier {
			for _, s := range idx.sites[f] {
				if p := s.Parent(); !canReach[p] {
					canReach[p] = true
					next = append(next, p)
				}
			}
		}
		frontier = next
	}
	var out [][]c06Step
	onPath := map[*ssa.Function]bool{}
	var rec func(f *ssa.Function, path []c06Step)
	rec = func(f *ssa.Function, path []c06Step) {
		if len(out) >= 24 {
			return
		}
		if f == target {
			out = append(out, append(append([]c06Step{}, path...), c06Step{f, site}))
			return
		}
		if len(path) >= 6 {
			return
		}
		onPath[f] = true
		for _, call := range an.Calls(f) {
			if _, isGo := call.(*ssa.Go); isGo && !followGo {
				continue
			}
			for _, g := range c06Callees(w, call) {
				if canReach[g] && !onPath[g] {
					rec(g, append(path, c06Step{f, call}))
				}
			}
		}
		onPath[f] = false
	}
	if canReach[root] {
		rec(root, nil)
	}
	return out
}

// ==== shared-end ====
