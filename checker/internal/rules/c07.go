package rules

import (
	"fmt"
	"go/constant"
	"go/token"
	"go/types"
	"sort"
	"strings"
	"sync"

	"golang.org/x/tools/go/ssa"

	"psv/internal/an"
)

func init() {
	Register(&Prop{
		ID:   "C07",
		Expl: "Decides on the maker tables and the SSA of the broadcast path: (R1) from every state reachable after a successful opening broadcast only claimed-by-preimage/coop/CSV terminals are reachable (never the cancelled state); (R2) after the wallet call that broadcasts has succeeded there is no failure exit — in the broadcast action and the helpers between it and the wallet call (its record fields are assigned on every success path) and inside every CreateOpeningTransaction / CreateAndBroadcastTransaction implementation incl. in-module wrappers around the broadcast primitive (no error return after the broadcast primitive except the verdict of an output locator); (R3) every post-broadcast waiting state arms the CSV watch on the announced (txid, vout), accepts the CSV event, and that event leads to a CSV-claim action whose only failure exit is a retry self-loop; the CSV event is injected by the registered CSV callback; (R4) no post-broadcast state is FailOnrecover and the broadcast call is guarded by the persisted record; (R5) a failing cooperative claim falls back to a CSV-armed waiting state; (R6) whether anything durable is written between the state transition and the broadcast action; (R7) no state at or after the broadcast is FailOnrecover with an Event_ActionFailed edge from which a non-claimed terminal is reachable (Recover injects that event; the record of the broadcast is written before the next state is); (R8) in every AddWaitForCsvTx implementation a 'already registered' map entry that the function both tests (and returns on) and sets is deleted again on every return that happens before the goroutine/subscription that eventually deletes it was started (a failed subscription must not block all later registrations of the CSV watch); the same analysis of AddWaitForConfirmationTx is reported as information only.",
		NotD: "That the refund transaction confirms; wallet and chain behaviour; that watchers call back truthfully (C20); whether a subscription that was started keeps running (R8 decides only the register-or-rollback discipline of the dedupe maps).",
		Run:  runC07,
	})
}

// Broadcast primitives: the wallet-side call after which funds are on their
// way to the chain. Frozen table confirmed by reading the adapters; entries are
// CallInfo.Name values.
var c07BroadcastPrimitives = map[string]string{
	"func:(*github.com/elementsproject/glightning/glightning.Lightning).SendTx":                "CLN: sendpsbt/txsend of the prepared tx",
	"iface:github.com/lightningnetwork/lnd/lnrpc/walletrpc.WalletKitClient.PublishTransaction": "LND: walletkit PublishTransaction",
	"iface:wallet.Wallet.CreateAndBroadcastTransaction":                                        "Liquid: wallet funds, signs and broadcasts",
	"func:(*lwk.lwkclient).broadcast":                                                          "LWK: broadcast of the signed pset",
	"func:(*wallet.ElementsRpcWallet).SendRawTx":                                               "elementsd: sendrawtransaction",
	"iface:lwk.lwkclientInterface.broadcast":                                                   "LWK client interface (if introduced)",
}

// Output locators: their error is "the swap output is not in this transaction".
var c07Locators = []string{"GetVoutAndVerify", "FindVout", "VoutFromTxHex"}

func c07IsLocator(name string) bool {
	for _, l := range c07Locators {
		if strings.Contains(name, ")."+l+"#") || strings.HasSuffix(name, ")."+l) || strings.HasSuffix(name, "."+l) {
			return true
		}
	}
	return false
}

func runC07(c *an.Check) {
	c.Rule("C07.R1", "maker tables: after a successful broadcast only claimed terminals (preimage/coop/csv) are reachable")
	c.Rule("C07.R2", "no failure exit after the broadcast succeeded (action, its helpers and wallet implementations); record fields assigned on every success path")
	c.Rule("C07.R3", "every post-broadcast waiting state arms the CSV watch on the announced outpoint, accepts the CSV event, which leads to the CSV claim whose failures only retry")
	c.Rule("C07.R4", "post-broadcast states are not FailOnrecover; broadcast call guarded by OpeningTxBroadcasted == nil")
	c.Rule("C07.R5", "a failing cooperative claim returns to a CSV-armed waiting state")
	c.Rule("C07.R6", "a durable write lies between the state transition and the execution of the broadcast action")
	c.Rule("C07.R7", "a FailOnrecover state at or after the broadcast must not lead, through the Event_ActionFailed that Recover injects, to a terminal that is no claim")
	c.Rule("C07.R8", "register-or-rollback: a dedupe entry that a CSV watch registration tests and sets survives a return only if the goroutine that deletes it was started")
	c.Rule("C07.R9", "a CSV watch, once registered, stays registered: no watcher stores a guarded registration list from a copy taken in an earlier critical section (lost update)")
	if !needEffects(c, fxOpenTx, fxWaitCsv, fxCsvSpend, fxCoopSpend, fxPayNotifier, fxStoreUpdate) {
		return
	}
	c19StaleWriteBacks(c, "C07.R9", "txwatcher", "electrum", "lwk", "lnd")
	w := c.W
	ts := tables(c)
	if ts == nil {
		return
	}
	mk := makers(ts)
	if !c.AtLeast("C07", "maker tables", len(mk), 2) {
		return
	}
	srcs := eventSources(c)
	idx := c07BuildCallIdx(w)

	// events injected by the lightning payment callback
	lnEvents := map[string]bool{}
	for _, f := range callbackTargets(w, "iface:swap.LightningClient.AddPaymentCallback") {
		for e := range eventsSentFrom(c, f, srcs) {
			lnEvents[e] = true
		}
	}
	csvEvents := map[string]bool{}
	csvCbs := callbackTargets(w, "iface:swap.TxWatcher.AddCsvCallback")
	for _, f := range csvCbs {
		for e := range eventsSentFrom(c, f, srcs) {
			csvEvents[e] = true
		}
	}
	delete(lnEvents, "?")
	delete(csvEvents, "?")
	c.AtLeast("C07.R3", "registered CSV callbacks", len(csvCbs), 1)
	lnOK := c.AtLeast("C07.R1", "events injected by the payment callback", len(lnEvents), 2)

	for _, t := range mk {
		bs := t.statesWith(fxOpenTx)
		for _, b := range bs {
			be := t.T.States[b]
			tgt, ok := be.Events[evSucceeded]
			if !ok {
				c.Unknown("C07.R1", t.key(b), t.pos(c, b), "the broadcast state has no "+evSucceeded+" edge: the state entered after a successful broadcast cannot be identified")
				continue
			}
			post := t.T.Reach(tgt)
			allowed := map[string]bool{}
			for _, s := range append(t.statesWith(fxCsvSpend), t.statesWith(fxCoopSpend)...) {
				if x, ok := t.T.States[s].Events[evSucceeded]; ok {
					allowed[x] = true
				}
			}
			for _, s := range t.T.Order {
				if !post[s] {
					continue
				}
				for ev, nx := range t.T.States[s].Events {
					if lnEvents[ev] && t.T.States[nx].Terminal() {
						allowed[nx] = true
					}
				}
			}
			for _, s := range t.T.Order {
				if !post[s] {
					continue
				}
				e := t.T.States[s]
				if e.Terminal() {
					if !allowed[s] && (!lnOK || len(allowed) == 0) {
						c.Unknown("C07.R1", t.key(s)+" terminal-after-broadcast", t.pos(c, s), "the claimed terminal states cannot be identified (payment-callback events or spend effects did not resolve)")
						continue
					}
					c.Decide(allowed[s], "C07.R1", t.key(s)+" terminal-after-broadcast", t.pos(c, s),
						"terminal is a claimed state", "a non-claimed terminal state is reachable after the opening transaction was broadcast: "+strings.Join(t.T.FindPath(tgt, s), " ; "))
					continue
				}
				// R4
				c.Decide(!e.FailOnRecover, "C07.R4", t.key(s)+" FailOnrecover", t.pos(c, s), "post-broadcast state is re-executed on recovery", "post-broadcast state is FailOnrecover: a restart abandons the locked funds")
				ss := t.Sum[s]
				// R3: waiting states
				if ss.Events[evNoOp] {
					c07ArmsCsv(c, t, s)
					var csvEv string
					for _, ev := range sortedKeys(csvEvents) {
						if _, ok := e.Events[ev]; ok {
							csvEv = ev
						}
					}
					switch {
					case csvEv == "" && len(csvEvents) == 0:
						c.Unknown("C07.R3", t.key(s)+" accepts-csv", t.pos(c, s), "the events injected by the CSV callback could not be resolved")
					case csvEv == "":
						c.Bad("C07.R3", t.key(s)+" accepts-csv", t.pos(c, s), fmt.Sprintf("post-broadcast waiting state accepts none of the events the CSV callback injects %v", sortedKeys(csvEvents)))
					default:
						nx := e.Events[csvEv]
						ns := t.Sum[nx]
						good := ns.HasEffect(fxCsvSpend)
						why := ""
						if !good {
							why = "target " + nx + " does not build the CSV spend"
						}
						for _, ev := range sortedKeys(ns.Events) {
							switch ev {
							case evSucceeded:
							case evRetry:
								if t.T.States[nx].Events[evRetry] != nx {
									good = false
									why += " retry does not loop"
								}
							default:
								good = false
								why += " CSV-claim action may return " + ev
							}
						}
						switch {
						case !good:
							c.Bad("C07.R3", t.edgeKey(s, csvEv), w.Pos(e.EventPos[csvEv]), why)
						case ns.Unknown:
							c.Unknown("C07.R3", t.edgeKey(s, csvEv), w.Pos(e.EventPos[csvEv]), "a value returned by the CSV-claim action cannot be resolved to an event constant")
						default:
							c.OK("C07.R3", t.edgeKey(s, csvEv), w.Pos(e.EventPos[csvEv]), "CSV event leads to the CSV claim whose only failure exit is a retry self-loop")
						}
					}
				}
				// R5
				if ss.HasEffect(fxCoopSpend) {
					nx, ok := e.Events[evFailed]
					good := ok && post[nx] && t.Sum[nx].HasEffect(fxWaitCsv) && t.Sum[nx].Events[evNoOp]
					c.Decide(good, "C07.R5", t.key(s)+" coop-failure", t.pos(c, s), "failed cooperative claim waits for the CSV", "a failed cooperative claim (e.g. bad key in coop_close) does not return to a CSV-armed waiting state")
				}
			}
			// R7: Recover() answers a FailOnrecover state with Event_ActionFailed. The
			// record is written after every action, so a swap found in the broadcast
			// state (or any later one) may already hold the broadcast: the injected
			// failure must not lead to a non-claimed terminal.
			for _, s := range t.T.Order {
				if s != b && !post[s] {
					continue
				}
				e := t.T.States[s]
				if e.Terminal() {
					continue
				}
				cons := t.key(s) + " recover-after-broadcast"
				if !e.FailOnRecover {
					if s == b {
						c.OK("C07.R7", cons, t.pos(c, s), "the broadcast state is re-executed on recovery (its action is guarded by the persisted record), not failed")
					}
					continue
				}
				nx, ok := e.Events[evFailed]
				if !ok {
					c.Bad("C07.R7", cons, t.pos(c, s), "the state is FailOnrecover but accepts no "+evFailed+": after a restart Recover's event is rejected, the action (and with it the CSV watch) never runs again and the broadcast output is not refunded")
					continue
				}
				var lost []string
				unknownTerm := false
				fr := t.T.Reach(nx)
				for _, x := range t.T.Order {
					if fr[x] && t.T.States[x].Terminal() && !allowed[x] {
						if !lnOK || len(allowed) == 0 {
							unknownTerm = true
						} else {
							lost = append(lost, x+" via "+strings.Join(t.T.FindPath(nx, x), " ; "))
						}
					}
				}
				switch {
				case len(lost) > 0:
					c.Bad("C07.R7", cons, t.pos(c, s),
						"the state is FailOnrecover and the record is written after every action: a crash after the broadcast was recorded and before the next state is stored leaves the swap here; Recover() then injects "+evFailed+" -> "+nx+", from where a terminal that is no claim is reachable ("+strings.Join(lost, " | ")+"): the swap finishes without a CSV watch and the broadcast output is never refunded")
				case unknownTerm:
					c.Unknown("C07.R7", cons, t.pos(c, s), "the claimed terminal states cannot be identified (payment-callback events or spend effects did not resolve)")
				default:
					c.OK("C07.R7", cons, t.pos(c, s), "the failure injected on recovery leads only to claimed terminals")
				}
			}
		}
	}

	// R2 + R4 in the code of the broadcast action(s): every Execute whose summary
	// reaches CreateOpeningTransaction, along every call chain to it
	type bUse struct {
		in    ssa.CallInstruction
		roots map[*ssa.Function]bool
	}
	bUses := map[ssa.CallInstruction]*bUse{}
	bStates := map[string]bool{}
	for _, t := range ts {
		for _, s := range t.T.Order {
			for _, ex := range t.Sum[s].Execs {
				if isDummy(w, ex) {
					continue
				}
				for _, ef := range w.Summary(ex).Sites(fxOpenTx) {
					u := bUses[ef.Info.Instr]
					if u == nil {
						u = &bUse{in: ef.Info.Instr, roots: map[*ssa.Function]bool{}}
						bUses[ef.Info.Instr] = u
					}
					u.roots[ex] = true
					bStates[t.key(s)] = true
				}
			}
		}
	}
	for _, fn := range prodFuncs(w) {
		if w.FnRel(fn) != "swap" || isDummy(w, fn) {
			continue
		}
		for _, call := range callsNamed(w, fn, fxOpenTx) {
			if bUses[call] == nil {
				c.Unknown("C07.R2", w.FuncName(fn)+" after-broadcast", w.Pos(call.Pos()),
					"CreateOpeningTransaction is called by code that no action of a state table reaches synchronously: what happens after this broadcast is not covered by the rule")
			}
		}
	}
	var uses []*bUse
	for _, u := range bUses {
		uses = append(uses, u)
	}
	sort.Slice(uses, func(i, j int) bool { return uses[i].in.Pos() < uses[j].in.Pos() })
	for _, u := range uses {
		var roots []*ssa.Function
		for r := range u.roots {
			roots = append(roots, r)
		}
		sort.Slice(roots, func(i, j int) bool { return w.FuncName(roots[i]) < w.FuncName(roots[j]) })
		for _, root := range roots {
			name := w.FuncName(root)
			pos := w.Pos(u.in.Pos())
			chains := c07Chains(w, idx, root, u.in, false)
			if len(chains) == 0 {
				c.Unknown("C07.R2", name+" after-broadcast", pos, "the static call chain from the action to CreateOpeningTransaction cannot be reconstructed")
				continue
			}
			// R4 guard
			var impBad, impUnk []string
			var facts []an.Fact
			unguarded, opaque := "", ""
			for _, ch := range chains {
				g := c07ChainGuard(w, ch, "SwapData.OpeningTxBroadcasted", false, false)
				facts = append(facts, g.facts...)
				switch {
				case g.field != "":
					impBad = append(impBad, g.impure...)
					impUnk = append(impUnk, g.impureAfter...)
				case g.opaque != "":
					opaque = g.opaque
				default:
					unguarded = c07ChainString(w, ch)
				}
			}
			switch {
			case unguarded != "":
				c.Bad("C07.R4", name+" broadcast-guard", pos,
					"CreateOpeningTransaction is not guarded by `OpeningTxBroadcasted == nil` with an already-broadcast branch that only succeeds (call chain "+unguarded+"): a re-execution after restart broadcasts again. Facts: "+an.DescribeFacts(facts))
			case opaque != "":
				c.Unknown("C07.R4", name+" broadcast-guard", pos, "cannot decide whether the broadcast is guarded: "+opaque)
			default:
				c.OK("C07.R4", name+" broadcast-guard", pos, "broadcast is skipped when the record already holds an announcement")
				switch {
				case len(impBad) > 0:
					c.Bad("C07.R4", name+" already-broadcast path", pos,
						"on re-execution with the opening transaction already recorded (restart between the broadcast action and the next state) the action still calls "+strings.Join(c07Uniq(impBad), "; ")+" before it returns: a failure there cancels the swap although the funds are locked")
				case len(impUnk) > 0:
					c.Unknown("C07.R4", name+" already-broadcast path", pos,
						"the guard sits inside a helper; after it returns the caller calls outside services ("+strings.Join(c07Uniq(impUnk), "; ")+") and the rule cannot separate the first execution from the re-execution there")
				default:
					c.OK("C07.R4", name+" already-broadcast path", pos, "a record that already holds the announcement succeeds without consulting outside services")
				}
			}
			// R2: nothing fails after the broadcast, the record is filled
			for _, ch := range chains {
				c07AfterEffect(c, ch, name, c07ActionMode)
			}
		}
	}
	c.AtLeast("C07.R2", "states whose action broadcasts the opening transaction", len(bStates), 2)

	// R2 inside the wallet implementations
	impls := append(implementers(w, "swap", "Wallet", "CreateOpeningTransaction"), implementers(w, "wallet", "Wallet", "CreateAndBroadcastTransaction")...)
	c.AtLeast("C07.R2", "CreateOpeningTransaction/CreateAndBroadcastTransaction implementations", len(impls), 5)
	for _, fn := range impls {
		name := w.FuncName(fn)
		chains := c07PrimitiveChains(w, idx, fn)
		if len(chains) == 0 {
			c.Unknown("C07.R2", name+" broadcast-primitive", w.Pos(fn.Pos()), "no known broadcast primitive is reached from here (directly or through in-module wrappers); the frozen table in c07.go needs a confirmed entry for this back-end")
			continue
		}
		for _, ch := range chains {
			c07AfterEffect(c, ch, name, c07WalletMode)
		}
	}

	// R6: durable write between transition and Execute in SendEvent
	se := w.Func("swap", "(*SwapStateMachine).SendEvent")
	if se == nil {
		c.Anchor("(*SwapStateMachine).SendEvent does not resolve")
		return
	}
	c07WriteAhead(c, se)

	// R8: the CSV (and, as information, confirmation) watch registrations of the
	// TxWatcher implementations
	c07RegisterOrRollback(c)
}

// c07ArmsCsv: R3, the CSV watch of a waiting state is registered on the
// persisted announcement's outpoint.
func c07ArmsCsv(c *an.Check, t *TI, s string) {
	w := c.W
	ss := t.Sum[s]
	arm := ss.Sites(fxWaitCsv)
	cons := t.key(s) + " arms-csv"
	if len(arm) == 0 {
		if ss.HasEffect("go:" + fxWaitCsv) {
			c.Unknown("C07.R3", cons, t.pos(c, s), "the CSV watch is registered from a goroutine: not decided")
			return
		}
		c.Bad("C07.R3", cons, t.pos(c, s), "post-broadcast waiting state does not register the CSV watch")
		return
	}
	bad, unk := "", ""
	resolve := func(v ssa.Value, want string, what string) {
		src := w.Sources(v, an.FlowOpts{})
		if src.HasPrefix("param", "") {
			src = w.Sources(v, an.FlowOpts{IntoCallers: true})
		}
		switch {
		case len(src.Leaves) == 1 && src.Has("field", want):
		case src.HasPrefix("param", "") || src.HasPrefix("unknown", "") || src.HasPrefix("freevar", "") || len(src.Leaves) == 0:
			unk += " " + what + " from " + strings.Join(src.Names(), ",")
		case src.Has("field", want) && len(c07Uniq(src.Names())) == 1:
		default:
			bad += " " + what + " from " + strings.Join(src.Names(), ",")
		}
	}
	for _, site := range arm {
		args := site.Info.Instr.Common().Args
		// invoke: args = swapID, txID, vout, startingHeight, csv, script
		if len(args) < 6 {
			unk += " unexpected argument count"
			continue
		}
		resolve(args[1], "SwapData.OpeningTxBroadcasted>OpeningTxBroadcastedMessage.TxId", "txid")
		resolve(args[2], "SwapData.OpeningTxBroadcasted>OpeningTxBroadcastedMessage.ScriptOut", "vout")
	}
	pos := w.Pos(arm[0].Info.Instr.Pos())
	switch {
	case bad != "":
		c.Bad("C07.R3", cons, pos, "CSV watch is not registered on the announced outpoint:"+bad)
	case unk != "":
		c.Unknown("C07.R3", cons, pos, "origin of the watched outpoint cannot be resolved:"+unk)
	default:
		c.OK("C07.R3", cons, pos, "CSV watch registered on the persisted announcement's (txid, vout)")
	}
}

// ---- R2: what can happen after the effect succeeded ----------------------------------------

type c07Mode int

const (
	c07ActionMode c07Mode = iota // root is an action: failure events, record fields
	c07WalletMode                // root is a wallet implementation: error returns, locator exemption
)

// c07AfterEffect walks a call chain root -> … -> effect bottom-up. At every
// level it inspects the returns reachable after the call of that level
// succeeded: an error return there (helper / wallet function) or a failure
// event (action) is a failure exit after the broadcast, unless its cause is
// exempt; success returns of the action must have the record fields assigned.
func c07AfterEffect(c *an.Check, ch []c07Step, name string, mode c07Mode) {
	w := c.W
	recordFields := []string{"SwapData.OpeningTxBroadcasted", "SwapData.OpeningTxHex"}
	recordedBelow := map[string]bool{}
	for k := len(ch) - 1; k >= 0; k-- {
		st := ch[k]
		fn := st.Fn
		call, ok := st.Call.(*ssa.Call)
		if !ok {
			c.Unknown("C07.R2", name+" after-broadcast", w.Pos(st.Call.Pos()), "the broadcast is reached through a go/defer statement in "+w.FuncName(fn))
			return
		}
		prim := strings.TrimPrefix(w.Info(ch[len(ch)-1].Call).Name, "func:")
		var region map[*ssa.BasicBlock]bool
		hasErr := an.ErrResultIndex(call) >= 0
		okE, _ := an.OkEdges(call)
		switch {
		case hasErr && len(okE) > 0:
			var start []*ssa.BasicBlock
			for _, e := range okE {
				start = append(start, e.To())
			}
			region = an.ReachBlocks(start, nil, nil)
		case hasErr && c07PassThrough(call):
			// `return f(...)`: nothing runs here after the call; judged one level up
			continue
		case hasErr:
			what := " after-primitive"
			if mode == c07ActionMode {
				what = " after-broadcast"
			}
			c.Unknown("C07.R2", name+what, w.Pos(call.Pos()), "error result of "+strings.TrimPrefix(w.Info(call).Name, "func:")+" is not tested in "+w.FuncName(fn))
			return
		default:
			region = an.ReachFromInstr(call)
			region[call.Block()] = true
		}
		isAction := mode == c07ActionMode && k == 0
		clean := true
		if isAction {
			for _, r := range an.Returns(fn) {
				if !region[r.Block()] {
					continue
				}
				for _, res := range r.Results {
					n, ok := res.Type().(*types.Named)
					if !ok || n.Obj().Name() != "EventType" {
						continue
					}
					for _, cs := range c07ValueCases(res, r) {
						if !region[cs.blk] {
							continue
						}
						for _, ev := range eventValues(w, cs.v) {
							switch ev {
							case evSucceeded:
								for _, fld := range recordFields {
									assigned := recordedBelow[fld] || c07Recorded(w, fn, call, cs.at, fld)
									if !assigned && (c07MaybeRecorded(w, fn, call, cs.at, fld) || c07BelowMayStore(w, ch, fld)) {
										c.Unknown("C07.R2", name+" records "+fld, w.Pos(r.Pos()), "the field is assigned by a helper on some of its paths only; whether every success path after the broadcast assigns it is not decided")
										continue
									}
									c.Decide(assigned, "C07.R2", name+" records "+fld, w.Pos(r.Pos()), "assigned on every success path after the broadcast", "a success path after the broadcast does not assign "+fld)
								}
							case "?", "NEXT":
								c.Unknown("C07.R2", name+" after-broadcast", w.Pos(r.Pos()), "an event returned after the broadcast cannot be resolved to a constant")
							default:
								cause, ccall := c07FailureCause(w, fn, cs.blk)
								cons := name + " failure-after-broadcast via " + cause
								if why := c07MarshalOnly(w, ccall, 0); why != "" {
									c.OK("C07.R2", cons, w.Pos(r.Pos()), why)
								} else {
									c.Bad("C07.R2", cons, w.Pos(r.Pos()),
										fmt.Sprintf("after CreateOpeningTransaction succeeded (funds are on their way to the chain) the action can still return %s (table: cancel) when %s fails; the record fields are never set and the locked output is abandoned", ev, cause))
								}
							}
						}
					}
				}
			}
			continue
		}
		// helper of the action, or wallet-side function: error returns after the call succeeded
		for _, r := range an.Returns(fn) {
			if !region[r.Block()] || len(r.Results) == 0 {
				continue
			}
			errV := r.Results[len(r.Results)-1]
			if !an.IsErrorType(errV.Type()) {
				continue
			}
			for _, cs := range c07ValueCases(errV, r) {
				if !region[cs.blk] || c07KnownNil(w, cs.v, cs.blk) {
					continue
				}
				cause, ccall := c07FailureCause(w, fn, cs.blk)
				var cons, okWhy, badWhy string
				if mode == c07WalletMode {
					cons = name + " error-after-broadcast via " + cause
					if k > 0 {
						cons = name + " error-after-broadcast in " + w.FuncName(fn) + " via " + cause
					}
					if c07IsLocator(cause) {
						okWhy = "the only error after the broadcast is an output-locator verdict"
					}
					badWhy = "after the broadcast primitive " + prim + " succeeded this function still returns an error when " + cause + " fails: the caller treats the broadcast as failed and cancels the swap while the funds are locked"
				} else {
					cons = name + " failure-after-broadcast in " + w.FuncName(fn) + " via " + cause
					okWhy = c07MarshalOnly(w, ccall, 0)
					badWhy = "after CreateOpeningTransaction succeeded the helper " + w.FuncName(fn) + " still returns an error when " + cause + " fails; the action fails (table: cancel) and the locked output is abandoned"
				}
				switch {
				case okWhy != "":
					c.OK("C07.R2", cons, w.Pos(r.Pos()), okWhy)
				case ccall == nil && !c07SurelyError(cs.v):
					clean = false
					c.Unknown("C07.R2", cons, w.Pos(r.Pos()), "an error value returned after the broadcast succeeded cannot be shown to be nil, and no failing call that leads to this return could be identified")
				default:
					clean = false
					c.Bad("C07.R2", cons, w.Pos(r.Pos()), badWhy)
				}
			}
		}
		if mode == c07WalletMode && clean && k == 0 {
			c.OK("C07.R2", name+" after-primitive", w.Pos(call.Pos()), "no error return is reachable after the broadcast primitive succeeded")
		}
		// record fields assigned by this level on all its success returns?
		if mode == c07ActionMode {
			for _, fld := range recordFields {
				if recordedBelow[fld] {
					continue
				}
				all, any := true, false
				for _, r := range an.Returns(fn) {
					if !region[r.Block()] {
						continue
					}
					if len(r.Results) > 0 {
						errV := r.Results[len(r.Results)-1]
						if an.IsErrorType(errV.Type()) && !an.IsNilConst(errV) && !c07KnownNil(w, errV, r.Block()) {
							continue // failing return
						}
					}
					any = true
					if !c07Recorded(w, fn, call, r, fld) {
						all = false
					}
				}
				if any && all {
					recordedBelow[fld] = true
				}
			}
		}
	}
}

// c07BelowMayStore: a function below the root on the chain stores fld.
func c07BelowMayStore(w *an.World, ch []c07Step, fld string) bool {
	for _, st := range ch[1:] {
		if len(storesTo(st.Fn, fld)) > 0 {
			return true
		}
	}
	return false
}

// c07PassThrough: the call's results are returned as they are (`return f(…)`).
func c07PassThrough(call *ssa.Call) bool {
	refs := call.Referrers()
	if refs == nil || len(*refs) == 0 {
		return false
	}
	for _, r := range *refs {
		switch x := r.(type) {
		case *ssa.Return:
		case *ssa.Extract:
			if x.Referrers() == nil {
				return false
			}
			for _, rr := range *x.Referrers() {
				if _, ok := rr.(*ssa.Return); !ok {
					if _, dbg := rr.(*ssa.DebugRef); !dbg {
						return false
					}
				}
			}
		case *ssa.DebugRef:
		default:
			return false
		}
	}
	return true
}

type c07Case struct {
	v   ssa.Value
	blk *ssa.BasicBlock // block whose dominating facts hold when v is returned
	at  ssa.Instruction // an instruction executed on that path (for path queries)
}

// c07ValueCases expands a returned value into (incoming value, block) pairs:
// phi edges with their predecessor blocks, defer-spilled results with the
// stores that reach the load.
func c07ValueCases(v ssa.Value, r *ssa.Return) []c07Case {
	var out []c07Case
	seen := map[ssa.Value]bool{}
	var rec func(v ssa.Value, blk *ssa.BasicBlock, at ssa.Instruction, depth int)
	rec = func(v ssa.Value, blk *ssa.BasicBlock, at ssa.Instruction, depth int) {
		if depth > 6 {
			out = append(out, c07Case{v, blk, at})
			return
		}
		switch x := v.(type) {
		case *ssa.Phi:
			if seen[x] {
				return
			}
			seen[x] = true
			for i, e := range x.Edges {
				pred := x.Block().Preds[i]
				rec(e, pred, pred.Instrs[len(pred.Instrs)-1], depth+1)
			}
			return
		case *ssa.UnOp:
			if al, ok := x.X.(*ssa.Alloc); ok && x.Op == token.MUL {
				stores, fromEntry := an.StoresReaching(x, al)
				if len(stores) > 0 && !fromEntry {
					for _, s := range stores {
						rec(s.Val, s.Block(), s, depth+1)
					}
					return
				}
			}
		}
		out = append(out, c07Case{v, blk, at})
	}
	rec(v, r.Block(), r, 0)
	return out
}

// c07KnownNil: the error value is nil whenever blk executes.
func c07KnownNil(w *an.World, v ssa.Value, blk *ssa.BasicBlock) bool {
	if an.IsNilConst(v) {
		return true
	}
	if src := w.Sources(v, an.FlowOpts{}); src.OnlyFrom(func(s an.Src) bool { return s.Kind == "zero" && s.Name == "nil" }) {
		return true // named result that holds nil on this path
	}
	facts := w.FactsDominatingBlock(blk)
	// the block itself may be the target of the deciding edge
	for _, f := range w.Facts(blk.Parent()) {
		if f.Edge.To() == blk && len(blk.Preds) == 1 {
			facts = append(facts, f)
		}
	}
	for _, f := range facts {
		if !f.NonNum || f.Rel != "==" {
			continue
		}
		if (f.LV == v && f.RV != nil && an.IsNilConst(f.RV)) || (f.RV == v && f.LV != nil && an.IsNilConst(f.LV)) {
			return true
		}
	}
	return false
}

// c07SurelyError: the value is a freshly constructed error.
func c07SurelyError(v ssa.Value) bool {
	switch x := v.(type) {
	case *ssa.MakeInterface:
		return true
	case *ssa.Call:
		if f := x.Common().StaticCallee(); f != nil && f.Pkg != nil {
			switch f.Pkg.Pkg.Path() + "." + f.Name() {
			case "errors.New", "fmt.Errorf":
				return true
			}
		}
	}
	return false
}

// c07StoreLike: the instructions of fn that assign field fld: stores, and calls
// of in-module functions that store it on every return.
func c07StoreLike(w *an.World, fn *ssa.Function, fld string) []ssa.Instruction {
	out := storesTo(fn, fld)
	for _, call := range an.Calls(fn) {
		g := call.Common().StaticCallee()
		if g == nil || !w.InModule(g) || g.Blocks == nil || g == fn {
			continue
		}
		sts := storesTo(g, fld)
		if len(sts) == 0 {
			continue
		}
		all := true
		for _, r := range an.Returns(g) {
			if len(r.Results) > 0 {
				errV := r.Results[len(r.Results)-1]
				if an.IsErrorType(errV.Type()) && !an.IsNilConst(errV) {
					continue // failing return of the recorder
				}
			}
			if !an.MustPassInstr(r, sts) {
				all = false
			}
		}
		if all {
			out = append(out, call)
		}
	}
	return out
}

// c07Recorded: every path from `from` to `to` in fn assigns fld.
func c07Recorded(w *an.World, fn *ssa.Function, from ssa.Instruction, to ssa.Instruction, fld string) bool {
	sts := c07StoreLike(w, fn, fld)
	for _, s := range sts {
		if s == to {
			return true
		}
	}
	return len(sts) > 0 && !pathAvoiding(from, to, sts)
}

// c07MaybeRecorded: as c07Recorded, also counting calls of in-module functions
// that may (not must) assign fld somewhere below them.
func c07MaybeRecorded(w *an.World, fn *ssa.Function, from ssa.Instruction, to ssa.Instruction, fld string) bool {
	sts := c07StoreLike(w, fn, fld)
	for _, call := range an.Calls(fn) {
		if g := call.Common().StaticCallee(); g != nil && g != fn && w.InModule(g) && c07FnStores(w, g, fld) {
			sts = append(sts, call)
		}
	}
	for _, s := range sts {
		if s == to {
			return true
		}
	}
	return len(sts) > 0 && !pathAvoiding(from, to, sts)
}

// c07FailureCause names the call whose failing edge leads to blk (the nearest
// dominating error test), for diagnostics and for the exemptions.
func c07FailureCause(w *an.World, fn *ssa.Function, blk *ssa.BasicBlock) (string, *ssa.Call) {
	type cand struct {
		call *ssa.Call
		edge an.Edge
	}
	var cands []cand
	for _, call := range an.Calls(fn) {
		cv, ok := call.(*ssa.Call)
		if !ok {
			continue
		}
		_, fail := an.OkEdges(cv)
		for _, e := range fail {
			if e.To() == blk || an.EdgeDominates(e, blk) {
				cands = append(cands, cand{cv, e})
			}
		}
	}
	if len(cands) == 0 {
		return "an unidentified condition", nil
	}
	// the closest: the candidate whose edge is dominated by all the others
	best := cands[0]
	for _, cd := range cands[1:] {
		if cd.edge.From == best.edge.From {
			continue
		}
		if an.EdgeDominates(best.edge, cd.edge.From) {
			best = cd
		}
	}
	return w.Info(best.call).Name, best.call
}

// c07MarshalOnly: the failing call is MarshalPeerswapMessage, or an in-module
// helper whose every non-nil error return is caused by such a call. Returns the
// justification, "" when not exempt.
func c07MarshalOnly(w *an.World, call *ssa.Call, depth int) string {
	if call == nil || depth > 2 {
		return ""
	}
	marshal := w.Func("swap", "MarshalPeerswapMessage")
	g := call.Common().StaticCallee()
	if g == nil || marshal == nil {
		return ""
	}
	if g == marshal {
		return "marshalling a message of strings/integers/*SwapId cannot fail (frozen exemption)"
	}
	if !w.InModule(g) || g.Blocks == nil {
		return ""
	}
	n := 0
	for _, r := range an.Returns(g) {
		if len(r.Results) == 0 {
			continue
		}
		errV := r.Results[len(r.Results)-1]
		if !an.IsErrorType(errV.Type()) {
			return "" // reports failure by other means
		}
		for _, cs := range c07ValueCases(errV, r) {
			if c07KnownNil(w, cs.v, cs.blk) {
				continue
			}
			_, cc := c07FailureCause(w, g, cs.blk)
			if c07MarshalOnly(w, cc, depth+1) == "" {
				return ""
			}
			n++
		}
	}
	if n == 0 {
		return "the helper " + w.FuncName(g) + " never returns an error"
	}
	return "the helper " + w.FuncName(g) + " fails only when MarshalPeerswapMessage fails, which cannot happen for a message of strings/integers/*SwapId (frozen exemption)"
}

// c07PrimitiveChains: the call chains from a wallet implementation to the
// broadcast primitives it reaches, each cut at its first primitive call.
func c07PrimitiveChains(w *an.World, idx *c07CallIdx, fn *ssa.Function) [][]c07Step {
	var out [][]c07Step
	seen := map[string]bool{}
	isPrim := func(call ssa.CallInstruction) bool { _, ok := c07BroadcastPrimitives[w.Info(call).Name]; return ok }
	add := func(ch []c07Step) {
		for i, st := range ch {
			if isPrim(st.Call) {
				ch = ch[:i+1]
				break
			}
		}
		key := ""
		for _, st := range ch {
			key += fmt.Sprintf("%p/", st.Call)
		}
		if !seen[key] {
			seen[key] = true
			out = append(out, ch)
		}
	}
	for _, call := range an.Calls(fn) {
		if isPrim(call) {
			add([]c07Step{{fn, call}})
		}
	}
	for _, ef := range w.Summary(fn).Effects {
		if _, ok := c07BroadcastPrimitives[ef.Name]; !ok || ef.In == fn {
			continue
		}
		for _, ch := range c07Chains(w, idx, fn, ef.Info.Instr, false) {
			add(ch)
		}
	}
	return out
}

// ---- R6 ------------------------------------------------------------------------------------

// c07WriteAhead looks, in SendEvent (or the helper that holds its transition
// loop), for a store write between the state transition and Action.Execute. The
// three anchors are found through effect summaries, so one-line wrappers around
// Store.UpdateData, the state setters or the Execute call are transparent.
func c07WriteAhead(c *an.Check, se *ssa.Function) {
	w := c.W
	const cons = "(*SwapStateMachine).SendEvent transition->Execute of the broadcast state"
	scope := se
	for depth := 0; depth < 3; depth++ {
		var execs, trans, upd []ssa.Instruction
		var both *ssa.Function
		for _, b := range scope.Blocks {
			for _, in := range b.Instrs {
				if st, ok := in.(*ssa.Store); ok {
					if fa, ok := st.Addr.(*ssa.FieldAddr); ok && an.FieldName(fa.X.Type(), fa.Field) == "SwapStateMachine.Current" {
						trans = append(trans, in)
					}
					continue
				}
				call, ok := in.(ssa.CallInstruction)
				if !ok {
					continue
				}
				if _, isGo := call.(*ssa.Go); isGo {
					continue
				}
				ci := w.Info(call)
				isExec, isTrans, isUpd := ci.Name == fxActionExecute, false, ci.Name == fxStoreUpdate
				if g := ci.Static; g != nil && g != se && g != scope && w.InModule(g) && g.Blocks != nil {
					sum := w.Summary(g)
					isExec = isExec || sum.HasEffect(fxActionExecute)
					isUpd = isUpd || sum.HasEffect(fxStoreUpdate)
					isTrans = c07FnStores(w, g, "SwapStateMachine.Current")
				}
				if isExec && isTrans {
					both = ci.Static
				}
				if isExec {
					execs = append(execs, in)
				}
				if isTrans {
					trans = append(trans, in)
				}
				if isUpd {
					upd = append(upd, in)
				}
			}
		}
		if both != nil {
			scope = both // the transition and the action run inside one helper: look there
			continue
		}
		if len(execs) == 0 || len(trans) == 0 {
			break
		}
		if len(upd) == 0 && scope == se {
			break
		}
		for _, ex := range execs {
			gap := false
			for _, tr := range trans {
				if tr == ex {
					continue
				}
				if pathAvoiding(tr, ex, upd) {
					gap = true
				}
			}
			c.Decide(!gap, "C07.R6", cons, w.Pos(ex.Pos()),
				"the new state is persisted before its action runs",
				"SendEvent moves to the next state and runs its action without a store write in between (the write precedes the transition): a crash between the wallet broadcast inside CreateAndBroadcastOpeningTransaction and the post-action write leaves a record that does not mention the transaction, and recovery never arms the CSV refund")
		}
		return
	}
	c.Anchor("SendEvent: Action.Execute / state transition / Store.UpdateData not found (directly or through in-module helpers)")
}

// ---- R8: register-or-rollback ---------------------------------------------------------------

// c07MapField: v is (a load of) a map-typed struct field; returns "Type.field".
func c07MapField(v ssa.Value) string {
	for {
		switch x := v.(type) {
		case *ssa.UnOp:
			if x.Op != token.MUL {
				return ""
			}
			fa, ok := x.X.(*ssa.FieldAddr)
			if !ok {
				return ""
			}
			if _, isMap := x.Type().Underlying().(*types.Map); !isMap {
				return ""
			}
			return an.FieldName(fa.X.Type(), fa.Field)
		case *ssa.Field:
			if _, isMap := x.Type().Underlying().(*types.Map); !isMap {
				return ""
			}
			return an.FieldName(x.X.Type(), x.Field)
		case *ssa.ChangeType:
			v = x.X
			continue
		case *ssa.Phi:
			name := ""
			for _, e := range x.Edges {
				n := c07MapField(e)
				if n == "" || (name != "" && n != name) {
					return ""
				}
				name = n
			}
			return name
		}
		return ""
	}
}

// c07MapOps: what fn itself does with map field `field`.
type c07MapOps struct {
	tests   []*ssa.Lookup
	marks   []ssa.Instruction
	deletes []ssa.Instruction
}

func c07OpsOf(fn *ssa.Function) map[string]*c07MapOps {
	out := map[string]*c07MapOps{}
	get := func(f string) *c07MapOps {
		if out[f] == nil {
			out[f] = &c07MapOps{}
		}
		return out[f]
	}
	for _, b := range fn.Blocks {
		for _, in := range b.Instrs {
			switch x := in.(type) {
			case *ssa.Lookup:
				if f := c07MapField(x.X); f != "" {
					get(f).tests = append(get(f).tests, x)
				}
			case *ssa.MapUpdate:
				if f := c07MapField(x.Map); f != "" {
					get(f).marks = append(get(f).marks, x)
				}
			case ssa.CallInstruction:
				if bi, ok := x.Common().Value.(*ssa.Builtin); ok && bi.Name() == "delete" && len(x.Common().Args) == 2 {
					if f := c07MapField(x.Common().Args[0]); f != "" {
						get(f).deletes = append(get(f).deletes, x)
					}
				}
			}
		}
	}
	return out
}

// c07Touches: g, its closures, or what it runs synchronously / by defer (depth
// <= 3) performs the given kind of operation on map field `field`.
func c07Touches(w *an.World, g *ssa.Function, field string, kind string, depth int, seen map[*ssa.Function]bool) bool {
	if g == nil || g.Blocks == nil || seen[g] || depth > 3 {
		return false
	}
	seen[g] = true
	if ops := c07OpsOf(g)[field]; ops != nil {
		switch kind {
		case "delete":
			if len(ops.deletes) > 0 {
				return true
			}
		case "mark":
			if len(ops.marks) > 0 {
				return true
			}
		case "test":
			if len(ops.tests) > 0 {
				return true
			}
		}
	}
	for _, call := range an.Calls(g) {
		if _, isGo := call.(*ssa.Go); isGo {
			continue
		}
		for _, h := range c07Callees(w, call) {
			if c07Touches(w, h, field, kind, depth+1, seen) {
				return true
			}
		}
		if mc, ok := call.Common().Value.(*ssa.MakeClosure); ok {
			if h, ok := mc.Fn.(*ssa.Function); ok && c07Touches(w, h, field, kind, depth+1, seen) {
				return true
			}
		}
	}
	return false
}

// c07TestReturns: the lookup is used as an "already registered" test: on the
// branch where the key is present the function returns without reaching `until`.
func c07TestReturns(lk *ssa.Lookup, marks []ssa.Instruction) bool {
	var conds []ssa.Value
	if lk.CommaOk {
		if lk.Referrers() != nil {
			for _, r := range *lk.Referrers() {
				if ex, ok := r.(*ssa.Extract); ok && ex.Index == 1 {
					conds = append(conds, ex)
				}
			}
		}
	} else if b, ok := lk.Type().Underlying().(*types.Basic); ok && b.Info()&types.IsBoolean != 0 {
		conds = append(conds, lk) // map[K]bool read as a condition
	}
	for _, cv := range conds {
		tE, _ := an.BoolEdges(cv)
		for _, e := range tE {
			reach := an.ReachBlocks([]*ssa.BasicBlock{e.To()}, nil, nil)
			hitsMark := false
			for _, m := range marks {
				if reach[m.Block()] {
					hitsMark = true
				}
			}
			returns := false
			for _, r := range an.Returns(lk.Parent()) {
				if reach[r.Block()] {
					returns = true
				}
			}
			if returns && !hitsMark {
				return true
			}
		}
	}
	return false
}

func c07RegisterOrRollback(c *an.Check) {
	w := c.W
	nCsv := 0
	for _, meth := range []string{"AddWaitForCsvTx", "AddWaitForConfirmationTx"} {
		isCsv := meth == "AddWaitForCsvTx"
		for _, fn := range implementers(w, "swap", "TxWatcher", meth) {
			if isDummy(w, fn) {
				continue
			}
			if isCsv {
				nCsv++
			}
			name := w.FuncName(fn)
			ops := c07OpsOf(fn)
			// calls of fn that mark / delete / test through in-module helpers
			type viaT struct {
				call ssa.CallInstruction
				g    *ssa.Function
			}
			var direct []viaT // synchronous callees and defers
			var gos []ssa.Instruction
			goFn := map[ssa.Instruction][]*ssa.Function{}
			for _, call := range an.Calls(fn) {
				var gs []*ssa.Function
				gs = append(gs, c07Callees(w, call)...)
				if mc, ok := call.Common().Value.(*ssa.MakeClosure); ok {
					if h, ok := mc.Fn.(*ssa.Function); ok {
						gs = append(gs, h)
					}
				}
				if _, isGo := call.(*ssa.Go); isGo {
					gos = append(gos, call)
					goFn[call] = gs
					continue
				}
				for _, g := range gs {
					direct = append(direct, viaT{call, g})
				}
			}
			fields := map[string]bool{}
			for f := range ops {
				fields[f] = true
			}
			var fl []string
			for f := range fields {
				fl = append(fl, f)
			}
			sort.Strings(fl)
			decided := false
			for _, field := range fl {
				o := ops[field]
				marks := append([]ssa.Instruction{}, o.marks...)
				deletes := append([]ssa.Instruction{}, o.deletes...)
				helperTest := false
				for _, v := range direct {
					if c07Touches(w, v.g, field, "mark", 0, map[*ssa.Function]bool{}) {
						marks = append(marks, v.call)
					}
					if c07Touches(w, v.g, field, "delete", 0, map[*ssa.Function]bool{}) {
						deletes = append(deletes, v.call)
					}
					if c07Touches(w, v.g, field, "test", 0, map[*ssa.Function]bool{}) {
						helperTest = true
					}
				}
				tested := false
				var testPos ssa.Instruction
				for _, lk := range o.tests {
					if c07TestReturns(lk, marks) {
						tested = true
						testPos = lk
					}
				}
				cons := name + " dedupe map " + field
				if !isCsv {
					cons += " (confirmation watch, info)"
				}
				report := func(verdict, pos, text string) {
					decided = true
					switch {
					case !isCsv:
						pre := map[string]string{"ok": "kept", "bad": "NOT kept", "unknown": "not decided"}[verdict]
						c.Note("C07.R8", cons, pos, "register-or-rollback "+pre+" (information only: the confirmation watch belongs to the taker, not to the refund path, and a restart registers it again): "+text)
					case verdict == "ok":
						c.OK("C07.R8", cons, pos, text)
					case verdict == "bad":
						c.Bad("C07.R8", cons, pos, text)
					default:
						c.Unknown("C07.R8", cons, pos, text)
					}
				}
				switch {
				case tested && len(marks) == 0:
					report("ok", w.Pos(testPos.Pos()), "the function returns early when "+field+" holds the swap but never sets an entry of that map itself: the test cannot be made true by this function, nothing blocks a later registration (the map it does set is a different one)")
					continue
				case !tested && len(marks) > 0 && helperTest:
					report("unknown", w.Pos(marks[0].Pos()), "the function sets "+field+" and a helper it calls reads that map: whether this is an 'already registered' test is not interpreted")
					continue
				case !tested:
					continue // a map the function does not use as a registration guard
				}
				var goDel, goAny []ssa.Instruction
				for _, g := range gos {
					goAny = append(goAny, g)
					for _, h := range goFn[g] {
						if c07Touches(w, h, field, "delete", 0, map[*ssa.Function]bool{}) {
							goDel = append(goDel, g)
						}
					}
				}
				bad, unk := "", ""
				for _, m := range marks {
					for _, r := range an.Returns(fn) {
						if pathAvoiding(m, r, append(append([]ssa.Instruction{}, deletes...), goAny...)) {
							bad = w.Pos(c07ReturnPos(r))
						} else if pathAvoiding(m, r, append(append([]ssa.Instruction{}, deletes...), goDel...)) {
							unk = w.Pos(c07ReturnPos(r))
						}
					}
				}
				switch {
				case bad != "":
					report("bad", w.Pos(marks[0].Pos()), "the function refuses a swap that is already in "+field+" and enters the swap there, but the return at "+bad+" is reached with the entry still set and before any goroutine was started that would delete it (failed subscription): every later registration for this swap is refused, so the watch can never be (re-)armed and its callback never fires")
				case unk != "":
					report("unknown", w.Pos(marks[0].Pos()), "the return at "+unk+" leaves the entry of "+field+" set after a goroutine was started that does not delete it")
				default:
					report("ok", w.Pos(marks[0].Pos()), "every return that leaves the entry of "+field+" set happens after the goroutine that deletes it was started")
				}
			}
			if !decided {
				cons := name + " dedupe map (none)"
				if isCsv {
					c.OK("C07.R8", cons, w.Pos(fn.Pos()), "the registration function has no 'already registered' test on a map it sets: nothing to roll back")
				}
			}
		}
	}
	c.AtLeast("C07.R8", "AddWaitForCsvTx implementations analysed", nCsv, 3)
}

// c07ReturnPos: a position for a return (bare returns carry none: use the
// last positioned instruction of the block).
func c07ReturnPos(r *ssa.Return) token.Pos {
	if r.Pos().IsValid() {
		return r.Pos()
	}
	b := r.Block()
	for i := len(b.Instrs) - 1; i >= 0; i-- {
		if p := b.Instrs[i].Pos(); p.IsValid() {
			return p
		}
	}
	return r.Parent().Pos()
}

// ==== shared-begin: call-chain / guard helpers (the same code, up to the prefix, in each of this author's rule files) ====

func c07Uniq(in []string) []string {
	m := map[string]bool{}
	for _, s := range in {
		m[s] = true
	}
	return sortedKeys(m)
}

func c07ChainString(w *an.World, ch []c07Step) string {
	var p []string
	for _, st := range ch {
		p = append(p, w.FuncName(st.Fn))
	}
	return strings.Join(p, " -> ")
}

type c07GuardResult struct {
	field       string // guarding field, "" if none
	opaque      string // why the chain could not be interpreted (then field == "")
	facts       []an.Fact
	impure      []string // outside-service calls that certainly lie on the already-done path
	impureAfter []string // outside-service calls in callers after a guarded helper returned
}

// c07After: blocks that execute after call succeeded (after the call when its
// error is not tested or it has none).
func c07After(call ssa.CallInstruction) map[*ssa.BasicBlock]bool {
	if cv, ok := call.(*ssa.Call); ok {
		if okE, _ := an.OkEdges(cv); len(okE) > 0 {
			var st []*ssa.BasicBlock
			for _, e := range okE {
				st = append(st, e.To())
			}
			return an.ReachBlocks(st, nil, nil)
		}
	}
	after := an.ReachFromInstr(call)
	after[call.Block()] = true
	return after
}

// c07ChainGuard looks for a guard `SwapData.X is zero` that dominates one call
// of the chain, with X assigned after the effect at that level or further down.
//
// only restricts the search to one field ("" = any persisted field);
// needAssigned demands the assignment after the effect; allowNext accepts an
// already-done branch that delegates to the next action of a wrapper.
func c07ChainGuard(w *an.World, ch []c07Step, only string, needAssigned, allowNext bool) c07GuardResult {
	var res c07GuardResult
	for k, st := range ch {
		facts := w.FactsDominating(st.Call)
		res.facts = append(res.facts, facts...)
		for _, f := range facts {
			fld := c07ZeroFactField(w, f)
			if fld == "" || (only != "" && fld != only) {
				continue
			}
			// assigned after the effect: at this level after the call, or at a deeper level
			assigned := false
			for j := k; j < len(ch); j++ {
				after := c07After(ch[j].Call)
				for _, s := range storesTo(ch[j].Fn, fld) {
					if after[s.Block()] {
						assigned = true
					}
				}
				// through a recording helper called after the effect
				for _, call := range an.Calls(ch[j].Fn) {
					if !after[call.Block()] || call == ch[j].Call {
						continue
					}
					if g := call.Common().StaticCallee(); g != nil && w.InModule(g) && c07FnStores(w, g, fld) {
						assigned = true
					}
				}
			}
			if !assigned && needAssigned {
				continue
			}
			// the "already done" edge must not reach the guarded call nor return a failure
			other := an.Edge{From: f.Edge.From, Idx: 1 - f.Edge.Idx}
			reach := an.ReachBlocks([]*ssa.BasicBlock{other.To()}, nil, nil)
			if reach[st.Call.Block()] {
				continue
			}
			bad, unres := false, false
			for ev := range returnEventsFrom(w, st.Fn, reach) {
				if ev == "?" {
					unres = true
				} else if ev != evSucceeded && !(ev == "NEXT" && allowNext) {
					bad = true
				}
			}
			for _, r := range an.Returns(st.Fn) {
				if !reach[r.Block()] {
					continue
				}
				for _, rv := range r.Results {
					if an.IsErrorType(rv.Type()) && !an.IsNilConst(rv) && !c07OnlyNil(w, rv) {
						bad = true
					}
				}
			}
			if bad {
				continue
			}
			if unres {
				res.opaque = "the already-done branch of the guard on " + fld + " in " + w.FuncName(st.Fn) + " returns an event that cannot be resolved"
				continue
			}
			res.field = fld
			res.impure, res.impureAfter = nil, nil
			// purity of the already-done path: the guard's function with the zero
			// edges removed, and everything the callers above run before the call
			res.impure = append(res.impure, impureCallsIn(w, st.Fn, c07DoneRegion(w, st.Fn, fld))...)
			for j := 0; j < k; j++ {
				before, after := c07BeforeAfter(ch[j].Call)
				res.impure = append(res.impure, impureCallsIn(w, ch[j].Fn, before)...)
				for _, x := range c07ImpureExcept(w, ch[j].Fn, after, ch[j].Call) {
					res.impureAfter = append(res.impureAfter, x)
				}
			}
		}
		if res.field != "" {
			return res
		}
	}
	if only != "" && res.opaque == "" {
		// a dominating condition that talks about the field in a form that is not
		// understood: do not claim the guard is missing
		short := only[strings.LastIndex(only, ".")+1:]
		for _, f := range res.facts {
			if strings.Contains(f.String(), short) && c07ZeroFactField(w, f) == "" && !c07NonZeroFact(w, f, only) {
				res.opaque = "a condition that dominates the call mentions " + only + " in a form the rule does not interpret: " + f.String()
			}
		}
	}
	return res
}

// c07NonZeroFact: f says that field is NOT zero (the interpreted opposite of a guard).
func c07NonZeroFact(w *an.World, f an.Fact, field string) bool {
	if !f.NonNum || f.Rel != "!=" {
		return false
	}
	g := f
	g.Rel = "=="
	return c07ZeroFactField(w, g) == field
}

// c07OnlyNil: an error value that can only be nil (named result never assigned).
func c07OnlyNil(w *an.World, v ssa.Value) bool {
	src := w.Sources(v, an.FlowOpts{})
	return len(src.Leaves) > 0 && src.OnlyFrom(func(s an.Src) bool { return s.Kind == "zero" && s.Name == "nil" })
}

// c07BeforeAfter: blocks from which call's block is reachable without having
// executed it (strictly before) / blocks reachable after it.
func c07BeforeAfter(call ssa.CallInstruction) (before, after map[*ssa.BasicBlock]bool) {
	fn := call.Parent()
	after = an.ReachFromInstr(call)
	before = map[*ssa.BasicBlock]bool{}
	// backward reachability from the call's block
	work := []*ssa.BasicBlock{call.Block()}
	seen := map[*ssa.BasicBlock]bool{call.Block(): true}
	for len(work) > 0 {
		b := work[len(work)-1]
		work = work[:len(work)-1]
		for _, p := range b.Preds {
			if !seen[p] {
				seen[p] = true
				work = append(work, p)
			}
		}
	}
	for _, b := range fn.Blocks {
		if seen[b] && b != call.Block() {
			before[b] = true
		}
	}
	return before, after
}

// c07ImpureExcept lists outside-service calls in region other than `except`.
func c07ImpureExcept(w *an.World, fn *ssa.Function, region map[*ssa.BasicBlock]bool, except ssa.CallInstruction) []string {
	r2 := map[*ssa.BasicBlock]bool{}
	for b := range region {
		if b != except.Block() {
			r2[b] = true
		}
	}
	return impureCallsIn(w, fn, r2)
}

// c07FnStores: g, or a function it reaches synchronously, stores field fld.
func c07FnStores(w *an.World, g *ssa.Function, fld string) bool {
	if g == nil || g.Blocks == nil {
		return false
	}
	if len(storesTo(g, fld)) > 0 {
		return true
	}
	for _, ef := range w.Summary(g).Effects {
		if ef.Info.Static != nil && w.InModule(ef.Info.Static) && ef.Info.Static.Blocks != nil && len(storesTo(ef.Info.Static, fld)) > 0 {
			return true
		}
	}
	return false
}

// c07ZeroGuardField returns "SwapData.X" when fact f says that persisted field
// X of SwapData holds its zero value ("" / nil).
func c07ZeroGuardField(f an.Fact) string {
	if !f.NonNum || f.Rel != "==" {
		return ""
	}
	for _, pair := range [][2]string{{f.L, f.R}, {f.R, f.L}} {
		if (pair[1] == `""` || pair[1] == "nil") && strings.HasPrefix(pair[0], "field:SwapData.") && !strings.Contains(pair[0], ">") {
			return strings.TrimPrefix(pair[0], "field:")
		}
	}
	return ""
}

// c07ZeroFactField is c07ZeroGuardField extended to predicate helpers: the fact
// `p(swap) is true/false` where the in-module function p returns that value only
// when SwapData.X is zero.
func c07ZeroFactField(w *an.World, f an.Fact) string {
	if fld := c07ZeroGuardField(f); fld != "" {
		return fld
	}
	// `swap.GetX() == ""` where the in-module getter returns the field itself
	if f.NonNum && f.Rel == "==" {
		for _, pair := range [][2]ssa.Value{{f.LV, f.RV}, {f.RV, f.LV}} {
			if pair[0] == nil || pair[1] == nil {
				continue
			}
			zero := an.IsNilConst(pair[1])
			if s, ok := an.ConstString(pair[1]); ok && s == "" {
				zero = true
			}
			if !zero {
				continue
			}
			if fld := c07GetterField(w, pair[0]); fld != "" {
				return fld
			}
		}
	}
	if f.Rel != "true" && f.Rel != "false" {
		return ""
	}
	call, ok := f.Cond.(*ssa.Call)
	if !ok {
		return ""
	}
	g := call.Common().StaticCallee()
	if g == nil || !w.InModule(g) || g.Blocks == nil {
		return ""
	}
	return c07PredZeroField(w, g, f.Rel == "true")
}

// c07GetterField: v is the result of an in-module getter whose every return is
// the SwapData field X of its receiver/argument: "SwapData.X".
func c07GetterField(w *an.World, v ssa.Value) string {
	for {
		switch x := v.(type) {
		case *ssa.ChangeType:
			v = x.X
			continue
		case *ssa.Convert:
			v = x.X
			continue
		}
		break
	}
	call, ok := v.(*ssa.Call)
	if !ok {
		return ""
	}
	g := call.Common().StaticCallee()
	if g == nil || !w.InModule(g) || g.Blocks == nil || g.Signature.Results().Len() != 1 {
		return ""
	}
	field := ""
	for _, r := range an.Returns(g) {
		if len(r.Results) != 1 {
			return ""
		}
		t := w.Term(r.Results[0])
		if !strings.HasPrefix(t, "field:SwapData.") || strings.Contains(t, ">") || (field != "" && field != t) {
			return ""
		}
		field = t
	}
	return strings.TrimPrefix(field, "field:")
}

// c07PredZeroField: field X such that every return of g that may yield `want`
// happens only when SwapData.X is zero; "" if there is no such field.
func c07PredZeroField(w *an.World, g *ssa.Function, want bool) string {
	res := g.Signature.Results()
	if res.Len() != 1 {
		return ""
	}
	if b, ok := res.At(0).Type().Underlying().(*types.Basic); !ok || b.Info()&types.IsBoolean == 0 {
		return ""
	}
	field := ""
	okAll := true
	note := func(fld string) {
		if fld == "" || (field != "" && field != fld) {
			okAll = false
			return
		}
		field = fld
	}
	var eval func(v ssa.Value, blk *ssa.BasicBlock, edge []an.Fact, depth int)
	eval = func(v ssa.Value, blk *ssa.BasicBlock, edge []an.Fact, depth int) {
		if depth > 6 {
			okAll = false
			return
		}
		switch x := v.(type) {
		case *ssa.Const:
			if x.Value == nil || x.Value.Kind() != constant.Bool {
				okAll = false
				return
			}
			if constant.BoolVal(x.Value) != want {
				return
			}
			fld := ""
			for _, f := range append(append([]an.Fact{}, w.FactsDominatingBlock(blk)...), edge...) {
				if z := c07ZeroGuardField(f); z != "" {
					fld = z
				}
			}
			note(fld)
		case *ssa.BinOp:
			// (X == zero) yields `want` only when X is zero iff the comparison's
			// polarity equals want
			fld, isEq := c07ZeroCompare(w, x)
			if fld == "" || isEq != want {
				okAll = false
				return
			}
			note(fld)
		case *ssa.UnOp:
			if x.Op == token.NOT {
				// !(inner): want from inner == !want
				sub := c07PredValueZero(w, x.X, !want)
				note(sub)
				return
			}
			okAll = false
		case *ssa.Phi:
			for i, e := range x.Edges {
				pred := x.Block().Preds[i]
				var ef []an.Fact
				for _, f := range w.Facts(g) {
					if f.Edge.From == pred && f.Edge.To() == x.Block() {
						ef = append(ef, f)
					}
				}
				eval(e, pred, ef, depth+1)
			}
		default:
			okAll = false
		}
	}
	for _, r := range an.Returns(g) {
		if len(r.Results) != 1 {
			return ""
		}
		eval(r.Results[0], r.Block(), nil, 0)
	}
	if !okAll {
		return ""
	}
	return field
}

// c07PredValueZero: for a comparison value, the field that is zero whenever the
// value equals want.
func c07PredValueZero(w *an.World, v ssa.Value, want bool) string {
	bo, ok := v.(*ssa.BinOp)
	if !ok {
		return ""
	}
	fld, isEq := c07ZeroCompare(w, bo)
	if fld == "" || isEq != want {
		return ""
	}
	return fld
}

// c07ZeroCompare recognises `swap.X == ""` / `swap.X != nil` …; isEq tells
// whether the comparison is true when X is zero.
func c07ZeroCompare(w *an.World, bo *ssa.BinOp) (field string, isEq bool) {
	if bo.Op != token.EQL && bo.Op != token.NEQ {
		return "", false
	}
	for _, pair := range [][2]ssa.Value{{bo.X, bo.Y}, {bo.Y, bo.X}} {
		zero := an.IsNilConst(pair[1])
		if s, ok := an.ConstString(pair[1]); ok && s == "" {
			zero = true
		}
		if !zero {
			continue
		}
		t := w.Term(pair[0])
		if strings.HasPrefix(t, "field:SwapData.") && !strings.Contains(t, ">") {
			return strings.TrimPrefix(t, "field:"), bo.Op == token.EQL
		}
	}
	return "", false
}

// c07DoneRegion: the blocks of fn that can execute while field is already set
// (every edge that carries the fact `field is zero`, directly or through a
// predicate helper, removed).
func c07DoneRegion(w *an.World, fn *ssa.Function, field string) map[*ssa.BasicBlock]bool {
	if len(fn.Blocks) == 0 {
		return nil
	}
	cut := cutEdges(w, fn, func(f an.Fact) bool { return c07ZeroFactField(w, f) == field })
	return an.ReachBlocks([]*ssa.BasicBlock{fn.Blocks[0]}, cut, nil)
}

// ---- call index and call chains ------------------------------------------------------

// c07CallIdx: production call sites per static callee; a closure passed as an
// argument counts as called by the call it is passed to (as in an.Summary).
type c07CallIdx struct {
	sites map[*ssa.Function][]ssa.CallInstruction
}

var c07IdxCache sync.Map // *an.World -> *c07CallIdx

func c07BuildCallIdx(w *an.World) *c07CallIdx {
	if v, ok := c07IdxCache.Load(w); ok {
		return v.(*c07CallIdx)
	}
	idx := &c07CallIdx{sites: map[*ssa.Function][]ssa.CallInstruction{}}
	defer c07IdxCache.Store(w, idx)
	for _, fn := range prodFuncs(w) {
		if isDummy(w, fn) {
			continue
		}
		for _, call := range an.Calls(fn) {
			for _, g := range c07Callees(w, call) {
				idx.sites[g] = append(idx.sites[g], call)
			}
		}
	}
	return idx
}

// c07Callees: the in-module functions a call runs synchronously (its static
// callee and closures passed to it).
func c07Callees(w *an.World, call ssa.CallInstruction) []*ssa.Function {
	var out []*ssa.Function
	if g := call.Common().StaticCallee(); g != nil && w.InModule(g) && g.Blocks != nil {
		out = append(out, g)
	}
	for _, a := range call.Common().Args {
		if mc, ok := a.(*ssa.MakeClosure); ok {
			if g, ok := mc.Fn.(*ssa.Function); ok && g.Blocks != nil {
				out = append(out, g)
			}
		}
	}
	return out
}

// c07Step is one call of a chain: Call is an instruction of Fn.
type c07Step struct {
	Fn   *ssa.Function
	Call ssa.CallInstruction
}

// c07Chains returns the static call chains root -> … -> site (depth <= 6): each
// chain lists the call made in root, the call made in its callee, …, and ends
// with site itself. `go` statements are followed only when followGo is set.
func c07Chains(w *an.World, idx *c07CallIdx, root *ssa.Function, site ssa.CallInstruction, followGo bool) [][]c07Step {
	target := site.Parent()
	// functions from which target is reachable
	canReach := map[*ssa.Function]bool{target: true}
	frontier := []*ssa.Function{target}
	for d := 0; d < 6 && len(frontier) > 0; d++ {
		var next []*ssa.Function
		for _, f := range frontier {
			for _, s := range idx.sites[f] {
				if p := s.Parent(); !canReach[p] {
					canReach[p] = true
					next = append(next, p)
				}
			}
		}
		frontier = next
	}
	var out [][]c07Step
	onPath := map[*ssa.Function]bool{}
	var rec func(f *ssa.Function, path []c07Step)
	rec = func(f *ssa.Function, path []c07Step) {
		if len(out) >= 24 {
			return
		}
		if f == target {
			out = append(out, append(append([]c07Step{}, path...), c07Step{f, site}))
			return
		}
		if len(path) >= 6 {
			return
		}
		onPath[f] = true
		for _, call := range an.Calls(f) {
			if _, isGo := call.(*ssa.Go); isGo && !followGo {
				continue
			}
			for _, g := range c07Callees(w, call) {
				if canReach[g] && !onPath[g] {
					rec(g, append(path, c07Step{f, call}))
				}
			}
		}
		onPath[f] = false
	}
	if canReach[root] {
		rec(root, nil)
	}
	return out
}

// ==== shared-end ====
