package rules

import (
	"fmt"
	"strings"

	"golang.org/x/tools/go/ssa"

	"psv/internal/an"
)

func init() {
	Register(&Prop{
		ID:   "C07",
		Expl: "Decides on the maker tables and the SSA of the broadcast path: (R1) from every state reachable after a successful opening broadcast only claimed-by-preimage/coop/CSV terminals are reachable (never the cancelled state); (R2) after the wallet call that broadcasts has succeeded there is no failure exit — in the broadcast action (its record fields are assigned on every success path) and inside every CreateOpeningTransaction / CreateAndBroadcastTransaction implementation (no error return after the broadcast primitive except the verdict of an output locator); (R3) every post-broadcast waiting state arms the CSV watch on the announced (txid, vout), accepts the CSV event, and that event leads to a CSV-claim action whose only failure exit is a retry self-loop; the CSV event is injected by the registered CSV callback; (R4) no post-broadcast state is FailOnrecover and the broadcast call is guarded by the persisted record; (R5) a failing cooperative claim falls back to a CSV-armed waiting state; (R6) whether anything durable is written between the state transition and the broadcast action.",
		NotD: "That the refund transaction confirms; wallet and chain behaviour; that watchers call back truthfully (C20).",
		Run:  runC07,
	})
}

// Broadcast primitives: the wallet-side call after which funds are on their
// way to the chain. Frozen table confirmed by reading the adapters; entries are
// CallInfo.Name values.
var c07BroadcastPrimitives = map[string]string{
	"func:(*github.com/elementsproject/glightning/glightning.Lightning).SendTx":                "CLN: sendpsbt/txsend of the prepared tx",
	"iface:github.com/lightningnetwork/lnd/lnrpc/walletrpc.WalletKitClient.PublishTransaction": "LND: walletkit PublishTransaction",
	"iface:wallet.Wallet.CreateAndBroadcastTransaction":                                        "Liquid: wallet funds, signs and broadcasts",
	"func:(*lwk.lwkclient).broadcast":                                                          "LWK: broadcast of the signed pset",
	"func:(*wallet.ElementsRpcWallet).SendRawTx":                                               "elementsd: sendrawtransaction",
	"iface:lwk.lwkclientInterface.broadcast":                                                   "LWK client interface (if introduced)",
}

// Output locators: their error is "the swap output is not in this transaction".
var c07Locators = []string{"GetVoutAndVerify", "FindVout", "VoutFromTxHex"}

func c07IsLocator(name string) bool {
	for _, l := range c07Locators {
		if strings.Contains(name, ")."+l+"#") || strings.HasSuffix(name, ")."+l) || strings.HasSuffix(name, "."+l) {
			return true
		}
	}
	return false
}

func runC07(c *an.Check) {
	c.Rule("C07.R1", "maker tables: after a successful broadcast only claimed terminals (preimage/coop/csv) are reachable")
	c.Rule("C07.R2", "no failure exit after the broadcast succeeded (action and wallet implementations); record fields assigned on every success path")
	c.Rule("C07.R3", "every post-broadcast waiting state arms the CSV watch on the announced outpoint, accepts the CSV event, which leads to the CSV claim whose failures only retry")
	c.Rule("C07.R4", "post-broadcast states are not FailOnrecover; broadcast call guarded by OpeningTxBroadcasted == nil")
	c.Rule("C07.R5", "a failing cooperative claim returns to a CSV-armed waiting state")
	c.Rule("C07.R6", "a durable write lies between the state transition and the execution of the broadcast action")
	if !needEffects(c, fxOpenTx, fxWaitCsv, fxCsvSpend, fxCoopSpend, fxPayNotifier, fxStoreUpdate) {
		return
	}
	w := c.W
	ts := tables(c)
	if ts == nil {
		return
	}
	mk := makers(ts)
	if !c.AtLeast("C07", "maker tables", len(mk), 2) {
		return
	}
	srcs := eventSources(c)

	// events injected by the lightning payment callback
	lnEvents := map[string]bool{}
	for _, f := range callbackTargets(w, "iface:swap.LightningClient.AddPaymentCallback") {
		for e := range eventsSentFrom(c, f, srcs) {
			lnEvents[e] = true
		}
	}
	csvEvents := map[string]bool{}
	csvCbs := callbackTargets(w, "iface:swap.TxWatcher.AddCsvCallback")
	for _, f := range csvCbs {
		for e := range eventsSentFrom(c, f, srcs) {
			csvEvents[e] = true
		}
	}
	c.AtLeast("C07.R3", "registered CSV callbacks", len(csvCbs), 1)
	c.AtLeast("C07.R1", "events injected by the payment callback", len(lnEvents), 2)

	for _, t := range mk {
		bs := t.statesWith(fxOpenTx)
		for _, b := range bs {
			be := t.T.States[b]
			tgt, ok := be.Events[evSucceeded]
			if !ok {
				c.Bad("C07.R1", t.key(b), t.pos(c, b), "broadcast state has no success edge")
				continue
			}
			post := t.T.Reach(tgt)
			allowed := map[string]bool{}
			for _, s := range append(t.statesWith(fxCsvSpend), t.statesWith(fxCoopSpend)...) {
				if x, ok := t.T.States[s].Events[evSucceeded]; ok {
					allowed[x] = true
				}
			}
			for _, s := range t.T.Order {
				if !post[s] {
					continue
				}
				for ev, nx := range t.T.States[s].Events {
					if lnEvents[ev] && t.T.States[nx].Terminal() {
						allowed[nx] = true
					}
				}
			}
			for _, s := range t.T.Order {
				if !post[s] {
					continue
				}
				e := t.T.States[s]
				if e.Terminal() {
					c.Decide(allowed[s], "C07.R1", t.key(s)+" terminal-after-broadcast", t.pos(c, s),
						"terminal is a claimed state", "a non-claimed terminal state is reachable after the opening transaction was broadcast: "+strings.Join(t.T.FindPath(tgt, s), " ; "))
					continue
				}
				// R4
				c.Decide(!e.FailOnRecover, "C07.R4", t.key(s)+" FailOnrecover", t.pos(c, s), "post-broadcast state is re-executed on recovery", "post-broadcast state is FailOnrecover: a restart abandons the locked funds")
				ss := t.Sum[s]
				// R3: waiting states
				if ss.Events[evNoOp] {
					arm := ss.Sites(fxWaitCsv)
					if len(arm) == 0 {
						c.Bad("C07.R3", t.key(s)+" arms-csv", t.pos(c, s), "post-broadcast waiting state does not register the CSV watch")
					} else {
						okArgs := true
						detail := ""
						for _, site := range arm {
							args := site.Info.Instr.Common().Args
							// invoke: args = swapID, txID, vout, startingHeight, csv, script
							if len(args) < 6 {
								okArgs = false
								continue
							}
							tx := w.Sources(args[1], an.FlowOpts{})
							vo := w.Sources(args[2], an.FlowOpts{})
							if !tx.Has("field", "SwapData.OpeningTxBroadcasted>OpeningTxBroadcastedMessage.TxId") || len(tx.Leaves) != 1 {
								okArgs = false
								detail += " txid from " + strings.Join(tx.Names(), ",")
							}
							if !vo.Has("field", "SwapData.OpeningTxBroadcasted>OpeningTxBroadcastedMessage.ScriptOut") || len(vo.Leaves) != 1 {
								okArgs = false
								detail += " vout from " + strings.Join(vo.Names(), ",")
							}
						}
						c.Decide(okArgs, "C07.R3", t.key(s)+" arms-csv", w.Pos(arm[0].Info.Instr.Pos()), "CSV watch registered on the persisted announcement's (txid, vout)", "CSV watch is not registered on the announced outpoint:"+detail)
					}
					var csvEv string
					for ev := range csvEvents {
						if _, ok := e.Events[ev]; ok {
							csvEv = ev
						}
					}
					if csvEv == "" {
						c.Bad("C07.R3", t.key(s)+" accepts-csv", t.pos(c, s), fmt.Sprintf("post-broadcast waiting state accepts none of the events the CSV callback injects %v", sortedKeys(csvEvents)))
					} else {
						nx := e.Events[csvEv]
						ns := t.Sum[nx]
						good := ns.HasEffect(fxCsvSpend)
						why := ""
						if !good {
							why = "target " + nx + " does not build the CSV spend"
						}
						for ev := range ns.Events {
							switch ev {
							case evSucceeded:
							case evRetry:
								if t.T.States[nx].Events[evRetry] != nx {
									good = false
									why += " retry does not loop"
								}
							default:
								good = false
								why += " CSV-claim action may return " + ev
							}
						}
						if ns.Unknown {
							good = false
							why += " (unresolved return value)"
						}
						c.Decide(good, "C07.R3", t.edgeKey(s, csvEv), w.Pos(e.EventPos[csvEv]), "CSV event leads to the CSV claim whose only failure exit is a retry self-loop", why)
					}
				}
				// R5
				if ss.HasEffect(fxCoopSpend) {
					nx, ok := e.Events[evFailed]
					good := ok && post[nx] && t.Sum[nx].HasEffect(fxWaitCsv) && t.Sum[nx].Events[evNoOp]
					c.Decide(good, "C07.R5", t.key(s)+" coop-failure", t.pos(c, s), "failed cooperative claim waits for the CSV", "a failed cooperative claim (e.g. bad key in coop_close) does not return to a CSV-armed waiting state")
				}
			}
		}
	}

	// R2 + R4 in the code of the broadcast action(s)
	nAct := 0
	for _, fn := range prodFuncs(w) {
		if w.FnRel(fn) != "swap" || isDummy(w, fn) {
			continue
		}
		for _, ci := range callsNamed(w, fn, fxOpenTx) {
			call, ok := ci.(*ssa.Call)
			if !ok {
				continue
			}
			nAct++
			name := w.FuncName(fn)
			// R4 guard
			facts := w.FactsDominating(call)
			c.Decide(an.AnyFact(facts, func(f an.Fact) bool { return an.EqIs(f, "==", "SwapData.OpeningTxBroadcasted", "nil") }),
				"C07.R4", name+" broadcast-guard", w.Pos(call.Pos()), "broadcast is skipped when the record already holds an announcement",
				"CreateOpeningTransaction is not guarded by `OpeningTxBroadcasted == nil`: a re-execution after restart broadcasts again. Facts: "+an.DescribeFacts(facts))
			imp := impureCallsIn(w, fn, alreadyDoneRegion(w, fn, "SwapData.OpeningTxBroadcasted"))
			c.Decide(len(imp) == 0, "C07.R4", name+" already-broadcast path", w.Pos(call.Pos()),
				"a record that already holds the announcement succeeds without consulting outside services",
				"on re-execution with the opening transaction already recorded (restart between the broadcast action and the next state) the action still calls "+strings.Join(imp, "; ")+" before it returns: a failure there cancels the swap although the funds are locked")
			okE, _ := an.OkEdges(call)
			if len(okE) == 0 {
				c.Unknown("C07.R2", name+" after-broadcast", w.Pos(call.Pos()), "error result of CreateOpeningTransaction is not tested")
				continue
			}
			var start []*ssa.BasicBlock
			for _, e := range okE {
				start = append(start, e.To())
			}
			reach := an.ReachBlocks(start, nil, nil)
			evs := returnEventsFrom(w, fn, reach)
			for ev, rets := range evs {
				for _, r := range rets {
					if ev == evSucceeded {
						// record assigned on this path
						for _, fld := range []string{"SwapData.OpeningTxBroadcasted", "SwapData.OpeningTxHex"} {
							sts := storesTo(fn, fld)
							assigned := len(sts) > 0 && !pathAvoiding(call, r, sts)
							c.Decide(assigned, "C07.R2", name+" records "+fld, w.Pos(r.Pos()), "assigned on every success path after the broadcast", "a success path after the broadcast does not assign "+fld)
						}
						continue
					}
					// failure exit after broadcast: allowed only as the fail edge of the marshal helper
					cause := c07FailureCause(w, fn, r)
					exempt := strings.Contains(cause, "func:swap.MarshalPeerswapMessage")
					cons := name + " failure-after-broadcast via " + cause
					if exempt {
						c.OK("C07.R2", cons, w.Pos(r.Pos()), "marshalling a message of strings/integers/*SwapId cannot fail (frozen exemption)")
					} else {
						c.Bad("C07.R2", cons, w.Pos(r.Pos()),
							fmt.Sprintf("after CreateOpeningTransaction succeeded (funds are on their way to the chain) the action can still return %s (table: cancel) when %s fails; the record fields are never set and the locked output is abandoned", ev, cause))
					}
				}
			}
		}
	}
	c.AtLeast("C07.R2", "broadcast actions", nAct, 1)

	// R2 inside the wallet implementations
	impls := append(implementers(w, "swap", "Wallet", "CreateOpeningTransaction"), implementers(w, "wallet", "Wallet", "CreateAndBroadcastTransaction")...)
	c.AtLeast("C07.R2", "CreateOpeningTransaction/CreateAndBroadcastTransaction implementations", len(impls), 5)
	for _, fn := range impls {
		name := w.FuncName(fn)
		prims := callsMatching(w, fn, func(ci an.CallInfo) bool { _, ok := c07BroadcastPrimitives[ci.Name]; return ok })
		if len(prims) == 0 {
			c.Unknown("C07.R2", name+" broadcast-primitive", w.Pos(fn.Pos()), "no known broadcast primitive is called here; the frozen table in c07.go needs a confirmed entry for this back-end")
			continue
		}
		for _, pc := range prims {
			call, ok := pc.(*ssa.Call)
			if !ok {
				continue
			}
			okE, _ := an.OkEdges(call)
			var start []*ssa.BasicBlock
			for _, e := range okE {
				start = append(start, e.To())
			}
			if len(start) == 0 {
				c.Unknown("C07.R2", name+" after-primitive", w.Pos(call.Pos()), "error of the broadcast primitive is not tested")
				continue
			}
			reach := an.ReachBlocks(start, nil, nil)
			clean := true
			for _, r := range an.Returns(fn) {
				if !reach[r.Block()] || len(r.Results) == 0 {
					continue
				}
				errV := r.Results[len(r.Results)-1]
				if !an.IsErrorType(errV.Type()) || an.IsNilConst(errV) {
					continue
				}
				if src := w.Sources(errV, an.FlowOpts{}); src.OnlyFrom(func(s an.Src) bool { return s.Kind == "zero" && s.Name == "nil" }) {
					continue // named result that holds nil on this path
				}
				cause := c07FailureCause(w, fn, r)
				cons := name + " error-after-broadcast via " + cause
				if c07IsLocator(cause) {
					c.OK("C07.R2", cons, w.Pos(r.Pos()), "the only error after the broadcast is an output-locator verdict")
				} else {
					clean = false
					c.Bad("C07.R2", cons, w.Pos(r.Pos()),
						"after the broadcast primitive "+strings.TrimPrefix(w.Info(call).Name, "func:")+" succeeded this function still returns an error when "+cause+" fails: the caller treats the broadcast as failed and cancels the swap while the funds are locked")
				}
			}
			if clean {
				c.OK("C07.R2", name+" after-primitive", w.Pos(call.Pos()), "no error return is reachable after the broadcast primitive succeeded")
			}
		}
	}

	// R6: durable write between transition and Execute in SendEvent
	se := w.Func("swap", "(*SwapStateMachine).SendEvent")
	if se == nil {
		c.Anchor("(*SwapStateMachine).SendEvent does not resolve")
		return
	}
	execs := callsNamed(w, se, fxActionExecute)
	trans := callsNamed(w, se, "func:(*swap.SwapStateMachine).setState")
	upd := callsNamed(w, se, fxStoreUpdate)
	if len(execs) == 0 || len(trans) == 0 || len(upd) == 0 {
		c.Anchor("SendEvent: Action.Execute / setState / Store.UpdateData call not found")
		return
	}
	var updI []ssa.Instruction
	for _, u := range upd {
		updI = append(updI, u)
	}
	for _, ex := range execs {
		for _, tr := range trans {
			gap := pathAvoiding(tr, ex, updI)
			c.Decide(!gap, "C07.R6", "(*SwapStateMachine).SendEvent transition->Execute of the broadcast state", w.Pos(ex.Pos()),
				"the new state is persisted before its action runs",
				"SendEvent moves to the next state and runs its action without a store write in between (the write precedes the transition): a crash between the wallet broadcast inside CreateAndBroadcastOpeningTransaction and the post-action write leaves a record that does not mention the transaction, and recovery never arms the CSV refund")
		}
	}
}

// c07FailureCause names the call whose failing edge leads to return r (the
// nearest dominating error test), for diagnostics and for the marshal exemption.
func c07FailureCause(w *an.World, fn *ssa.Function, r *ssa.Return) string {
	best := ""
	for _, call := range an.Calls(fn) {
		cv, ok := call.(*ssa.Call)
		if !ok {
			continue
		}
		_, fail := an.OkEdges(cv)
		for _, e := range fail {
			if e.To() == r.Block() || an.EdgeDominates(e, r.Block()) {
				// prefer the latest (closest) call
				if best == "" || cv.Pos() > 0 {
					best = w.Info(cv).Name
				}
			}
		}
	}
	if best == "" {
		return "an unidentified condition"
	}
	return best
}
