package rules

import (
	"fmt"
	"go/token"
	"go/types"
	"sort"
	"strings"
	"time"

	"golang.org/x/tools/go/ssa"

	"psv/internal/an"
)

func init() {
	Register(&Prop{
		ID:   "C17",
		Expl: "Decides the table/constant structure behind the negotiation timeouts. A negotiation waiting state is a waiting state (its action may return NoOp) that accepts an event injected with an agreement message as context (requester) or an event of the payment callback that leads to the broadcast state (swap-out responder). (R1) each such state accepts Event_OnTimeout and that edge leads to the cancel-sending action and then to a terminal state; (R2) on every table path from the default state into it an action arms a timeout, all armed durations constant-fold to 10 minutes and the fee invoice expiry to 600 s; (R3) after a restart (timers are memory only) the state is FailOnrecover and accepts Event_ActionFailed, or its own action re-arms the timer; (R4) every other state that accepts Event_OnTimeout is neither reachable after a successful claim payment nor after the opening broadcast; (R5) the function the timeout service runs when a timer fires (found through the service implementation's factory field) reaches SendEvent(Event_OnTimeout) on every path on which the swap was found; a skip that depends on the current state (also inside a helper) is evaluated for every state that accepts Event_OnTimeout and can be reached from an arming state, and must let each of them through; (R6) the cancel func of the timer (the second result of the context constructor whose context is handed to addNewTimeOut; the field the arming chains store it into is found from those chains) is invoked only after a completed transition: in SendEvent behind the code that sets the new state, in actions of states that are not timed waiting states, or in service code behind the nil-error edge of SendEvent; an invocation that a handler or helper reaches before SendEvent is a violation (the call chain is named); no invocation at all is fine (the timer runs its full course).",
		NotD: "Timer accuracy; that the Lightning node reports an expired invoice (the CLN notifier ignores 'expired'; with R1 the timer covers it).",
		Run:  runC17,
	})
}

func runC17(c *an.Check) {
	c.Rule("C17.R1", "negotiation waiting states accept Event_OnTimeout -> cancel-sending action -> terminal")
	c.Rule("C17.R2", "a 10-minute timeout is armed on every path into a negotiation waiting state; fee invoice expiry is 600 s")
	c.Rule("C17.R3", "a negotiation waiting state survives restart: FailOnrecover with an ActionFailed edge, or re-arms")
	c.Rule("C17.R4", "Event_OnTimeout is accepted only before payment / broadcast")
	c.Rule("C17.R5", "the timeout callback delivers Event_OnTimeout to every armed state that accepts it")
	c.Rule("C17.R6", "the negotiation timer is cancelled only after the swap has left the armed waiting state")
	if !needEffects(c, fxAddTimeout, fxGetPayreq, fxOpenTx, fxPay) {
		return
	}
	w := c.W
	ts := tables(c)
	if ts == nil {
		return
	}
	marshal := w.Func("swap", "MarshalPeerswapMessage")
	if marshal == nil {
		c.Anchor("swap.MarshalPeerswapMessage does not resolve")
		return
	}
	srcs := eventSources(c)
	agreementEv := map[string]bool{}
	for _, s := range srcs {
		if strings.HasSuffix(s.CtxType, "AgreementMessage") {
			agreementEv[s.Event] = true
		}
	}
	c.AtLeast("C17", "events carrying an agreement message", len(agreementEv), 2)
	lnEvents := map[string]bool{}
	for _, f := range callbackTargets(w, "iface:swap.LightningClient.AddPaymentCallback") {
		for e := range eventsSentFrom(c, f, srcs) {
			lnEvents[e] = true
		}
	}

	nNeg := 0
	for _, t := range ts {
		neg := map[string]bool{}
		for _, s := range t.T.Order {
			e := t.T.States[s]
			if !t.Sum[s].Events[evNoOp] {
				continue
			}
			for ev, nx := range e.Events {
				if agreementEv[ev] {
					neg[s] = true
				}
				if lnEvents[ev] && t.Sum[nx].HasEffect(fxOpenTx) {
					neg[s] = true
				}
			}
		}
		for _, s := range t.T.Order {
			if !neg[s] {
				continue
			}
			nNeg++
			e := t.T.States[s]
			// R1
			nx, ok := e.Events[evTimeout]
			if !ok {
				c.Bad("C17.R1", t.key(s)+" accepts-timeout", t.pos(c, s), "negotiation waiting state does not accept Event_OnTimeout: the timer that was armed for it fires into ErrEventRejected and the swap waits forever (and the peer is never told)")
			} else {
				tells := c15SendsCancel(w, t, nx, marshal)
				term := true
				for _, n2 := range t.T.States[nx].Events {
					if !t.T.States[n2].Terminal() {
						term = false
					}
				}
				c.Decide(tells && term && len(t.T.States[nx].Events) > 0, "C17.R1", t.edgeKey(s, evTimeout), w.Pos(e.EventPos[evTimeout]),
					"timeout tells the peer (cancel message) and ends the swap", "the timeout edge does not lead to the cancel-sending action followed by a terminal state")
			}
			// R2: every path from Default into s passes a state with the addNewTimeOut effect
			armed := map[string]bool{}
			for _, x := range t.T.Order {
				if t.Sum[x].HasEffect(fxAddTimeout) {
					armed[x] = true
				}
			}
			c.Decide(!c17ReachAvoiding(t, "", s, armed), "C17.R2", t.key(s)+" timer-armed", t.pos(c, s), "every path from the default state arms a timeout first", "a path from the default state reaches this waiting state without arming a timeout")
			// R3
			rearm := t.Sum[s].HasEffect(fxAddTimeout)
			_, hasFail := e.Events[evFailed]
			c.Decide(rearm || (e.FailOnRecover && hasFail), "C17.R3", t.key(s)+" survives-restart", t.pos(c, s), "bounded after restart (FailOnrecover or re-armed)",
				"after a restart the in-memory timer is gone; this state is neither FailOnrecover (with an ActionFailed edge) nor does its action re-arm the timeout: a requester restarted while waiting never cancels and never tells the peer")
		}
		// R3 (recovery entry): Recover re-executes the action of any state that
		// is not FailOnrecover and then follows the events the actions return. If
		// that automatic chain enters a negotiation waiting state without running
		// an arming action, the wait is unbounded in the restarted process.
		for _, x := range t.T.Order {
			xe := t.T.States[x]
			if xe.Terminal() || xe.FailOnRecover || len(xe.Actions) == 0 || neg[x] || t.Sum[x].HasEffect(fxAddTimeout) {
				continue
			}
			seen := map[string]bool{x: true}
			st := []string{x}
			for len(st) > 0 {
				y := st[len(st)-1]
				st = st[:len(st)-1]
				for ev := range t.Sum[y].Events {
					nx, ok := t.T.States[y].Events[ev]
					if !ok || seen[nx] || t.Sum[nx].HasEffect(fxAddTimeout) {
						continue
					}
					seen[nx] = true
					if neg[nx] {
						c.Bad("C17.R3", t.key(x)+" recovery-enters "+nx, t.pos(c, x),
							"a node restarted in this state re-executes its action ("+strings.Join(xe.ActionNames(), ",")+") and moves on to the negotiation waiting state "+nx+" without arming a timeout: the wait is no longer bounded by the 10 minute negotiation timeout")
						continue
					}
					st = append(st, nx)
				}
			}
			c.OK("C17.R3", t.key(x)+" recovery-entry", t.pos(c, x), "recovering here does not enter a negotiation wait without a timer")
		}
		// R4
		post := map[string]string{}
		for _, p := range t.statesWith(fxPay) {
			if tgt, ok := t.T.States[p].Events[evSucceeded]; ok {
				for x := range t.T.Reach(tgt) {
					post[x] = "after the claim payment succeeded"
				}
			}
		}
		for _, b := range t.statesWith(fxOpenTx) {
			if tgt, ok := t.T.States[b].Events[evSucceeded]; ok {
				for x := range t.T.Reach(tgt) {
					post[x] = "after the opening transaction was broadcast"
				}
			}
		}
		for _, s := range t.T.Order {
			e := t.T.States[s]
			if _, ok := e.Events[evTimeout]; !ok || neg[s] {
				continue
			}
			c.Decide(post[s] == "", "C17.R4", t.edgeKey(s, evTimeout), w.Pos(e.EventPos[evTimeout]), "timeout accepted only before any payment/broadcast",
				"the never-cancelled negotiation timer is accepted in a state reached "+post[s]+" and leads to "+e.Events[evTimeout])
		}
	}
	c.AtLeast("C17.R1", "negotiation waiting states", nNeg, 3)

	// R5: the timer's callback delivers the event
	{
		roots := c16TimeoutCallbacks(c, srcs)
		armedReach := map[*TI]map[string]bool{}
		for _, t := range ts {
			var arming []string
			for _, x := range t.T.Order {
				if t.Sum[x].HasEffect(fxAddTimeout) {
					arming = append(arming, x)
				}
			}
			armedReach[t] = map[string]bool{}
			if len(arming) > 0 {
				armedReach[t] = t.T.Reach(arming...)
				for _, x := range arming {
					armedReach[t][x] = true
				}
			}
		}
		filter := func(t *TI, s string) bool { return armedReach[t][s] }
		for _, root := range roots {
			d := c16AnalyseDelivery(c, ts, root, nil, filter, map[*ssa.Function]bool{})
			c16ReportDelivery(c, "C17.R5", root, d)
		}
		c.AtLeast("C17.R5", "timeout callbacks", len(roots), 1)
	}

	// R6: who cancels the timer
	c17TimerRelease(c, ts)

	// R2 constants. A duration / expiry that is a parameter of an arming helper is
	// resolved at the helper's callers; one instance per arming chain.
	sites := findCallSites(w, fxAddTimeout)
	nArm := 0
	for _, site := range sites {
		if isDummy(w, site.Parent()) {
			continue
		}
		args := site.Common().Args
		if len(args) < 3 {
			nArm++
			c.Unknown("C17.R2", w.FuncName(site.Parent())+" timeout-duration", w.Pos(site.Pos()), "unexpected argument list")
			continue
		}
		for _, ctx := range c17Contexts(w, site, []ssa.Value{args[1]}) {
			nArm++
			cons := w.FuncName(ctx.top(site)) + " timeout-duration"
			d, st := c17Resolve(args[1], ctx.stack)
			switch {
			case st != c17Const:
				c.Unknown("C17.R2", cons, w.Pos(ctx.pos(site)), "the armed duration is not a compile-time constant at this arming chain (variable, field or unresolved parameter): cannot decide that it is 10 minutes")
			case time.Duration(d) == 10*time.Minute:
				c.OK("C17.R2", cons, w.Pos(ctx.pos(site)), "10m0s")
			default:
				c.Bad("C17.R2", cons, w.Pos(ctx.pos(site)), fmt.Sprintf("negotiation timeout is not the constant 10 minutes (value=%v)", time.Duration(d)))
			}
		}
	}
	c.AtLeast("C17.R2", "timeout arming chains (addNewTimeOut call site x caller binding its duration)", nArm, 3)
	// fee invoice expiry: GetPayreq calls whose invoice type argument is INVOICE_FEE
	feeT, okFee := constOf(w, "swap", "INVOICE_FEE")
	if !okFee {
		c.Anchor("swap.INVOICE_FEE does not resolve")
		return
	}
	nFee := 0
	for _, site := range findCallSites(w, fxGetPayreq) {
		if w.FnRel(site.Parent()) != "swap" {
			continue
		}
		args := site.Common().Args
		if len(args) != 7 {
			continue
		}
		for _, ctx := range c17Contexts(w, site, []ssa.Value{args[4], args[5]}) {
			it, st := c17Resolve(args[4], ctx.stack)
			if st != c17Const || fmt.Sprint(it) != feeT.String() {
				continue
			}
			nFee++
			cons := w.FuncName(ctx.top(site)) + " fee-invoice-expiry"
			exp, st := c17Resolve(args[5], ctx.stack)
			switch {
			case st != c17Const:
				c.Unknown("C17.R2", cons, w.Pos(ctx.pos(site)), "the fee invoice expiry is not a compile-time constant here: cannot decide that it is 600 s")
			case exp == 600:
				c.OK("C17.R2", cons, w.Pos(ctx.pos(site)), "600 s")
			default:
				c.Bad("C17.R2", cons, w.Pos(ctx.pos(site)), fmt.Sprintf("fee invoice expiry is not the constant 600 s (got %v)", exp))
			}
		}
	}
	c.AtLeast("C17.R2", "fee invoice creation sites", nFee, 1)
}

// ---- constants through helper parameters -------------------------------------------------

const (
	c17Const      = iota // resolved to a constant
	c17NeedCaller        // a parameter of the outermost function of the stack
	c17Opaque            // anything else
)

// c17Ctx is a static call chain leading to a site: stack[0] is the call of the
// site's function, stack[1] the call of that caller, ...
type c17Ctx struct{ stack []ssa.CallInstruction }

func (x c17Ctx) top(site ssa.CallInstruction) *ssa.Function {
	if len(x.stack) == 0 {
		return site.Parent()
	}
	return x.stack[len(x.stack)-1].Parent()
}

func (x c17Ctx) pos(site ssa.CallInstruction) token.Pos {
	if len(x.stack) == 0 {
		return site.Pos()
	}
	return x.stack[len(x.stack)-1].Pos()
}

// c17Resolve evaluates an integer value under a call chain, binding parameters
// to the arguments of the calls on the stack.
func c17Resolve(v ssa.Value, stack []ssa.CallInstruction) (int64, int) {
	for {
		switch x := v.(type) {
		case *ssa.Convert:
			v = x.X
			continue
		case *ssa.ChangeType:
			v = x.X
			continue
		}
		break
	}
	if k, ok := an.ConstInt(v); ok {
		return k, c17Const
	}
	if p, ok := v.(*ssa.Parameter); ok {
		if len(stack) == 0 {
			return 0, c17NeedCaller
		}
		call := stack[0]
		if call.Common().StaticCallee() != p.Parent() {
			return 0, c17Opaque
		}
		for i, q := range p.Parent().Params {
			if q == p && i < len(call.Common().Args) {
				return c17Resolve(call.Common().Args[i], stack[1:])
			}
		}
		return 0, c17Opaque
	}
	if phi, ok := v.(*ssa.Phi); ok {
		// all incoming values must agree
		var val int64
		for i, e := range phi.Edges {
			k, st := c17Resolve(e, stack)
			if st != c17Const || (i > 0 && k != val) {
				if st == c17NeedCaller {
					return 0, c17NeedCaller
				}
				return 0, c17Opaque
			}
			val = k
		}
		return val, c17Const
	}
	return 0, c17Opaque
}

// c17Contexts enumerates the call chains needed to resolve vals at site: the
// empty chain when no value is a parameter, otherwise one chain per production
// caller (to depth 3).
func c17Contexts(w *an.World, site ssa.CallInstruction, vals []ssa.Value) []c17Ctx {
	var out []c17Ctx
	var expand func(stack []ssa.CallInstruction, depth int)
	expand = func(stack []ssa.CallInstruction, depth int) {
		need := false
		for _, v := range vals {
			if _, st := c17Resolve(v, stack); st == c17NeedCaller {
				need = true
			}
		}
		ctx := c17Ctx{stack: append([]ssa.CallInstruction{}, stack...)}
		if !need || depth >= 3 {
			out = append(out, ctx)
			return
		}
		top := ctx.top(site)
		var callers []ssa.CallInstruction
		for _, g := range prodFuncs(w) {
			if isDummy(w, g) {
				continue
			}
			for _, gc := range an.Calls(g) {
				if gc.Common().StaticCallee() == top {
					callers = append(callers, gc)
				}
			}
		}
		if len(callers) == 0 {
			out = append(out, ctx)
			return
		}
		for _, gc := range callers {
			expand(append(append([]ssa.CallInstruction{}, stack...), gc), depth+1)
		}
	}
	expand(nil, 0)
	return out
}

// c17ReachAvoiding: is `to` reachable from `from` in the table without passing
// through (entering) a state of `avoid`? `to` itself counts as armed if in avoid.
func c17ReachAvoiding(t *TI, from, to string, avoid map[string]bool) bool {
	if avoid[to] {
		return false
	}
	seen := map[string]bool{from: true}
	st := []string{from}
	for len(st) > 0 {
		x := st[len(st)-1]
		st = st[:len(st)-1]
		if x == to {
			return true
		}
		for _, nx := range t.T.States[x].Events {
			if seen[nx] || avoid[nx] {
				continue
			}
			seen[nx] = true
			st = append(st, nx)
		}
	}
	return false
}

var _ = ssa.Instruction(nil)

// ---- R6: the timer is only released by leaving the wait --------------------------------------

// c17CancelFields finds the fields into which the arming chains store the cancel
// func of the timer's context: the context argument of addNewTimeOut is result 0
// of a call whose result 1 (a func) is stored into a struct field.
func c17CancelFields(w *an.World) map[string]bool {
	out := map[string]bool{}
	for _, site := range findCallSites(w, fxAddTimeout) {
		args := site.Common().Args
		if len(args) == 0 {
			continue
		}
		for _, l := range w.Sources(args[0], an.FlowOpts{}).Leaves {
			if l.Kind != "call" || l.Call == nil || l.Call.Referrers() == nil {
				continue
			}
			for _, r := range *l.Call.Referrers() {
				ex, ok := r.(*ssa.Extract)
				if !ok || ex.Index == l.Idx || ex.Referrers() == nil {
					continue
				}
				if _, isFunc := ex.Type().Underlying().(*types.Signature); !isFunc {
					continue
				}
				var follow func(v ssa.Value, depth int)
				follow = func(v ssa.Value, depth int) {
					if v.Referrers() == nil || depth > 3 {
						return
					}
					for _, rr := range *v.Referrers() {
						switch x := rr.(type) {
						case *ssa.Store:
							if fa, ok := x.Addr.(*ssa.FieldAddr); ok && x.Val == v {
								out[an.FieldName(fa.X.Type(), fa.Field)] = true
							}
						case *ssa.ChangeType:
							follow(x, depth+1)
						case *ssa.Phi:
							follow(x, depth+1)
						case ssa.CallInstruction:
							// handed to a helper that stores it (armSwapTimeout-like)
							if g := x.Common().StaticCallee(); g != nil && w.InModule(g) && g.Blocks != nil {
								for k, a := range x.Common().Args {
									if a == v && k < len(g.Params) {
										follow(g.Params[k], depth+1)
									}
								}
							}
						}
					}
				}
				follow(ex, 0)
			}
		}
	}
	return out
}

func c17TimerRelease(c *an.Check, ts []*TI) {
	w := c.W
	fields := c17CancelFields(w)
	if !c.AtLeast("C17.R6", "fields holding the timer's cancel func (stored by the arming chains)", len(fields), 1) {
		return
	}
	se := w.Func("swap", "(*SwapStateMachine).SendEvent")
	rec := w.Func("swap", "(*SwapStateMachine).Recover")
	if se == nil {
		c.Anchor("(*SwapStateMachine).SendEvent does not resolve")
		return
	}
	// invocations: dynamic calls whose callee value is loaded from such a field
	type site struct {
		fn   *ssa.Function
		call ssa.CallInstruction
		key  string
	}
	var sites []site
	for key := range fields {
		for _, in := range w.FieldReaders(key) {
			fn := in.Parent()
			if an.IsTestSupport(w.FnRel(fn)) || isDummy(w, fn) {
				continue
			}
			// the loaded value (through copies) used as the callee of a call
			var vals []ssa.Value
			if v, ok := in.(ssa.Value); ok {
				vals = append(vals, v)
				if fa, isAddr := in.(*ssa.FieldAddr); isAddr && fa.Referrers() != nil {
					for _, r := range *fa.Referrers() {
						if ld, ok := r.(*ssa.UnOp); ok && ld.Op == token.MUL {
							vals = append(vals, ld)
						}
					}
				}
			}
			seen := map[ssa.Value]bool{}
			for len(vals) > 0 {
				v := vals[0]
				vals = vals[1:]
				if seen[v] || v.Referrers() == nil {
					continue
				}
				seen[v] = true
				for _, r := range *v.Referrers() {
					switch x := r.(type) {
					case ssa.CallInstruction:
						if x.Common().Value == v && !x.Common().IsInvoke() {
							sites = append(sites, site{fn, x, key})
						}
					case *ssa.Phi:
						vals = append(vals, x)
					case *ssa.ChangeType:
						vals = append(vals, x)
					case *ssa.Store:
						if _, ok := x.Addr.(*ssa.Alloc); ok && x.Val == v {
							for _, ld := range an.LoadsReachedBy(x) {
								vals = append(vals, ld)
							}
						}
					}
				}
			}
		}
	}
	var keys []string
	for k := range fields {
		keys = append(keys, k)
	}
	sort.Strings(keys)
	if len(sites) == 0 {
		c.OK("C17.R6", "timer-cancel "+strings.Join(keys, ","), w.Pos(se.Pos()), "nothing invokes the stored cancel func: an armed timer runs its full course")
		return
	}
	// states whose wait the timer bounds: waiting states that accept the timeout
	timed := map[*ssa.Function][]string{} // action function (and its callees) -> timed waiting states
	other := map[*ssa.Function]bool{}     // reached from actions of other states
	for _, t := range ts {
		for _, s := range t.T.Order {
			_, acc := t.T.States[s].Events[evTimeout]
			isTimed := acc && t.Sum[s].Events[evNoOp]
			mark := func(fn *ssa.Function) {
				if isTimed {
					for _, k := range timed[fn] {
						if k == t.key(s) {
							return
						}
					}
					timed[fn] = append(timed[fn], t.key(s))
				} else {
					other[fn] = true
				}
			}
			for _, ex := range t.Sum[s].Execs {
				mark(ex)
			}
			for _, ef := range t.Sum[s].Effects {
				mark(ef.In)
				if ef.Info.Static != nil {
					mark(ef.Info.Static)
				}
			}
		}
	}
	setters := map[*ssa.Function]bool{}
	for _, st := range w.FieldWriters("SwapStateMachine.Current") {
		setters[st.Parent()] = true
	}
	sendLike := map[*ssa.Function]bool{se: true}
	if rec != nil {
		sendLike[rec] = true
	}
	// judge: 1 after a completed transition, -1 before / independent of it, 0 cannot trace
	var judge func(fn *ssa.Function, at ssa.Instruction, depth int, chain []string) (int, string)
	judge = func(fn *ssa.Function, at ssa.Instruction, depth int, chain []string) (int, string) {
		chain = append(chain, w.FuncName(fn))
		path := strings.Join(chain, " <- ")
		if sendLike[fn] {
			var via []ssa.Instruction
			for _, call := range an.Calls(fn) {
				if g := call.Common().StaticCallee(); g != nil && setters[g] {
					via = append(via, call)
				}
			}
			for _, st := range storesTo(fn, "SwapStateMachine.Current") {
				via = append(via, st)
			}
			if an.MustPassInstr(at, via) {
				return 1, ""
			}
			return -1, path + ": in the state machine, but not behind the code that sets the new state"
		}
		if len(timed[fn]) > 0 {
			return -1, path + ": part of the action of the timed waiting state " + strings.Join(timed[fn], ", ")
		}
		if other[fn] {
			return 1, "" // an action of a state that is not a timed waiting state: the wait was left
		}
		// service-level code: behind the nil-error edge of a SendEvent / Recover call?
		var later bool
		for _, call := range an.Calls(fn) {
			g := call.Common().StaticCallee()
			cv, isCall := call.(*ssa.Call)
			if g == nil || !sendLike[g] || !isCall {
				continue
			}
			okE, _ := an.OkEdges(cv)
			if len(okE) > 0 && an.EdgesDominate(okE, at.Block()) {
				return 1, ""
			}
			if pathAvoiding(at, call, nil) {
				later = true
			}
		}
		if later {
			return -1, path + ": the timer is cancelled before the event is handed to SendEvent (if the event then causes no transition the swap keeps waiting without a timer)"
		}
		if fn.Parent() != nil || depth >= 5 {
			return 0, path + ": callers could not be traced"
		}
		var callers []ssa.CallInstruction
		for _, g := range prodFuncs(w) {
			if isDummy(w, g) {
				continue
			}
			for _, gc := range an.Calls(g) {
				if gc.Common().StaticCallee() == fn {
					callers = append(callers, gc)
				}
			}
		}
		if len(callers) == 0 {
			return -1, path + ": not behind any successful SendEvent"
		}
		worst, why := 1, ""
		for _, gc := range callers {
			if v, y := judge(gc.Parent(), gc, depth+1, chain); v < worst {
				worst, why = v, y
			}
		}
		return worst, why
	}
	for _, s := range sites {
		cons := w.FuncName(s.fn) + " timer-cancel " + s.key
		v, why := judge(s.fn, s.call, 0, nil)
		switch v {
		case 1:
			c.OK("C17.R6", cons, w.Pos(s.call.Pos()), "the cancel func is invoked only after a completed transition out of the waiting state")
		case 0:
			c.Unknown("C17.R6", cons, w.Pos(s.call.Pos()), why)
		default:
			c.Bad("C17.R6", cons, w.Pos(s.call.Pos()), "the negotiation timer is released although the swap may still be in the armed waiting state: "+why)
		}
	}
}
