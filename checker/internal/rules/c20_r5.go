package rules

import (
	"fmt"
	"go/token"
	"go/types"
	"sort"
	"strings"

	"golang.org/x/tools/go/ssa"

	"psv/internal/an"
)

// C20.R5 — depth arithmetic does not wrap.
//
// The watchers compute confirmation depths from two heights that come from
// different sources (a height delivered through a channel or an earlier RPC, and
// a fresh RPC answer), in unsigned integers. If the minuend can be below the
// subtrahend the difference wraps to a huge number and a "depth >= required"
// test passes for a transaction that has fewer confirmations (or none).
// Rule: in every function that contains a report site, every unsigned
// subtraction whose result reaches a branch condition must be dominated by a
// fact that makes it non-negative (same linear terms, `>= 0` / `> 0` with a
// constant that implies it). Subtractions in signed types and subtractions of
// two constants are exempt.
func (x *c20X) r5() {
	c, w := x.c, x.w
	c.Rule("C20.R5", "unsigned height subtractions that feed a depth test are dominated by a fact making them non-negative (no wrap-around)")
	fns := map[*ssa.Function]bool{}
	for _, s := range x.sites {
		fns[s.fn] = true
		if s.via != nil {
			fns[s.via] = true
		}
	}
	var order []*ssa.Function
	for fn := range fns {
		order = append(order, fn)
	}
	sort.Slice(order, func(i, j int) bool { return w.FuncName(order[i]) < w.FuncName(order[j]) })
	n := 0
	for _, fn := range order {
		for _, b := range fn.Blocks {
			for _, in := range b.Instrs {
				bo, ok := in.(*ssa.BinOp)
				if !ok || bo.Op != token.SUB || !c20Unsigned(bo.Type()) {
					continue
				}
				if _, cx := bo.X.(*ssa.Const); cx {
					if _, cy := bo.Y.(*ssa.Const); cy {
						continue
					}
				}
				if !c20ReachesCondition(bo) {
					continue
				}
				n++
				cons := fmt.Sprintf("%s %s - %s", w.FuncName(fn), c20Short(w.Term(bo.X)), c20Short(w.Term(bo.Y)))
				facts := w.FactsDominating(bo)
				// the subtraction as a linear form: X - Y
				probe := an.Fact{}
				_ = probe
				okGuard := false
				for _, f := range facts {
					if c20ImpliesNonNegative(w, f, bo) {
						okGuard = true
					}
				}
				c.Decide(okGuard, "C20.R5", cons, w.Pos(bo.Pos()),
					"dominated by a test that keeps the difference non-negative",
					"unsigned subtraction feeds a depth/maturity test but nothing keeps it from wrapping: if "+c20Short(w.Term(bo.X))+" is below "+c20Short(w.Term(bo.Y))+" (a stale height against a fresh RPC answer) the difference becomes ~2^32 and the test passes for a transaction without the required depth. Facts that hold: "+an.DescribeFacts(facts))
			}
		}
	}
	// Expected count on the repaired tree is zero (the depths are computed in
	// int64); the reverse patch of the repair is the positive example
	// (mutants/C20/revert-*depth*). Record what was scanned.
	c.OK("C20.R5", fmt.Sprintf("scan of %d report functions", len(order)), "-", fmt.Sprintf("%d unsigned subtractions feed a test; all guarded", n))
}

func c20Unsigned(t types.Type) bool {
	b, ok := t.Underlying().(*types.Basic)
	return ok && b.Info()&types.IsUnsigned != 0
}

func c20Short(s string) string {
	s = strings.ReplaceAll(s, "github.com/elementsproject/peerswap/", "")
	if len(s) > 70 {
		s = s[:70] + "…"
	}
	return s
}

// c20ReachesCondition: the value flows (through integer arithmetic and
// conversions) into a comparison that is branched on.
func c20ReachesCondition(v ssa.Value) bool {
	seen := map[ssa.Value]bool{}
	var rec func(v ssa.Value, d int) bool
	rec = func(v ssa.Value, d int) bool {
		if seen[v] || d > 8 || v.Referrers() == nil {
			return false
		}
		seen[v] = true
		for _, r := range *v.Referrers() {
			switch y := r.(type) {
			case *ssa.BinOp:
				switch y.Op {
				case token.LSS, token.LEQ, token.GTR, token.GEQ, token.EQL, token.NEQ:
					if len(an.CondUses(y)) > 0 {
						return true
					}
				case token.ADD, token.SUB:
					if rec(y, d+1) {
						return true
					}
				}
			case *ssa.Convert:
				if rec(y, d+1) {
					return true
				}
			case *ssa.ChangeType:
				if rec(y, d+1) {
					return true
				}
			case *ssa.Phi:
				if rec(y, d+1) {
					return true
				}
			}
		}
		return false
	}
	return rec(v, 0)
}

// c20ImpliesNonNegative: fact f (Σ coef·term + c  Rel  0) implies X - Y >= 0 for
// the subtraction sub = X - Y. The subtraction is itself linearised by building
// the fact of the artificial comparison `X >= Y` with the engine's normaliser, so
// that term naming is identical.
func c20ImpliesNonNegative(w *an.World, f an.Fact, sub *ssa.BinOp) bool {
	if f.NonNum || f.Terms == nil || (f.Rel != ">=" && f.Rel != ">") {
		return false
	}
	want := w.LinearDiff(sub.X, sub.Y) // X - Y as terms + const
	if want == nil {
		return false
	}
	// f: T + cf  Rel 0 ; want: T + cw >= 0. Same T required.
	if len(f.Terms) != len(want.Terms) {
		return false
	}
	for k, v := range want.Terms {
		if f.Terms[k] != v {
			return false
		}
	}
	// T >= -cf (or > -cf, i.e. >= -cf+1 for integers)  must imply  T >= -cw
	lower := -f.Const
	if f.Rel == ">" {
		lower++
	}
	return lower >= -want.Const
}
