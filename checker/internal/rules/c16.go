package rules

import (
	"fmt"
	"go/constant"
	"go/token"
	"go/types"
	"sort"
	"strconv"
	"strings"

	"golang.org/x/tools/go/ssa"

	"psv/internal/an"
)

func init() {
	Register(&Prop{
		ID:   "C16",
		Expl: "Decides the graph-shaped necessary condition of termination: no state is a sink for a silent peer. For every state of the four tables: (R1) a state whose action may return NoOp (a waiting state) has an exit that does not depend on the peer and survives restarts — it is FailOnrecover, or its action registers a chain watch whose callback events it accepts, or its re-execution by Recover can itself return a non-NoOp event that depends on the block height; in-memory timers alone do not count because a restart drops them; (R2) from every state some terminal state is reachable using only such exits and the events actions return; every event an action can return is accepted by its state (info); (R3) terminal actions return only Event_Done and every SendEvent/Recover call site in the service releases the channel when done; for a state that waits for the opening transaction's confirmation, per chain: the action (re-run by Recover) fails on a passed height on that chain's side, or every TxWatcher implementation wired in for the chain reads the window parameter it is given; (R4) every state that can be on disk (including the default state, which SendEvent persists before the first transition) is handled by Recover: Recover is evaluated for a record in that state (entry present, no action, its FailOnrecover flag) and must reach the code that finishes the swap before any error return; (R5) every callback that injects an event from outside the machine (confirmation, CSV, payment, timeout) reaches SendEvent on every path on which the swap was found: a skip may depend on the lookup, on an undecodable argument or on the callback's own arguments, and a skip that depends on the current state must let through every state that accepts the event; (R6) in the watcher packages, a map entry that a function sets before it invokes a callback and that is tested (comma-ok lookup of the same map) as a reason to skip the swap is deleted on every path from the callback's return to the function's exit, unless that path removes the swap from the watch lists.",
		NotD: "Fairness of watchers and services, actual time bounds, that failing services eventually succeed.",
		Run:  runC16,
	})
}

func runC16(c *an.Check) {
	c.Rule("C16.R1", "every waiting state has a peer-independent exit that survives restarts")
	c.Rule("C16.R2", "from every state a terminal state is reachable over peer-independent exits")
	c.Rule("C16.R3", "terminal actions return Event_Done; every SendEvent/Recover caller removes the swap when done")
	c.Rule("C16.R4", "every persistable state is recoverable")
	c.Rule("C16.R5", "callbacks deliver their event to every state that accepts it")
	c.Rule("C16.R6", "an in-flight marker that makes the watcher skip a swap is released on every exit after the callback")
	if !needEffects(c, fxWaitConf, fxWaitCsv, fxBlockHeight) {
		return
	}
	w := c.W
	ts := tables(c)
	if ts == nil {
		return
	}
	srcs := eventSources(c)
	watchEvents := map[string]map[string]bool{fxWaitConf: {}, fxWaitCsv: {}}
	for _, f := range callbackTargets(w, "iface:swap.TxWatcher.AddConfirmationCallback") {
		for e := range eventsSentFrom(c, f, srcs) {
			watchEvents[fxWaitConf][e] = true
		}
	}
	for _, f := range callbackTargets(w, "iface:swap.TxWatcher.AddCsvCallback") {
		for e := range eventsSentFrom(c, f, srcs) {
			watchEvents[fxWaitCsv][e] = true
		}
	}
	c.AtLeast("C16.R1", "events injected by the confirmation callback", len(watchEvents[fxWaitConf]), 2)
	c.AtLeast("C16.R1", "events injected by the CSV callback", len(watchEvents[fxWaitCsv]), 1)

	nWait := 0
	var actionless []string
	type c16Rec struct {
		st            string
		failOnRecover bool
	}
	recs := map[c16Rec][]string{}
	for _, t := range ts {
		// exits[s] = peer-independent successor states
		exits := map[string]map[string]bool{}
		for _, s := range t.T.Order {
			e := t.T.States[s]
			ss := t.Sum[s]
			exits[s] = map[string]bool{}
			if e.Terminal() {
				continue
			}
			if len(e.Actions) == 0 {
				// default state: left by the creating event, handled by R4
				for _, nx := range e.Events {
					exits[s][nx] = true
				}
				continue
			}
			// events the action itself returns
			for ev := range ss.Events {
				if ev == evNoOp || ev == evDone {
					continue
				}
				if nx, ok := e.Events[ev]; ok {
					exits[s][nx] = true
				} else {
					c.Note("C16.R2", t.key(s)+" returns-unaccepted "+ev, t.pos(c, s), "the action can return "+ev+" which the state does not accept: SendEvent rejects it and the swap stays here until the next restart re-executes the action")
				}
			}
			if !ss.Events[evNoOp] {
				continue
			}
			nWait++
			var how []string
			if e.FailOnRecover {
				if nx, ok := e.Events[evFailed]; ok {
					exits[s][nx] = true
					how = append(how, "FailOnrecover")
				}
			}
			for fx, evs := range watchEvents {
				if !ss.HasEffect(fx) {
					continue
				}
				for ev := range evs {
					if nx, ok := e.Events[ev]; ok {
						exits[s][nx] = true
						how = append(how, "chain watch "+strings.TrimPrefix(fx, "iface:swap.TxWatcher.")+" -> "+ev)
					}
				}
			}
			// re-execution that depends on the block height and can fail
			if ss.HasEffect(fxBlockHeight) {
				for ev := range ss.Events {
					if ev == evNoOp {
						continue
					}
					if nx, ok := e.Events[ev]; ok && c16DependsOnHeight(w, ss, ev) {
						exits[s][nx] = true
						how = append(how, "re-executed by Recover: height-dependent "+ev)
					}
				}
			}
			timer := ""
			if _, ok := e.Events[evTimeout]; ok {
				timer = " (it accepts Event_OnTimeout, but timers live in memory only and are not re-armed by Recover)"
			}
			if len(how) == 0 && ss.Unknown {
				c.Unknown("C16.R1", t.key(s)+" silent-peer-exit", t.pos(c, s), "the action returns an event that could not be resolved; no restart-proof exit was recognised among the resolved ones")
				continue
			}
			c.Decide(len(how) > 0, "C16.R1", t.key(s)+" silent-peer-exit", t.pos(c, s), strings.Join(how, "; "),
				fmt.Sprintf("waiting state (action %v returns NoOp) has no exit that survives a restart when the peer stays silent%s: after a restart the swap waits here forever and keeps its channel locked", e.ActionNames(), timer))
			// a wait for the confirmation of the opening transaction must be bounded on
			// every chain by the action or by every watcher that can serve the chain
			if ss.HasEffect(fxWaitConf) && !e.FailOnRecover {
				c16ConfirmationDeadline(c, t, s)
			}
		}
		// R2: terminal reachable over exits
		for _, s := range t.T.Order {
			if t.T.States[s].Terminal() {
				continue
			}
			seen := map[string]bool{s: true}
			st := []string{s}
			found := false
			unresolved := false
			for len(st) > 0 && !found {
				x := st[len(st)-1]
				st = st[:len(st)-1]
				if t.Sum[x].Unknown {
					unresolved = true
				}
				for nx := range exits[x] {
					if t.T.States[nx].Terminal() {
						found = true
					}
					if !seen[nx] {
						seen[nx] = true
						st = append(st, nx)
					}
				}
			}
			if !found && unresolved {
				c.Unknown("C16.R2", t.key(s)+" reaches-terminal", t.pos(c, s), "no terminal state reached over the resolved exits, but an action on the way returns an event that could not be resolved")
				continue
			}
			c.Decide(found, "C16.R2", t.key(s)+" reaches-terminal", t.pos(c, s), "a terminal state is reachable without the peer", "no terminal state is reachable from here without a message from the peer")
		}
		// R3 terminal actions
		for _, s := range t.terminals() {
			ss := t.Sum[s]
			if ss.Unknown && (len(ss.Events) == 0 || (len(ss.Events) == 1 && ss.Events[evDone])) {
				c.Unknown("C16.R3", t.key(s)+" returns-done", t.pos(c, s), "a value returned by the terminal action could not be resolved to an event constant")
				continue
			}
			c.Decide(len(ss.Events) == 1 && ss.Events[evDone] && !ss.Unknown, "C16.R3", t.key(s)+" returns-done", t.pos(c, s), "terminal action returns Event_Done", fmt.Sprintf("terminal action returns %v: SendEvent does not report done and the channel is never released", sortedKeys(ss.Events)))
		}
		// R4: persistable states are recoverable
		for _, s := range t.T.Order {
			if len(t.T.States[s].Actions) == 0 {
				actionless = append(actionless, t.key(s))
				k := c16Rec{s, t.T.States[s].FailOnRecover}
				recs[k] = append(recs[k], t.key(s))
			}
		}
	}
	if len(actionless) > 0 {
		cons := "(*SwapStateMachine).Recover action-less persisted state"
		verdict, why := 1, ""
		for k, keys := range recs {
			v, y := c16RecoverEval(w, ts, k.st, k.failOnRecover)
			if v < verdict {
				verdict, why = v, "for a record in "+strings.Join(keys, ", ")+": "+y
			}
		}
		switch verdict {
		case 1:
			c.OK("C16.R4", cons, w.Pos(ts[0].T.Pos), "Recover, evaluated for a record in a state without action ("+strings.Join(actionless, ", ")+"), reaches the code that finishes the swap before any error return")
		case 0:
			c.Unknown("C16.R4", cons, w.Pos(ts[0].T.Pos), "cannot evaluate Recover "+why)
		default:
			c.Bad("C16.R4", cons, w.Pos(ts[0].T.Pos), "SendEvent persists the record before the first transition, so the action-less states "+strings.Join(actionless, ", ")+" can be on disk (crash while the first action runs); "+why+"; RecoverSwaps only logs that, and the swap stays in activeSwaps (channel locked, HasActiveSwaps true) after every restart")
		}
	}
	c.AtLeast("C16.R1", "waiting states", nWait, 11)

	// R3: callers release the channel
	se := w.Func("swap", "(*SwapStateMachine).SendEvent")
	rec := w.Func("swap", "(*SwapStateMachine).Recover")
	rm := w.Func("swap", "(*SwapService).RemoveActiveSwap")
	if se == nil || rec == nil || rm == nil {
		c.Anchor("SendEvent / Recover / RemoveActiveSwap do not resolve")
		return
	}
	// a release is a call of RemoveActiveSwap or of an in-module function whose
	// synchronous call tree calls it
	releases := func(call ssa.CallInstruction) bool {
		if _, isGo := call.(*ssa.Go); isGo {
			return false
		}
		g := call.Common().StaticCallee()
		if g == nil {
			return false
		}
		if g == rm {
			return true
		}
		if !w.InModule(g) || g.Blocks == nil || g == se || g == rec {
			return false
		}
		for _, ef := range w.Summary(g).Effects {
			if ef.Info.Static == rm && !strings.HasPrefix(ef.Name, "go:") {
				return true
			}
		}
		return false
	}
	// sendLike: SendEvent, Recover and pure forwarders of their `done` result
	// (the forwarder's callers are then the call sites to judge)
	sendLike := map[*ssa.Function]bool{se: true, rec: true}
	type c16Site struct {
		fn   *ssa.Function
		call *ssa.Call
	}
	var sites []c16Site
	verdict := map[*ssa.Call]int{}
	for round := 0; round < 3; round++ {
		sites = sites[:0]
		grew := false
		for _, fn := range prodFuncs(w) {
			if w.FnRel(fn) != "swap" || sendLike[fn] {
				continue
			}
			for _, call := range an.Calls(fn) {
				callee := call.Common().StaticCallee()
				cv, ok := call.(*ssa.Call)
				if callee == nil || !sendLike[callee] || !ok {
					continue
				}
				v := c16DoneReleased(w, cv, releases)
				if v != 1 && c16ForwardsDone(fn, cv) {
					sendLike[fn] = true
					grew = true
					break
				}
				verdict[cv] = v
				sites = append(sites, c16Site{fn, cv})
			}
		}
		if !grew {
			break
		}
	}
	n := 0
	for _, st := range sites {
		fn, cv := st.fn, st.call
		if sendLike[fn] {
			continue
		}
		callee := cv.Common().StaticCallee()
		cons := w.FuncName(fn) + " releases-when-done"
		pairs := 1
		if args := cv.Common().Args; callee == se && len(args) >= 2 {
			if par, isPar := args[1].(*ssa.Parameter); isPar {
				// a shared delivery helper: one instance per (caller, constant event)
				seenPair := map[string]bool{}
				for _, g := range prodFuncs(w) {
					for _, gc := range an.Calls(g) {
						if gc.Common().StaticCallee() != fn {
							continue
						}
						for k, p := range fn.Params {
							if p == par && k < len(gc.Common().Args) {
								for _, ev := range eventValues(w, gc.Common().Args[k]) {
									seenPair[w.FuncName(g)+" "+ev] = true
								}
							}
						}
					}
				}
				if len(seenPair) > pairs {
					pairs = len(seenPair)
				}
			} else if evs := eventValues(w, args[1]); len(evs) == 1 && evs[0] != "?" {
				cons = w.FuncName(fn) + " " + evs[0] + " releases-when-done"
			}
		}
		n += pairs
		switch verdict[cv] {
		case 1:
			c.OK("C16.R3", cons, w.Pos(cv.Pos()), "RemoveActiveSwap is called (directly or through a helper) on the done edge")
		case 0:
			c.Unknown("C16.R3", cons, w.Pos(cv.Pos()), "the `done` result of SendEvent/Recover is passed on (stored, returned or handed to a function that could not be followed): cannot decide whether the swap is released")
		default:
			c.Bad("C16.R3", cons, w.Pos(cv.Pos()), "the `done` result of SendEvent/Recover is not followed by RemoveActiveSwap: a finished swap keeps its channel locked")
		}
	}
	c.AtLeast("C16.R3", "SendEvent/Recover call sites (per handler and event) in the service", n, 14)

	// R5: callbacks that inject events from outside the machine deliver them
	var roots []*ssa.Function
	seenRoot := map[*ssa.Function]bool{}
	for _, reg := range []string{"iface:swap.TxWatcher.AddConfirmationCallback", "iface:swap.TxWatcher.AddCsvCallback", "iface:swap.LightningClient.AddPaymentCallback"} {
		for _, f := range callbackTargets(w, reg) {
			if !seenRoot[f] && f.Blocks != nil && !isDummy(w, f) {
				seenRoot[f] = true
				roots = append(roots, f)
			}
		}
	}
	for _, f := range c16TimeoutCallbacks(c, srcs) {
		if !seenRoot[f] {
			seenRoot[f] = true
			roots = append(roots, f)
		}
	}
	sort.Slice(roots, func(i, j int) bool { return w.FuncName(roots[i]) < w.FuncName(roots[j]) })
	for _, root := range roots {
		c16ReportDelivery(c, "C16.R5", root, c16AnalyseDelivery(c, ts, root, nil, nil, map[*ssa.Function]bool{}))
	}
	c.AtLeast("C16.R5", "event-injecting callbacks (confirmation, CSV, payment, timeout)", len(roots), 4)

	// R6: in-flight markers of the watchers
	c16InFlightMarkers(c)
}

// c16DoneReleased judges the `done` result (#0) of a SendEvent/Recover-like
// call: 1 a release call is reachable from an edge on which done is true,
// -1 done is discarded or only tested without a release behind it, 0 done flows
// somewhere that could not be followed.
func c16DoneReleased(w *an.World, call *ssa.Call, releases func(ssa.CallInstruction) bool) int {
	escapes := false
	var judge func(v ssa.Value, depth int, seen map[ssa.Value]bool) bool
	judge = func(v ssa.Value, depth int, seen map[ssa.Value]bool) bool {
		if seen[v] {
			return false
		}
		seen[v] = true
		fn := v.Parent()
		tE, _ := an.BoolEdges(v)
		for _, e := range tE {
			reach := an.ReachBlocks([]*ssa.BasicBlock{e.To()}, nil, nil)
			for _, rc := range an.Calls(fn) {
				if reach[rc.Block()] && releases(rc) {
					return true
				}
			}
		}
		if v.Referrers() == nil {
			return false
		}
		for _, r := range *v.Referrers() {
			switch x := r.(type) {
			case *ssa.If, *ssa.DebugRef:
			case *ssa.UnOp:
				if x.Op != token.NOT {
					escapes = true
				}
			case *ssa.Phi:
				if judge(x, depth, seen) {
					return true
				}
			case *ssa.Store:
				if _, ok := x.Addr.(*ssa.Alloc); ok && x.Val == v {
					for _, ld := range an.LoadsReachedBy(x) {
						if judge(ld, depth, seen) {
							return true
						}
					}
				} else {
					escapes = true
				}
			case *ssa.Call:
				g := x.Common().StaticCallee()
				followed := false
				if g != nil && w.InModule(g) && g.Blocks != nil && depth < 2 {
					for k, a := range x.Common().Args {
						if a == v && k < len(g.Params) {
							followed = true
							if judge(g.Params[k], depth+1, seen) {
								return true
							}
						}
					}
				}
				if !followed {
					escapes = true
				}
			default:
				escapes = true
			}
		}
		return false
	}
	for _, dv := range an.ResultValues(call, 0) {
		if judge(dv, 0, map[ssa.Value]bool{}) {
			return 1
		}
	}
	if escapes {
		return 0
	}
	return -1
}

// c16ForwardsDone: fn returns the done result of call as its own first result.
func c16ForwardsDone(fn *ssa.Function, call *ssa.Call) bool {
	res := fn.Signature.Results()
	if res.Len() == 0 {
		return false
	}
	if b, ok := res.At(0).Type().Underlying().(*types.Basic); !ok || b.Kind() != types.Bool {
		return false
	}
	for _, p := range c16ResultPoints(fn, 0) {
		if ex, ok := p.Val.(*ssa.Extract); ok && ex.Tuple == ssa.Value(call) && ex.Index == 0 {
			return true
		}
	}
	return false
}

// c16DependsOnHeight: some return of event ev in the state's Execute functions
// (or in an in-module callee whose result they return, with the callee's
// parameters bound to the call's arguments) is control-dependent on a value
// derived from TxWatcher.GetBlockHeight's height result (not merely on its
// error).
func c16DependsOnHeight(w *an.World, ss *an.StateSummary, ev string) bool {
	for _, fn := range ss.Execs {
		if c16HeightDep(w, fn, ev, nil, 0, map[*ssa.Function]bool{}) {
			return true
		}
	}
	return false
}

// c16RetPoint is one (value, block) pair of a function result; a returned phi is
// expanded into its incoming values at the predecessor blocks.
type c16RetPoint struct {
	Blk  *ssa.BasicBlock
	Val  ssa.Value
	Edge *an.Edge // for an expanded phi: the edge Blk -> return block
}

// facts that hold when the point is reached.
func (p c16RetPoint) facts(w *an.World) []an.Fact {
	fs := w.FactsDominatingBlock(p.Blk)
	if p.Edge != nil {
		for _, f := range w.Facts(p.Blk.Parent()) {
			if f.Edge == *p.Edge {
				fs = append(fs, f)
			}
		}
	}
	return fs
}

func c16ResultPoints(fn *ssa.Function, idx int) []c16RetPoint {
	var out []c16RetPoint
	for _, r := range an.Returns(fn) {
		if idx >= len(r.Results) {
			continue
		}
		v := r.Results[idx]
		if phi, ok := v.(*ssa.Phi); ok && phi.Block() == r.Block() {
			for i, e := range phi.Edges {
				pred := r.Block().Preds[i]
				pt := c16RetPoint{Blk: pred, Val: e}
				for k, sc := range pred.Succs {
					if sc == r.Block() {
						pt.Edge = &an.Edge{From: pred, Idx: k}
					}
				}
				out = append(out, pt)
			}
			continue
		}
		out = append(out, c16RetPoint{Blk: r.Block(), Val: v})
	}
	return out
}

func c16IsEventType(t types.Type) bool {
	n, ok := t.(*types.Named)
	return ok && n.Obj().Name() == "EventType"
}

// c16HeightDep: see c16DependsOnHeight; taint are the parameters of fn that hold
// a height-derived value at the call under consideration.
func c16HeightDep(w *an.World, fn *ssa.Function, ev string, taint map[*ssa.Parameter]bool, depth int, seen map[*ssa.Function]bool) bool {
	return len(c16HeightPoints(w, fn, ev, taint, depth, seen, nil)) > 0
}

// c16HeightPoints lists the height-dependent returns of event ev: for each, all
// the facts that hold when it is reached (those of the callers' frames first).
func c16HeightPoints(w *an.World, fn *ssa.Function, ev string, taint map[*ssa.Parameter]bool, depth int, seen map[*ssa.Function]bool, outer []an.Fact) [][]an.Fact {
	var out [][]an.Fact
	if fn == nil || fn.Blocks == nil || seen[fn] {
		return nil
	}
	seen[fn] = true
	defer delete(seen, fn)
	isHeight := func(v ssa.Value) bool {
		for _, l := range w.Sources(v, an.FlowOpts{}).Leaves {
			if l.Kind == "call" && l.Name == fxBlockHeight+"#0" {
				return true
			}
			if p, ok := l.Val.(*ssa.Parameter); ok && l.Kind == "param" && taint[p] {
				return true
			}
		}
		return false
	}
	// derived: the height itself, or the result of a call that takes it as argument
	derives := func(v ssa.Value) bool {
		if v == nil {
			return false
		}
		if isHeight(v) {
			return true
		}
		for _, l := range w.Sources(v, an.FlowOpts{}).Leaves {
			if l.Kind == "call" && l.Call != nil {
				for _, a := range l.Call.Common().Args {
					if isHeight(a) {
						return true
					}
				}
			}
		}
		return false
	}
	res := fn.Signature.Results()
	for i := 0; i < res.Len(); i++ {
		if !c16IsEventType(res.At(i).Type()) {
			continue
		}
		for _, p := range c16ResultPoints(fn, i) {
			hit := false
			for _, e := range eventValues(w, p.Val) {
				if e == ev {
					hit = true
				}
			}
			if !hit {
				continue
			}
			pfacts := p.facts(w)
			all := append(append([]an.Fact{}, outer...), pfacts...)
			dep := false
			for _, f := range pfacts {
				if strings.Contains(f.String(), fxBlockHeight+"#0") {
					dep = true
					break
				}
				ops := []ssa.Value{f.LV, f.RV}
				ops = append(ops, f.Args...)
				switch cv := f.Cond.(type) {
				case *ssa.BinOp:
					ops = append(ops, cv.X, cv.Y)
				case *ssa.UnOp:
					ops = append(ops, cv.X)
				default:
					ops = append(ops, f.Cond)
				}
				for _, op := range ops {
					if derives(op) {
						dep = true
					}
				}
			}
			if dep {
				out = append(out, all)
				continue
			}
			// the event is the result of an in-module callee: look inside it with
			// the height-carrying arguments bound to its parameters
			if call, ok := p.Val.(*ssa.Call); ok && depth < 3 {
				g := w.Info(call).Static
				if g != nil && w.InModule(g) && g.Blocks != nil {
					t2 := map[*ssa.Parameter]bool{}
					for k, a := range call.Common().Args {
						if k < len(g.Params) && isHeight(a) {
							t2[g.Params[k]] = true
						}
					}
					out = append(out, c16HeightPoints(w, g, ev, t2, depth+1, seen, all)...)
				}
			}
		}
	}
	return out
}

// ---- partial evaluation under a known current state ---------------------------------------------

const c16CurField = "SwapStateMachine.Current"

// c16Env evaluates branch conditions for a swap whose Current field is known.
type c16Env struct {
	w     *an.World
	cur   string
	extra func(f an.Fact) int // further known conditions: 1 holds, 0 does not, -1 unknown (may be nil)
	depth int
}

func c16B2i(b bool) int {
	if b {
		return 1
	}
	return 0
}

// evalFact: does the fact hold for the record? 1 yes, 0 no, -1 unknown.
func (e *c16Env) evalFact(f an.Fact) int {
	if f.NonNum && (f.Rel == "==" || f.Rel == "!=") {
		for _, pr := range [][2]string{{f.L, f.R}, {f.R, f.L}} {
			if strings.HasSuffix(pr[0], c16CurField) {
				if cv, err := strconv.Unquote(pr[1]); err == nil {
					return c16B2i((f.Rel == "==") == (cv == e.cur))
				}
			}
		}
	}
	if e.extra != nil {
		if v := e.extra(f); v >= 0 {
			return v
		}
	}
	if (f.Rel == "true" || f.Rel == "false") && e.depth < 3 {
		if call, ok := f.Cond.(*ssa.Call); ok {
			if g := e.w.Info(call).Static; g != nil && e.w.InModule(g) && g.Blocks != nil {
				sub := &c16Env{w: e.w, cur: e.cur, extra: e.extra, depth: e.depth + 1}
				if v := sub.evalBoolFunc(g); v >= 0 {
					return c16B2i((v == 1) == (f.Rel == "true"))
				}
			}
		}
	}
	return -1
}

// c16Trace is one deterministic walk through a function.
type c16Trace struct {
	blocks  []*ssa.BasicBlock
	decided []an.Fact // the side taken at every evaluated If
	ret     *ssa.Return
	stuck   *ssa.If // an If whose condition could not be evaluated
	stopped bool    // visit asked to stop
}

// run walks fn from its entry, taking at every If the side the record takes.
func (e *c16Env) run(fn *ssa.Function, visit func(b *ssa.BasicBlock) bool) c16Trace {
	var tr c16Trace
	if fn == nil || len(fn.Blocks) == 0 {
		return tr
	}
	b := fn.Blocks[0]
	seen := map[*ssa.BasicBlock]bool{}
	for b != nil && !seen[b] {
		seen[b] = true
		tr.blocks = append(tr.blocks, b)
		if visit != nil && visit(b) {
			tr.stopped = true
			return tr
		}
		if len(b.Instrs) == 0 {
			return tr
		}
		switch last := b.Instrs[len(b.Instrs)-1].(type) {
		case *ssa.Return:
			tr.ret = last
			return tr
		case *ssa.If:
			tf, ff := e.w.FactsOfIf(last)
			switch e.evalFact(tf) {
			case 1:
				tr.decided = append(tr.decided, tf)
				b = b.Succs[0]
			case 0:
				tr.decided = append(tr.decided, ff)
				b = b.Succs[1]
			default:
				tr.stuck = last
				return tr
			}
		case *ssa.Jump:
			b = b.Succs[0]
		default:
			return tr // panic etc.
		}
	}
	return tr
}

// value of a boolean SSA value at the end of trace tr.
func (e *c16Env) boolValue(v ssa.Value, tr c16Trace) int {
	switch x := v.(type) {
	case *ssa.Const:
		if x.Value != nil && x.Value.Kind() == constant.Bool {
			return c16B2i(constant.BoolVal(x.Value))
		}
	case *ssa.Phi:
		idx := -1
		for i := len(tr.blocks) - 1; i > 0; i-- {
			if tr.blocks[i] == x.Block() {
				idx = i
				break
			}
		}
		if idx <= 0 {
			return -1
		}
		prev := tr.blocks[idx-1]
		val := -2
		for i, pb := range x.Block().Preds {
			if pb != prev {
				continue
			}
			r := e.boolValue(x.Edges[i], tr)
			if val != -2 && r != val {
				return -1
			}
			val = r
		}
		if val == -2 {
			return -1
		}
		return val
	case *ssa.UnOp:
		if x.Op == token.NOT {
			if r := e.boolValue(x.X, tr); r >= 0 {
				return 1 - r
			}
		}
		// a result spilled into a local because of a defer: the last store on the walk
		if al, ok := x.X.(*ssa.Alloc); ok && x.Op == token.MUL {
			for i := len(tr.blocks) - 1; i >= 0; i-- {
				b := tr.blocks[i]
				from := len(b.Instrs) - 1
				if b == x.Block() {
					from = an.InstrIndex(x) - 1
				}
				for k := from; k >= 0; k-- {
					if st, ok := b.Instrs[k].(*ssa.Store); ok && st.Addr == al {
						return e.boolValue(st.Val, tr)
					}
				}
			}
		}
	case *ssa.BinOp:
		if x.Op == token.EQL || x.Op == token.NEQ {
			for _, pr := range [][2]ssa.Value{{x.X, x.Y}, {x.Y, x.X}} {
				if strings.HasSuffix(e.w.Term(pr[0]), c16CurField) {
					if cv, ok := an.ConstString(pr[1]); ok {
						return c16B2i((x.Op == token.EQL) == (cv == e.cur))
					}
				}
			}
		}
	case *ssa.Call:
		if g := e.w.Info(x).Static; g != nil && e.w.InModule(g) && g.Blocks != nil && e.depth < 3 {
			sub := &c16Env{w: e.w, cur: e.cur, extra: e.extra, depth: e.depth + 1}
			return sub.evalBoolFunc(g)
		}
	}
	return -1
}

// evalBoolFunc: the result of the boolean in-module function g for the record.
func (e *c16Env) evalBoolFunc(g *ssa.Function) int {
	res := g.Signature.Results()
	if res.Len() != 1 {
		return -1
	}
	if b, ok := res.At(0).Type().Underlying().(*types.Basic); !ok || b.Kind() != types.Bool {
		return -1
	}
	tr := e.run(g, nil)
	if tr.ret == nil || len(tr.ret.Results) != 1 {
		return -1
	}
	return e.boolValue(tr.ret.Results[0], tr)
}

// ---- R4: Recover, partially evaluated for an action-less record ----------------------------------

// c16RecoverEval walks Recover for a record whose Current is st, an entry that
// the tables contain, without Action and with the given FailOnrecover flag:
// 1 the walk reaches code that finishes the swap (a terminal state is set, or
// (true, nil) / the result of SendEvent is returned), -1 it reaches an error
// return (or (false, nil)) first, 0 a condition on the way cannot be evaluated.
func c16RecoverEval(w *an.World, ts []*TI, st string, failOnRecover bool) (int, string) {
	rec := w.Func("swap", "(*SwapStateMachine).Recover")
	se := w.Func("swap", "(*SwapStateMachine).SendEvent")
	if rec == nil {
		return 0, "Recover does not resolve"
	}
	terminal := map[string]bool{}
	for _, t := range ts {
		for _, s := range t.terminals() {
			terminal[s] = true
		}
	}
	extra := func(f an.Fact) int {
		if f.Rel == "true" || f.Rel == "false" {
			if strings.Contains(f.Atom, "SwapStateMachine.States[") && strings.HasSuffix(f.Atom, "#1") {
				return c16B2i(f.Rel == "true") // the entry is present in the table
			}
			if strings.HasSuffix(f.Atom, "State.FailOnrecover") {
				return c16B2i((f.Rel == "true") == failOnRecover)
			}
		}
		if f.NonNum && (f.Rel == "==" || f.Rel == "!=") && an.EqIs(f, f.Rel, "State.Action", "nil") {
			return c16B2i(f.Rel == "==") // the entry has no action
		}
		return -1
	}
	makesTerminal := func(b *ssa.BasicBlock) bool {
		for _, in := range b.Instrs {
			switch x := in.(type) {
			case ssa.CallInstruction:
				for _, a := range x.Common().Args {
					if v, ok := an.ConstString(a); ok && terminal[v] {
						return true
					}
				}
			case *ssa.Store:
				if v, ok := an.ConstString(x.Val); ok && terminal[v] {
					return true
				}
			}
		}
		return false
	}
	var evalFn func(fn *ssa.Function, depth int) (int, string)
	evalFn = func(fn *ssa.Function, depth int) (int, string) {
		env := &c16Env{w: w, cur: st, extra: extra}
		tr := env.run(fn, makesTerminal)
		name := w.FuncName(fn)
		last := "unconditionally"
		if n := len(tr.decided); n > 0 {
			last = "because `" + tr.decided[n-1].String() + "` holds for that record (" + w.Pos(tr.decided[n-1].Edge.From.Instrs[len(tr.decided[n-1].Edge.From.Instrs)-1].Pos()) + ")"
		}
		switch {
		case tr.stopped:
			return 1, ""
		case tr.stuck != nil:
			tf, _ := w.FactsOfIf(tr.stuck)
			return 0, "the condition `" + tf.String() + "` in " + name + " (" + w.Pos(tr.stuck.Pos()) + ") cannot be evaluated for such a record"
		case tr.ret == nil:
			return 0, "the walk through " + name + " does not end in a return (loop or panic)"
		}
		res := fn.Signature.Results()
		if res.Len() < 2 || !an.IsErrorType(res.At(res.Len()-1).Type()) {
			return 0, name + " does not return (done, error)"
		}
		errv := tr.ret.Results[res.Len()-1]
		if phi, ok := errv.(*ssa.Phi); ok && phi.Block() == tr.ret.Block() && len(tr.blocks) > 1 {
			prev := tr.blocks[len(tr.blocks)-2]
			for i, pb := range phi.Block().Preds {
				if pb == prev {
					errv = phi.Edges[i]
				}
			}
		}
		at := w.Pos(tr.ret.Pos())
		if an.IsNilConst(errv) {
			switch env.boolValue(tr.ret.Results[0], tr) {
			case 1:
				return 1, ""
			case 0:
				return -1, name + " returns (false, nil) at " + at + " " + last + ": nothing finishes the swap"
			}
			return 0, "the done result returned at " + at + " cannot be evaluated"
		}
		var call *ssa.Call
		switch x := errv.(type) {
		case *ssa.MakeInterface:
			return -1, name + " returns an error at " + at + " " + last
		case *ssa.UnOp:
			if g, isGlobal := x.X.(*ssa.Global); isGlobal && x.Op == token.MUL {
				return -1, name + " returns " + g.Name() + " at " + at + " " + last
			}
		case *ssa.Extract:
			call, _ = x.Tuple.(*ssa.Call)
		case *ssa.Call:
			call = x
		}
		if call != nil {
			ci := w.Info(call)
			if ci.Name == "func:errors.New" || ci.Name == "func:fmt.Errorf" {
				return -1, name + " returns a new error at " + at + " " + last
			}
			if g := ci.Static; g != nil {
				if g == se {
					return 1, "" // an event is sent for the record
				}
				if w.InModule(g) && g.Blocks != nil && depth < 3 {
					return evalFn(g, depth+1)
				}
			}
		}
		return 0, "the error returned at " + at + " is of unknown origin"
	}
	return evalFn(rec, 0)
}

// ---- R1: confirmation deadline per chain and watcher implementation ---------------------------------

// c16WatchersByChain maps each chain constant to the AddWaitForConfirmationTx
// methods of the TxWatcher implementations that the program wires in for that
// chain: a function of package swap returns the services field F as TxWatcher
// under the fact `asset == "<chain>"`, and the values stored into F are traced to
// concrete types through constructor parameters and their callers. resolved is
// false when some value could not be traced (then every implementation is listed).
func c16WatchersByChain(w *an.World) (map[string][]*ssa.Function, bool) {
	iface := w.Named("swap", "TxWatcher")
	if iface == nil {
		return nil, false
	}
	fieldChain := map[string]string{} // "SwapServices.bitcoinTxWatcher" -> "btc"
	for _, fn := range prodFuncs(w) {
		if w.FnRel(fn) != "swap" || fn.Blocks == nil {
			continue
		}
		res := fn.Signature.Results()
		for i := 0; i < res.Len(); i++ {
			if n, ok := res.At(i).Type().(*types.Named); !ok || n.Obj() != iface.Obj() {
				continue
			}
			for _, p := range c16ResultPoints(fn, i) {
				ld, ok := p.Val.(*ssa.UnOp)
				if !ok || ld.Op != token.MUL {
					continue
				}
				fa, ok := ld.X.(*ssa.FieldAddr)
				if !ok {
					continue
				}
				key := an.FieldName(fa.X.Type(), fa.Field)
				for _, f := range p.facts(w) {
					if !f.NonNum || f.Rel != "==" {
						continue
					}
					for _, pr := range [][2]string{{f.L, f.R}, {f.R, f.L}} {
						if cv, err := strconv.Unquote(pr[0]); err == nil && cv != "" && strings.HasPrefix(pr[1], "param#") {
							fieldChain[key] = cv
						}
					}
				}
			}
		}
	}
	resolved := len(fieldChain) > 0
	out := map[string][]*ssa.Function{}
	add := func(chain string, fn *ssa.Function) {
		for _, x := range out[chain] {
			if x == fn {
				return
			}
		}
		out[chain] = append(out[chain], fn)
	}
	var concrete func(v ssa.Value, depth int, seen map[ssa.Value]bool, emit func(types.Type))
	concrete = func(v ssa.Value, depth int, seen map[ssa.Value]bool, emit func(types.Type)) {
		if v == nil || seen[v] {
			return
		}
		seen[v] = true
		switch x := v.(type) {
		case *ssa.MakeInterface:
			emit(x.X.Type())
		case *ssa.Const:
			// nil: chain disabled
		case *ssa.ChangeInterface:
			concrete(x.X, depth, seen, emit)
		case *ssa.Phi:
			for _, e := range x.Edges {
				concrete(e, depth, seen, emit)
			}
		case *ssa.UnOp:
			al, ok := x.X.(*ssa.Alloc)
			if !ok || x.Op != token.MUL || al.Referrers() == nil {
				resolved = false
				return
			}
			for _, r := range *al.Referrers() {
				if st, ok := r.(*ssa.Store); ok && st.Addr == al {
					concrete(st.Val, depth, seen, emit)
				}
			}
		case *ssa.Parameter:
			fn := x.Parent()
			idx := -1
			for i, p := range fn.Params {
				if p == x {
					idx = i
				}
			}
			found := false
			if depth < 3 {
				for _, g := range prodFuncs(w) {
					for _, gc := range an.Calls(g) {
						if gc.Common().StaticCallee() == fn && idx >= 0 && idx < len(gc.Common().Args) {
							found = true
							concrete(gc.Common().Args[idx], depth+1, seen, emit)
						}
					}
				}
			}
			if !found {
				resolved = false
			}
		default:
			resolved = false
		}
	}
	for key, chain := range fieldChain {
		ws := w.FieldWriters(key)
		if len(ws) == 0 {
			resolved = false
		}
		for _, st := range ws {
			if an.IsTestSupport(w.FnRel(st.Parent())) || isDummy(w, st.Parent()) {
				continue
			}
			concrete(st.Val, 0, map[ssa.Value]bool{}, func(t types.Type) {
				n := an.NamedOf(t)
				if n == nil {
					resolved = false
					return
				}
				m := w.Method(n, "AddWaitForConfirmationTx")
				if m == nil || m.Blocks == nil {
					resolved = false
					return
				}
				if !isDummy(w, m) {
					add(chain, m)
				}
			})
		}
	}
	if !resolved {
		all := implementers(w, "swap", "TxWatcher", "AddWaitForConfirmationTx")
		chains := map[string]bool{}
		for _, c := range fieldChain {
			chains[c] = true
		}
		for c := range chains {
			for _, m := range all {
				if !isDummy(w, m) {
					add(c, m)
				}
			}
		}
	}
	for c := range out {
		fs := out[c]
		sort.Slice(fs, func(i, j int) bool { return w.FuncName(fs[i]) < w.FuncName(fs[j]) })
	}
	return out, resolved
}

// c16WindowParam: index (among the interface method's parameters) of the
// deadline / window parameter of TxWatcher.AddWaitForConfirmationTx.
func c16WindowParam(w *an.World) int {
	n := w.Named("swap", "TxWatcher")
	if n == nil {
		return -1
	}
	it, ok := n.Underlying().(*types.Interface)
	if !ok {
		return -1
	}
	for i := 0; i < it.NumMethods(); i++ {
		if it.Method(i).Name() != "AddWaitForConfirmationTx" {
			continue
		}
		ps := it.Method(i).Type().(*types.Signature).Params()
		for k := 0; k < ps.Len(); k++ {
			nm := strings.ToLower(ps.At(k).Name())
			if strings.Contains(nm, "window") || strings.Contains(nm, "deadline") {
				return k
			}
		}
	}
	return -1
}

// c16ParamUsed: the parameter is read somewhere in the method.
func c16ParamUsed(fn *ssa.Function, ifaceIdx int) bool {
	k := ifaceIdx
	if fn.Signature.Recv() != nil {
		k++
	}
	if k < 0 || k >= len(fn.Params) {
		return false
	}
	refs := fn.Params[k].Referrers()
	if refs == nil {
		return false
	}
	for _, r := range *refs {
		if _, dbg := r.(*ssa.DebugRef); !dbg {
			return true
		}
	}
	return false
}

// c16ChainCompat: can a point reached under these facts belong to a swap on the
// given chain? 1 yes, 0 no (a `GetChain() == other` / `GetChain() != chain` fact),
// -1 a chain-related condition could not be interpreted.
func c16ChainCompat(w *an.World, fs []an.Fact, chain string) int {
	res := 1
	for _, f := range fs {
		if f.NonNum && (f.Rel == "==" || f.Rel == "!=") {
			for _, pr := range [][2]string{{f.L, f.R}, {f.R, f.L}} {
				if !strings.Contains(pr[0], ").GetChain") {
					continue
				}
				cv, err := strconv.Unquote(pr[1])
				if err != nil {
					res = -1
					continue
				}
				if (f.Rel == "==") != (cv == chain) {
					return 0
				}
			}
			continue
		}
		if f.Rel == "true" || f.Rel == "false" {
			// a predicate helper that looks at the chain (isLiquidSwap() and the like)
			if call, ok := f.Cond.(*ssa.Call); ok {
				if g := w.Info(call).Static; g != nil && w.InModule(g) && g.Blocks != nil {
					if strings.HasSuffix(w.FuncName(g), ").GetChain") {
						res = -1
					}
					for _, ef := range w.Summary(g).Effects {
						if strings.HasSuffix(ef.Name, ").GetChain") {
							res = -1
						}
					}
				}
			}
		}
	}
	return res
}

func c16ConfirmationDeadline(c *an.Check, t *TI, s string) {
	w := c.W
	e := t.T.States[s]
	ss := t.Sum[s]
	byChain, resolved := c16WatchersByChain(w)
	win := c16WindowParam(w)
	if len(byChain) == 0 || win < 0 {
		c.Unknown("C16.R1", t.key(s)+" confirmation-deadline", t.pos(c, s), "cannot relate chains to TxWatcher implementations (no function of package swap returns a TxWatcher field under a chain test, or AddWaitForConfirmationTx has no window/deadline parameter)")
		return
	}
	var chains []string
	for ch := range byChain {
		chains = append(chains, ch)
	}
	sort.Strings(chains)
	for _, chain := range chains {
		cons := t.key(s) + " confirmation-deadline " + chain
		// (a) the action itself, re-run by Recover, fails on a passed height for this chain
		action, uncertain := "", false
		for ev := range ss.Events {
			if ev == evNoOp {
				continue
			}
			if _, ok := e.Events[ev]; !ok {
				continue
			}
			for _, fn := range ss.Execs {
				for _, fs := range c16HeightPoints(w, fn, ev, nil, 0, map[*ssa.Function]bool{}, nil) {
					switch c16ChainCompat(w, fs, chain) {
					case 1:
						action = "the action returns a height-dependent " + ev + " on the " + chain + " side"
					case -1:
						uncertain = true
					}
				}
			}
		}
		if action != "" {
			c.OK("C16.R1", cons, t.pos(c, s), action+" (re-run by Recover)")
			continue
		}
		// (b) every watcher that serves the chain enforces the window it is given
		var ignoring, using []string
		for _, m := range byChain[chain] {
			if c16ParamUsed(m, win) {
				using = append(using, w.FuncName(m))
			} else {
				ignoring = append(ignoring, w.FuncName(m)+" ("+w.Pos(m.Pos())+")")
			}
		}
		switch {
		case len(ignoring) == 0 && len(using) > 0:
			c.OK("C16.R1", cons, t.pos(c, s), "every watcher wired in for "+chain+" reads the window it is given: "+strings.Join(using, ", "))
		case len(ignoring) == 0:
			c.Unknown("C16.R1", cons, t.pos(c, s), "no TxWatcher implementation found for "+chain)
		case uncertain || !resolved:
			c.Unknown("C16.R1", cons, t.pos(c, s), "no height-driven failure of the action was recognised for "+chain+" (a chain condition could not be interpreted, or the watcher wiring could not be traced) and "+strings.Join(ignoring, ", ")+" ignores its window parameter")
		default:
			c.Bad("C16.R1", cons, t.pos(c, s), fmt.Sprintf("waiting state (action %v) on chain %s with watcher %s: the watcher ignores the deadline/window parameter of AddWaitForConfirmationTx (it only calls back on confirmation) and the action, re-run by Recover, has no `height >= start + K -> failure` test on the %s side: an opening transaction that never confirms keeps the swap and its channel here across every restart", e.ActionNames(), chain, strings.Join(ignoring, ", "), chain))
		}
	}
}

// ---- R5: callbacks deliver their event ------------------------------------------------------------------

// c16Skip is a branch edge of a callback on which delivery is abandoned: its
// source block can still reach a SendEvent, its target cannot.
type c16Skip struct {
	fn       *ssa.Function
	edge     an.Edge
	fact     an.Fact
	kind     string // not-found | input | dispatch | state | unknown
	events   []string
	excluded []string // kind state: accepting (table/state) pairs that take the skip
}

type c16Delivery struct {
	events map[string]bool
	skips  []c16Skip
	none   bool // no SendEvent reachable at all
}

// c16Accepting lists the "table/state" keys that accept one of the events (and
// pass the optional filter), with the state's value.
func c16Accepting(ts []*TI, events []string, filter func(t *TI, s string) bool) map[string]string {
	out := map[string]string{}
	for _, t := range ts {
		for _, s := range t.T.Order {
			for _, ev := range events {
				if _, ok := t.T.States[s].Events[ev]; ok && (filter == nil || filter(t, s)) {
					out[t.key(s)+" (accepts "+ev+")"] = s
				}
			}
		}
	}
	return out
}

// c16ErrEdge: the edge carrying fact f is taken only when the error result of
// call k is non-nil.
func c16ErrEdge(w *an.World, f an.Fact, k *ssa.Call) bool {
	idx := an.ErrResultIndex(k)
	if idx < 0 {
		return false
	}
	_, fail := an.OkEdges(k)
	for _, e := range fail {
		if e == f.Edge {
			return true
		}
	}
	isErr := func(v ssa.Value) bool {
		if v == nil {
			return false
		}
		for _, l := range w.Sources(v, an.FlowOpts{}).Leaves {
			if l.Kind == "call" && l.Call == k && l.Idx == idx {
				return true
			}
		}
		return false
	}
	// err == <package-level sentinel>
	if f.NonNum && f.Rel == "==" {
		if (isErr(f.LV) && strings.HasPrefix(w.Term(f.RV), "global:")) || (isErr(f.RV) && strings.HasPrefix(w.Term(f.LV), "global:")) {
			return true
		}
		if bo, ok := f.Cond.(*ssa.BinOp); ok {
			if (isErr(bo.X) && strings.HasPrefix(w.Term(bo.Y), "global:")) || (isErr(bo.Y) && strings.HasPrefix(w.Term(bo.X), "global:")) {
				return true
			}
		}
	}
	// errors.Is(err, sentinel)
	if f.Rel == "true" {
		if call, ok := f.Cond.(*ssa.Call); ok && w.Info(call).Name == "func:errors.Is" && len(call.Call.Args) == 2 && isErr(call.Call.Args[0]) {
			return true
		}
	}
	return false
}

// c16InputOnly: v is computed from constants, package-level values and the
// callback's own parameters only (parameters of inner frames are bound through
// the call stack).
func c16InputOnly(w *an.World, v ssa.Value, stack []ssa.CallInstruction, depth int) (pure, hasParam bool) {
	if v == nil {
		return true, false
	}
	src := w.Sources(v, an.FlowOpts{})
	if len(src.Leaves) == 0 {
		return false, false
	}
	pure = true
	for _, l := range src.Leaves {
		switch l.Kind {
		case "const", "zero", "global":
		case "param":
			p, ok := l.Val.(*ssa.Parameter)
			if !ok {
				return false, false
			}
			if len(stack) == 0 || stack[0].Common().StaticCallee() != p.Parent() {
				hasParam = true
				continue
			}
			bound := false
			for i, q := range p.Parent().Params {
				if q == p && i < len(stack[0].Common().Args) && depth < 4 {
					bound = true
					pp, hp := c16InputOnly(w, stack[0].Common().Args[i], stack[1:], depth+1)
					if !pp {
						return false, false
					}
					hasParam = hasParam || hp
				}
			}
			if !bound {
				return false, false
			}
		default:
			return false, false
		}
	}
	return pure, hasParam
}

func c16IsSwapMachine(t types.Type) bool {
	n := an.NamedOf(t)
	return n != nil && n.Obj().Name() == "SwapStateMachine"
}

// c16AnalyseDelivery finds the branch edges of fn (and of the in-module callees
// through which it sends) on which an event is not delivered although the swap
// was found, and classifies their conditions.
func c16AnalyseDelivery(c *an.Check, ts []*TI, fn *ssa.Function, stack []ssa.CallInstruction, filter func(t *TI, s string) bool, seen map[*ssa.Function]bool) *c16Delivery {
	w := c.W
	out := &c16Delivery{events: map[string]bool{}}
	se := w.Func("swap", "(*SwapStateMachine).SendEvent")
	if fn == nil || fn.Blocks == nil || se == nil || seen[fn] || len(stack) > 3 {
		out.none = true
		return out
	}
	seen[fn] = true
	defer delete(seen, fn)
	reachesSend := func(g *ssa.Function) bool {
		for _, ef := range w.Summary(g).Effects {
			if ef.Info.Static == se && !strings.HasPrefix(ef.Name, "go:") {
				return true
			}
		}
		return false
	}
	var resolveEvents func(v ssa.Value, st []ssa.CallInstruction) []string
	resolveEvents = func(v ssa.Value, st []ssa.CallInstruction) []string {
		if p, ok := v.(*ssa.Parameter); ok && len(st) > 0 && st[0].Common().StaticCallee() == p.Parent() {
			for i, q := range p.Parent().Params {
				if q == p && i < len(st[0].Common().Args) {
					return resolveEvents(st[0].Common().Args[i], st[1:])
				}
			}
		}
		return eventValues(w, v)
	}
	// delivery points and the events they deliver
	dEvents := map[ssa.Instruction][]string{}
	var lookups []*ssa.Call
	for _, call := range an.Calls(fn) {
		if _, isGo := call.(*ssa.Go); isGo {
			continue
		}
		g := call.Common().StaticCallee()
		if g == nil {
			continue
		}
		if g == se {
			if args := call.Common().Args; len(args) >= 2 {
				dEvents[call] = resolveEvents(args[1], stack)
			}
			continue
		}
		if cv, ok := call.(*ssa.Call); ok && an.ErrResultIndex(cv) >= 0 {
			res := g.Signature.Results()
			for i := 0; i < res.Len(); i++ {
				if c16IsSwapMachine(res.At(i).Type()) {
					lookups = append(lookups, cv)
				}
			}
		}
		if w.InModule(g) && g.Blocks != nil && reachesSend(g) {
			sub := c16AnalyseDelivery(c, ts, g, append([]ssa.CallInstruction{call}, stack...), filter, seen)
			if sub.none {
				continue
			}
			var evs []string
			for ev := range sub.events {
				evs = append(evs, ev)
			}
			sort.Strings(evs)
			dEvents[call] = evs
			for _, sk := range sub.skips {
				if sk.kind == "unknown" || (sk.kind == "state" && len(sk.excluded) > 0) {
					out.skips = append(out.skips, sk)
				}
			}
		}
	}
	if len(dEvents) == 0 {
		out.none = true
		return out
	}
	for _, evs := range dEvents {
		for _, ev := range evs {
			out.events[ev] = true
		}
	}
	dBlock := map[*ssa.BasicBlock]bool{}
	for in := range dEvents {
		dBlock[in.Block()] = true
	}
	// live: a delivery point is still reachable from the start of the block
	live := map[*ssa.BasicBlock]bool{}
	for _, b := range fn.Blocks {
		for rb := range an.ReachBlocks([]*ssa.BasicBlock{b}, nil, nil) {
			if dBlock[rb] {
				live[b] = true
				break
			}
		}
	}
	if !live[fn.Blocks[0]] {
		out.none = true
		return out
	}
	// pre-delivery region: reached from the entry without passing a delivery block
	pre := an.ReachBlocks([]*ssa.BasicBlock{fn.Blocks[0]}, nil, dBlock)
	for _, b := range fn.Blocks {
		if !pre[b] || dBlock[b] || len(b.Instrs) == 0 {
			continue
		}
		ifi, ok := b.Instrs[len(b.Instrs)-1].(*ssa.If)
		if !ok {
			continue
		}
		tf, ff := w.FactsOfIf(ifi)
		for i, f := range []an.Fact{tf, ff} {
			if live[b.Succs[i]] {
				continue
			}
			sk := c16Skip{fn: fn, edge: an.Edge{From: b, Idx: i}, fact: f, kind: "unknown"}
			// events that could still have been delivered from here
			evSet := map[string]bool{}
			reach := an.ReachBlocks([]*ssa.BasicBlock{b}, nil, nil)
			for in, evs := range dEvents {
				if reach[in.Block()] {
					for _, ev := range evs {
						evSet[ev] = true
					}
				}
			}
			for ev := range evSet {
				sk.events = append(sk.events, ev)
			}
			sort.Strings(sk.events)
			c16ClassifySkip(c, ts, &sk, lookups, stack, filter)
			out.skips = append(out.skips, sk)
		}
	}
	return out
}

func c16ClassifySkip(c *an.Check, ts []*TI, sk *c16Skip, lookups []*ssa.Call, stack []ssa.CallInstruction, filter func(t *TI, s string) bool) {
	w := c.W
	f := sk.fact
	// the swap was not found
	for _, l := range lookups {
		if c16ErrEdge(w, f, l) {
			sk.kind = "not-found"
			return
		}
	}
	// an argument of the callback could not be decoded
	for _, call := range an.Calls(sk.fn) {
		k, ok := call.(*ssa.Call)
		if !ok || an.ErrResultIndex(k) < 0 || !c16ErrEdge(w, f, k) {
			continue
		}
		pure := true
		for _, a := range k.Common().Args {
			if p, _ := c16InputOnly(w, a, stack, 0); !p {
				pure = false
			}
		}
		if k.Common().IsInvoke() {
			pure = false
		}
		if pure {
			sk.kind = "input"
			return
		}
	}
	// dispatch on the callback's own arguments (which notification is this?)
	ops := []ssa.Value{}
	switch cv := f.Cond.(type) {
	case *ssa.BinOp:
		ops = append(ops, cv.X, cv.Y)
	case *ssa.UnOp:
		ops = append(ops, cv.X)
	case *ssa.Call:
		// a predicate call: not a plain dispatch
	default:
		if f.Cond != nil {
			ops = append(ops, f.Cond)
		}
	}
	if len(ops) > 0 {
		allPure, anyParam := true, false
		for _, op := range ops {
			p, hp := c16InputOnly(w, op, stack, 0)
			if !p {
				allPure = false
			}
			anyParam = anyParam || hp
		}
		if allPure && anyParam {
			sk.kind = "dispatch"
			return
		}
	}
	// a test of the swap's current state: evaluate it for every accepting state
	acc := c16Accepting(ts, sk.events, filter)
	if len(acc) == 0 {
		return
	}
	dom := w.FactsDominatingBlock(sk.edge.From)
	evaluable := true
	var excluded []string
	for key, st := range acc {
		env := &c16Env{w: w, cur: st}
		v := env.evalFact(f)
		if v < 0 {
			evaluable = false
			break
		}
		if v == 0 {
			continue
		}
		// does a record in this state get here at all?
		gets := true
		for _, df := range dom {
			if env.evalFact(df) == 0 {
				gets = false
			}
		}
		if gets {
			excluded = append(excluded, key)
		}
	}
	if !evaluable {
		return
	}
	sort.Strings(excluded)
	sk.kind = "state"
	sk.excluded = excluded
}

// c16ReportDelivery turns the analysis of one callback into an obligation.
func c16ReportDelivery(c *an.Check, rule string, root *ssa.Function, d *c16Delivery) {
	w := c.W
	var evs []string
	for ev := range d.events {
		evs = append(evs, ev)
	}
	sort.Strings(evs)
	cons := w.FuncName(root) + " delivers " + strings.Join(evs, ",")
	pos := w.Pos(root.Pos())
	if d.none {
		c.Unknown(rule, w.FuncName(root)+" delivers", pos, "no SendEvent is reachable from the entry of this callback through static in-module calls")
		return
	}
	var bad, unk, ok []string
	for _, sk := range d.skips {
		at := w.FuncName(sk.fn)
		if sk.fact.Cond != nil && sk.fact.Cond.Pos().IsValid() {
			at += " " + w.Pos(sk.fact.Cond.Pos())
		}
		switch {
		case sk.kind == "state" && len(sk.excluded) > 0:
			bad = append(bad, "the skip on `"+sk.fact.String()+"` ("+at+") is taken in "+strings.Join(sk.excluded, ", ")+": the event is dropped although the tables accept it there")
		case sk.kind == "unknown":
			unk = append(unk, "delivery is skipped on `"+sk.fact.String()+"` ("+at+"), a condition that is neither swap-not-found, an undecodable argument, a dispatch on the callback's arguments, nor a test of the current state that could be evaluated")
		default:
			ok = append(ok, sk.kind+": "+sk.fact.String())
		}
	}
	switch {
	case len(bad) > 0:
		c.Bad(rule, cons, pos, strings.Join(bad, "; "))
	case len(unk) > 0:
		c.Unknown(rule, cons, pos, strings.Join(unk, "; "))
	default:
		detail := "every path on which the swap was found reaches SendEvent"
		if len(ok) > 0 {
			detail += " (skips: " + strings.Join(ok, "; ") + ")"
		}
		c.OK(rule, cons, pos, detail)
	}
}

// c16TimeoutCallbacks finds the function that the timeout service runs when a
// timer fires: the func value that a (non-dummy) implementation of
// TimeOutService.addNewTimeOut hands on, traced through the service's factory
// field to the closure the factory returns. Falls back to the functions that
// send Event_OnTimeout.
func c16TimeoutCallbacks(c *an.Check, srcs []EventSource) []*ssa.Function {
	w := c.W
	var out []*ssa.Function
	seenF := map[*ssa.Function]bool{}
	add := func(f *ssa.Function) {
		if f != nil && f.Blocks != nil && !seenF[f] {
			seenF[f] = true
			out = append(out, f)
		}
	}
	// function values a func-typed value may denote, through parameters and callers
	var fvals func(v ssa.Value, depth int) []*ssa.Function
	fvals = func(v ssa.Value, depth int) []*ssa.Function {
		if fs := funcValues(v); len(fs) > 0 || depth > 3 {
			return fs
		}
		var res []*ssa.Function
		if p, ok := v.(*ssa.Parameter); ok {
			fn := p.Parent()
			for i, q := range fn.Params {
				if q != p {
					continue
				}
				for _, g := range prodFuncs(w) {
					for _, gc := range an.Calls(g) {
						if gc.Common().StaticCallee() == fn && i < len(gc.Common().Args) {
							res = append(res, fvals(gc.Common().Args[i], depth+1)...)
						}
					}
				}
			}
		}
		return res
	}
	for _, impl := range implementers(w, "swap", "TimeOutService", "addNewTimeOut") {
		if isDummy(w, impl) {
			continue
		}
		for _, call := range an.Calls(impl) {
			for _, a := range call.Common().Args {
				if _, isFunc := a.Type().Underlying().(*types.Signature); !isFunc {
					continue
				}
				for _, f := range funcValues(a) {
					add(f)
				}
				// the result of calling a factory held in a field
				fc, ok := a.(*ssa.Call)
				if !ok {
					continue
				}
				var factories []*ssa.Function
				if g := fc.Common().StaticCallee(); g != nil {
					factories = append(factories, g)
				} else if ld, ok := fc.Common().Value.(*ssa.UnOp); ok && ld.Op == token.MUL {
					if fa, ok := ld.X.(*ssa.FieldAddr); ok {
						for _, st := range w.FieldWriters(an.FieldName(fa.X.Type(), fa.Field)) {
							if an.IsTestSupport(w.FnRel(st.Parent())) {
								continue
							}
							factories = append(factories, fvals(st.Val, 0)...)
						}
					}
				}
				for _, fac := range factories {
					for _, r := range an.Returns(fac) {
						for _, rv := range r.Results {
							for _, f := range funcValues(rv) {
								add(f)
							}
						}
					}
				}
			}
		}
	}
	// keep those that really send the timeout event
	var sending []*ssa.Function
	for _, f := range out {
		if eventsSentFrom(c, f, srcs)[evTimeout] {
			sending = append(sending, f)
		}
	}
	if len(sending) > 0 {
		return sending
	}
	fsmOwn := map[*ssa.Function]bool{w.Func("swap", "(*SwapStateMachine).SendEvent"): true, w.Func("swap", "(*SwapStateMachine).Recover"): true}
	seenF = map[*ssa.Function]bool{}
	out = nil
	for _, s := range srcs {
		if s.Event == evTimeout && !fsmOwn[s.Fn] {
			add(s.Fn)
		}
	}
	return out
}

// ---- R6: in-flight markers are released -------------------------------------------------------------

// c16InFlightMarkers looks, in the packages of the TxWatcher implementations, at
// every function that invokes a func value (a registered callback). A marker is
// a map entry that the function sets on a path to that invocation and whose
// presence is tested somewhere in the package with a comma-ok lookup of the same
// map (the "someone is already reporting this swap" skip). Every path from the
// invocation to a return must delete the entry (directly, in a deferred call
// that was registered before the invocation, or in a callee), or else take the
// swap off the watch lists (delete the same key from another map of the
// receiver): otherwise the swap is skipped forever.
func c16InFlightMarkers(c *an.Check) {
	w := c.W
	rels := map[string]bool{}
	for _, meth := range []string{"AddWaitForCsvTx", "AddWaitForConfirmationTx"} {
		for _, m := range implementers(w, "swap", "TxWatcher", meth) {
			if isDummy(w, m) {
				continue
			}
			rels[w.FnRel(m)] = true
			for _, ef := range w.Summary(m).Effects {
				if ef.Info.Static != nil && w.InModule(ef.Info.Static) {
					if r := w.FnRel(ef.Info.Static); r != "" && r != "log" && r != "swap" {
						rels[r] = true
					}
				}
			}
		}
	}
	// comma-ok tests per map term, package wide
	tested := map[string]bool{}
	var fns []*ssa.Function
	for _, fn := range prodFuncs(w) {
		if !rels[w.FnRel(fn)] || isDummy(w, fn) || fn.Blocks == nil {
			continue
		}
		fns = append(fns, fn)
		for _, b := range fn.Blocks {
			for _, in := range b.Instrs {
				if lk, ok := in.(*ssa.Lookup); ok && lk.CommaOk {
					if _, isMap := lk.X.Type().Underlying().(*types.Map); isMap {
						tested[w.Term(lk.X)] = true
					}
				}
			}
		}
	}
	// deletes of map term mt (key term kt) made by fn itself
	deletesIn := func(fn *ssa.Function, mt, kt string, sameMap bool) []ssa.Instruction {
		var out []ssa.Instruction
		for _, call := range an.Calls(fn) {
			if w.Info(call).Name != "builtin:delete" || len(call.Common().Args) != 2 {
				continue
			}
			if _, isDefer := call.(*ssa.Defer); isDefer {
				continue
			}
			m, k := w.Term(call.Common().Args[0]), w.Term(call.Common().Args[1])
			if (m == mt) == sameMap && strings.HasPrefix(m, "field:") && (k == kt || kt == "") {
				out = append(out, call)
			}
		}
		return out
	}
	nFn, nMarker := 0, 0
	for _, fn := range fns {
		var dyn []ssa.CallInstruction
		for _, call := range an.Calls(fn) {
			cc := call.Common()
			if cc.IsInvoke() || cc.StaticCallee() != nil {
				continue
			}
			if _, isB := cc.Value.(*ssa.Builtin); isB {
				continue
			}
			if _, isGo := call.(*ssa.Go); isGo {
				continue
			}
			if _, isDefer := call.(*ssa.Defer); isDefer {
				continue
			}
			// a registered callback: the func value is read from a struct field
			// (not a local func such as a context's cancel)
			fromField := false
			for _, l := range w.Sources(cc.Value, an.FlowOpts{}).Leaves {
				if l.Kind == "field" {
					fromField = true
				}
			}
			if !fromField {
				continue
			}
			dyn = append(dyn, call)
		}
		if len(dyn) == 0 {
			continue
		}
		nFn++
		for _, b := range fn.Blocks {
			for _, in := range b.Instrs {
				mu, ok := in.(*ssa.MapUpdate)
				if !ok {
					continue
				}
				mt, kt := w.Term(mu.Map), w.Term(mu.Key)
				if !strings.HasPrefix(mt, "field:") || !tested[mt] {
					continue
				}
				for _, d := range dyn {
					if !pathAvoiding(mu, d, nil) {
						continue // not set before this invocation
					}
					nMarker++
					cons := w.FuncName(fn) + " in-flight-marker " + strings.TrimPrefix(mt, "field:")
					pos := w.Pos(mu.Pos())
					// released by a defer that is registered on every path to the invocation?
					deferred := false
					for _, call := range an.Calls(fn) {
						df, isDefer := call.(*ssa.Defer)
						if !isDefer || !an.MustPassInstr(d, []ssa.Instruction{df}) {
							continue
						}
						if w.Info(call).Name == "builtin:delete" && len(df.Call.Args) == 2 && w.Term(df.Call.Args[0]) == mt {
							deferred = true
						}
						if g := df.Call.StaticCallee(); g != nil && g.Blocks != nil {
							for _, gc := range an.Calls(g) {
								if w.Info(gc).Name == "builtin:delete" && len(gc.Common().Args) == 2 && w.Term(gc.Common().Args[0]) == mt {
									deferred = true
								}
							}
						}
					}
					if deferred {
						c.OK("C16.R6", cons, pos, "the entry is deleted by a deferred call registered before the callback runs")
						continue
					}
					rel := deletesIn(fn, mt, kt, true)
					// callees that delete the entry of the same receiver map
					opaque := false
					for _, call := range an.Calls(fn) {
						g := call.Common().StaticCallee()
						if g == nil || !w.InModule(g) || g.Blocks == nil || g == fn {
							continue
						}
						if _, isCall := call.(*ssa.Call); !isCall {
							continue
						}
						if ds := deletesIn(g, mt, "", true); len(ds) > 0 {
							all := true
							for _, r := range an.Returns(g) {
								if !an.MustPassInstr(r, ds) {
									all = false
								}
							}
							if all {
								rel = append(rel, call)
							} else {
								opaque = true
							}
						}
					}
					unlist := deletesIn(fn, mt, kt, false)
					var kept, unlisted []string
					for _, r := range an.Returns(fn) {
						if !pathAvoiding(d, r, rel) {
							continue
						}
						if pathAvoiding(d, r, append(append([]ssa.Instruction{}, rel...), unlist...)) {
							kept = append(kept, w.Pos(r.Pos()))
						} else {
							unlisted = append(unlisted, w.Pos(r.Pos()))
						}
					}
					switch {
					case len(kept) == 0:
						detail := "every path from the callback to an exit deletes the entry"
						if len(unlisted) > 0 {
							detail += " or takes the swap off the watch lists"
						}
						c.OK("C16.R6", cons, pos, detail)
					case opaque:
						c.Unknown("C16.R6", cons, pos, "a callee deletes the entry only on some of its paths: could not decide whether the exits at "+strings.Join(kept, ", ")+" release the marker")
					default:
						c.Bad("C16.R6", cons, pos, "the entry set here before the callback at "+w.Pos(d.Pos())+" makes later scans skip the swap (comma-ok test of the same map), and the exit at "+strings.Join(kept, ", ")+" is reached after the callback without deleting it and without taking the swap off the watch lists: after one failed report (for example a transient store error behind the callback) the swap is skipped forever, the CSV claim never happens and the channel stays locked")
					}
				}
			}
		}
	}
	c.AtLeast("C16.R6", "watcher functions that invoke a registered callback", nFn, 3)
	if nMarker == 0 {
		c.OK("C16.R6", "watcher report paths in-flight-markers", "", "no function of the watcher packages sets a map entry before invoking a callback that is tested as a skip")
	}
}
