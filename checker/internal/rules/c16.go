package rules

import (
	"fmt"
	"strings"

	"golang.org/x/tools/go/ssa"

	"psv/internal/an"
)

func init() {
	Register(&Prop{
		ID:   "C16",
		Expl: "Decides the graph-shaped necessary condition of termination: no state is a sink for a silent peer. For every state of the four tables: (R1) a state whose action may return NoOp (a waiting state) has an exit that does not depend on the peer and survives restarts — it is FailOnrecover, or its action registers a chain watch whose callback events it accepts, or its re-execution by Recover can itself return a non-NoOp event that depends on the block height; in-memory timers alone do not count because a restart drops them; (R2) from every state some terminal state is reachable using only such exits and the events actions return; every event an action can return is accepted by its state (info); (R3) terminal actions return only Event_Done and every SendEvent/Recover call site in the service releases the channel when done; (R4) every state that can be on disk (including the default state, which SendEvent persists before the first transition) is handled by Recover.",
		NotD: "Fairness of watchers and services, actual time bounds, that failing services eventually succeed.",
		Run:  runC16,
	})
}

func runC16(c *an.Check) {
	c.Rule("C16.R1", "every waiting state has a peer-independent exit that survives restarts")
	c.Rule("C16.R2", "from every state a terminal state is reachable over peer-independent exits")
	c.Rule("C16.R3", "terminal actions return Event_Done; every SendEvent/Recover caller removes the swap when done")
	c.Rule("C16.R4", "every persistable state is recoverable")
	if !needEffects(c, fxWaitConf, fxWaitCsv, fxBlockHeight) {
		return
	}
	w := c.W
	ts := tables(c)
	if ts == nil {
		return
	}
	srcs := eventSources(c)
	watchEvents := map[string]map[string]bool{fxWaitConf: {}, fxWaitCsv: {}}
	for _, f := range callbackTargets(w, "iface:swap.TxWatcher.AddConfirmationCallback") {
		for e := range eventsSentFrom(c, f, srcs) {
			watchEvents[fxWaitConf][e] = true
		}
	}
	for _, f := range callbackTargets(w, "iface:swap.TxWatcher.AddCsvCallback") {
		for e := range eventsSentFrom(c, f, srcs) {
			watchEvents[fxWaitCsv][e] = true
		}
	}
	c.AtLeast("C16.R1", "events injected by the confirmation callback", len(watchEvents[fxWaitConf]), 2)
	c.AtLeast("C16.R1", "events injected by the CSV callback", len(watchEvents[fxWaitCsv]), 1)

	nWait := 0
	var actionless []string
	for _, t := range ts {
		// exits[s] = peer-independent successor states
		exits := map[string]map[string]bool{}
		for _, s := range t.T.Order {
			e := t.T.States[s]
			ss := t.Sum[s]
			exits[s] = map[string]bool{}
			if e.Terminal() {
				continue
			}
			if len(e.Actions) == 0 {
				// default state: left by the creating event, handled by R4
				for _, nx := range e.Events {
					exits[s][nx] = true
				}
				continue
			}
			// events the action itself returns
			for ev := range ss.Events {
				if ev == evNoOp || ev == evDone {
					continue
				}
				if nx, ok := e.Events[ev]; ok {
					exits[s][nx] = true
				} else {
					c.Note("C16.R2", t.key(s)+" returns-unaccepted "+ev, t.pos(c, s), "the action can return "+ev+" which the state does not accept: SendEvent rejects it and the swap stays here until the next restart re-executes the action")
				}
			}
			if !ss.Events[evNoOp] {
				continue
			}
			nWait++
			var how []string
			if e.FailOnRecover {
				if nx, ok := e.Events[evFailed]; ok {
					exits[s][nx] = true
					how = append(how, "FailOnrecover")
				}
			}
			for fx, evs := range watchEvents {
				if !ss.HasEffect(fx) {
					continue
				}
				for ev := range evs {
					if nx, ok := e.Events[ev]; ok {
						exits[s][nx] = true
						how = append(how, "chain watch "+strings.TrimPrefix(fx, "iface:swap.TxWatcher.")+" -> "+ev)
					}
				}
			}
			// re-execution that depends on the block height and can fail
			if ss.HasEffect(fxBlockHeight) {
				for ev := range ss.Events {
					if ev == evNoOp {
						continue
					}
					if nx, ok := e.Events[ev]; ok && c16DependsOnHeight(w, ss, ev) {
						exits[s][nx] = true
						how = append(how, "re-executed by Recover: height-dependent "+ev)
					}
				}
			}
			timer := ""
			if _, ok := e.Events[evTimeout]; ok {
				timer = " (it accepts Event_OnTimeout, but timers live in memory only and are not re-armed by Recover)"
			}
			c.Decide(len(how) > 0, "C16.R1", t.key(s)+" silent-peer-exit", t.pos(c, s), strings.Join(how, "; "),
				fmt.Sprintf("waiting state (action %v returns NoOp) has no exit that survives a restart when the peer stays silent%s: after a restart the swap waits here forever and keeps its channel locked", e.ActionNames(), timer))
		}
		// R2: terminal reachable over exits
		for _, s := range t.T.Order {
			if t.T.States[s].Terminal() {
				continue
			}
			seen := map[string]bool{s: true}
			st := []string{s}
			found := false
			for len(st) > 0 && !found {
				x := st[len(st)-1]
				st = st[:len(st)-1]
				for nx := range exits[x] {
					if t.T.States[nx].Terminal() {
						found = true
					}
					if !seen[nx] {
						seen[nx] = true
						st = append(st, nx)
					}
				}
			}
			c.Decide(found, "C16.R2", t.key(s)+" reaches-terminal", t.pos(c, s), "a terminal state is reachable without the peer", "no terminal state is reachable from here without a message from the peer")
		}
		// R3 terminal actions
		for _, s := range t.terminals() {
			ss := t.Sum[s]
			c.Decide(len(ss.Events) == 1 && ss.Events[evDone] && !ss.Unknown, "C16.R3", t.key(s)+" returns-done", t.pos(c, s), "terminal action returns Event_Done", fmt.Sprintf("terminal action returns %v: SendEvent does not report done and the channel is never released", sortedKeys(ss.Events)))
		}
		// R4: persistable states are recoverable
		for _, s := range t.T.Order {
			if len(t.T.States[s].Actions) == 0 {
				actionless = append(actionless, t.key(s))
			}
		}
	}
	if len(actionless) > 0 {
		c.Decide(c16RecoverHandlesNilAction(w), "C16.R4", "(*SwapStateMachine).Recover action-less persisted state", w.Pos(ts[0].T.Pos), "Recover finishes a swap found in a state without action ("+strings.Join(actionless, ", ")+")",
			"SendEvent persists the record before the first transition, so the action-less states "+strings.Join(actionless, ", ")+" can be on disk (crash while the first action runs); Recover returns ErrFsmConfig for them, RecoverSwaps only logs that, and the swap stays in activeSwaps (channel locked, HasActiveSwaps true) after every restart")
	}
	c.AtLeast("C16.R1", "waiting states", nWait, 11)

	// R3: callers release the channel
	se := w.Func("swap", "(*SwapStateMachine).SendEvent")
	rec := w.Func("swap", "(*SwapStateMachine).Recover")
	rm := w.Func("swap", "(*SwapService).RemoveActiveSwap")
	if se == nil || rec == nil || rm == nil {
		c.Anchor("SendEvent / Recover / RemoveActiveSwap do not resolve")
		return
	}
	n := 0
	for _, fn := range prodFuncs(w) {
		if w.FnRel(fn) != "swap" {
			continue
		}
		if fn == se || fn == rec {
			continue
		}
		for _, call := range an.Calls(fn) {
			callee := call.Common().StaticCallee()
			if callee != se && callee != rec {
				continue
			}
			cv, ok := call.(*ssa.Call)
			if !ok {
				continue
			}
			n++
			cons := w.FuncName(fn) + " releases-when-done"
			if evs := eventValues(w, call.Common().Args[min(1, len(call.Common().Args)-1)]); callee == se && len(evs) == 1 {
				cons = w.FuncName(fn) + " " + evs[0] + " releases-when-done"
			}
			good := false
			for _, dv := range an.ResultValues(cv, 0) {
				tE, _ := an.BoolEdges(dv)
				for _, e := range tE {
					reach := an.ReachBlocks([]*ssa.BasicBlock{e.To()}, nil, nil)
					for _, rc := range an.Calls(fn) {
						if rc.Common().StaticCallee() == rm && reach[rc.Block()] {
							good = true
						}
					}
				}
			}
			c.Decide(good, "C16.R3", cons, w.Pos(call.Pos()), "RemoveActiveSwap is called on the done edge", "the `done` result of SendEvent/Recover is not followed by RemoveActiveSwap: a finished swap keeps its channel locked")
		}
	}
	c.AtLeast("C16.R3", "SendEvent/Recover call sites in the service", n, 14)
}

// c16DependsOnHeight: some return of event ev in the state's Execute functions
// is control-dependent on a value derived from TxWatcher.GetBlockHeight's
// height result (not merely on its error).
func c16DependsOnHeight(w *an.World, ss *an.StateSummary, ev string) bool {
	for _, fn := range ss.Execs {
		for _, r := range an.Returns(fn) {
			hit := false
			for _, res := range r.Results {
				for _, e := range eventValues(w, res) {
					if e == ev {
						hit = true
					}
				}
			}
			if !hit {
				continue
			}
			for _, f := range w.FactsDominatingBlock(r.Block()) {
				if strings.Contains(f.String(), fxBlockHeight+"#0") {
					return true
				}
				// through an in-module helper that takes the height as argument
				if cv, ok := f.Cond.(*ssa.BinOp); ok {
					for _, op := range []ssa.Value{cv.X, cv.Y} {
						src := w.Sources(op, an.FlowOpts{})
						for _, l := range src.Leaves {
							if l.Kind == "call" && l.Call != nil {
								for _, a := range l.Call.Common().Args {
									as := w.Sources(a, an.FlowOpts{})
									if as.Has("call", fxBlockHeight+"#0") {
										return true
									}
								}
							}
						}
					}
				}
			}
		}
	}
	return false
}

// c16RecoverHandlesNilAction: Recover has a path for an action-less current
// state that ends in (true, nil) or sends an event, instead of only returning an
// error.
func c16RecoverHandlesNilAction(w *an.World) bool {
	rec := w.Func("swap", "(*SwapStateMachine).Recover")
	se := w.Func("swap", "(*SwapStateMachine).SendEvent")
	if rec == nil {
		return false
	}
	// Recover and the in-module helpers it calls synchronously (not SendEvent)
	fns := []*ssa.Function{rec}
	for _, ef := range w.Summary(rec).Effects {
		if f := ef.Info.Static; f != nil && f != se && w.InModule(f) && f.Blocks != nil && ef.In == rec {
			fns = append(fns, f)
		}
	}
	for _, fn := range fns {
		for _, f := range w.Facts(fn) {
			if !(f.NonNum && f.Rel == "==" && an.EqIs(f, "==", "State.Action", "nil")) &&
				!(f.NonNum && f.Rel == "==" && an.EqIs(f, "==", "SwapStateMachine.Current", `""`)) {
				continue
			}
			reach := an.ReachBlocks([]*ssa.BasicBlock{f.Edge.To()}, nil, nil)
			for _, r := range an.Returns(fn) {
				if !reach[r.Block()] || len(r.Results) < 2 {
					continue
				}
				last := r.Results[len(r.Results)-1]
				if !an.IsErrorType(last.Type()) {
					continue
				}
				// a path that does not end in a non-nil error
				if an.IsNilConst(last) {
					return true
				}
				if _, isCall := last.(*ssa.Extract); isCall {
					return true // result of SendEvent(...)
				}
			}
		}
	}
	return false
}
