package rules

import (
	"fmt"
	"go/token"
	"go/types"
	"strings"

	"golang.org/x/tools/go/ssa"

	"psv/internal/an"
)

func init() {
	Register(&Prop{
		ID:   "C16",
		Expl: "Decides the graph-shaped necessary condition of termination: no state is a sink for a silent peer. For every state of the four tables: (R1) a state whose action may return NoOp (a waiting state) has an exit that does not depend on the peer and survives restarts — it is FailOnrecover, or its action registers a chain watch whose callback events it accepts, or its re-execution by Recover can itself return a non-NoOp event that depends on the block height; in-memory timers alone do not count because a restart drops them; (R2) from every state some terminal state is reachable using only such exits and the events actions return; every event an action can return is accepted by its state (info); (R3) terminal actions return only Event_Done and every SendEvent/Recover call site in the service releases the channel when done; (R4) every state that can be on disk (including the default state, which SendEvent persists before the first transition) is handled by Recover.",
		NotD: "Fairness of watchers and services, actual time bounds, that failing services eventually succeed.",
		Run:  runC16,
	})
}

func runC16(c *an.Check) {
	c.Rule("C16.R1", "every waiting state has a peer-independent exit that survives restarts")
	c.Rule("C16.R2", "from every state a terminal state is reachable over peer-independent exits")
	c.Rule("C16.R3", "terminal actions return Event_Done; every SendEvent/Recover caller removes the swap when done")
	c.Rule("C16.R4", "every persistable state is recoverable")
	if !needEffects(c, fxWaitConf, fxWaitCsv, fxBlockHeight) {
		return
	}
	w := c.W
	ts := tables(c)
	if ts == nil {
		return
	}
	srcs := eventSources(c)
	watchEvents := map[string]map[string]bool{fxWaitConf: {}, fxWaitCsv: {}}
	for _, f := range callbackTargets(w, "iface:swap.TxWatcher.AddConfirmationCallback") {
		for e := range eventsSentFrom(c, f, srcs) {
			watchEvents[fxWaitConf][e] = true
		}
	}
	for _, f := range callbackTargets(w, "iface:swap.TxWatcher.AddCsvCallback") {
		for e := range eventsSentFrom(c, f, srcs) {
			watchEvents[fxWaitCsv][e] = true
		}
	}
	c.AtLeast("C16.R1", "events injected by the confirmation callback", len(watchEvents[fxWaitConf]), 2)
	c.AtLeast("C16.R1", "events injected by the CSV callback", len(watchEvents[fxWaitCsv]), 1)

	nWait := 0
	var actionless []string
	for _, t := range ts {
		// exits[s] = peer-independent successor states
		exits := map[string]map[string]bool{}
		for _, s := range t.T.Order {
			e := t.T.States[s]
			ss := t.Sum[s]
			exits[s] = map[string]bool{}
			if e.Terminal() {
				continue
			}
			if len(e.Actions) == 0 {
				// default state: left by the creating event, handled by R4
				for _, nx := range e.Events {
					exits[s][nx] = true
				}
				continue
			}
			// events the action itself returns
			for ev := range ss.Events {
				if ev == evNoOp || ev == evDone {
					continue
				}
				if nx, ok := e.Events[ev]; ok {
					exits[s][nx] = true
				} else {
					c.Note("C16.R2", t.key(s)+" returns-unaccepted "+ev, t.pos(c, s), "the action can return "+ev+" which the state does not accept: SendEvent rejects it and the swap stays here until the next restart re-executes the action")
				}
			}
			if !ss.Events[evNoOp] {
				continue
			}
			nWait++
			var how []string
			if e.FailOnRecover {
				if nx, ok := e.Events[evFailed]; ok {
					exits[s][nx] = true
					how = append(how, "FailOnrecover")
				}
			}
			for fx, evs := range watchEvents {
				if !ss.HasEffect(fx) {
					continue
				}
				for ev := range evs {
					if nx, ok := e.Events[ev]; ok {
						exits[s][nx] = true
						how = append(how, "chain watch "+strings.TrimPrefix(fx, "iface:swap.TxWatcher.")+" -> "+ev)
					}
				}
			}
			// re-execution that depends on the block height and can fail
			if ss.HasEffect(fxBlockHeight) {
				for ev := range ss.Events {
					if ev == evNoOp {
						continue
					}
					if nx, ok := e.Events[ev]; ok && c16DependsOnHeight(w, ss, ev) {
						exits[s][nx] = true
						how = append(how, "re-executed by Recover: height-dependent "+ev)
					}
				}
			}
			timer := ""
			if _, ok := e.Events[evTimeout]; ok {
				timer = " (it accepts Event_OnTimeout, but timers live in memory only and are not re-armed by Recover)"
			}
			if len(how) == 0 && ss.Unknown {
				c.Unknown("C16.R1", t.key(s)+" silent-peer-exit", t.pos(c, s), "the action returns an event that could not be resolved; no restart-proof exit was recognised among the resolved ones")
				continue
			}
			c.Decide(len(how) > 0, "C16.R1", t.key(s)+" silent-peer-exit", t.pos(c, s), strings.Join(how, "; "),
				fmt.Sprintf("waiting state (action %v returns NoOp) has no exit that survives a restart when the peer stays silent%s: after a restart the swap waits here forever and keeps its channel locked", e.ActionNames(), timer))
		}
		// R2: terminal reachable over exits
		for _, s := range t.T.Order {
			if t.T.States[s].Terminal() {
				continue
			}
			seen := map[string]bool{s: true}
			st := []string{s}
			found := false
			unresolved := false
			for len(st) > 0 && !found {
				x := st[len(st)-1]
				st = st[:len(st)-1]
				if t.Sum[x].Unknown {
					unresolved = true
				}
				for nx := range exits[x] {
					if t.T.States[nx].Terminal() {
						found = true
					}
					if !seen[nx] {
						seen[nx] = true
						st = append(st, nx)
					}
				}
			}
			if !found && unresolved {
				c.Unknown("C16.R2", t.key(s)+" reaches-terminal", t.pos(c, s), "no terminal state reached over the resolved exits, but an action on the way returns an event that could not be resolved")
				continue
			}
			c.Decide(found, "C16.R2", t.key(s)+" reaches-terminal", t.pos(c, s), "a terminal state is reachable without the peer", "no terminal state is reachable from here without a message from the peer")
		}
		// R3 terminal actions
		for _, s := range t.terminals() {
			ss := t.Sum[s]
			if ss.Unknown && (len(ss.Events) == 0 || (len(ss.Events) == 1 && ss.Events[evDone])) {
				c.Unknown("C16.R3", t.key(s)+" returns-done", t.pos(c, s), "a value returned by the terminal action could not be resolved to an event constant")
				continue
			}
			c.Decide(len(ss.Events) == 1 && ss.Events[evDone] && !ss.Unknown, "C16.R3", t.key(s)+" returns-done", t.pos(c, s), "terminal action returns Event_Done", fmt.Sprintf("terminal action returns %v: SendEvent does not report done and the channel is never released", sortedKeys(ss.Events)))
		}
		// R4: persistable states are recoverable
		for _, s := range t.T.Order {
			if len(t.T.States[s].Actions) == 0 {
				actionless = append(actionless, t.key(s))
			}
		}
	}
	if len(actionless) > 0 {
		cons := "(*SwapStateMachine).Recover action-less persisted state"
		switch c16RecoverHandlesNilAction(w) {
		case 1:
			c.OK("C16.R4", cons, w.Pos(ts[0].T.Pos), "Recover finishes a swap found in a state without action ("+strings.Join(actionless, ", ")+")")
		case 0:
			c.Unknown("C16.R4", cons, w.Pos(ts[0].T.Pos), "cannot interpret what Recover does with a swap found in a state without action ("+strings.Join(actionless, ", ")+"): no test of the current state / its action was recognised, or the branch returns a value of unknown origin")
		default:
			c.Bad("C16.R4", cons, w.Pos(ts[0].T.Pos), "SendEvent persists the record before the first transition, so the action-less states "+strings.Join(actionless, ", ")+" can be on disk (crash while the first action runs); Recover returns ErrFsmConfig for them, RecoverSwaps only logs that, and the swap stays in activeSwaps (channel locked, HasActiveSwaps true) after every restart")
		}
	}
	c.AtLeast("C16.R1", "waiting states", nWait, 11)

	// R3: callers release the channel
	se := w.Func("swap", "(*SwapStateMachine).SendEvent")
	rec := w.Func("swap", "(*SwapStateMachine).Recover")
	rm := w.Func("swap", "(*SwapService).RemoveActiveSwap")
	if se == nil || rec == nil || rm == nil {
		c.Anchor("SendEvent / Recover / RemoveActiveSwap do not resolve")
		return
	}
	// a release is a call of RemoveActiveSwap or of an in-module function whose
	// synchronous call tree calls it
	releases := func(call ssa.CallInstruction) bool {
		if _, isGo := call.(*ssa.Go); isGo {
			return false
		}
		g := call.Common().StaticCallee()
		if g == nil {
			return false
		}
		if g == rm {
			return true
		}
		if !w.InModule(g) || g.Blocks == nil || g == se || g == rec {
			return false
		}
		for _, ef := range w.Summary(g).Effects {
			if ef.Info.Static == rm && !strings.HasPrefix(ef.Name, "go:") {
				return true
			}
		}
		return false
	}
	// sendLike: SendEvent, Recover and pure forwarders of their `done` result
	// (the forwarder's callers are then the call sites to judge)
	sendLike := map[*ssa.Function]bool{se: true, rec: true}
	type c16Site struct {
		fn   *ssa.Function
		call *ssa.Call
	}
	var sites []c16Site
	verdict := map[*ssa.Call]int{}
	for round := 0; round < 3; round++ {
		sites = sites[:0]
		grew := false
		for _, fn := range prodFuncs(w) {
			if w.FnRel(fn) != "swap" || sendLike[fn] {
				continue
			}
			for _, call := range an.Calls(fn) {
				callee := call.Common().StaticCallee()
				cv, ok := call.(*ssa.Call)
				if callee == nil || !sendLike[callee] || !ok {
					continue
				}
				v := c16DoneReleased(w, cv, releases)
				if v != 1 && c16ForwardsDone(fn, cv) {
					sendLike[fn] = true
					grew = true
					break
				}
				verdict[cv] = v
				sites = append(sites, c16Site{fn, cv})
			}
		}
		if !grew {
			break
		}
	}
	n := 0
	for _, st := range sites {
		fn, cv := st.fn, st.call
		if sendLike[fn] {
			continue
		}
		callee := cv.Common().StaticCallee()
		cons := w.FuncName(fn) + " releases-when-done"
		pairs := 1
		if args := cv.Common().Args; callee == se && len(args) >= 2 {
			if par, isPar := args[1].(*ssa.Parameter); isPar {
				// a shared delivery helper: one instance per (caller, constant event)
				seenPair := map[string]bool{}
				for _, g := range prodFuncs(w) {
					for _, gc := range an.Calls(g) {
						if gc.Common().StaticCallee() != fn {
							continue
						}
						for k, p := range fn.Params {
							if p == par && k < len(gc.Common().Args) {
								for _, ev := range eventValues(w, gc.Common().Args[k]) {
									seenPair[w.FuncName(g)+" "+ev] = true
								}
							}
						}
					}
				}
				if len(seenPair) > pairs {
					pairs = len(seenPair)
				}
			} else if evs := eventValues(w, args[1]); len(evs) == 1 && evs[0] != "?" {
				cons = w.FuncName(fn) + " " + evs[0] + " releases-when-done"
			}
		}
		n += pairs
		switch verdict[cv] {
		case 1:
			c.OK("C16.R3", cons, w.Pos(cv.Pos()), "RemoveActiveSwap is called (directly or through a helper) on the done edge")
		case 0:
			c.Unknown("C16.R3", cons, w.Pos(cv.Pos()), "the `done` result of SendEvent/Recover is passed on (stored, returned or handed to a function that could not be followed): cannot decide whether the swap is released")
		default:
			c.Bad("C16.R3", cons, w.Pos(cv.Pos()), "the `done` result of SendEvent/Recover is not followed by RemoveActiveSwap: a finished swap keeps its channel locked")
		}
	}
	c.AtLeast("C16.R3", "SendEvent/Recover call sites (per handler and event) in the service", n, 14)
}

// c16DoneReleased judges the `done` result (#0) of a SendEvent/Recover-like
// call: 1 a release call is reachable from an edge on which done is true,
// -1 done is discarded or only tested without a release behind it, 0 done flows
// somewhere that could not be followed.
func c16DoneReleased(w *an.World, call *ssa.Call, releases func(ssa.CallInstruction) bool) int {
	escapes := false
	var judge func(v ssa.Value, depth int, seen map[ssa.Value]bool) bool
	judge = func(v ssa.Value, depth int, seen map[ssa.Value]bool) bool {
		if seen[v] {
			return false
		}
		seen[v] = true
		fn := v.Parent()
		tE, _ := an.BoolEdges(v)
		for _, e := range tE {
			reach := an.ReachBlocks([]*ssa.BasicBlock{e.To()}, nil, nil)
			for _, rc := range an.Calls(fn) {
				if reach[rc.Block()] && releases(rc) {
					return true
				}
			}
		}
		if v.Referrers() == nil {
			return false
		}
		for _, r := range *v.Referrers() {
			switch x := r.(type) {
			case *ssa.If, *ssa.DebugRef:
			case *ssa.UnOp:
				if x.Op != token.NOT {
					escapes = true
				}
			case *ssa.Phi:
				if judge(x, depth, seen) {
					return true
				}
			case *ssa.Store:
				if _, ok := x.Addr.(*ssa.Alloc); ok && x.Val == v {
					for _, ld := range an.LoadsReachedBy(x) {
						if judge(ld, depth, seen) {
							return true
						}
					}
				} else {
					escapes = true
				}
			case *ssa.Call:
				g := x.Common().StaticCallee()
				followed := false
				if g != nil && w.InModule(g) && g.Blocks != nil && depth < 2 {
					for k, a := range x.Common().Args {
						if a == v && k < len(g.Params) {
							followed = true
							if judge(g.Params[k], depth+1, seen) {
								return true
							}
						}
					}
				}
				if !followed {
					escapes = true
				}
			default:
				escapes = true
			}
		}
		return false
	}
	for _, dv := range an.ResultValues(call, 0) {
		if judge(dv, 0, map[ssa.Value]bool{}) {
			return 1
		}
	}
	if escapes {
		return 0
	}
	return -1
}

// c16ForwardsDone: fn returns the done result of call as its own first result.
func c16ForwardsDone(fn *ssa.Function, call *ssa.Call) bool {
	res := fn.Signature.Results()
	if res.Len() == 0 {
		return false
	}
	if b, ok := res.At(0).Type().Underlying().(*types.Basic); !ok || b.Kind() != types.Bool {
		return false
	}
	for _, p := range c16ResultPoints(fn, 0) {
		if ex, ok := p.Val.(*ssa.Extract); ok && ex.Tuple == ssa.Value(call) && ex.Index == 0 {
			return true
		}
	}
	return false
}

// c16DependsOnHeight: some return of event ev in the state's Execute functions
// (or in an in-module callee whose result they return, with the callee's
// parameters bound to the call's arguments) is control-dependent on a value
// derived from TxWatcher.GetBlockHeight's height result (not merely on its
// error).
func c16DependsOnHeight(w *an.World, ss *an.StateSummary, ev string) bool {
	for _, fn := range ss.Execs {
		if c16HeightDep(w, fn, ev, nil, 0, map[*ssa.Function]bool{}) {
			return true
		}
	}
	return false
}

// c16RetPoint is one (value, block) pair of a function result; a returned phi is
// expanded into its incoming values at the predecessor blocks.
type c16RetPoint struct {
	Blk  *ssa.BasicBlock
	Val  ssa.Value
	Edge *an.Edge // for an expanded phi: the edge Blk -> return block
}

// facts that hold when the point is reached.
func (p c16RetPoint) facts(w *an.World) []an.Fact {
	fs := w.FactsDominatingBlock(p.Blk)
	if p.Edge != nil {
		for _, f := range w.Facts(p.Blk.Parent()) {
			if f.Edge == *p.Edge {
				fs = append(fs, f)
			}
		}
	}
	return fs
}

func c16ResultPoints(fn *ssa.Function, idx int) []c16RetPoint {
	var out []c16RetPoint
	for _, r := range an.Returns(fn) {
		if idx >= len(r.Results) {
			continue
		}
		v := r.Results[idx]
		if phi, ok := v.(*ssa.Phi); ok && phi.Block() == r.Block() {
			for i, e := range phi.Edges {
				pred := r.Block().Preds[i]
				pt := c16RetPoint{Blk: pred, Val: e}
				for k, sc := range pred.Succs {
					if sc == r.Block() {
						pt.Edge = &an.Edge{From: pred, Idx: k}
					}
				}
				out = append(out, pt)
			}
			continue
		}
		out = append(out, c16RetPoint{Blk: r.Block(), Val: v})
	}
	return out
}

func c16IsEventType(t types.Type) bool {
	n, ok := t.(*types.Named)
	return ok && n.Obj().Name() == "EventType"
}

// c16HeightDep: see c16DependsOnHeight; taint are the parameters of fn that hold
// a height-derived value at the call under consideration.
func c16HeightDep(w *an.World, fn *ssa.Function, ev string, taint map[*ssa.Parameter]bool, depth int, seen map[*ssa.Function]bool) bool {
	if fn == nil || fn.Blocks == nil || seen[fn] {
		return false
	}
	seen[fn] = true
	defer delete(seen, fn)
	isHeight := func(v ssa.Value) bool {
		for _, l := range w.Sources(v, an.FlowOpts{}).Leaves {
			if l.Kind == "call" && l.Name == fxBlockHeight+"#0" {
				return true
			}
			if p, ok := l.Val.(*ssa.Parameter); ok && l.Kind == "param" && taint[p] {
				return true
			}
		}
		return false
	}
	// derived: the height itself, or the result of a call that takes it as argument
	derives := func(v ssa.Value) bool {
		if v == nil {
			return false
		}
		if isHeight(v) {
			return true
		}
		for _, l := range w.Sources(v, an.FlowOpts{}).Leaves {
			if l.Kind == "call" && l.Call != nil {
				for _, a := range l.Call.Common().Args {
					if isHeight(a) {
						return true
					}
				}
			}
		}
		return false
	}
	res := fn.Signature.Results()
	for i := 0; i < res.Len(); i++ {
		if !c16IsEventType(res.At(i).Type()) {
			continue
		}
		for _, p := range c16ResultPoints(fn, i) {
			hit := false
			for _, e := range eventValues(w, p.Val) {
				if e == ev {
					hit = true
				}
			}
			if !hit {
				continue
			}
			for _, f := range p.facts(w) {
				if strings.Contains(f.String(), fxBlockHeight+"#0") {
					return true
				}
				ops := []ssa.Value{f.LV, f.RV}
				ops = append(ops, f.Args...)
				switch cv := f.Cond.(type) {
				case *ssa.BinOp:
					ops = append(ops, cv.X, cv.Y)
				case *ssa.UnOp:
					ops = append(ops, cv.X)
				default:
					ops = append(ops, f.Cond)
				}
				for _, op := range ops {
					if derives(op) {
						return true
					}
				}
			}
			// the event is the result of an in-module callee: look inside it with
			// the height-carrying arguments bound to its parameters
			if call, ok := p.Val.(*ssa.Call); ok && depth < 3 {
				g := w.Info(call).Static
				if g != nil && w.InModule(g) && g.Blocks != nil {
					t2 := map[*ssa.Parameter]bool{}
					for k, a := range call.Common().Args {
						if k < len(g.Params) && isHeight(a) {
							t2[g.Params[k]] = true
						}
					}
					if c16HeightDep(w, g, ev, t2, depth+1, seen) {
						return true
					}
				}
			}
		}
	}
	return false
}

// c16RecoverHandlesNilAction: Recover has a path for an action-less current
// state that ends in (true, nil) or sends an event, instead of only returning an
// error: 1 yes, -1 every such path returns an error, 0 cannot interpret.
func c16RecoverHandlesNilAction(w *an.World) int {
	rec := w.Func("swap", "(*SwapStateMachine).Recover")
	se := w.Func("swap", "(*SwapStateMachine).SendEvent")
	if rec == nil {
		return 0
	}
	// Recover and the in-module helpers it calls synchronously (not SendEvent)
	fns := []*ssa.Function{rec}
	for _, ef := range w.Summary(rec).Effects {
		if f := ef.Info.Static; f != nil && f != se && w.InModule(f) && f.Blocks != nil && ef.In == rec {
			fns = append(fns, f)
		}
	}
	// canSucceed: the trailing error value v (at the end of blk) can be nil:
	// 1 yes, -1 no (a sentinel / freshly made error), 0 unknown
	var canSucceed func(v ssa.Value, depth int) int
	fnCanSucceed := func(g *ssa.Function, depth int) int {
		res := g.Signature.Results()
		if g.Blocks == nil || res.Len() == 0 || !an.IsErrorType(res.At(res.Len()-1).Type()) {
			return 0
		}
		worst := -1
		for _, p := range c16ResultPoints(g, res.Len()-1) {
			switch canSucceed(p.Val, depth) {
			case 1:
				return 1
			case 0:
				worst = 0
			}
		}
		return worst
	}
	canSucceed = func(v ssa.Value, depth int) int {
		if an.IsNilConst(v) {
			return 1
		}
		var call *ssa.Call
		switch x := v.(type) {
		case *ssa.MakeInterface:
			return -1
		case *ssa.UnOp:
			if _, isGlobal := x.X.(*ssa.Global); isGlobal && x.Op == token.MUL {
				return -1 // a package-level sentinel such as ErrFsmConfig
			}
			return 0
		case *ssa.Phi:
			worst := -1
			for _, e := range x.Edges {
				switch canSucceed(e, depth) {
				case 1:
					return 1
				case 0:
					worst = 0
				}
			}
			return worst
		case *ssa.Extract:
			call, _ = x.Tuple.(*ssa.Call)
		case *ssa.Call:
			call = x
		}
		if call == nil {
			return 0
		}
		ci := w.Info(call)
		if ci.Name == "func:errors.New" || ci.Name == "func:fmt.Errorf" {
			return -1
		}
		g := ci.Static
		if g == nil {
			return 0
		}
		if g == se {
			return 1 // the result of SendEvent(...)
		}
		if w.InModule(g) && depth < 3 {
			return fnCanSucceed(g, depth+1)
		}
		return 0
	}
	found, unknown := false, false
	for _, fn := range fns {
		for _, f := range w.Facts(fn) {
			if !(f.NonNum && f.Rel == "==" && an.EqIs(f, "==", "State.Action", "nil")) &&
				!(f.NonNum && f.Rel == "==" && an.EqIs(f, "==", "SwapStateMachine.Current", `""`)) {
				continue
			}
			found = true
			reach := an.ReachBlocks([]*ssa.BasicBlock{f.Edge.To()}, nil, nil)
			res := fn.Signature.Results()
			if res.Len() < 2 || !an.IsErrorType(res.At(res.Len()-1).Type()) {
				continue
			}
			for _, p := range c16ResultPoints(fn, res.Len()-1) {
				if !reach[p.Blk] {
					continue
				}
				switch canSucceed(p.Val, 0) {
				case 1:
					return 1
				case 0:
					unknown = true
				}
			}
		}
	}
	if !found || unknown {
		return 0
	}
	return -1
}
