package rules

import (
	"fmt"
	"go/constant"
	"go/token"
	"go/types"
	"reflect"
	"regexp"
	"sort"
	"strings"

	"golang.org/x/tools/go/ssa"

	"psv/internal/an"
)

// C28 — peer-sync keeps an accurate, persistent view of peers (partial).
//
// Most of the property is about timed histories and is not decided. The five
// clauses below are structural. R1, R2 and R5 are decided with a small
// symbolic evaluator (c28Interp) that inlines the in-module callees of the
// converter functions, keeps a flow-insensitive heap of the objects they
// build and prunes branches on constant arguments; R3 and R4 use the guard
// facts of the engine.
//
// Frozen anchors: the functions named in c28Anchors, the bbolt deletion
// primitives (*bbolt.Cursor).Delete / (*bbolt.Bucket).Delete, the constant
// swap.PEERSWAP_PROTOCOL_VERSION.

func init() {
	Register(&Prop{
		ID:   "C28",
		Expl: "Decides (R1) in SyncLogic.MergeCapabilities every return of the stored capability is dominated by the strict test remote.version < local.version (operands resolved through the getters to the version fields of the two parameters) or by remote == nil, every return of the received capability by the complementary edge or local == nil; in storeCapabilityMessage the stored capability is argument 1 and the parsed message argument 2, the merge result is what UpdateCapability receives and every nil-error return after the update is dominated by the success edge of SavePeerState on the same peer. (R2) by symbolic evaluation of toPeer(peerToRecord(p)) and ToCapability(SnapshotFromCapability(c)): every leaf field of Peer / PeerCapability (except observedAt) of the reloaded value is computed from the same leaf of the original and from no other leaf; peerRecord and PeerCapabilitySnapshot have exported fields with pairwise distinct JSON names of JSON-representable types; the two asset symbol tables are mutually inverse and normalised. (R3) every bbolt delete in package peersync is dominated (in its function or in all its callers) by IsExpired(timeout)==true on the peer materialised from the cursor value and by shouldKeepPeer(key, keep)==false; shouldKeepPeer answers with the membership of the key in the keep set; the only production caller of the cleanup passes the connected-peer set and is dominated by the success edge of listing the peers; connectedPeers never returns a nil error when listing failed, and every production implementation behind Lightning.ListPeers (followed through in-module interface calls to the call the peer list originates from) returns a nil error only on the success edge of that call — a function without an error result on that chain cannot report the failure; the keep-nothing wrapper CleanupExpired and RemovePeerState have no production callers. (R4) every capability send whose peer comes from the connected-peer listing is dominated by allowRequest(thatPeer, now, force)==true; under the assumption seen && !force && now-last < requestInterval allowRequest can only return false, and every true return first records now for the peer. (R5) HasCompatiblePeer returns only false or the value-equality of the stored capability's version with PeerSync.version, whose only production writer stores NewVersion(PEERSWAP_PROTOCOL_VERSION). (R6) over the VTA call graph: every call edge on every chain from a production function that receives from a channel of CustomMessage (the subscription loop) to Store.SavePeerState is a synchronous call — a `go` statement on such a chain hands messages of one peer to concurrent goroutines, so the read-merge-save of an older poll can complete after that of a newer one. (R7) every bbolt Bucket.Put of a peer record in package peersync is classified: inside a (*bolt.DB).Update transaction that also reads the bucket and whose starting function receives no Peer from its caller it is a single-transaction read-modify-write (nothing can interleave); when the bytes written are supplied by the function that starts the transaction, that function is a write-back primitive, and at every production call site of it (following a Peer parameter up to two callers) the record argument is traced to the store load it comes from (a call that reaches (*bolt.DB).View and yields Peers): no call that blocks on the outside — a call through a capabilitySender value, a method of the Lightning interface, or an in-module function that reaches one — may lie on a path from that load to the write-back, because a capability stored by another goroutine in between would be replaced by the stale copy.",
		NotD: "Everything that depends on clocks, message order on the wire and connectivity; whether the other goroutine that rewrites peer records (the poll loop: GetAllPeerStates … SavePeerState per peer without a lock shared with the message handler) can overwrite a capability stored in between (R7 decides the blocking-call case; interleavings without a blocking call between load and write-back, e.g. two handlers, are excluded by R6's single synchronous consumer and otherwise not decided); that polls arrive, expiry timing, the pruning of request times on reconnect, pacing of polls to known peers (ShouldPoll) and the unthrottled RequestPoll/initial sync path; value-level identity of the converters beyond leaf-to-leaf dependence (range check of rates, omitempty: an all-zero capability reloads as nil, an empty status reloads as unknown; observedAt is replaced by LastSeen); bbolt semantics (including Put during cursor iteration); the suspicious-peer early exits.",
		Run:  runC28,
	})
}

func runC28(c *an.Check) {
	c.Rule("C28.R1", "MergeCapabilities keeps the stored capability iff remote.version < local.version; storeCapabilityMessage merges (stored, received), updates with the result and persists before reporting success")
	c.Rule("C28.R2", "record / wire converters restore every field from its own stored value (symbolic round trip); JSON names distinct; asset tables inverse")
	c.Rule("C28.R3", "deletion requires expired && !connected; cleanup is only run with the connected set and not when listing peers failed")
	c.Rule("C28.R4", "requests to unknown connected peers are dominated by allowRequest; allowRequest refuses within the interval unless forced and records the attempt")
	c.Rule("C28.R5", "HasCompatiblePeer is equality of the stored version with PEERSWAP_PROTOCOL_VERSION")
	c.Rule("C28.R7", "no stale write-back: a peer record loaded from the store is not written back after a blocking outside call (capability send, Lightning RPC); record updates that must not lose concurrent writes are read-modify-writes inside one store write transaction")
	c.Rule("C28.R6", "peer messages are handled synchronously in arrival order: no `go` statement on any call chain from the loop that receives CustomMessages to Store.SavePeerState")
	e := &c28Env{c: c, w: c.W}
	e.r1()
	e.r2()
	e.r3()
	e.r4()
	e.r5()
	e.r6()
	e.r7()
}

type c28Env struct {
	c *an.Check
	w *an.World
}

func (e *c28Env) fn(name string) *ssa.Function {
	f := e.w.Func("peersync", name)
	if f == nil || f.Blocks == nil {
		e.c.Anchor("function peersync.%s does not resolve", name)
		return nil
	}
	return f
}

// =====================================================================================
// symbolic evaluator
// =====================================================================================

// Terms are strings:
//
//	⟨P.T.f.U.g⟩   a leaf of a symbolic input (field path from root P; "[]" = element)
//	o:<id>        an object allocated by the evaluated code (struct, slice, map, cell)
//	c:<const>     a constant;  nil;  zero (zero value of a non-pointer type)
//	op(<;a;b)     a binary operator applied to term sets; not(x); ok(m;k) (comma-ok lookup)
//	lookup(m;k), call:<callee>#i(args), key(x), len(x), u:<what>   opaque
type c28Set map[string]bool

func c28One(s string) c28Set { return c28Set{s: true} }

func (s c28Set) add(o c28Set) {
	for k := range o {
		s[k] = true
	}
}

func (s c28Set) sorted() []string {
	out := make([]string, 0, len(s))
	for k := range s {
		out = append(out, k)
	}
	sort.Strings(out)
	return out
}

func (s c28Set) String() string { return strings.Join(s.sorted(), "|") }

func (s c28Set) single() (string, bool) {
	if len(s) != 1 {
		return "", false
	}
	for k := range s {
		return k, true
	}
	return "", false
}

var c28LeafRe = regexp.MustCompile(`⟨[^⟨⟩]*⟩`)

type c28Closure struct {
	fn   *ssa.Function
	free []c28Set
}

type c28Interp struct {
	w        *an.World
	heap     map[string]map[string]c28Set
	ext      map[string]string // object handed to code without body: label of the unknown content
	clos     map[string]*c28Closure
	size     int
	maxDepth int
	steps    int
	gave     bool   // budget exhausted
	lossy    string // a construct the evaluator does not track was met (address of a scalar escaping, store through an untracked pointer)
}

func c28NewInterp(w *an.World) *c28Interp {
	return &c28Interp{w: w, heap: map[string]map[string]c28Set{}, ext: map[string]string{}, clos: map[string]*c28Closure{}, maxDepth: 9}
}

func (it *c28Interp) put(obj, field string, vals c28Set) {
	if !strings.HasPrefix(obj, "o:") {
		return
	}
	m := it.heap[obj]
	if m == nil {
		m = map[string]c28Set{}
		it.heap[obj] = m
	}
	s := m[field]
	if s == nil {
		s = c28Set{}
		m[field] = s
	}
	for v := range vals {
		if !s[v] {
			s[v] = true
			it.size++
		}
	}
}

// sel reads field `field` ("T.f", "[]", "*", "key") of a term.
func (it *c28Interp) sel(base, field string) c28Set {
	switch {
	case strings.HasPrefix(base, "o:"):
		out := c28Set{}
		out.add(it.heap[base][field])
		if field != "*" {
			// a cell that holds a whole struct value (`*cell = v`): look inside v
			for whole := range it.heap[base]["*"] {
				if whole != base {
					out.add(it.sel(whole, field))
				}
			}
		}
		if len(out) > 0 {
			return out
		}
		if l := it.ext[base]; l != "" {
			return c28One("⟨" + l + "." + field + "⟩")
		}
		return c28One("zero")
	case strings.HasPrefix(base, "⟨") && strings.HasSuffix(base, "⟩") && strings.Count(base, "⟨") == 1:
		p := strings.TrimSuffix(base, "⟩")
		if field == "[]" {
			return c28One(p + "[]⟩")
		}
		return c28One(p + "." + field + "⟩")
	case base == "nil":
		return c28Set{}
	case base == "zero":
		return c28One("zero")
	}
	return c28One(it.cap("sel(" + base + ";" + field + ")"))
}

func (it *c28Interp) selAll(bases c28Set, field string) c28Set {
	out := c28Set{}
	for b := range bases {
		out.add(it.sel(b, field))
	}
	return out
}

// cap keeps opaque terms bounded: long terms are reduced to the leaves they mention.
func (it *c28Interp) cap(t string) string {
	if len(t) <= 240 {
		return t
	}
	m := map[string]bool{}
	for _, l := range c28LeafRe.FindAllString(t, -1) {
		m[l] = true
	}
	ks := make([]string, 0, len(m))
	for k := range m {
		ks = append(ks, k)
	}
	sort.Strings(ks)
	return "big(" + strings.Join(ks, ",") + ")"
}

// render expands objects (one level of nesting per depth) so that the leaves
// they carry become visible in a term.
func (it *c28Interp) render(s c28Set, depth int) string {
	var parts []string
	for _, t := range s.sorted() {
		if strings.HasPrefix(t, "o:") && depth > 0 {
			var fs []string
			var names []string
			for f := range it.heap[t] {
				names = append(names, f)
			}
			sort.Strings(names)
			for _, f := range names {
				fs = append(fs, f+"="+it.render(it.heap[t][f], depth-1))
			}
			parts = append(parts, "{"+strings.Join(fs, ",")+"}")
			continue
		}
		parts = append(parts, t)
	}
	return it.cap(strings.Join(parts, "|"))
}

type c28Frame struct {
	it      *c28Interp
	fn      *ssa.Function
	env     []c28Set
	free    []c28Set
	ctx     string
	depth   int
	stack   map[*ssa.Function]bool
	memo    map[ssa.Value]c28Set
	busy    map[ssa.Value]bool
	cuts    int
	reach   map[*ssa.BasicBlock]bool
	callRes map[ssa.CallInstruction][]c28Set
	ids     map[ssa.Instruction]string
}

func (fr *c28Frame) id(in ssa.Instruction) string {
	if s, ok := fr.ids[in]; ok {
		return s
	}
	b := in.Block()
	s := fmt.Sprintf("%d.%d", b.Index, an.InstrIndex(in))
	fr.ids[in] = s
	return s
}

// exec runs fn flow-insensitively in the given environment and returns the
// frame and the union of the returned values per result index.
func (it *c28Interp) exec(fn *ssa.Function, env []c28Set, free []c28Set, ctx string, depth int, stack map[*ssa.Function]bool) (*c28Frame, []c28Set) {
	fr := &c28Frame{it: it, fn: fn, env: env, free: free, ctx: ctx, depth: depth, stack: stack,
		memo: map[ssa.Value]c28Set{}, busy: map[ssa.Value]bool{}, callRes: map[ssa.CallInstruction][]c28Set{}, ids: map[ssa.Instruction]string{}}
	stack[fn] = true
	defer delete(stack, fn)
	fr.computeReach()
	for _, b := range fn.Blocks {
		if !fr.reach[b] {
			continue
		}
		for _, in := range b.Instrs {
			switch x := in.(type) {
			case *ssa.Store:
				fr.store(x)
			case *ssa.MapUpdate:
				for m := range fr.objsOf(x.Map) {
					it.put(m, "[]", fr.eval(x.Value))
					it.put(m, "key", fr.eval(x.Key))
				}
			case ssa.CallInstruction:
				fr.doCall(x)
			}
		}
	}
	nres := fn.Signature.Results().Len()
	res := make([]c28Set, nres)
	for i := range res {
		res[i] = c28Set{}
	}
	for _, b := range fn.Blocks {
		if !fr.reach[b] || len(b.Instrs) == 0 {
			continue
		}
		if r, ok := b.Instrs[len(b.Instrs)-1].(*ssa.Return); ok {
			for i, v := range r.Results {
				if i < nres {
					res[i].add(fr.evalVal(v))
				}
			}
		}
	}
	return fr, res
}

func (fr *c28Frame) computeReach() {
	fr.reach = map[*ssa.BasicBlock]bool{}
	if len(fr.fn.Blocks) == 0 {
		return
	}
	work := []*ssa.BasicBlock{fr.fn.Blocks[0]}
	fr.reach[fr.fn.Blocks[0]] = true
	for len(work) > 0 {
		b := work[len(work)-1]
		work = work[:len(work)-1]
		succs := b.Succs
		if len(b.Instrs) > 0 {
			if i, ok := b.Instrs[len(b.Instrs)-1].(*ssa.If); ok {
				if v, def := fr.boolOf(i.Cond); def {
					if v {
						succs = b.Succs[:1]
					} else {
						succs = b.Succs[1:2]
					}
				}
			}
		}
		for _, s := range succs {
			if !fr.reach[s] {
				fr.reach[s] = true
				work = append(work, s)
			}
		}
	}
}

// boolOf: definite truth value of a condition (only from constants / object-vs-nil).
func (fr *c28Frame) boolOf(v ssa.Value) (bool, bool) {
	s := fr.eval(v)
	t, ok := s.single()
	if !ok {
		return false, false
	}
	switch t {
	case "c:true":
		return true, true
	case "c:false":
		return false, true
	}
	return false, false
}

func c28IsStructy(t types.Type) bool {
	switch t.Underlying().(type) {
	case *types.Struct, *types.Array:
		return true
	}
	return false
}

// objsOf: the objects / input roots a pointer-or-struct-or-slice value denotes.
func (fr *c28Frame) objsOf(v ssa.Value) c28Set {
	switch x := v.(type) {
	case *ssa.FieldAddr:
		// address of a slot: denotes the struct stored inline in that slot
		bases := fr.objsOf(x.X)
		fname := an.FieldName(x.X.Type(), x.Field)
		out := c28Set{}
		for b := range bases {
			got := fr.it.sel(b, fname)
			if strings.HasPrefix(b, "o:") && len(fr.it.heap[b][fname]) == 0 && fr.it.ext[b] == "" {
				// implicit inline object
				inl := b + "." + fname
				fr.it.put(b, fname, c28One(inl))
				got = c28One(inl)
			}
			out.add(got)
		}
		return out
	case *ssa.IndexAddr:
		return fr.it.selAll(fr.objsOf(x.X), "[]")
	}
	return fr.eval(v)
}

func (fr *c28Frame) store(st *ssa.Store) {
	val := fr.evalVal(st.Val)
	switch a := st.Addr.(type) {
	case *ssa.FieldAddr:
		fname := an.FieldName(a.X.Type(), a.Field)
		for b := range fr.objsOf(a.X) {
			fr.it.put(b, fname, val)
		}
	case *ssa.IndexAddr:
		for b := range fr.objsOf(a.X) {
			fr.it.put(b, "[]", val)
		}
	case *ssa.Alloc:
		for b := range fr.eval(a) {
			fr.it.put(b, "*", val)
		}
	case *ssa.FreeVar:
		for b := range fr.eval(a) {
			fr.it.put(b, "*", val)
		}
	case *ssa.Global:
		// package state: not part of any converter result
	default:
		fr.it.lossy = fmt.Sprintf("store through %T in %s", st.Addr, fr.it.w.FuncName(fr.fn))
	}
}

// evalVal evaluates a value that is stored / passed / returned: a struct value
// is denoted by its object.
func (fr *c28Frame) evalVal(v ssa.Value) c28Set { return fr.eval(v) }

func (fr *c28Frame) eval(v ssa.Value) c28Set {
	if s, ok := fr.memo[v]; ok {
		return s
	}
	if fr.busy[v] {
		fr.cuts++
		return c28Set{}
	}
	fr.it.steps++
	if fr.it.steps > 400000 {
		fr.it.gave = true
		return c28One("u:budget")
	}
	fr.busy[v] = true
	before := fr.cuts
	s := fr.eval1(v)
	delete(fr.busy, v)
	_, isPhi := v.(*ssa.Phi)
	if fr.cuts == before || isPhi {
		fr.memo[v] = s
	}
	return s
}

func (fr *c28Frame) objID(in ssa.Instruction) string { return "o:" + fr.ctx + "/" + fr.id(in) }

func (fr *c28Frame) eval1(v ssa.Value) c28Set {
	it := fr.it
	switch x := v.(type) {
	case *ssa.Const:
		if x.Value == nil {
			switch x.Type().Underlying().(type) {
			case *types.Pointer, *types.Interface, *types.Slice, *types.Map, *types.Chan, *types.Signature:
				return c28One("nil")
			}
			return c28One("zero")
		}
		if x.Value.Kind() == constant.Bool {
			return c28One("c:" + x.Value.String())
		}
		return c28One("c:" + x.Value.ExactString())
	case *ssa.Parameter:
		for i, p := range fr.fn.Params {
			if p == x && i < len(fr.env) && fr.env[i] != nil {
				return fr.env[i]
			}
		}
		return c28One("u:param")
	case *ssa.FreeVar:
		for i, p := range fr.fn.FreeVars {
			if p == x && i < len(fr.free) && fr.free[i] != nil {
				return fr.free[i]
			}
		}
		return c28One("u:freevar")
	case *ssa.Alloc:
		return c28One(fr.objID(x))
	case *ssa.MakeSlice:
		return c28One(fr.objID(x))
	case *ssa.MakeMap:
		return c28One(fr.objID(x))
	case *ssa.MakeChan:
		return c28One(fr.objID(x))
	case *ssa.Global:
		return c28One("g:" + x.Pkg.Pkg.Name() + "." + x.Name())
	case *ssa.Function:
		return c28One("fn:" + it.w.FuncName(x))
	case *ssa.MakeClosure:
		id := "clo:" + fr.ctx + "/" + fr.id(x)
		f, _ := x.Fn.(*ssa.Function)
		cl := &c28Closure{fn: f}
		for _, b := range x.Bindings {
			cl.free = append(cl.free, fr.eval(b))
		}
		it.clos[id] = cl
		return c28One(id)
	case *ssa.ChangeType:
		return fr.eval(x.X)
	case *ssa.Convert:
		return fr.eval(x.X)
	case *ssa.MakeInterface:
		return fr.eval(x.X)
	case *ssa.ChangeInterface:
		return fr.eval(x.X)
	case *ssa.TypeAssert:
		return fr.eval(x.X)
	case *ssa.Slice:
		return fr.objsOf(x.X)
	case *ssa.FieldAddr:
		if c28IsStructy(x.Type().(*types.Pointer).Elem()) {
			return fr.objsOf(x)
		}
		fr.it.lossy = "address of a scalar field used as a value in " + it.w.FuncName(fr.fn)
		return c28One("u:addr")
	case *ssa.IndexAddr:
		fr.it.lossy = "address of an element used as a value in " + it.w.FuncName(fr.fn)
		return c28One("u:addr")
	case *ssa.Field:
		return it.selAll(fr.objsOf(x.X), an.FieldName(x.X.Type(), x.Field))
	case *ssa.Index:
		return it.selAll(fr.objsOf(x.X), "[]")
	case *ssa.Phi:
		out := c28Set{}
		for i, ed := range x.Edges {
			if i < len(x.Block().Preds) && fr.reach != nil && !fr.reach[x.Block().Preds[i]] {
				continue
			}
			out.add(fr.eval(ed))
		}
		return out
	case *ssa.UnOp:
		switch x.Op {
		case token.MUL:
			switch a := x.X.(type) {
			case *ssa.FieldAddr:
				return it.selAll(fr.objsOf(a.X), an.FieldName(a.X.Type(), a.Field))
			case *ssa.IndexAddr:
				return it.selAll(fr.objsOf(a.X), "[]")
			case *ssa.Alloc:
				if c28IsStructy(a.Type().(*types.Pointer).Elem()) {
					return fr.eval(a)
				}
				return it.selAll(fr.eval(a), "*")
			case *ssa.Global:
				return fr.eval(a)
			case *ssa.FreeVar:
				cells := fr.eval(a)
				if c28IsStructy(a.Type().(*types.Pointer).Elem()) {
					return cells
				}
				return it.selAll(cells, "*")
			}
			return it.selAll(fr.eval(x.X), "*")
		case token.NOT:
			if b, def := fr.boolOf(x.X); def {
				return c28One(fmt.Sprintf("c:%v", !b))
			}
			return c28One(it.cap("not(" + fr.eval(x.X).String() + ")"))
		}
		return c28One(it.cap("unop" + x.Op.String() + "(" + fr.eval(x.X).String() + ")"))
	case *ssa.BinOp:
		l, r := fr.eval(x.X), fr.eval(x.Y)
		if x.Op == token.EQL || x.Op == token.NEQ {
			if eq, def := c28DefiniteEq(l, r); def {
				return c28One(fmt.Sprintf("c:%v", eq == (x.Op == token.EQL)))
			}
		}
		return c28One(it.cap("op(" + x.Op.String() + ";" + it.render(l, 1) + ";" + it.render(r, 1) + ")"))
	case *ssa.Lookup:
		m := fr.eval(x.X)
		k := it.render(fr.eval(x.Index), 2)
		out := c28Set{}
		for b := range m {
			if strings.HasPrefix(b, "o:") {
				out.add(it.sel(b, "[]"))
			} else {
				out[it.cap("lookup("+b+";"+k+")")] = true
			}
		}
		return out
	case *ssa.Extract:
		switch tu := x.Tuple.(type) {
		case *ssa.Call:
			res := fr.doCall(tu)
			if x.Index < len(res) {
				return res[x.Index]
			}
			return c28One("u:extract")
		case *ssa.Lookup:
			if x.Index == 0 {
				return fr.eval(tu)
			}
			return c28One(it.cap("ok(" + it.render(fr.eval(tu.X), 0) + ";" + it.render(fr.eval(tu.Index), 2) + ")"))
		case *ssa.Next:
			rng, ok := tu.Iter.(*ssa.Range)
			if !ok {
				return c28One("u:next")
			}
			switch x.Index {
			case 0:
				return c28One("u:more")
			case 1:
				out := c28Set{}
				for b := range fr.eval(rng.X) {
					if strings.HasPrefix(b, "o:") {
						out.add(it.sel(b, "key"))
					} else {
						out[it.cap("key("+b+")")] = true
					}
				}
				return out
			default:
				return it.selAll(fr.eval(rng.X), "[]")
			}
		case *ssa.TypeAssert:
			if x.Index == 0 {
				return fr.eval(tu.X)
			}
			return c28One("u:typeok")
		}
		return c28One("u:extract")
	case *ssa.Call:
		res := fr.doCall(x)
		if len(res) > 0 {
			return res[0]
		}
		return c28Set{}
	case *ssa.Range:
		return fr.eval(x.X)
	}
	return c28One(fmt.Sprintf("u:%T", v))
}

// c28DefiniteEq decides l == r when both are single constants, or one is nil
// and the other consists of objects only.
func c28DefiniteEq(l, r c28Set) (eq bool, definite bool) {
	a, oka := l.single()
	b, okb := r.single()
	if oka && okb && strings.HasPrefix(a, "c:") && strings.HasPrefix(b, "c:") {
		return a == b, true
	}
	allObj := func(s c28Set) bool {
		if len(s) == 0 {
			return false
		}
		for t := range s {
			if !strings.HasPrefix(t, "o:") {
				return false
			}
		}
		return true
	}
	if oka && a == "nil" && allObj(r) {
		return false, true
	}
	if okb && b == "nil" && allObj(l) {
		return false, true
	}
	return false, false
}

func (fr *c28Frame) doCall(ci ssa.CallInstruction) []c28Set {
	if r, ok := fr.callRes[ci]; ok {
		if r == nil {
			fr.cuts++ // evaluation of this call is in progress (value cycle through a loop)
		}
		return r
	}
	it := fr.it
	cc := ci.Common()
	info := it.w.Info(ci)
	nres := cc.Signature().Results().Len()
	fr.callRes[ci] = nil // in progress
	if info.Name == "builtin:append" {
		// the result object is known before the arguments are: loops append to themselves
		fr.callRes[ci] = []c28Set{c28One(fr.objID(ci))}
	}
	var args []c28Set
	if cc.IsInvoke() {
		args = append(args, fr.evalVal(cc.Value))
	}
	for _, a := range cc.Args {
		args = append(args, fr.evalVal(a))
	}
	opaque := func(name string) []c28Set {
		var as []string
		for _, a := range args {
			as = append(as, it.render(a, 2))
		}
		res := make([]c28Set, nres)
		for i := range res {
			res[i] = c28One(it.cap(fmt.Sprintf("call:%s#%d(%s)", name, i, strings.Join(as, ","))))
		}
		// objects handed out may be filled by the callee
		for _, a := range args {
			for t := range a {
				if strings.HasPrefix(t, "o:") && it.ext[t] == "" && len(it.heap[t]) == 0 {
					it.ext[t] = "ext:" + name
				}
				if cl := it.clos[t]; cl != nil && cl.fn != nil && fr.depth < it.maxDepth && !fr.stack[cl.fn] {
					it.exec(cl.fn, make([]c28Set, len(cl.fn.Params)), cl.free, fr.ctx+"/"+fr.id(ci)+"c", fr.depth+1, fr.stack)
				}
			}
		}
		return res
	}
	var res []c28Set
	switch {
	case strings.HasPrefix(info.Name, "builtin:"):
		res = make([]c28Set, nres)
		switch info.Name {
		case "builtin:append":
			obj := fr.objID(ci)
			for _, a := range args {
				it.put(obj, "[]", it.selAll(a, "[]"))
			}
			if len(it.heap[obj]) == 0 {
				it.put(obj, "[]", c28Set{})
			}
			res = []c28Set{c28One(obj)}
		case "builtin:copy":
			if len(args) == 2 {
				for d := range args[0] {
					it.put(d, "[]", it.selAll(args[1], "[]"))
				}
			}
			res = []c28Set{c28One("u:n")}
		case "builtin:len", "builtin:cap":
			res = []c28Set{c28One(it.cap("len(" + it.render(args[0], 1) + ")"))}
		default:
			for i := range res {
				res[i] = c28One("u:" + info.Name)
			}
		}
	case info.Static != nil && it.w.InModule(info.Static) && info.Static.Blocks != nil && fr.depth < it.maxDepth && !fr.stack[info.Static] && !info.IsGo:
		var free []c28Set
		if mc, ok := cc.Value.(*ssa.MakeClosure); ok {
			for _, b := range mc.Bindings {
				free = append(free, fr.eval(b))
			}
		}
		_, res = it.exec(info.Static, args, free, fr.ctx+"/"+fr.id(ci), fr.depth+1, fr.stack)
	case info.Static == nil && !cc.IsInvoke():
		// dynamic call of a closure we built
		res = make([]c28Set, nres)
		for i := range res {
			res[i] = c28Set{}
		}
		called := false
		for t := range fr.eval(cc.Value) {
			if cl := it.clos[t]; cl != nil && cl.fn != nil && fr.depth < it.maxDepth && !fr.stack[cl.fn] {
				called = true
				_, r := it.exec(cl.fn, args, cl.free, fr.ctx+"/"+fr.id(ci), fr.depth+1, fr.stack)
				for i := range r {
					if i < nres {
						res[i].add(r[i])
					}
				}
			}
		}
		if !called {
			res = opaque(info.Name)
		}
	default:
		res = opaque(info.Name)
	}
	fr.callRes[ci] = res
	return res
}

// fix runs body until the heap stops growing.
func (it *c28Interp) fix(body func()) {
	for i := 0; i < 8; i++ {
		before := it.size
		it.steps = 0
		body()
		if it.size == before {
			return
		}
	}
	it.gave = true
}

func c28Mentions(s c28Set, it *c28Interp) map[string]bool {
	m := map[string]bool{}
	for _, l := range c28LeafRe.FindAllString(it.render(s, 3), -1) {
		m[l] = true
	}
	return m
}

// leaves walks the fields of an in-module struct type reachable from objs.
func (e *c28Env) leaves(it *c28Interp, objs c28Set, t types.Type, path string, depth int, visit func(path string, vals c28Set)) {
	if p, ok := t.Underlying().(*types.Pointer); ok {
		t = p.Elem()
	}
	if n, ok := t.(*types.Named); ok && depth < 5 {
		if st, ok := n.Underlying().(*types.Struct); ok && n.Obj().Pkg() != nil {
			if _, in := e.w.Rel(n.Obj().Pkg().Path()); in {
				for i := 0; i < st.NumFields(); i++ {
					fname := n.Obj().Name() + "." + st.Field(i).Name()
					vals := c28Set{}
					for o := range objs {
						if strings.HasPrefix(o, "o:") {
							vals.add(it.sel(o, fname))
						}
					}
					e.leaves(it, vals, st.Field(i).Type(), path+"."+fname, depth+1, visit)
				}
				return
			}
		}
	}
	if sl, ok := t.Underlying().(*types.Slice); ok {
		vals := c28Set{}
		for o := range objs {
			if strings.HasPrefix(o, "o:") {
				vals.add(it.sel(o, "[]"))
			}
		}
		e.leaves(it, vals, sl.Elem(), path+"[]", depth+1, visit)
		return
	}
	visit(path, objs)
}

// =====================================================================================
// R1
// =====================================================================================

var c28CmpRe = regexp.MustCompile(`^op\((<|>|<=|>=);(⟨[^⟨⟩]*⟩);(⟨[^⟨⟩]*⟩)\)$`)

func (e *c28Env) r1() {
	c, w := e.c, e.w
	fn := e.fn("(*SyncLogic).MergeCapabilities")
	if fn == nil {
		return
	}
	name := w.FuncName(fn)
	it := c28NewInterp(w)
	fr, _ := it.exec(fn, []c28Set{c28One("⟨S⟩"), c28One("⟨L⟩"), c28One("⟨R⟩")}, nil, "m", 0, map[*ssa.Function]bool{})
	const lv = "⟨L.PeerCapability.version.Version.value⟩"
	const rv = "⟨R.PeerCapability.version.Version.value⟩"

	var keepLocal, takeRemote []an.Edge
	nCmp := 0
	notUnderstood := ""
	for _, b := range fn.Blocks {
		if len(b.Instrs) == 0 {
			continue
		}
		ifi, ok := b.Instrs[len(b.Instrs)-1].(*ssa.If)
		if !ok {
			continue
		}
		if all := it.render(fr.eval(ifi.Cond), 2); strings.Contains(all, lv) && strings.Contains(all, rv) && !c28CmpRe.MatchString(strings.TrimSuffix(strings.TrimPrefix(all, "not("), ")")) && !c28CmpRe.MatchString(all) {
			notUnderstood = all
		}
		term, single := fr.eval(ifi.Cond).single()
		if !single {
			continue
		}
		te, fe := an.Edge{From: b, Idx: 0}, an.Edge{From: b, Idx: 1}
		for strings.HasPrefix(term, "not(") && strings.HasSuffix(term, ")") {
			term = term[4 : len(term)-1]
			te, fe = fe, te
		}
		m := c28CmpRe.FindStringSubmatch(term)
		if m == nil {
			continue
		}
		op, x, y := m[1], m[2], m[3]
		switch {
		case x == rv && y == lv:
		case x == lv && y == rv:
			op = map[string]string{"<": ">", ">": "<", "<=": ">=", ">=": "<="}[op]
		default:
			continue
		}
		nCmp++
		// op is now the relation  remote.version OP local.version  that holds on te
		cons := name + " version comparison"
		switch op {
		case "<":
			keepLocal = append(keepLocal, te)
			takeRemote = append(takeRemote, fe)
			c.OK("C28.R1", cons, w.Pos(ifi.Cond.Pos()), "strict test remote.version < local.version")
		case ">=":
			keepLocal = append(keepLocal, fe)
			takeRemote = append(takeRemote, te)
			c.OK("C28.R1", cons, w.Pos(ifi.Cond.Pos()), "test remote.version >= local.version (complement of the strict <)")
		case "<=":
			keepLocal = append(keepLocal, te)
			takeRemote = append(takeRemote, fe)
			c.Bad("C28.R1", cons, w.Pos(ifi.Cond.Pos()), "the test is remote.version <= local.version: a poll with the SAME protocol version (e.g. changed premium rates or asset list) is discarded and the stale stored capability kept")
		case ">":
			keepLocal = append(keepLocal, fe)
			takeRemote = append(takeRemote, te)
			c.Bad("C28.R1", cons, w.Pos(ifi.Cond.Pos()), "the received capability is taken only when remote.version > local.version: a poll with the same protocol version is discarded")
		}
	}
	if nCmp == 0 && notUnderstood != "" {
		c.Unknown("C28.R1", name+" version comparison", w.Pos(fn.Pos()), "the two versions are compared in a form the rule does not interpret: "+notUnderstood)
		return
	}
	if nCmp == 0 {
		c.Bad("C28.R1", name+" version comparison", w.Pos(fn.Pos()), "no condition compares remote.version with local.version: the result does not depend on which capability advertises the lower version")
		return
	}
	// nil guards
	var localNil, remoteNil []an.Edge
	for _, f := range w.Facts(fn) {
		if an.EqIs(f, "==", "param#1", "nil") && f.L != f.R {
			localNil = append(localNil, f.Edge)
		}
		if an.EqIs(f, "==", "param#2", "nil") {
			remoteNil = append(remoteNil, f.Edge)
		}
	}
	nRet := 0
	for _, r := range an.Returns(fn) {
		if len(r.Results) != 1 {
			continue
		}
		pos := w.Pos(r.Pos())
		for _, rc := range c28ExpandReturn(r) {
			nRet++
			val, single := fr.eval(rc.vals[0]).single()
			switch {
			case single && val == "⟨L⟩":
				switch {
				case rc.domAt(append(append([]an.Edge{}, keepLocal...), remoteNil...)):
					c.OK("C28.R1", name+" return of the stored capability", pos, "stored capability kept only under remote.version < local.version (or remote == nil)")
				case e.uninterpretedGuard(rc, c28AboutParams(fn, 1, 2)) != "":
					c.Unknown("C28.R1", name+" return of the stored capability", pos, "the stored capability is returned under the predicate "+e.uninterpretedGuard(rc, c28AboutParams(fn, 1, 2))+", which the rule does not interpret")
				default:
					c.Bad("C28.R1", name+" return of the stored capability", pos, "the stored capability is returned on a path that does not pass the edge remote.version < local.version: the most recent poll is dropped although it does not advertise a lower version. Facts: "+an.DescribeFacts(e.factsAt(rc)))
				}
			case single && val == "⟨R⟩":
				switch {
				case rc.domAt(append(append([]an.Edge{}, takeRemote...), localNil...)):
					c.OK("C28.R1", name+" return of the received capability", pos, "received capability taken only under !(remote.version < local.version) (or local == nil)")
				case e.uninterpretedGuard(rc, c28AboutParams(fn, 1, 2)) != "":
					c.Unknown("C28.R1", name+" return of the received capability", pos, "the received capability is returned under the predicate "+e.uninterpretedGuard(rc, c28AboutParams(fn, 1, 2))+", which the rule does not interpret")
				default:
					c.Bad("C28.R1", name+" return of the received capability", pos, "the received capability is returned on a path that does not exclude remote.version < local.version: a lower-version poll overwrites the stored capability. Facts: "+an.DescribeFacts(e.factsAt(rc)))
				}
			default:
				c.Unknown("C28.R1", name+" return", pos, "returned value is not exactly one of the two parameters: "+fr.eval(rc.vals[0]).String())
			}
		}
	}
	c.AtLeast("C28.R1", "returns of MergeCapabilities", nRet, 2)

	// call site
	// the function that merges a received capability into the stored peer: the
	// production caller of MergeCapabilities
	var h *ssa.Function
	for _, cs := range e.prodCallers(fn) {
		if h != nil && cs.Parent() != h {
			c.Unknown("C28.R1", "callers of MergeCapabilities", w.Pos(cs.Pos()), "MergeCapabilities is called from more than one production function")
			return
		}
		h = cs.Parent()
	}
	if h == nil {
		h = e.fn("(*messageHandler).storeCapabilityMessage")
	}
	if h == nil {
		return
	}
	hn := w.FuncName(h)
	var merges, updates, saves []*ssa.Call
	for _, ci := range an.Calls(h) {
		call, ok := ci.(*ssa.Call)
		if !ok {
			continue
		}
		switch w.Info(call).Name {
		case "func:(*peersync.SyncLogic).MergeCapabilities":
			merges = append(merges, call)
		case "func:(*peersync.Peer).UpdateCapability":
			updates = append(updates, call)
		case "func:(*peersync.Store).SavePeerState":
			saves = append(saves, call)
		}
	}
	if !c.AtLeast("C28.R1", "MergeCapabilities call sites in storeCapabilityMessage", len(merges), 1) {
		return
	}
	if len(merges) != 1 || len(updates) != 1 || len(saves) != 1 {
		c.Unknown("C28.R1", hn, w.Pos(h.Pos()), fmt.Sprintf("expected one merge, one update and one save, found %d/%d/%d", len(merges), len(updates), len(saves)))
		return
	}
	mg, up, sv := merges[0], updates[0], saves[0]
	a1 := w.Sources(mg.Call.Args[1], an.FlowOpts{})
	a2 := w.Sources(mg.Call.Args[2], an.FlowOpts{})
	isStored := func(l an.Src) bool { return l.Kind == "call" && l.Name == "func:(*peersync.Peer).Capability#0" }
	isParsed := func(l an.Src) bool {
		return l.Kind == "call" && l.Name == "func:(*peersync.messageHandler).parseCapabilityMessage#0"
	}
	switch {
	case a1.OnlyFrom(isStored) && a2.OnlyFrom(isParsed):
		// the stored capability must be the one of the peer that is updated
		var capCall *ssa.Call
		for _, l := range a1.Leaves {
			capCall = l.Call
		}
		same := capCall != nil && c28Strip(capCall.Call.Args[0]) == c28Strip(up.Call.Args[0]) && c28Strip(up.Call.Args[0]) == c28Strip(sv.Call.Args[1])
		if same {
			c.OK("C28.R1", hn+" merge arguments", w.Pos(mg.Pos()), "MergeCapabilities(stored capability of the peer, parsed message)")
		} else {
			c.Unknown("C28.R1", hn+" merge arguments", w.Pos(mg.Pos()), "cannot establish that the capability that is merged, the peer that is updated and the peer that is saved are the same peer value")
		}
	case a1.OnlyFrom(isParsed) && a2.OnlyFrom(isStored):
		c.Bad("C28.R1", hn+" merge arguments", w.Pos(mg.Pos()), "MergeCapabilities is called as (received, stored): the roles are swapped, so the stored capability wins unless it has the LOWER version — a normal same-version poll never updates the store")
	default:
		c.Unknown("C28.R1", hn+" merge arguments", w.Pos(mg.Pos()), "arguments come from "+strings.Join(a1.Names(), ",")+" / "+strings.Join(a2.Names(), ","))
	}
	us := w.Sources(up.Call.Args[1], an.FlowOpts{})
	okUp := us.OnlyFrom(func(l an.Src) bool { return isParsed(l) || (l.Kind == "call" && l.Call == mg) }) && us.OnlyFrom(func(l an.Src) bool { return true })
	hasMerge := false
	for _, l := range us.Leaves {
		if l.Kind == "call" && l.Call == mg {
			hasMerge = true
		}
	}
	switch {
	case okUp && hasMerge:
		c.OK("C28.R1", hn+" update value", w.Pos(up.Pos()), "UpdateCapability receives the merge result (or the parsed capability when nothing is stored)")
	case okUp:
		c.Bad("C28.R1", hn+" update value", w.Pos(up.Pos()), "the capability written to the peer is the parsed message, never the result of MergeCapabilities: a lower-version poll overwrites the stored capability")
	default:
		c.Unknown("C28.R1", hn+" update value", w.Pos(up.Pos()), "the capability written to the peer comes from "+strings.Join(us.Names(), ", "))
	}
	// persist before success
	okE, _ := an.OkEdges(sv)
	after := an.ReachFromInstr(up)
	after[up.Block()] = true
	for _, r := range an.Returns(h) {
		if len(r.Results) != 2 {
			continue
		}
		for _, rc := range c28ExpandReturn(r) {
			if !after[rc.block] {
				continue
			}
			if rc.block == up.Block() && rc.edge == nil && an.InstrIndex(r) < an.InstrIndex(up) {
				continue
			}
			es := w.Sources(rc.vals[1], an.FlowOpts{})
			if !es.OnlyFrom(func(l an.Src) bool { return l.Kind == "zero" }) {
				continue
			}
			switch {
			case rc.domAt(okE):
				c.OK("C28.R1", hn+" success after update", w.Pos(r.Pos()), "success is reported only after SavePeerState succeeded")
			case e.uninterpretedGuard(rc, c28AboutCall(sv)) != "":
				c.Unknown("C28.R1", hn+" success after update", w.Pos(r.Pos()), "success is reported under the predicate "+e.uninterpretedGuard(rc, c28AboutCall(sv))+", which the rule does not interpret")
			default:
				c.Bad("C28.R1", hn+" success after update", w.Pos(r.Pos()), "after UpdateCapability a nil error is returned on a path that does not pass the success edge of SavePeerState: the in-memory capability is newer than the persisted one")
			}
		}
	}
}

// c28RetCase is one way a return hands out its results: the results themselves,
// or — when they are phis of the returning block ("result selected into a local,
// returned once") — the incoming values of one predecessor, judged at that
// predecessor plus the edge into the returning block.
type c28RetCase struct {
	vals  []ssa.Value
	block *ssa.BasicBlock
	edge  *an.Edge
}

func c28ExpandReturn(r *ssa.Return) []c28RetCase {
	var out []c28RetCase
	var rec func(vals []ssa.Value, block *ssa.BasicBlock, edge *an.Edge, depth int)
	rec = func(vals []ssa.Value, block *ssa.BasicBlock, edge *an.Edge, depth int) {
		split := false
		for _, v := range vals {
			if ph, ok := v.(*ssa.Phi); ok && ph.Block() == block && depth < 4 {
				split = true
			}
		}
		if !split {
			out = append(out, c28RetCase{vals: vals, block: block, edge: edge})
			return
		}
		for i, pred := range block.Preds {
			nv := make([]ssa.Value, len(vals))
			for j, v := range vals {
				nv[j] = v
				if ph, ok := v.(*ssa.Phi); ok && ph.Block() == block && i < len(ph.Edges) {
					nv[j] = ph.Edges[i]
				}
			}
			idx := 0
			for k, sc := range pred.Succs {
				if sc == block {
					idx = k
				}
			}
			rec(nv, pred, &an.Edge{From: pred, Idx: idx}, depth+1)
		}
	}
	rec(r.Results, r.Block(), nil, 0)
	return out
}

// domAt: every path into the case passes one of the edges.
func (rc c28RetCase) domAt(es []an.Edge) bool {
	if len(es) == 0 {
		return false
	}
	if rc.edge != nil {
		for _, x := range es {
			if x == *rc.edge {
				return true
			}
		}
	}
	return an.EdgesDominate(es, rc.block)
}

func (e *c28Env) factsAt(rc c28RetCase) []an.Fact {
	fs := append([]an.Fact{}, e.w.FactsDominatingBlock(rc.block)...)
	if rc.edge != nil && len(rc.edge.From.Succs) == 2 && rc.edge.From.Succs[0] != rc.edge.From.Succs[1] {
		for _, f := range e.w.Facts(rc.block.Parent()) {
			if f.Edge == *rc.edge {
				fs = append(fs, f)
			}
		}
	}
	return fs
}

// uninterpretedGuard: the case is guarded by the answer of an in-module (or
// dynamically dispatched) predicate over one of the given values that the rule
// did not look into — a negative verdict would only say "I could not interpret
// the guard". Predicates over unrelated values do not count.
func (e *c28Env) uninterpretedGuard(rc c28RetCase, about func(l an.Src) bool) string {
	return e.uninterpretedIn(e.factsAt(rc), about)
}

func (e *c28Env) uninterpretedIn(fs []an.Fact, about func(l an.Src) bool) string {
	for _, f := range fs {
		if f.Rel != "true" && f.Rel != "false" {
			continue
		}
		call, ok := f.Cond.(*ssa.Call)
		if !ok {
			continue
		}
		inf := e.w.Info(call)
		if !((inf.Static != nil && e.w.InModule(inf.Static)) || (inf.Static == nil && !strings.HasPrefix(inf.Name, "builtin:"))) {
			continue
		}
		args := append([]ssa.Value{}, call.Call.Args...)
		if call.Call.IsInvoke() {
			args = append(args, call.Call.Value)
		}
		for _, a := range args {
			for _, l := range e.w.Sources(a, an.FlowOpts{}).Leaves {
				if about(l) {
					return inf.Name
				}
			}
		}
	}
	return ""
}

func c28AboutCall(calls ...*ssa.Call) func(l an.Src) bool {
	return func(l an.Src) bool {
		for _, c := range calls {
			if l.Kind == "call" && l.Call == c {
				return true
			}
		}
		return false
	}
}

func c28AboutParams(fn *ssa.Function, idx ...int) func(l an.Src) bool {
	return func(l an.Src) bool {
		p, ok := l.Val.(*ssa.Parameter)
		if !ok || l.Kind != "param" || p.Parent() != fn {
			return false
		}
		for _, i := range idx {
			if l.Idx == i {
				return true
			}
		}
		return false
	}
}

func c28Strip(v ssa.Value) ssa.Value {
	for {
		switch x := v.(type) {
		case *ssa.ChangeType:
			v = x.X
		case *ssa.Convert:
			v = x.X
		case *ssa.MakeInterface:
			v = x.X
		case *ssa.ChangeInterface:
			v = x.X
		default:
			return v
		}
	}
}

// =====================================================================================
// R2
// =====================================================================================

// recordConverters finds the pair of functions that turn a Peer into the stored
// record and back, structurally: the in-module call whose result SavePeerState
// hands to json.Marshal, and the in-module call whose result GetPeerState
// returns. Falls back to the names used on the pinned tree.
func (e *c28Env) recordConverters() (toRec, toPeer *ssa.Function) {
	w := e.w
	inMod := func(c *ssa.Call) *ssa.Function {
		if c == nil {
			return nil
		}
		f := w.Info(c).Static
		if f == nil || !w.InModule(f) || f.Blocks == nil {
			return nil
		}
		return f
	}
	if save := w.Func("peersync", "(*Store).SavePeerState"); save != nil && save.Blocks != nil {
		for _, ci := range an.Calls(save) {
			if w.Info(ci).Name != "func:encoding/json.Marshal" || len(ci.Common().Args) != 1 {
				continue
			}
			ss := w.Sources(ci.Common().Args[0], an.FlowOpts{})
			if len(ss.Leaves) == 1 && ss.Leaves[0].Kind == "call" {
				if f := inMod(ss.Leaves[0].Call); f != nil && len(f.Params) == 1 {
					toRec = f
				}
			}
		}
	}
	if get := w.Func("peersync", "(*Store).GetPeerState"); get != nil && get.Blocks != nil {
		for _, r := range an.Returns(get) {
			if len(r.Results) != 2 {
				continue
			}
			ss := w.Sources(r.Results[0], an.FlowOpts{})
			for _, l := range ss.Leaves {
				if l.Kind == "call" && l.Idx == 0 {
					if f := inMod(l.Call); f != nil && f.Signature.Recv() != nil {
						toPeer = f
					}
				}
			}
		}
	}
	if toRec == nil {
		toRec = e.fn("peerToRecord")
	}
	if toPeer == nil {
		toPeer = e.fn("(*peerRecord).toPeer")
	}
	return toRec, toPeer
}

func (e *c28Env) r2() {
	c, w := e.c, e.w
	peerT := w.Named("peersync", "Peer")
	capT := w.Named("peersync", "PeerCapability")
	if peerT == nil || capT == nil {
		c.Anchor("peersync.Peer / PeerCapability do not resolve")
		return
	}
	toRec, toPeer := e.recordConverters()
	fromCap, toCap := e.fn("SnapshotFromCapability"), e.fn("(*PeerCapabilitySnapshot).ToCapability")
	if toRec == nil || toPeer == nil || fromCap == nil || toCap == nil {
		return
	}

	check := func(label string, pos string, it *c28Interp, out c28Set, t types.Type, root string, extraOK map[string]bool) int {
		n := 0
		e.leaves(it, out, t, "", 0, func(path string, vals c28Set) {
			n++
			want := "⟨" + root + path + "⟩"
			cons := label + " " + strings.TrimPrefix(path, ".")
			if strings.HasSuffix(path, "PeerCapability.observedAt") {
				c.Note("C28.R2", cons, pos, "not persisted by design: "+it.render(vals, 1))
				return
			}
			m := c28Mentions(vals, it)
			var extra []string
			for l := range m {
				if l != want && !extraOK[l] && !strings.HasPrefix(l, "⟨ext:") {
					extra = append(extra, l)
				}
			}
			sort.Strings(extra)
			switch {
			case !m[want] && it.lossy != "":
				c.Unknown("C28.R2", cons, pos, "the evaluator lost track of a value ("+it.lossy+"); holds "+it.render(vals, 1))
			case !m[want] && len(extra) > 0:
				c.Bad("C28.R2", cons, pos, fmt.Sprintf("after the round trip this field is computed from %s instead of from its own original value %s", strings.Join(extra, ", "), want))
			case !m[want]:
				c.Bad("C28.R2", cons, pos, fmt.Sprintf("the field is not restored: nothing that flows into it after the round trip derives from %s (it holds %s)", want, it.render(vals, 1)))
			case len(extra) > 0:
				c.Bad("C28.R2", cons, pos, fmt.Sprintf("besides its own original value the field can be filled from %s", strings.Join(extra, ", ")))
			default:
				c.OK("C28.R2", cons, pos, "restored from "+want)
			}
		})
		return n
	}

	// store round trip
	{
		it := c28NewInterp(w)
		var out c28Set
		it.fix(func() {
			_, r1 := it.exec(toRec, []c28Set{c28One("⟨P⟩")}, nil, "w", 0, map[*ssa.Function]bool{})
			env := []c28Set{r1[0]}
			for len(env) < len(toPeer.Params) {
				env = append(env, c28One("⟨key⟩"))
			}
			_, r2 := it.exec(toPeer, env, nil, "r", 0, map[*ssa.Function]bool{})
			out = r2[0]
		})
		if it.gave {
			c.Unknown("C28.R2", "store round trip", w.Pos(toPeer.Pos()), "symbolic evaluation did not converge")
		} else {
			n := check("store round trip", w.Pos(toPeer.Pos()), it, out, peerT, "P", map[string]bool{"⟨key⟩": true})
			c.AtLeast("C28.R2", "leaf fields of Peer in the store round trip", n, 13)
		}
	}
	// wire round trip
	{
		it := c28NewInterp(w)
		var out c28Set
		it.fix(func() {
			_, r1 := it.exec(fromCap, []c28Set{c28One("⟨C⟩")}, nil, "w", 0, map[*ssa.Function]bool{})
			_, r2 := it.exec(toCap, []c28Set{r1[0]}, nil, "r", 0, map[*ssa.Function]bool{})
			out = r2[0]
		})
		if it.gave {
			c.Unknown("C28.R2", "wire round trip", w.Pos(toCap.Pos()), "symbolic evaluation did not converge")
		} else {
			n := check("wire round trip", w.Pos(toCap.Pos()), it, out, capT, "C", nil)
			c.AtLeast("C28.R2", "leaf fields of PeerCapability in the wire round trip", n, 8)
		}
	}

	// JSON layer
	recName := "peerRecord"
	if toRec.Signature.Results().Len() == 1 {
		if n := an.NamedOf(toRec.Signature.Results().At(0).Type()); n != nil {
			recName = n.Obj().Name()
		}
	}
	for _, tn := range []string{recName, "PeerCapabilitySnapshot"} {
		n := w.Named("peersync", tn)
		if n == nil {
			c.Anchor("peersync.%s does not resolve", tn)
			continue
		}
		st, ok := n.Underlying().(*types.Struct)
		if !ok {
			c.Anchor("peersync.%s is not a struct", tn)
			continue
		}
		names := map[string]string{}
		for i := 0; i < st.NumFields(); i++ {
			f := st.Field(i)
			cons := tn + "." + f.Name() + " JSON"
			pos := w.Pos(f.Pos())
			tag := reflect.StructTag(st.Tag(i)).Get("json")
			jn := strings.Split(tag, ",")[0]
			if jn == "" {
				jn = f.Name()
			}
			switch {
			case !f.Exported() || f.Embedded():
				c.Bad("C28.R2", cons, pos, "unexported or embedded field: encoding/json does not store it")
			case jn == "-":
				c.Bad("C28.R2", cons, pos, "field is excluded from JSON")
			case names[jn] != "":
				c.Bad("C28.R2", cons, pos, fmt.Sprintf("JSON name %q is also used by field %s: encoding/json silently drops both", jn, names[jn]))
			case !c28JSONSafe(f.Type()):
				c.Unknown("C28.R2", cons, pos, "field type "+f.Type().String()+" is not a plain JSON-representable type")
			default:
				c.OK("C28.R2", cons, pos, fmt.Sprintf("stored as %q", jn))
			}
			if names[jn] == "" {
				names[jn] = f.Name()
			}
		}
		c.AtLeast("C28.R2", "fields of "+tn, st.NumFields(), 7)
	}

	// asset symbol tables
	e.assetTables()
}

func c28JSONSafe(t types.Type) bool {
	if n, ok := t.(*types.Named); ok && n.Obj().Pkg() != nil && n.Obj().Pkg().Path() == "time" && n.Obj().Name() == "Time" {
		return true
	}
	switch u := t.Underlying().(type) {
	case *types.Basic:
		return u.Info()&(types.IsInteger|types.IsString|types.IsBoolean) != 0
	case *types.Slice:
		return c28JSONSafe(u.Elem())
	}
	return false
}

// assetTables checks that assetToString and stringToAsset (the tables the
// asset list passes through on every conversion) are inverse of each other and
// that every symbol is its own normal form (NewAsset upper-cases and trims).
func (e *c28Env) assetTables() {
	c, w := e.c, e.w
	sp := w.SSA["peersync"]
	if sp == nil {
		return
	}
	initFn := sp.Func("init")
	if initFn == nil {
		c.Anchor("peersync.init does not resolve")
		return
	}
	tables := map[string]map[string]string{}
	byMap := map[ssa.Value]string{}
	for _, b := range initFn.Blocks {
		for _, in := range b.Instrs {
			if st, ok := in.(*ssa.Store); ok {
				if g, ok := st.Addr.(*ssa.Global); ok {
					if _, isMap := st.Val.(*ssa.MakeMap); isMap {
						byMap[st.Val] = g.Name()
					}
				}
			}
		}
	}
	constText := func(v ssa.Value) (string, bool) {
		cv, ok := c28Strip(v).(*ssa.Const)
		if !ok || cv.Value == nil {
			return "", false
		}
		if cv.Value.Kind() == constant.String {
			return "s:" + constant.StringVal(cv.Value), true
		}
		return "i:" + cv.Value.ExactString(), true
	}
	okAll := true
	tblPos := initFn.Pos()
	for _, b := range initFn.Blocks {
		for _, in := range b.Instrs {
			mu, ok := in.(*ssa.MapUpdate)
			if !ok {
				continue
			}
			g := byMap[mu.Map]
			if g != "assetToString" && g != "stringToAsset" {
				continue
			}
			if !tblPos.IsValid() {
				tblPos = mu.Pos()
			}
			k, ok1 := constText(mu.Key)
			v, ok2 := constText(mu.Value)
			if !ok1 || !ok2 {
				okAll = false
				continue
			}
			if tables[g] == nil {
				tables[g] = map[string]string{}
			}
			tables[g][k] = v
		}
	}
	a2s, s2a := tables["assetToString"], tables["stringToAsset"]
	if !okAll || len(a2s) == 0 || len(s2a) == 0 {
		c.Unknown("C28.R2", "asset symbol tables", w.Pos(tblPos), "assetToString / stringToAsset are not constant map literals")
		return
	}
	bad := ""
	for k, v := range a2s {
		if s2a[v] != k {
			bad = fmt.Sprintf("assetToString[%s]=%s but stringToAsset[%s]=%s", k, v, v, s2a[v])
		}
		sym := strings.TrimPrefix(v, "s:")
		if strings.ToUpper(strings.TrimSpace(sym)) != sym {
			bad = fmt.Sprintf("symbol %q is not in the normal form NewAsset looks up (upper case, trimmed)", sym)
		}
	}
	if len(a2s) != len(s2a) {
		bad = fmt.Sprintf("tables have %d and %d entries", len(a2s), len(s2a))
	}
	c.Decide(bad == "", "C28.R2", "asset symbol tables", w.Pos(tblPos),
		fmt.Sprintf("assetToString and stringToAsset are inverse (%d entries)", len(a2s)),
		"a stored asset does not reload as itself: "+bad)
}

// =====================================================================================
// R3
// =====================================================================================

func (e *c28Env) isBoltDelete(ci an.CallInfo) bool {
	return ci.Static != nil && ci.Recv != nil && ci.Method == "Delete" && ci.Recv.Obj().Pkg() != nil &&
		strings.HasSuffix(ci.Recv.Obj().Pkg().Path(), "go.etcd.io/bbolt") &&
		(ci.Recv.Obj().Name() == "Cursor" || ci.Recv.Obj().Name() == "Bucket")
}

// prodCallers lists the production call sites of fn (VTA graph).
func (e *c28Env) prodCallers(fn *ssa.Function) []ssa.CallInstruction {
	var out []ssa.CallInstruction
	n := e.w.CG().Nodes[fn]
	if n == nil {
		return nil
	}
	seen := map[ssa.CallInstruction]bool{}
	for _, in := range n.In {
		if in.Site == nil || seen[in.Site] {
			continue
		}
		if an.IsTestSupport(e.w.FnRel(in.Caller.Func)) {
			continue
		}
		seen[in.Site] = true
		out = append(out, in.Site)
	}
	return out
}

// guardedBy: instr is dominated by a fact satisfying pred, in its own function
// or (recursively, up to depth) at every production call site of that function.
func (e *c28Env) guardedBy(instr ssa.Instruction, pred func(f an.Fact, at ssa.Instruction) bool, depth int) (bool, string) {
	for _, f := range e.w.FactsDominating(instr) {
		if pred(f, instr) {
			return true, ""
		}
	}
	if depth == 0 {
		return false, "not guarded in " + e.w.FuncName(instr.Parent())
	}
	callers := e.prodCallers(instr.Parent())
	if len(callers) == 0 {
		return false, "not guarded in " + e.w.FuncName(instr.Parent()) + " (no production caller to look at)"
	}
	for _, cs := range callers {
		if ok, why := e.guardedBy(cs, pred, depth-1); !ok {
			return false, why + " <- " + e.w.FuncName(instr.Parent())
		}
	}
	return true, ""
}

// c28Membership describes what an in-module predicate answers when evaluated
// symbolically with its parameters as inputs.
type c28Membership struct {
	ok          bool // some answer is the comma-ok membership of a key derived from parameter keyIdx in map parameter mapIdx
	negated     bool // ... negated
	keyIdx      int
	mapIdx      int
	other       string // an answer that is neither a constant nor that membership
	all         string
	hasMapParam bool
}

var c28OkRe = regexp.MustCompile(`^(not\()?ok\(⟨A(\d+)⟩;(.*)\)$`)

func (e *c28Env) membership(fn *ssa.Function) c28Membership {
	var mp c28Membership
	for _, p := range fn.Params {
		if _, isMap := p.Type().Underlying().(*types.Map); isMap {
			mp.hasMapParam = true
		}
	}
	if fn.Signature.Results().Len() != 1 {
		return mp
	}
	it := c28NewInterp(e.w)
	var res []c28Set
	it.fix(func() {
		env := make([]c28Set, len(fn.Params))
		for i := range env {
			env[i] = c28One(fmt.Sprintf("⟨A%d⟩", i))
		}
		_, res = it.exec(fn, env, nil, "k", 0, map[*ssa.Function]bool{})
	})
	if it.gave || len(res) != 1 {
		mp.other = "evaluation did not converge"
		return mp
	}
	mp.all = res[0].String()
	for _, t := range res[0].sorted() {
		if t == "c:false" || t == "c:true" {
			continue
		}
		m := c28OkRe.FindStringSubmatch(t)
		if m == nil {
			mp.other = t
			continue
		}
		neg := m[1] != ""
		if neg {
			t = strings.TrimSuffix(t, ")")
		}
		var mi int
		fmt.Sscanf(m[2], "%d", &mi)
		keys := c28LeafRe.FindAllString(m[3], -1)
		ki := -1
		for _, k := range keys {
			var x int
			if n, _ := fmt.Sscanf(k, "⟨A%d", &x); n == 1 && x != mi {
				ki = x
			}
		}
		if ki < 0 {
			mp.other = t
			continue
		}
		mp.ok, mp.negated, mp.keyIdx, mp.mapIdx = true, neg, ki, mi
	}
	return mp
}

// impliesCall: the in-module predicate called here answers true only with the
// result of a call to `name` (e.g. `func due(p, t) bool { return p != nil && p.IsExpired(t) }`).
func (e *c28Env) impliesCall(call *ssa.Call, name string) bool {
	inf := e.w.Info(call)
	if inf.Static == nil || !e.w.InModule(inf.Static) || inf.Static.Blocks == nil {
		return false
	}
	found := false
	seen := map[ssa.Value]bool{}
	var okv func(v ssa.Value) bool
	okv = func(v ssa.Value) bool {
		if seen[v] {
			return true
		}
		seen[v] = true
		switch x := v.(type) {
		case *ssa.Const:
			return x.Value != nil && x.Value.Kind() == constant.Bool && !constant.BoolVal(x.Value)
		case *ssa.Phi:
			for _, ed := range x.Edges {
				if !okv(ed) {
					return false
				}
			}
			return true
		case *ssa.Call:
			if e.w.Info(x).Name == name {
				found = true
				return true
			}
		}
		return false
	}
	for _, r := range an.Returns(inf.Static) {
		if len(r.Results) != 1 || !okv(r.Results[0]) {
			return false
		}
	}
	return found
}

// uninterpretedAround: facts dominating instr in its function and (up to
// depth) at its production call sites contain an in-module / dynamic predicate
// over a value selected by `about` that is not one of the predicates in known.
func (e *c28Env) uninterpretedAround(instr ssa.Instruction, depth int, about func(l an.Src) bool, known map[*ssa.Function]c28Membership) string {
	var fs []an.Fact
	for _, f := range e.w.FactsDominating(instr) {
		if call, ok := f.Cond.(*ssa.Call); ok {
			inf := e.w.Info(call)
			if inf.Name == "func:(*peersync.Peer).IsExpired" {
				continue
			}
			if mp, isKnown := known[inf.Static]; isKnown && inf.Static != nil && (mp.ok || mp.other == "") {
				continue
			}
		}
		fs = append(fs, f)
	}
	if s := e.uninterpretedIn(fs, about); s != "" {
		return s
	}
	if depth > 0 {
		for _, cs := range e.prodCallers(instr.Parent()) {
			if s := e.uninterpretedAround(cs, depth-1, about, known); s != "" {
				return s
			}
		}
	}
	return ""
}

func (e *c28Env) r3() {
	c, w := e.c, e.w
	nDel := 0
	keepPreds := map[*ssa.Function]c28Membership{}
	for _, fn := range prodFuncs(w) {
		if w.FnRel(fn) != "peersync" {
			continue
		}
		for _, ci := range an.Calls(fn) {
			info := w.Info(ci)
			if !e.isBoltDelete(info) {
				continue
			}
			nDel++
			top := an.EnclosingTop(fn)
			cons := w.FuncName(top) + " " + info.Recv.Obj().Name() + ".Delete"
			pos := w.Pos(ci.Pos())
			if info.Recv.Obj().Name() == "Bucket" {
				// explicit removal by id: must not be reachable from production code
				callers := e.prodCallers(top)
				if len(callers) == 0 {
					c.OK("C28.R3", cons, pos, "keyed removal has no production caller")
				} else {
					var ns []string
					for _, cs := range callers {
						ns = append(ns, w.FuncName(cs.Parent()))
					}
					c.Unknown("C28.R3", cons, pos, "keyed removal is called from production code ("+strings.Join(ns, ", ")+"): cannot decide whether the peer is expired and disconnected there")
				}
				continue
			}
			// cursor delete: expired ...
			// the peer materialised from the record: result #0 of an in-module call that yields a *Peer
			isMaterialised := func(l an.Src) bool {
				if l.Kind != "call" || l.Call == nil || l.Idx != 0 {
					return false
				}
				res := l.Call.Call.Signature().Results()
				if res.Len() == 0 {
					return false
				}
				n := an.NamedOf(res.At(0).Type())
				return n != nil && n.Obj().Name() == "Peer" && n.Obj().Pkg() != nil && strings.HasSuffix(n.Obj().Pkg().Path(), "/peersync")
			}
			isPeerLeaf := func(l an.Src) bool { return isMaterialised(l) || l.Kind == "param" }
			okExp, why := e.guardedBy(ci, func(f an.Fact, at ssa.Instruction) bool {
				call, ok := f.Cond.(*ssa.Call)
				if !ok || f.Rel != "true" {
					return false
				}
				if w.Info(call).Name != "func:(*peersync.Peer).IsExpired" {
					// a predicate helper that answers true only with IsExpired
					return e.impliesCall(call, "func:(*peersync.Peer).IsExpired")
				}
				if len(call.Call.Args) != 2 {
					return false
				}
				// the peer comes from the record at the cursor, the timeout is a parameter
				ps := w.Sources(call.Call.Args[0], an.FlowOpts{})
				ts := w.Sources(call.Call.Args[1], an.FlowOpts{})
				return ps.OnlyFrom(isPeerLeaf) && ts.OnlyFrom(func(l an.Src) bool { return l.Kind == "param" || l.Kind == "field" })
			}, 1)
			switch {
			case okExp:
				c.OK("C28.R3", cons+" expired", pos, "dominated by IsExpired(timeout) == true on the peer read at the cursor")
			case e.uninterpretedAround(ci, 1, isMaterialised, nil) != "":
				c.Unknown("C28.R3", cons+" expired", pos, "the delete is guarded by a predicate over the peer that the rule does not interpret: "+e.uninterpretedAround(ci, 1, isMaterialised, nil))
			default:
				c.Bad("C28.R3", cons+" expired", pos, "a peer record is deleted without the test IsExpired(timeout) on that record: "+why)
			}
			// ... and not connected
			okKeep, why2 := e.guardedBy(ci, func(f an.Fact, at ssa.Instruction) bool {
				var keyArg, mapArg ssa.Value
				switch x := f.Cond.(type) {
				case *ssa.Call:
					inf := w.Info(x)
					if inf.Static == nil || !w.InModule(inf.Static) || inf.Static.Blocks == nil {
						return false
					}
					mp := e.membership(inf.Static)
					keepPreds[inf.Static] = mp
					if !mp.ok || mp.keyIdx >= len(x.Call.Args) || mp.mapIdx >= len(x.Call.Args) {
						return false
					}
					// "not a member" holds on this edge
					if (f.Rel == "false") == mp.negated || (f.Rel != "false" && f.Rel != "true") {
						return false
					}
					keyArg, mapArg = x.Call.Args[mp.keyIdx], x.Call.Args[mp.mapIdx]
				case *ssa.Extract:
					// inline `_, ok := keep[id]`
					lk, isL := x.Tuple.(*ssa.Lookup)
					if !isL || !lk.CommaOk || x.Index != 1 || f.Rel != "false" {
						return false
					}
					if _, isMap := lk.X.Type().Underlying().(*types.Map); !isMap {
						return false
					}
					mapArg = lk.X
				default:
					return false
				}
				// same key as the one handed down to the deleting function
				if atc, ok := at.(ssa.CallInstruction); ok && keyArg != nil && at.Parent() == f.Cond.(ssa.Instruction).Parent() {
					same := false
					for _, a := range atc.Common().Args {
						if c28Strip(a) == c28Strip(keyArg) {
							same = true
						}
					}
					if !same {
						return false
					}
				}
				ks := w.Sources(mapArg, an.FlowOpts{})
				return ks.OnlyFrom(func(l an.Src) bool { return l.Kind == "param" })
			}, 2)
			isMapLeaf := func(l an.Src) bool {
				if l.Val == nil {
					return false
				}
				_, isMap := l.Val.Type().Underlying().(*types.Map)
				return isMap
			}
			switch {
			case okKeep:
				c.OK("C28.R3", cons+" not connected", pos, "dominated by `the key is not in the keep set` for the key that is deleted")
			case e.uninterpretedAround(ci, 2, isMapLeaf, keepPreds) != "":
				c.Unknown("C28.R3", cons+" not connected", pos, "the delete is guarded by a predicate over the keep set that the rule does not interpret: "+e.uninterpretedAround(ci, 2, isMapLeaf, keepPreds))
			default:
				c.Bad("C28.R3", cons+" not connected", pos, "a peer record can be deleted without consulting the connected-peer set: "+why2)
			}
		}
	}
	c.AtLeast("C28.R3", "bbolt delete calls in peersync", nDel, 2)

	// the keep predicates met on the way = membership of the key in the keep set
	var kfs []*ssa.Function
	for f := range keepPreds {
		kfs = append(kfs, f)
	}
	sort.Slice(kfs, func(i, j int) bool { return w.FuncName(kfs[i]) < w.FuncName(kfs[j]) })
	for _, fn := range kfs {
		mp := keepPreds[fn]
		if !mp.hasMapParam {
			continue // not a predicate over a set
		}
		switch {
		case mp.ok && !mp.negated && mp.other == "":
			c.OK("C28.R3", w.FuncName(fn), w.Pos(fn.Pos()), "answers with the membership of the key in the keep set: "+mp.all)
		case mp.ok && mp.negated:
			c.Bad("C28.R3", w.FuncName(fn), w.Pos(fn.Pos()), "the answer is the NEGATED membership of the key in the keep set: "+mp.all)
		case mp.ok || mp.other != "":
			c.Unknown("C28.R3", w.FuncName(fn), w.Pos(fn.Pos()), "the answer is not only the membership of the key in the keep set: "+mp.other)
		default:
			c.Bad("C28.R3", w.FuncName(fn), w.Pos(fn.Pos()), "the keep set is never consulted for the key: "+mp.all)
		}
	}

	// callers of the cleanup
	cleanup := e.fn("(*Store).CleanupExpiredExcept")
	wrapper := e.fn("(*Store).CleanupExpired")
	if cleanup == nil || wrapper == nil {
		return
	}
	if cs := e.prodCallers(wrapper); len(cs) > 0 {
		for _, s := range cs {
			c.Bad("C28.R3", w.FuncName(s.Parent())+" calls CleanupExpired", w.Pos(s.Pos()), "the keep-nothing cleanup is run from production code: connected peers that were quiet for the timeout are removed")
		}
	} else {
		c.OK("C28.R3", "(*peersync.Store).CleanupExpired callers", w.Pos(wrapper.Pos()), "no production caller")
	}
	nCall := 0
	listers := map[*ssa.Function]bool{}
	for _, s := range e.prodCallers(cleanup) {
		caller := s.Parent()
		if caller == wrapper {
			continue
		}
		nCall++
		cons := w.FuncName(caller) + " calls CleanupExpiredExcept"
		pos := w.Pos(s.Pos())
		args := s.Common().Args
		ks := w.Sources(args[len(args)-1], an.FlowOpts{})
		var lister *ssa.Call
		onlyNothing := len(ks.Leaves) > 0
		okSrc := len(ks.Leaves) > 0
		for _, l := range ks.Leaves {
			if l.Kind != "zero" && l.Kind != "const" && l.Kind != "alloc" {
				onlyNothing = false
			}
			// the connected-peer listing: an in-module function that (transitively) asks Lightning.ListPeers
			if l.Kind == "call" && l.Call != nil && l.Idx == 0 {
				if cal := w.Info(l.Call).Static; cal != nil && w.InModule(cal) && w.Summary(cal).HasEffect("iface:peersync.Lightning.ListPeers") {
					if lister == nil || lister == l.Call {
						lister = l.Call
						continue
					}
				}
			}
			okSrc = false
		}
		switch {
		case onlyNothing:
			c.Bad("C28.R3", cons, pos, "the keep set is empty/nil, not the connected-peer listing: "+strings.Join(ks.Names(), ", "))
			continue
		case !okSrc || lister == nil:
			c.Unknown("C28.R3", cons, pos, "cannot identify the keep set as the result of the connected-peer listing: "+strings.Join(ks.Names(), ", "))
			continue
		}
		listers[w.Info(lister).Static] = true
		okE, _ := an.OkEdges(lister)
		switch {
		case len(okE) > 0 && an.EdgesDominate(okE, s.Block()):
			c.OK("C28.R3", cons, pos, "keep set = connected-peer listing, cleanup skipped when listing failed")
		case e.uninterpretedIn(w.FactsDominating(s), c28AboutCall(lister)) != "":
			c.Unknown("C28.R3", cons, pos, "the cleanup is guarded by a predicate over the listing result that the rule does not interpret: "+e.uninterpretedIn(w.FactsDominating(s), c28AboutCall(lister)))
		default:
			c.Bad("C28.R3", cons, pos, "the cleanup runs although listing the connected peers failed (keep set nil/partial): connected peers are removed")
		}
	}
	c.AtLeast("C28.R3", "production callers of CleanupExpiredExcept", nCall, 1)

	// the listing function: a nil error only when the listing succeeded
	var lfs []*ssa.Function
	for f := range listers {
		lfs = append(lfs, f)
	}
	sort.Slice(lfs, func(i, j int) bool { return w.FuncName(lfs[i]) < w.FuncName(lfs[j]) })
	nImpl := 0
	for _, fn := range lfs {
		ls := []*ssa.Call{}
		for _, ci := range an.Calls(fn) {
			if call, ok := ci.(*ssa.Call); ok && w.Info(call).Name == "iface:peersync.Lightning.ListPeers" {
				ls = append(ls, call)
			}
		}
		if len(ls) != 1 {
			c.Unknown("C28.R3", w.FuncName(fn), w.Pos(fn.Pos()), "expected one direct Lightning.ListPeers call in the listing function")
			continue
		}
		okE, _ := an.OkEdges(ls[0])
		var noLn []an.Edge
		for _, f := range w.Facts(fn) {
			if f.NonNum && f.Rel == "==" && f.LV != nil && f.RV != nil {
				// `lightning == nil`: the interface value ListPeers is invoked on
				for _, side := range [][2]ssa.Value{{f.LV, f.RV}, {f.RV, f.LV}} {
					if an.IsNilConst(c28Strip(side[1])) && c28SameOrigin(w, side[0], ls[0].Call.Value) {
						noLn = append(noLn, f.Edge)
					}
				}
			}
		}
		for _, r := range an.Returns(fn) {
			if len(r.Results) != 2 {
				continue
			}
			for _, rc := range c28ExpandReturn(r) {
				es := w.Sources(rc.vals[1], an.FlowOpts{})
				if !es.OnlyFrom(func(l an.Src) bool { return l.Kind == "zero" }) {
					continue
				}
				switch {
				case rc.domAt(append(append([]an.Edge{}, okE...), noLn...)):
					c.OK("C28.R3", w.FuncName(fn)+" nil-error return", w.Pos(r.Pos()), "a connected set is returned without error only when ListPeers succeeded (or no node is configured)")
				case e.uninterpretedGuard(rc, c28AboutCall(ls[0])) != "":
					c.Unknown("C28.R3", w.FuncName(fn)+" nil-error return", w.Pos(r.Pos()), "success is reported under the predicate "+e.uninterpretedGuard(rc, c28AboutCall(ls[0]))+", which the rule does not interpret")
				default:
					c.Bad("C28.R3", w.FuncName(fn)+" nil-error return", w.Pos(r.Pos()), "the listing function reports success although ListPeers failed: the (empty) set makes the cleanup remove connected peers")
				}
			}
		}
		// every entry of the set is a listed peer
		nUpd := 0
		for _, b := range fn.Blocks {
			for _, in := range b.Instrs {
				if mu, ok := in.(*ssa.MapUpdate); ok {
					nUpd++
					ks := w.Sources(mu.Key, an.FlowOpts{})
					if ks.OnlyFrom(func(l an.Src) bool { return l.Kind == "call" && l.Call == ls[0] && l.Idx == 0 }) {
						c.OK("C28.R3", w.FuncName(fn)+" set entries", w.Pos(mu.Pos()), "entries are the peers ListPeers returned")
					} else {
						c.Unknown("C28.R3", w.FuncName(fn)+" set entries", w.Pos(mu.Pos()), "cannot trace the entries of the connected set to the ListPeers result: "+strings.Join(ks.Names(), ", "))
					}
				}
			}
		}
		c.AtLeast("C28.R3", "insertions into the connected set", nUpd, 1)

		// the implementations behind Lightning.ListPeers report a failed listing
		if n := w.CG().Nodes[fn]; n != nil {
			seen := map[*ssa.Function]bool{}
			for _, out := range n.Out {
				if out.Site != ssa.CallInstruction(ls[0]) || seen[out.Callee.Func] || an.IsTestSupport(w.FnRel(out.Callee.Func)) || out.Callee.Func.Blocks == nil {
					continue
				}
				seen[out.Callee.Func] = true
				nImpl++
				e.listingPropagates(out.Callee.Func, 0, map[*ssa.Function]bool{})
			}
		}
	}
	if len(lfs) > 0 {
		c.AtLeast("C28.R3", "production implementations of Lightning.ListPeers", nImpl, 2)
	}
}

// c28SameOrigin: two values are loads of the same field of the same base.
func c28SameOrigin(w *an.World, a, b ssa.Value) bool {
	a, b = c28Strip(a), c28Strip(b)
	if a == b {
		return true
	}
	ca, ra := w.FieldChain(a)
	cb, rb := w.FieldChain(b)
	return ca != "" && ca == cb && ra == rb
}

// originCalls: the calls whose results the elements of v are taken from
// (through loops, appends, field selections and the PeerID constructor).
func (e *c28Env) originCalls(v ssa.Value) []*ssa.Call {
	w := e.w
	seenV := map[ssa.Value]bool{}
	seenC := map[*ssa.Call]bool{}
	var out []*ssa.Call
	work := []ssa.Value{v}
	for len(work) > 0 {
		x := work[len(work)-1]
		work = work[:len(work)-1]
		if x == nil || seenV[x] {
			continue
		}
		seenV[x] = true
		ss := w.Sources(x, an.FlowOpts{ThroughCalls: map[string]bool{"func:peersync.NewPeerID": true}})
		for _, l := range ss.Leaves {
			switch l.Kind {
			case "call":
				if l.Call != nil && !seenC[l.Call] {
					seenC[l.Call] = true
					out = append(out, l.Call)
				}
			case "field":
				_, root := w.FieldChain(l.Val)
				switch root.(type) {
				case *ssa.Parameter, *ssa.Alloc, *ssa.Global:
				default:
					if root != l.Val {
						work = append(work, root)
					}
				}
			}
		}
	}
	return out
}

// listingPropagates checks that fn, which produces a list of peers, cannot
// turn a failure of the call the list comes from into "no peers, no error".
func (e *c28Env) listingPropagates(fn *ssa.Function, depth int, seen map[*ssa.Function]bool) {
	c, w := e.c, e.w
	if seen[fn] || depth > 3 {
		return
	}
	seen[fn] = true
	name := w.FuncName(fn)
	cons := name + " listing failure"
	sig := fn.Signature.Results()
	errIdx := -1
	for i := 0; i < sig.Len(); i++ {
		if an.IsErrorType(sig.At(i).Type()) {
			errIdx = i
		}
	}
	var origins []*ssa.Call
	for _, r := range an.Returns(fn) {
		if len(r.Results) > 0 {
			origins = append(origins, e.originCalls(r.Results[0])...)
		}
	}
	n := 0
	for _, o := range origins {
		info := w.Info(o)
		if strings.HasPrefix(info.Name, "builtin:") {
			continue
		}
		if an.ErrResultIndex(o) >= 0 {
			n++
			if errIdx < 0 {
				c.Bad("C28.R3", cons, w.Pos(o.Pos()), fmt.Sprintf("%s can fail but %s has no error result: a failed listing is reported as an empty peer list, so the cleanup treats every peer as disconnected (and the request throttle is pruned)", strings.TrimPrefix(info.Name, "func:"), name))
				continue
			}
			okE, _ := an.OkEdges(o)
			good, unknown := true, ""
			var at token.Pos
			after := an.ReachFromInstr(o)
			for _, r := range an.Returns(fn) {
				if errIdx >= len(r.Results) {
					continue
				}
				for _, rc := range c28ExpandReturn(r) {
					es := w.Sources(rc.vals[errIdx], an.FlowOpts{})
					if !es.OnlyFrom(func(l an.Src) bool { return l.Kind == "zero" }) {
						continue
					}
					if !after[rc.block] && rc.block != o.Block() {
						continue // return that cannot follow the listing call
					}
					if !rc.domAt(okE) {
						if u := e.uninterpretedGuard(rc, c28AboutCall(o)); u != "" {
							unknown = u
							continue
						}
						good = false
						at = r.Pos()
					}
				}
			}
			switch {
			case !good:
				c.Bad("C28.R3", cons, w.Pos(at), "a nil error is returned on a path where "+strings.TrimPrefix(info.Name, "func:")+" failed or was not checked")
			case unknown != "":
				c.Unknown("C28.R3", cons, w.Pos(o.Pos()), "success is reported under the predicate "+unknown+" over the listing result, which the rule does not interpret")
			default:
				c.OK("C28.R3", cons, w.Pos(o.Pos()), "a nil error is returned only on the success edge of "+strings.TrimPrefix(info.Name, "func:"))
			}
			continue
		}
		// no error result: look into the in-module code behind it
		if nd := w.CG().Nodes[fn]; nd != nil {
			for _, out := range nd.Out {
				if out.Site != ssa.CallInstruction(o) || out.Callee.Func.Blocks == nil || !w.InModule(out.Callee.Func) || an.IsTestSupport(w.FnRel(out.Callee.Func)) {
					continue
				}
				n++
				e.listingPropagates(out.Callee.Func, depth+1, seen)
			}
		}
	}
	if n == 0 {
		c.Unknown("C28.R3", cons, w.Pos(fn.Pos()), "cannot find the call the returned peer list comes from")
	}
}

// =====================================================================================
// R4
// =====================================================================================

func (e *c28Env) r4() {
	c, w := e.c, e.w

	// --- senders: capability sends whose peer comes from the connected-peer listing
	type throttle struct {
		fn                        *ssa.Function
		peerIdx, nowIdx, forceIdx int
	}
	throttles := map[*ssa.Function]*throttle{}
	fromListing := func(l an.Src) bool {
		if l.Kind != "call" || l.Call == nil {
			return false
		}
		if strings.HasPrefix(l.Name, "iface:peersync.Lightning.ListPeers") {
			return true
		}
		cal := w.Info(l.Call).Static
		return cal != nil && w.InModule(cal) && w.Summary(cal).HasEffect("iface:peersync.Lightning.ListPeers")
	}
	nSend := 0
	for _, fn := range prodFuncs(w) {
		if w.FnRel(fn) != "peersync" {
			continue
		}
		for _, ci := range an.Calls(fn) {
			if w.Info(ci).Name != "dyn:poller.send" {
				continue
			}
			args := ci.Common().Args
			if len(args) != 3 {
				continue
			}
			ps := w.Sources(args[1], an.FlowOpts{})
			listed := false
			for _, l := range ps.Leaves {
				if fromListing(l) {
					listed = true
				}
			}
			cons := w.FuncName(fn) + " send"
			if !listed {
				c.Note("C28.R4", cons, w.Pos(ci.Pos()), "peer comes from "+strings.Join(ps.Names(), ", ")+" (known peers; paced by ShouldPoll, not by this clause)")
				continue
			}
			nSend++
			ok, partial := false, ""
			for _, f := range w.FactsDominating(ci) {
				call, isC := f.Cond.(*ssa.Call)
				if !isC || f.Rel != "true" {
					continue
				}
				inf := w.Info(call)
				if inf.Static == nil || !w.InModule(inf.Static) || inf.Static.Blocks == nil {
					continue
				}
				// the throttle: an in-module predicate over this very peer value, a time and a bool
				t := &throttle{fn: inf.Static, peerIdx: -1, nowIdx: -1, forceIdx: -1}
				for i, a := range call.Call.Args {
					if c28Strip(a) == c28Strip(args[1]) {
						t.peerIdx = i
					}
				}
				for i, p := range inf.Static.Params {
					if n, isN := p.Type().(*types.Named); isN && n.Obj().Pkg() != nil && n.Obj().Pkg().Path() == "time" && n.Obj().Name() == "Time" {
						t.nowIdx = i
					}
					if b, isB := p.Type().Underlying().(*types.Basic); isB && b.Kind() == types.Bool {
						t.forceIdx = i
					}
				}
				if t.peerIdx < 0 {
					continue
				}
				if t.nowIdx < 0 || t.forceIdx < 0 {
					partial = inf.Name
					continue
				}
				ns := w.Sources(call.Call.Args[t.nowIdx], an.FlowOpts{})
				nowOK := ns.OnlyFrom(func(l an.Src) bool { return l.Kind == "call" && l.Name == "func:time.Now#0" })
				fs := w.Sources(call.Call.Args[t.forceIdx], an.FlowOpts{})
				forceOK := fs.OnlyFrom(func(l an.Src) bool { return l.Kind == "param" })
				if nowOK && forceOK {
					ok = true
					throttles[inf.Static] = t
				} else {
					partial = inf.Name
				}
			}
			aboutPeer := func(l an.Src) bool {
				for _, pl := range ps.Leaves {
					if l.Kind == pl.Kind && l.Name == pl.Name && l.Call == pl.Call {
						return true
					}
				}
				return false
			}
			switch {
			case ok:
				c.OK("C28.R4", cons, w.Pos(ci.Pos()), "request to an unknown connected peer is dominated by the throttle predicate (peer, time.Now(), force) == true")
			case partial != "":
				c.Unknown("C28.R4", cons, w.Pos(ci.Pos()), "the send is guarded by "+partial+" over this peer, which the rule cannot identify as the request throttle (peer, now, force)")
			case e.uninterpretedIn(w.FactsDominating(ci), aboutPeer) != "":
				c.Unknown("C28.R4", cons, w.Pos(ci.Pos()), "the send is guarded by a predicate over this peer that the rule does not interpret: "+e.uninterpretedIn(w.FactsDominating(ci), aboutPeer))
			default:
				c.Bad("C28.R4", cons, w.Pos(ci.Pos()), "a message is sent to a peer taken from the connected-peer listing without passing the request throttle for that peer: one request per poll tick instead of one per request interval. Facts: "+an.DescribeFacts(w.FactsDominating(ci)))
			}
		}
	}
	c.AtLeast("C28.R4", "sends to peers from the connected listing", nSend, 1)

	// --- the throttle predicate(s)
	var ts []*throttle
	for _, t := range throttles {
		ts = append(ts, t)
	}
	if len(ts) == 0 {
		// no send is guarded (reported above): still judge the function the tree uses today, if it exists
		if f := w.Func("peersync", "(*poller).allowRequest"); f != nil && f.Blocks != nil && len(f.Params) == 4 {
			ts = append(ts, &throttle{fn: f, peerIdx: 1, nowIdx: 2, forceIdx: 3})
		}
	}
	sort.Slice(ts, func(i, j int) bool { return w.FuncName(ts[i].fn) < w.FuncName(ts[j].fn) })
	nT := 0
	for _, t := range ts {
		nT += e.r4Throttle(t.fn, t.peerIdx, t.nowIdx, t.forceIdx)
	}
	if len(ts) > 0 {
		c.AtLeast("C28.R4", "true returns of the request throttle", nT, 1)
	}
}

// r4Throttle judges a throttle predicate allow(peer, now, force): under the
// assumption seen && !force && now-last < interval only `return false` is
// reachable, and every `return true` first records now for the peer. Returns
// the number of true returns.
func (e *c28Env) r4Throttle(allow *ssa.Function, peerIdx, nowIdx, forceIdx int) int {
	c, w := e.c, e.w
	an0 := w.FuncName(allow)

	// the map of last request times: a map[...]time.Time held in a field
	lastField := ""
	isLastMap := func(v ssa.Value) bool {
		m, ok := v.Type().Underlying().(*types.Map)
		if !ok {
			return false
		}
		if n, isN := m.Elem().(*types.Named); !isN || n.Obj().Pkg() == nil || n.Obj().Pkg().Path() != "time" || n.Obj().Name() != "Time" {
			return false
		}
		ss := w.Sources(v, an.FlowOpts{})
		if len(ss.Leaves) != 1 || ss.Leaves[0].Kind != "field" {
			return false
		}
		if lastField == "" {
			lastField = ss.Leaves[0].Name
		}
		return ss.Leaves[0].Name == lastField
	}
	isParam := func(v ssa.Value, i int) bool {
		p, ok := c28Strip(v).(*ssa.Parameter)
		return ok && i < len(allow.Params) && allow.Params[i] == p
	}
	isSeenLookup := func(v ssa.Value) (*ssa.Lookup, bool) {
		lk, ok := v.(*ssa.Lookup)
		if !ok || !lk.CommaOk || !isLastMap(lk.X) || !isParam(lk.Index, peerIdx) {
			return nil, false
		}
		return lk, true
	}
	// classify returns  +1: holds under the assumption, -1: fails, 0: unknown
	var classify func(v ssa.Value) int
	classify = func(v ssa.Value) int {
		switch x := v.(type) {
		case *ssa.UnOp:
			if x.Op == token.NOT {
				return -classify(x.X)
			}
		case *ssa.Parameter:
			if isParam(x, forceIdx) {
				return -1 // force is assumed false
			}
		case *ssa.Extract:
			if x.Index == 1 {
				if _, ok := isSeenLookup(x.Tuple); ok {
					return 1 // seen
				}
			}
		case *ssa.BinOp:
			isElapsed := func(o ssa.Value) bool {
				call, ok := c28Strip(o).(*ssa.Call)
				if !ok || w.Info(call).Name != "func:(time.Time).Sub" || len(call.Call.Args) != 2 || !isParam(call.Call.Args[0], nowIdx) {
					return false
				}
				ex, ok := call.Call.Args[1].(*ssa.Extract)
				if !ok || ex.Index != 0 {
					return false
				}
				_, ok = isSeenLookup(ex.Tuple)
				return ok
			}
			isInterval := func(o ssa.Value) bool {
				n, isN := o.Type().(*types.Named)
				if !isN || n.Obj().Pkg() == nil || n.Obj().Pkg().Path() != "time" || n.Obj().Name() != "Duration" {
					return false
				}
				ss := w.Sources(o, an.FlowOpts{})
				return len(ss.Ops) == 0 && len(ss.Leaves) == 1 && ss.Leaves[0].Kind == "field" && c28IsParamRoot(w, ss, allow)
			}
			op := x.Op
			switch {
			case isElapsed(x.X) && isInterval(x.Y):
			case isElapsed(x.Y) && isInterval(x.X):
				op = map[token.Token]token.Token{token.LSS: token.GTR, token.GTR: token.LSS, token.LEQ: token.GEQ, token.GEQ: token.LEQ, token.EQL: token.EQL, token.NEQ: token.NEQ}[op]
			default:
				return 0
			}
			// relation  elapsed OP interval  under the assumption elapsed < interval
			switch op {
			case token.LSS, token.LEQ, token.NEQ:
				return 1
			case token.GEQ, token.GTR, token.EQL:
				return -1
			}
		}
		return 0
	}
	found := map[string]bool{}
	for _, b := range allow.Blocks {
		if len(b.Instrs) == 0 {
			continue
		}
		if i, ok := b.Instrs[len(b.Instrs)-1].(*ssa.If); ok {
			v := i.Cond
			for {
				u, ok := v.(*ssa.UnOp)
				if !ok || u.Op != token.NOT {
					break
				}
				v = u.X
			}
			if classify(v) != 0 {
				switch v.(type) {
				case *ssa.Parameter:
					found["force"] = true
				case *ssa.Extract:
					found["seen"] = true
				case *ssa.BinOp:
					found["elapsed"] = true
				}
			}
		}
	}
	// walk under the assumption
	reached := map[*ssa.BasicBlock]bool{allow.Blocks[0]: true}
	work := []*ssa.BasicBlock{allow.Blocks[0]}
	unknownIf := false
	for len(work) > 0 {
		b := work[len(work)-1]
		work = work[:len(work)-1]
		succs := b.Succs
		if len(b.Instrs) > 0 {
			if i, ok := b.Instrs[len(b.Instrs)-1].(*ssa.If); ok {
				switch classify(i.Cond) {
				case 1:
					succs = b.Succs[:1]
				case -1:
					succs = b.Succs[1:2]
				default:
					unknownIf = true
				}
			}
		}
		for _, s := range succs {
			if !reached[s] {
				reached[s] = true
				work = append(work, s)
			}
		}
	}
	cons := an0 + " within the interval"
	nTrue, nFalse, nOther := 0, 0, 0
	var truePos token.Pos
	for _, r := range an.Returns(allow) {
		if !reached[r.Block()] {
			continue
		}
		for _, rb := range c28RetBools(r, reached) {
			switch {
			case !rb.known:
				nOther++
			case rb.val:
				nTrue++
				truePos = r.Pos()
			default:
				nFalse++
			}
		}
	}
	missing := []string{}
	for _, a := range []string{"seen", "force", "elapsed"} {
		if !found[a] {
			missing = append(missing, a)
		}
	}
	switch {
	case nOther > 0:
		c.Unknown("C28.R4", cons, w.Pos(allow.Pos()), "a reachable return does not hand out a constant")
	case nTrue > 0 && !unknownIf && len(missing) == 0:
		c.Bad("C28.R4", cons, w.Pos(truePos), "with the peer already requested (seen), force == false and now-last < requestInterval the function can still return true: an unknown connected peer is sent a request on every poll tick")
	case nTrue > 0 && !unknownIf:
		c.Bad("C28.R4", cons, w.Pos(truePos), "the throttle returns true without any test of "+strings.Join(missing, ", ")+" (map lookup of the peer / force parameter / now.Sub(last) against the request interval): the request is not throttled to one per interval")
	case nTrue > 0:
		c.Unknown("C28.R4", cons, w.Pos(truePos), "true is reachable only through a test the rule does not understand (recognised: seen, force, now.Sub(last) vs the interval field; not recognised here: "+strings.Join(missing, ", ")+")")
	case nFalse == 0:
		c.Unknown("C28.R4", cons, w.Pos(allow.Pos()), "no return reached under the assumption")
	default:
		c.OK("C28.R4", cons, w.Pos(allow.Pos()), "seen && !force && now-last < requestInterval leads only to `return false`")
	}
	// every true return records the attempt
	var recs []ssa.Instruction
	for _, b := range allow.Blocks {
		for _, in := range b.Instrs {
			switch x := in.(type) {
			case *ssa.MapUpdate:
				if isLastMap(x.Map) && isParam(x.Key, peerIdx) && isParam(x.Value, nowIdx) {
					recs = append(recs, x)
				}
			case *ssa.Call:
				// a recording helper: record(peer, now) that performs the map update on the same field
				if e.recordsAttempt(x, allow, peerIdx, nowIdx, lastField) {
					recs = append(recs, x)
				}
			}
		}
	}
	nT := 0
	for _, r := range an.Returns(allow) {
		for _, rb := range c28RetBools(r, nil) {
			if !rb.known || !rb.val {
				continue
			}
			nT++
			target := ssa.Instruction(r)
			if rb.at != nil {
				target = rb.at
			}
			if an.MustPassInstr(target, recs) {
				c.OK("C28.R4", an0+" records the attempt", w.Pos(r.Pos()), "every `return true` is preceded by lastRequestedAt[peer] = now")
			} else {
				c.Bad("C28.R4", an0+" records the attempt", w.Pos(r.Pos()), "the throttle can answer true without storing now for the peer: the next tick is allowed again, so the peer is requested every tick")
			}
		}
	}
	return nT
}

// recordsAttempt: call is a static in-module call that receives (peer, now)
// and stores now under peer in the map field `field`.
func (e *c28Env) recordsAttempt(call *ssa.Call, allow *ssa.Function, peerIdx, nowIdx int, field string) bool {
	w := e.w
	inf := w.Info(call)
	if inf.Static == nil || !w.InModule(inf.Static) || inf.Static.Blocks == nil || field == "" {
		return false
	}
	callee := inf.Static
	argOf := func(i int) int { // index of the callee parameter bound to allow's parameter i
		for k, a := range call.Call.Args {
			if p, ok := c28Strip(a).(*ssa.Parameter); ok && i < len(allow.Params) && p == allow.Params[i] && k < len(callee.Params) {
				return k
			}
		}
		return -1
	}
	pk, nk := argOf(peerIdx), argOf(nowIdx)
	if pk < 0 || nk < 0 {
		return false
	}
	for _, b := range callee.Blocks {
		for _, in := range b.Instrs {
			mu, ok := in.(*ssa.MapUpdate)
			if !ok {
				continue
			}
			ss := w.Sources(mu.Map, an.FlowOpts{})
			kp, okK := c28Strip(mu.Key).(*ssa.Parameter)
			vp, okV := c28Strip(mu.Value).(*ssa.Parameter)
			if len(ss.Leaves) == 1 && ss.Leaves[0].Kind == "field" && ss.Leaves[0].Name == field && okK && okV && kp == callee.Params[pk] && vp == callee.Params[nk] {
				// unconditional in the helper: every return passes the update
				all := len(an.Returns(callee)) > 0
				for _, r := range an.Returns(callee) {
					if !an.MustPassInstr(r, []ssa.Instruction{mu}) {
						all = false
					}
				}
				if all {
					return true
				}
			}
		}
	}
	return false
}

// c28RetBoolCase is one constant a bool-returning function hands out at a return.
type c28RetBoolCase struct {
	val, known bool
	at         ssa.Instruction // the instruction that fixes the value (store to the result cell / jump of the selecting predecessor)
}

// c28RetBools resolves the booleans a return hands out: a constant, the last
// store to the named-result cell (defer), or a phi of constants selected by the
// predecessors (only predecessors in `within`, when given).
func c28RetBools(r *ssa.Return, within map[*ssa.BasicBlock]bool) []c28RetBoolCase {
	if len(r.Results) != 1 {
		return []c28RetBoolCase{{}}
	}
	constOf := func(v ssa.Value) (bool, bool) {
		cv, ok := v.(*ssa.Const)
		if !ok || cv.Value == nil || cv.Value.Kind() != constant.Bool {
			return false, false
		}
		return constant.BoolVal(cv.Value), true
	}
	v := r.Results[0]
	if ld, ok := v.(*ssa.UnOp); ok && ld.Op == token.MUL {
		if al, ok := ld.X.(*ssa.Alloc); ok {
			// last store to the cell in this block before the load
			var last *ssa.Store
			for _, in := range r.Block().Instrs {
				if in == ssa.Instruction(ld) {
					break
				}
				if st, ok := in.(*ssa.Store); ok && st.Addr == al {
					last = st
				}
			}
			if last != nil {
				if b, ok := constOf(last.Val); ok {
					return []c28RetBoolCase{{val: b, known: true, at: last}}
				}
				v = last.Val
			} else {
				// the cell was set in the predecessors
				var out []c28RetBoolCase
				for _, pred := range r.Block().Preds {
					if within != nil && !within[pred] {
						continue
					}
					var ls *ssa.Store
					for _, in := range pred.Instrs {
						if st, ok := in.(*ssa.Store); ok && st.Addr == al {
							ls = st
						}
					}
					if ls == nil {
						out = append(out, c28RetBoolCase{})
						continue
					}
					b, ok := constOf(ls.Val)
					out = append(out, c28RetBoolCase{val: b, known: ok, at: ls})
				}
				if len(out) > 0 {
					return out
				}
				return []c28RetBoolCase{{}}
			}
		}
	}
	if b, ok := constOf(v); ok {
		return []c28RetBoolCase{{val: b, known: true}}
	}
	if ph, ok := v.(*ssa.Phi); ok && ph.Block() == r.Block() {
		var out []c28RetBoolCase
		for i, ed := range ph.Edges {
			pred := r.Block().Preds[i]
			if within != nil && !within[pred] {
				continue
			}
			b, ok := constOf(ed)
			out = append(out, c28RetBoolCase{val: b, known: ok, at: pred.Instrs[len(pred.Instrs)-1]})
		}
		if len(out) > 0 {
			return out
		}
	}
	return []c28RetBoolCase{{}}
}

// c28IsParamRoot: every field leaf hangs off the receiver parameter of fn.
func c28IsParamRoot(w *an.World, ss *an.SrcSet, fn *ssa.Function) bool {
	for _, l := range ss.Leaves {
		_, root := w.FieldChain(l.Val)
		if p, ok := root.(*ssa.Parameter); !ok || len(fn.Params) == 0 || p != fn.Params[0] {
			return false
		}
	}
	return true
}

// =====================================================================================
// R5
// =====================================================================================

func (e *c28Env) r5() {
	c, w := e.c, e.w
	fn := e.fn("(*PeerSync).HasCompatiblePeer")
	if fn == nil {
		return
	}
	name := w.FuncName(fn)
	it := c28NewInterp(w)
	var res []c28Set
	it.fix(func() {
		_, res = it.exec(fn, []c28Set{c28One("⟨PS⟩"), c28One("⟨id⟩")}, nil, "h", 0, map[*ssa.Function]bool{})
	})
	if it.gave {
		c.Unknown("C28.R5", name, w.Pos(fn.Pos()), "symbolic evaluation did not converge")
		return
	}
	const mine = "⟨PS.PeerSync.version.Version.value⟩"
	eqRe := regexp.MustCompile(`^op\(==;(⟨[^⟨⟩]*⟩);(⟨[^⟨⟩]*⟩)\)$`)
	nEq, nBad := 0, 0
	for _, t := range res[0].sorted() {
		if t == "c:false" {
			continue
		}
		m := eqRe.FindStringSubmatch(t)
		var other string
		switch {
		case m != nil && m[1] == mine:
			other = m[2]
		case m != nil && m[2] == mine:
			other = m[1]
		}
		// the other operand is the version stored for the peer: it comes out of the
		// record that the store decoded (ext:…json.Unmarshal… .peerRecord.Version)
		if other != "" && strings.HasPrefix(other, "⟨ext:") && strings.HasSuffix(other, "ersion⟩") {
			nEq++
			c.OK("C28.R5", name+" positive answer", w.Pos(fn.Pos()), "true only as storedRecord.Version == ps.version.value")
			continue
		}
		if other != "" {
			nEq++
			c.Unknown("C28.R5", name+" positive answer", w.Pos(fn.Pos()), "this node's version is compared for equality with "+other+", which the rule cannot identify as the stored capability version")
			continue
		}
		// positively wrong: an ordering / inequality between the two versions, or an
		// answer that does not depend on this node's version at all
		cmp := regexp.MustCompile(`^op\((!=|<|>|<=|>=);`).MatchString(t) && strings.Contains(t, mine)
		if cmp || !strings.Contains(t, mine) {
			nBad++
			c.Bad("C28.R5", name+" positive answer", w.Pos(fn.Pos()), "the answer can be "+t+", which is not the equality of the stored capability version with this node's version")
			continue
		}
		nEq++
		c.Unknown("C28.R5", name+" positive answer", w.Pos(fn.Pos()), "the answer "+t+" involves this node's version in a form the rule does not interpret")
	}
	if nEq == 0 && nBad == 0 {
		c.Bad("C28.R5", name+" positive answer", w.Pos(fn.Pos()), "the function never answers with the equality of the stored capability version with this node's version: "+res[0].String())
	}
	// the peer looked up is the one asked for
	gs := []*ssa.Call{}
	for _, ci := range an.Calls(fn) {
		if call, ok := ci.(*ssa.Call); ok && w.Info(call).Name == "func:(*peersync.Store).GetPeerState" {
			gs = append(gs, call)
		}
	}
	if len(gs) == 1 {
		ids := w.Sources(gs[0].Call.Args[1], an.FlowOpts{})
		okID := ids.OnlyFrom(func(l an.Src) bool {
			if l.Kind != "call" || l.Name != "func:peersync.NewPeerID#0" {
				return false
			}
			p, ok := c28Strip(l.Call.Call.Args[0]).(*ssa.Parameter)
			return ok && p == fn.Params[1]
		})
		if okID {
			c.OK("C28.R5", name+" looked-up peer", w.Pos(gs[0].Pos()), "the stored state of the requested peer id is read")
		} else {
			c.Unknown("C28.R5", name+" looked-up peer", w.Pos(gs[0].Pos()), "cannot establish that the peer whose state is read is NewPeerID(<the peerID argument>): "+strings.Join(ids.Names(), ", "))
		}
	} else {
		c.Unknown("C28.R5", name+" looked-up peer", w.Pos(fn.Pos()), "expected one GetPeerState call")
	}

	// PeerSync.version = NewVersion(PEERSWAP_PROTOCOL_VERSION)
	var want string
	if p := w.ByRel["swap"]; p != nil {
		if o, ok := p.Types.Scope().Lookup("PEERSWAP_PROTOCOL_VERSION").(*types.Const); ok {
			want = "c:" + o.Val().ExactString()
		}
	}
	if want == "" {
		c.Anchor("constant swap.PEERSWAP_PROTOCOL_VERSION does not resolve")
		return
	}
	nW := 0
	for _, st := range w.FieldWriters("PeerSync.version") {
		f := st.Parent()
		if an.IsTestSupport(w.FnRel(f)) {
			continue
		}
		nW++
		it2 := c28NewInterp(w)
		var vals c28Set
		it2.fix(func() {
			env := make([]c28Set, len(f.Params))
			for i := range env {
				env[i] = c28One(fmt.Sprintf("⟨a%d⟩", i))
			}
			fr, _ := it2.exec(f, env, nil, "v", 0, map[*ssa.Function]bool{})
			vals = it2.selAll(fr.eval(st.Val), "Version.value")
		})
		got, single := vals.single()
		switch {
		case single && got == want:
			c.OK("C28.R5", "writer of PeerSync.version in "+w.FuncName(f), w.Pos(st.Pos()), "this node's version is PEERSWAP_PROTOCOL_VERSION ("+strings.TrimPrefix(want, "c:")+")")
		case single && strings.HasPrefix(got, "c:"):
			c.Bad("C28.R5", "writer of PeerSync.version in "+w.FuncName(f), w.Pos(st.Pos()), "PeerSync.version is set to "+vals.String()+", not to swap.PEERSWAP_PROTOCOL_VERSION ("+strings.TrimPrefix(want, "c:")+")")
		default:
			c.Unknown("C28.R5", "writer of PeerSync.version in "+w.FuncName(f), w.Pos(st.Pos()), "cannot evaluate the version this node is given to a constant: "+vals.String())
		}
	}
	c.AtLeast("C28.R5", "writers of PeerSync.version", nW, 1)
}

// =====================================================================================
// R6
// =====================================================================================

func (e *c28Env) r6() {
	c, w := e.c, e.w
	save := w.Func("peersync", "(*Store).SavePeerState")
	if save == nil {
		c.Anchor("function peersync.(*Store).SavePeerState does not resolve")
		return
	}
	isMsgChan := func(t types.Type) bool {
		ch, ok := t.Underlying().(*types.Chan)
		if !ok {
			return false
		}
		n := an.NamedOf(ch.Elem())
		return n != nil && n.Obj().Name() == "CustomMessage" && n.Obj().Pkg() != nil && strings.HasSuffix(n.Obj().Pkg().Path(), "/peersync")
	}
	// the subscription loops: production functions that receive CustomMessages from a channel
	var loops []*ssa.Function
	for _, fn := range prodFuncs(w) {
		if w.FnRel(fn) != "peersync" {
			continue
		}
		recv := false
		for _, b := range fn.Blocks {
			for _, in := range b.Instrs {
				switch x := in.(type) {
				case *ssa.UnOp:
					if x.Op == token.ARROW && isMsgChan(x.X.Type()) {
						recv = true
					}
				case *ssa.Select:
					for _, st := range x.States {
						if st.Dir == types.RecvOnly && isMsgChan(st.Chan.Type()) {
							recv = true
						}
					}
				}
			}
		}
		if recv {
			loops = append(loops, fn)
		}
	}
	cg := w.CG()
	prod := func(f *ssa.Function) bool {
		return f != nil && w.InModule(f) && !an.IsTestSupport(w.FnRel(f))
	}
	// functions from which the store write is reachable
	reach := map[*ssa.Function]bool{save: true}
	work := []*ssa.Function{save}
	for len(work) > 0 {
		f := work[len(work)-1]
		work = work[:len(work)-1]
		n := cg.Nodes[f]
		if n == nil {
			continue
		}
		for _, in := range n.In {
			cf := in.Caller.Func
			if prod(cf) && !reach[cf] {
				reach[cf] = true
				work = append(work, cf)
			}
		}
	}
	nChains := 0
	for _, loop := range loops {
		if !reach[loop] {
			continue
		}
		nChains++
		seen := map[*ssa.Function]bool{loop: true}
		stack := []*ssa.Function{loop}
		for len(stack) > 0 {
			f := stack[len(stack)-1]
			stack = stack[:len(stack)-1]
			n := cg.Nodes[f]
			if n == nil {
				continue
			}
			for _, out := range n.Out {
				cal := out.Callee.Func
				if !reach[cal] || out.Site == nil {
					continue
				}
				cons := w.FuncName(loop) + " ... " + w.FuncName(f) + " -> " + w.FuncName(cal)
				if _, isGo := out.Site.(*ssa.Go); isGo {
					c.Bad("C28.R6", cons, w.Pos(out.Site.Pos()), "a `go` statement on the way from the message loop to SavePeerState: messages of one peer are handled concurrently, so the read-merge-save of an older poll can finish after that of a newer one (the stored capability is not the most recent poll) and two racing merges can bypass the lower-version guard")
				} else {
					c.OK("C28.R6", cons, w.Pos(out.Site.Pos()), "synchronous call on the chain from the message loop to the store write")
				}
				if cal != save && !seen[cal] {
					seen[cal] = true
					stack = append(stack, cal)
				}
			}
		}
		// one consumer: the loop itself must not be started more than once per subscription
		starts := 0
		if n := cg.Nodes[loop]; n != nil {
			for _, in := range n.In {
				if prod(in.Caller.Func) && in.Site != nil {
					starts++
				}
			}
		}
		if starts != 1 {
			c.Note("C28.R6", w.FuncName(loop)+" consumers", w.Pos(loop.Pos()), fmt.Sprintf("the message loop has %d production start sites; more than one consumer of a subscription would also lose the arrival order", starts))
		}
	}
	c.AtLeast("C28.R6", "chains from a CustomMessage receive loop to Store.SavePeerState", nChains, 1)

	// other goroutines that rewrite peer records (not decided: lost update against the handler)
	var roots []string
	for _, fn := range prodFuncs(w) {
		for _, ci := range an.Calls(fn) {
			g, isGo := ci.(*ssa.Go)
			if !isGo {
				continue
			}
			n := cg.Nodes[fn]
			if n == nil {
				continue
			}
			for _, out := range n.Out {
				if out.Site == ssa.CallInstruction(g) && reach[out.Callee.Func] {
					roots = append(roots, w.FuncName(out.Callee.Func)+" (started at "+w.Pos(g.Pos())+")")
				}
			}
		}
	}
	sort.Strings(roots)
	if len(roots) > 1 {
		c.Note("C28.R6", "goroutines that write peer records", w.Pos(save.Pos()), "SavePeerState is reached from "+strings.Join(roots, "; ")+" and no lock spans a read…save sequence: a goroutine that loaded a peer record earlier (the poll loop loads all records, then sends and saves them one by one) writes its stale copy over a capability the message handler stored in between — not decided by this rule")
	}
}

// =====================================================================================
// R7
// =====================================================================================

// c28Blocking: the call blocks on the outside world (a capability send or a
// Lightning RPC), directly or through in-module callees.
func (e *c28Env) blocking(ci ssa.CallInstruction) string {
	w := e.w
	direct := func(inf an.CallInfo, cc *ssa.CallCommon) string {
		if strings.HasPrefix(inf.Name, "iface:peersync.Lightning.") {
			return inf.Name
		}
		if inf.Static == nil && !cc.IsInvoke() {
			// dynamic call through a func value: the capability sender
			if n, ok := cc.Value.Type().(*types.Named); ok && n.Obj().Name() == "capabilitySender" {
				return inf.Name
			}
		}
		return ""
	}
	inf := w.Info(ci)
	if inf.IsGo {
		return ""
	}
	if d := direct(inf, ci.Common()); d != "" {
		return d
	}
	if inf.Static != nil && w.InModule(inf.Static) && inf.Static.Blocks != nil {
		for _, ef := range w.Summary(inf.Static).Effects {
			if strings.HasPrefix(ef.Name, "go:") || ef.Info.Instr == nil {
				continue
			}
			if d := direct(ef.Info, ef.Info.Instr.Common()); d != "" {
				return inf.Name + " -> " + d
			}
		}
	}
	return ""
}

// c28After: instruction b can execute after instruction a.
func c28After(a, b ssa.Instruction) bool {
	if a.Parent() != b.Parent() {
		return false
	}
	if a.Block() == b.Block() && an.InstrIndex(a) < an.InstrIndex(b) {
		return true
	}
	return an.ReachBlocks(a.Block().Succs, nil, nil)[b.Block()]
}

func c28HoldsPeer(t types.Type) bool {
	for i := 0; i < 3; i++ {
		switch u := t.(type) {
		case *types.Pointer:
			t = u.Elem()
			continue
		case *types.Slice:
			t = u.Elem()
			continue
		}
		break
	}
	n, ok := t.(*types.Named)
	return ok && n.Obj().Name() == "Peer" && n.Obj().Pkg() != nil && strings.HasSuffix(n.Obj().Pkg().Path(), "/peersync")
}

func (e *c28Env) r7() {
	c, w := e.c, e.w
	const updName = "func:(*go.etcd.io/bbolt.DB).Update"
	const viewName = "func:(*go.etcd.io/bbolt.DB).View"
	isRead := func(name string) bool {
		return name == "func:(*go.etcd.io/bbolt.Bucket).Get" || name == "func:(*go.etcd.io/bbolt.Cursor).First" ||
			name == "func:(*go.etcd.io/bbolt.Cursor).Next" || name == "func:(*go.etcd.io/bbolt.Cursor).Seek" || name == "func:(*go.etcd.io/bbolt.Bucket).ForEach"
	}
	// write transactions: closure -> the function that starts it
	txRoot := map[*ssa.Function]*ssa.Function{}
	for _, fn := range prodFuncs(w) {
		if w.FnRel(fn) != "peersync" {
			continue
		}
		for _, ci := range an.Calls(fn) {
			if w.Info(ci).Name != updName {
				continue
			}
			for _, a := range ci.Common().Args {
				if mc, ok := a.(*ssa.MakeClosure); ok {
					if f, ok := mc.Fn.(*ssa.Function); ok {
						txRoot[f] = fn
					}
				}
			}
		}
	}
	// functions that only run inside a write transaction, with the transactions they run in
	inTx := map[*ssa.Function]map[*ssa.Function]bool{}
	var txOf func(fn *ssa.Function, depth int) map[*ssa.Function]bool
	txOf = func(fn *ssa.Function, depth int) map[*ssa.Function]bool {
		if m, ok := inTx[fn]; ok {
			return m
		}
		if _, ok := txRoot[fn]; ok {
			inTx[fn] = map[*ssa.Function]bool{fn: true}
			return inTx[fn]
		}
		inTx[fn] = nil
		if depth > 4 {
			return nil
		}
		callers := e.prodCallers(fn)
		if len(callers) == 0 {
			return nil
		}
		out := map[*ssa.Function]bool{}
		for _, cs := range callers {
			m := txOf(cs.Parent(), depth+1)
			if m == nil {
				return nil
			}
			for k := range m {
				out[k] = true
			}
		}
		inTx[fn] = out
		return out
	}

	prims := map[*ssa.Function]bool{}
	nLocal, nPut := 0, 0
	for _, fn := range prodFuncs(w) {
		if w.FnRel(fn) != "peersync" {
			continue
		}
		for _, ci := range an.Calls(fn) {
			if w.Info(ci).Name != "func:(*go.etcd.io/bbolt.Bucket).Put" || len(ci.Common().Args) != 3 {
				continue
			}
			nPut++
			cons := w.FuncName(fn) + " Bucket.Put"
			pos := w.Pos(ci.Pos())
			txs := txOf(fn, 0)
			if len(txs) == 0 {
				c.Unknown("C28.R7", cons, pos, "cannot tell in which write transaction(s) this Put runs")
				continue
			}
			// where do the bytes come from: inside the transaction, or from the function that starts it?
			vs := w.Sources(ci.Common().Args[2], an.FlowOpts{IntoCallers: true})
			supplied, local, other := false, false, ""
			for _, l := range vs.Leaves {
				var at *ssa.Function
				switch {
				case l.Kind == "call" && l.Call != nil:
					at = l.Call.Parent()
				case l.Val != nil:
					if in, ok := l.Val.(ssa.Instruction); ok {
						at = in.Parent()
					}
				}
				switch {
				case at == nil:
					other = l.String()
				case len(txOf(at, 0)) > 0:
					local = true
				default:
					isStarter := false
					for t := range txs {
						if txRoot[t] == at {
							isStarter = true
						}
					}
					if isStarter {
						supplied = true
					} else {
						other = l.String() + " in " + w.FuncName(at)
					}
				}
			}
			var starters []*ssa.Function
			readsInTx, peerParam := true, false
			for t := range txs {
				st := txRoot[t]
				starters = append(starters, st)
				has := false
				for _, ef := range w.Summary(t).Effects {
					if isRead(ef.Name) {
						has = true
					}
				}
				if !has {
					readsInTx = false
				}
				for _, p := range st.Params {
					if c28HoldsPeer(p.Type()) {
						peerParam = true
					}
				}
			}
			switch {
			case other != "" || (supplied && local) || (!supplied && !local):
				c.Unknown("C28.R7", cons, pos, "cannot trace the bytes written: "+strings.Join(vs.Names(), ", ")+" "+other)
			case local && readsInTx && !peerParam:
				nLocal++
				c.OK("C28.R7", cons, pos, "read-modify-write inside one write transaction (the transaction reads the bucket, the record is not supplied by a caller): nothing can interleave")
			case local:
				c.Unknown("C28.R7", cons, pos, "the record is encoded inside the transaction, but the transaction does not read the bucket or its starting function receives a Peer from its caller: cannot decide what is written back")
			case supplied && !readsInTx:
				for _, st := range starters {
					prims[st] = true
				}
				c.Note("C28.R7", cons, pos, "write-back primitive: the bytes are supplied by the function that starts the transaction; its call sites are judged below")
			default:
				c.Unknown("C28.R7", cons, pos, "the transaction reads the bucket but writes bytes supplied from outside it: cannot decide what is written back")
			}
		}
	}
	c.AtLeast("C28.R7", "Bucket.Put sites of peer records in peersync", nPut, 2)
	c.AtLeast("C28.R7", "single-transaction read-modify-write sites", nLocal, 1)

	// loads: in-module calls that reach a read transaction and yield Peers
	isLoad := func(call *ssa.Call) bool {
		f := w.Info(call).Static
		if f == nil || !w.InModule(f) || f.Blocks == nil {
			return false
		}
		res := call.Call.Signature().Results()
		if res.Len() == 0 || !c28HoldsPeer(res.At(0).Type()) {
			return false
		}
		s := w.Summary(f)
		return s.HasEffect(viewName) || s.HasEffect("func:(*go.etcd.io/bbolt.Bucket).Get")
	}
	// call sites of the write-back primitives (and of wrappers that pass a Peer parameter on)
	type wsite struct {
		site  ssa.CallInstruction
		arg   ssa.Value
		depth int
	}
	var work []wsite
	var pfs []*ssa.Function
	for f := range prims {
		pfs = append(pfs, f)
	}
	sort.Slice(pfs, func(i, j int) bool { return w.FuncName(pfs[i]) < w.FuncName(pfs[j]) })
	peerArg := func(cs ssa.CallInstruction, callee *ssa.Function, paramIdx int) ssa.Value {
		args := cs.Common().Args
		if cs.Common().IsInvoke() {
			paramIdx--
		}
		if paramIdx >= 0 && paramIdx < len(args) {
			return args[paramIdx]
		}
		return nil
	}
	for _, f := range pfs {
		hasPeer := false
		for _, p := range f.Params {
			if c28HoldsPeer(p.Type()) {
				hasPeer = true
			}
		}
		if !hasPeer {
			c.Unknown("C28.R7", w.FuncName(f)+" write-back", w.Pos(f.Pos()), "the function encodes a record outside its write transaction but receives no Peer from its caller: the rule cannot identify the load the record comes from (a read in one transaction and the write in another can interleave with other writers)")
			continue
		}
		for i, p := range f.Params {
			if !c28HoldsPeer(p.Type()) {
				continue
			}
			for _, cs := range e.prodCallers(f) {
				if a := peerArg(cs, f, i); a != nil {
					work = append(work, wsite{cs, a, 0})
				}
			}
		}
	}
	nSites := 0
	seenSite := map[ssa.CallInstruction]bool{}
	for len(work) > 0 {
		ws := work[0]
		work = work[1:]
		if seenSite[ws.site] {
			continue
		}
		seenSite[ws.site] = true
		g := ws.site.Parent()
		cons := w.FuncName(g) + " writes back via " + strings.TrimPrefix(w.Info(ws.site).Name, "func:")
		pos := w.Pos(ws.site.Pos())
		ss := w.Sources(ws.arg, an.FlowOpts{})
		var loads []*ssa.Call
		fresh, unknown := false, ""
		for _, l := range ss.Leaves {
			switch {
			case l.Kind == "call" && l.Call != nil && l.Call.Parent() == g && isLoad(l.Call):
				loads = append(loads, l.Call)
			case l.Kind == "call" && l.Call != nil && c28HoldsPeer(l.Call.Call.Signature().Results().At(0).Type()):
				// a constructor / converter that does not touch the store
				if f := w.Info(l.Call).Static; f != nil && w.InModule(f) && !w.Summary(f).HasEffect(viewName) {
					fresh = true
				} else {
					unknown = l.String()
				}
			case l.Kind == "param":
				p, ok := l.Val.(*ssa.Parameter)
				if !ok || p.Parent() != g || ws.depth >= 2 {
					unknown = l.String()
					break
				}
				// the record is handed in: judge the callers of g instead
				climbed := false
				for _, cs := range e.prodCallers(g) {
					if a := peerArg(cs, g, l.Idx); a != nil {
						work = append(work, wsite{cs, a, ws.depth + 1})
						climbed = true
					}
				}
				if !climbed {
					unknown = l.String() + " (no production caller)"
				}
			case l.Kind == "zero":
			default:
				unknown = l.String()
			}
		}
		if len(loads) == 0 {
			switch {
			case unknown != "":
				c.Unknown("C28.R7", cons, pos, "cannot trace the record that is written to a store load: "+unknown)
			case fresh:
				nSites++
				c.OK("C28.R7", cons, pos, "writes a freshly built record, not a copy loaded earlier")
			}
			continue
		}
		nSites++
		bad := ""
		for _, ld := range loads {
			for _, ci := range an.Calls(g) {
				if ci == ssa.CallInstruction(ld) || ci == ws.site {
					continue
				}
				b := e.blocking(ci)
				if b == "" {
					continue
				}
				if c28After(ld, ci) && c28After(ci, ws.site) {
					bad = fmt.Sprintf("the record loaded by %s at %s is written back at %s after the blocking call %s at %s: a capability another goroutine (the message handler) stored for this peer in between is replaced by the stale copy, so the stored capability is not that of the peer's most recent poll", strings.TrimPrefix(w.Info(ld).Name, "func:"), w.Pos(ld.Pos()), pos, b, w.Pos(ci.Pos()))
				}
			}
		}
		switch {
		case bad != "":
			c.Bad("C28.R7", cons, pos, bad)
		case unknown != "":
			c.Unknown("C28.R7", cons, pos, "part of the record that is written cannot be traced: "+unknown)
		default:
			var ls []string
			for _, ld := range loads {
				ls = append(ls, strings.TrimPrefix(w.Info(ld).Name, "func:"))
			}
			c.OK("C28.R7", cons, pos, "no blocking outside call between the load ("+strings.Join(ls, ", ")+") and the write-back")
		}
	}
	if len(pfs) > 0 {
		c.AtLeast("C28.R7", "write-back sites of loaded peer records", nSites, 1)
	}
}
