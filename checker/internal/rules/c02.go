package rules

import (
	"encoding/hex"
	"fmt"
	"go/constant"
	"go/token"
	"go/types"
	"sort"
	"strings"

	"golang.org/x/tools/go/ssa"

	"psv/internal/an"
)

// C02 — which script does the code build, and which witnesses.
//
// Frozen anchors (confirmed by reading the pinned tree; each must resolve):
//   onchain.ParamsToTxScript            the single entry through which every back-end obtains the redeem script
//   onchain.Get{Preimage,Csv,Cooperative}Witness   the three witness constructors
//   the chain/version -> CSV table       found structurally: the function whose result's CSV field is stored into
//                                        OpeningParams.CSV (today swap.(*SwapData).getTimelockPolicy, which is the fallback anchor)
//   swap.OpeningParams                  carrier of the four script parameters
// Everything else (the function that holds the builder chain, its parameter
// order, helper functions such as h2b) is found by value flow, not by name.
//
// c02WitnessShape / c02WitnessRoles are also used by c03.go.

const (
	c02TxscriptPath = "github.com/btcsuite/btcd/txscript"
	c02HexDecode    = "func:encoding/hex.DecodeString"
)

// consensus opcode values of the protocol template (BIP141 script); cross-checked
// against the constants of the linked btcd txscript package.
var c02Ops = []struct {
	Name string
	Val  int64
}{
	{"OP_CHECKSIG", 0xac}, {"OP_NOTIF", 0x64}, {"OP_SIZE", 0x82}, {"OP_EQUALVERIFY", 0x88},
	{"OP_SHA256", 0xa8}, {"OP_ENDIF", 0x68}, {"OP_ELSE", 0x67}, {"OP_CHECKSEQUENCEVERIFY", 0xb2},
}

func init() {
	Register(&Prop{
		ID:   "C02",
		Expl: "Decides which opening script and which witnesses the code builds, for all parameter values at once: (R1) the ordered chain of txscript.ScriptBuilder calls behind the value returned by onchain.ParamsToTxScript is extracted from SSA (followed through in-module callees; opcodes and constant pushes by value, parameters as slots) and equals the protocol template <maker> CHECKSIG NOTIF <maker> CHECKSIG NOTIF SIZE <0x20> EQUALVERIFY SHA256 <hash> EQUALVERIFY ENDIF <taker> CHECKSIG ELSE <csv> CHECKSEQUENCEVERIFY ENDIF, each slot being an unmodified parameter; (R2) resolved context-sensitively up to ParamsToTxScript the slots are hex(OpeningParams.MakerPubkey), hex(OpeningParams.TakerPubkey), hex(OpeningParams.ClaimPaymentHash) and the uint32 csv parameter in exactly these roles; (R3) the successful returns of getTimelockPolicy give CSV 1008 for btc, 60 for lbtc/v6, 10080 for lbtc/v7, every ParamsToTxScript call in a BitcoinOnChain method passes only the constant 1008 (through callers), every one in a LiquidOnChain method passes the CSV field of the very OpeningParams it passes as first argument, and every production store to OpeningParams.CSV takes the CSV field of a getTimelockPolicy result; (R4) the three witness constructors return exactly [sig‖SIGHASH_ALL, preimage, ε, ε, script], [sig‖ALL, script] and [sigA‖ALL, sigB‖ALL, ε, script] with distinct parameters in the slots. The script bytes are protocol-observable, so every deviation is a behaviour change.",
		NotD: "That the template has exactly the three spend paths (paper argument in DESIGN C02; script-engine behaviour for arbitrary witnesses is not analysed); behaviour of btcd's ScriptBuilder (trusted to emit what it is given).",
		Run:  runC02,
	})
}

// ---------------------------------------------------------------------------------
// frames: a call path from the anchor function into in-module callees

type c02Frame struct {
	fn     *ssa.Function
	site   *ssa.Call
	parent *c02Frame
}

func (f *c02Frame) depth() int {
	n := 0
	for x := f; x != nil; x = x.parent {
		n++
	}
	return n
}

func (f *c02Frame) root() *c02Frame {
	for f.parent != nil {
		f = f.parent
	}
	return f
}

func c02ParamIndex(p *ssa.Parameter) int {
	for i, q := range p.Parent().Params {
		if q == p {
			return i
		}
	}
	return -1
}

// c02Up resolves a parameter of a non-root frame to the argument at the call
// site, repeatedly. Returns the value and the frame it lives in.
func c02Up(v ssa.Value, fr *c02Frame) (ssa.Value, *c02Frame) {
	for {
		p, ok := v.(*ssa.Parameter)
		if !ok || fr.parent == nil {
			return v, fr
		}
		i := c02ParamIndex(p)
		if i < 0 || i >= len(fr.site.Call.Args) {
			return v, fr
		}
		v, fr = fr.site.Call.Args[i], fr.parent
	}
}

func c02IsTxscript(fn *ssa.Function) bool {
	if fn == nil {
		return false
	}
	if fn.Pkg != nil {
		return fn.Pkg.Pkg.Path() == c02TxscriptPath
	}
	return fn.Object() != nil && fn.Object().Pkg() != nil && fn.Object().Pkg().Path() == c02TxscriptPath
}

// c02BuilderMethod returns the method name if fn is a method of *txscript.ScriptBuilder.
func c02BuilderMethod(fn *ssa.Function) string {
	if !c02IsTxscript(fn) || fn.Signature.Recv() == nil {
		return ""
	}
	n := an.NamedOf(fn.Signature.Recv().Type())
	if n == nil || n.Obj().Name() != "ScriptBuilder" {
		return ""
	}
	return fn.Name()
}

type c02Origin struct {
	fr     *c02Frame
	script *ssa.Call // the (*ScriptBuilder).Script call
	copied bool      // the bytes were copied into fresh memory on the way to the caller
}

// c02Builder is what c02Chain learns about the builder object itself (for R5).
type c02Builder struct {
	root    string // "fresh" (created in this call) or "shared: <where from>"
	fresh   bool
	escapes []string // where the builder object is handed to (sync.Pool.Put, a global, a field, the caller)
}

// c02ScriptOrigins finds the ScriptBuilder.Script calls whose first result is v.
func c02ScriptOrigins(w *an.World, v ssa.Value, idx int, fr *c02Frame, seen map[ssa.Value]bool, copied bool) (out []c02Origin, problems []string) {
	if seen[v] {
		return nil, nil
	}
	seen[v] = true
	switch x := v.(type) {
	case *ssa.Const:
		if x.Value == nil {
			return nil, nil // the `return nil, err` exits
		}
		return nil, []string{"script is the constant " + x.String()}
	case *ssa.Phi:
		for _, e := range x.Edges {
			o, p := c02ScriptOrigins(w, e, idx, fr, seen, copied)
			out, problems = append(out, o...), append(problems, p...)
		}
		return
	case *ssa.Extract:
		if c, ok := x.Tuple.(*ssa.Call); ok {
			return c02ScriptOriginsCall(w, c, x.Index, fr, seen, copied)
		}
	case *ssa.Call:
		return c02ScriptOriginsCall(w, x, 0, fr, seen, copied)
	case *ssa.MakeSlice:
		// dst := make([]byte, n); copy(dst, s); return dst
		if x.Referrers() != nil {
			for _, r := range *x.Referrers() {
				if cc, ok := r.(*ssa.Call); ok && w.Info(cc).Name == "builtin:copy" && len(cc.Call.Args) == 2 && cc.Call.Args[0] == ssa.Value(x) {
					o, p := c02ScriptOrigins(w, cc.Call.Args[1], 0, fr, seen, true)
					out, problems = append(out, o...), append(problems, p...)
				}
			}
			if len(out)+len(problems) > 0 {
				return
			}
		}
	case *ssa.Slice:
		// s[:] / s[:n] of the same backing array: still the same memory
		return c02ScriptOrigins(w, x.X, idx, fr, seen, copied)
	case *ssa.ChangeType:
		return c02ScriptOrigins(w, x.X, idx, fr, seen, copied)
	case *ssa.UnOp:
		if al, ok := x.X.(*ssa.Alloc); ok && x.Op == token.MUL && al.Referrers() != nil {
			for _, r := range *al.Referrers() {
				if s, ok := r.(*ssa.Store); ok && s.Addr == al {
					o, p := c02ScriptOrigins(w, s.Val, idx, fr, seen, copied)
					out, problems = append(out, o...), append(problems, p...)
				}
			}
			return
		}
	}
	return nil, []string{fmt.Sprintf("script value of unsupported form %T in %s", v, w.FuncName(fr.fn))}
}

func c02ScriptOriginsCall(w *an.World, c *ssa.Call, idx int, fr *c02Frame, seen map[ssa.Value]bool, copied bool) (out []c02Origin, problems []string) {
	// copies into fresh memory: append(nil/empty, s...), bytes.Clone(s), slices.Clone(s)
	switch name := w.Info(c).Name; {
	case name == "builtin:append" && len(c.Call.Args) == 2 && c02FreshEmpty(c.Call.Args[0]):
		return c02ScriptOrigins(w, c.Call.Args[1], 0, fr, seen, true)
	case (name == "func:bytes.Clone" || strings.HasPrefix(name, "func:slices.Clone")) && len(c.Call.Args) == 1:
		return c02ScriptOrigins(w, c.Call.Args[0], 0, fr, seen, true)
	}
	callee := c.Call.StaticCallee()
	if callee == nil {
		return nil, []string{"script comes from the dynamic call " + w.Info(c).Name}
	}
	if c02BuilderMethod(callee) == "Script" && idx == 0 {
		return []c02Origin{{fr, c, copied}}, nil
	}
	if w.InModule(callee) && callee.Blocks != nil && fr.depth() < 6 {
		for x := fr; x != nil; x = x.parent {
			if x.fn == callee {
				return nil, []string{"recursive script construction in " + w.FuncName(callee)}
			}
		}
		child := &c02Frame{fn: callee, site: c, parent: fr}
		for _, r := range an.Returns(callee) {
			if idx < len(r.Results) {
				o, p := c02ScriptOrigins(w, r.Results[idx], idx, child, seen, copied)
				out, problems = append(out, o...), append(problems, p...)
			}
		}
		return
	}
	return nil, []string{"script comes from the opaque call " + w.Info(c).Name}
}

// c02FreshEmpty: nil, []byte{} or make([]byte, 0, …): appending to it allocates fresh memory.
func c02FreshEmpty(v ssa.Value) bool {
	switch x := v.(type) {
	case *ssa.Const:
		return x.Value == nil
	case *ssa.ChangeType:
		return c02FreshEmpty(x.X)
	case *ssa.Convert:
		return c02FreshEmpty(x.X)
	case *ssa.MakeSlice:
		n, ok := an.ConstInt(x.Len)
		return ok && n == 0
	case *ssa.Slice:
		if al, ok := x.X.(*ssa.Alloc); ok {
			if pt, ok := al.Type().Underlying().(*types.Pointer); ok {
				if at, ok := pt.Elem().Underlying().(*types.Array); ok {
					if at.Len() == 0 {
						return true
					}
					if h, ok := an.ConstInt(x.High); ok && x.High != nil && h == 0 {
						return true
					}
				}
			}
		}
	}
	return false
}

// c02Elem is one element of an extracted builder chain.
type c02Elem struct {
	Kind string // op | push | slotdata | slotint | bad | unknown
	Val  int64  // op
	Hex  string // push
	Slot string // slot descriptor (root level)
	Why  string
	Pos  token.Pos
}

func (e c02Elem) String() string {
	switch e.Kind {
	case "op":
		return fmt.Sprintf("OP(0x%02x)", e.Val)
	case "push":
		return "PUSH(" + e.Hex + ")"
	case "slotdata":
		return "DATA<" + e.Slot + ">"
	case "slotint":
		return "INT<" + e.Slot + ">"
	}
	return e.Kind + "(" + e.Why + ")"
}

// c02Chain extracts the ordered builder calls that lead to the Script call.
func c02Chain(w *an.World, o c02Origin) (elems []c02Elem, problem string) {
	elems, _, problem = c02ChainInfo(w, o)
	return
}

func c02IsPoolCall(w *an.World, ci ssa.CallInstruction, method string) bool {
	return w.Info(ci).Name == "func:(*sync.Pool)."+method
}

// c02ChainInfo extracts the ordered builder calls that lead to the Script call
// and classifies where the builder object comes from and where it goes.
func c02ChainInfo(w *an.World, o c02Origin) (elems []c02Elem, info *c02Builder, problem string) {
	sc := o.script
	info = &c02Builder{}
	alias := map[ssa.Value]bool{}
	var calls []*ssa.Call
	seenCall := map[*ssa.Call]bool{}
	work := []ssa.Value{sc.Call.Args[0]}
	roots := 0
	shared := func(desc string) {
		roots++
		info.root = "shared: " + desc
	}
	for len(work) > 0 {
		v := work[len(work)-1]
		work = work[:len(work)-1]
		if alias[v] {
			continue
		}
		alias[v] = true
		// backward: where does this builder value come from
		switch x := v.(type) {
		case *ssa.Call:
			callee := x.Call.StaticCallee()
			switch {
			case callee != nil && c02BuilderMethod(callee) != "":
				work = append(work, x.Call.Args[0])
				if !seenCall[x] {
					seenCall[x] = true
					calls = append(calls, x)
				}
			case callee != nil && c02IsTxscript(callee) && callee.Name() == "NewScriptBuilder":
				roots++
				info.root, info.fresh = "fresh", true
				for _, a := range x.Call.Args {
					if !an.IsNilConst(a) {
						return nil, info, "NewScriptBuilder is called with options"
					}
				}
			default:
				return nil, info, "builder comes from " + w.Info(x).Name
			}
		case *ssa.Alloc:
			// &txscript.ScriptBuilder{} / new(txscript.ScriptBuilder) in this call
			roots++
			info.root, info.fresh = "fresh", true
		case *ssa.TypeAssert:
			if gc, ok := x.X.(*ssa.Call); ok && c02IsPoolCall(w, gc, "Get") {
				shared("obtained from " + c02Describe(w, gc) + " (a sync.Pool)")
			} else if ld, ok := x.X.(*ssa.UnOp); ok && ld.Op == token.MUL {
				if g, ok := ld.X.(*ssa.Global); ok {
					shared("package-level variable " + g.Name())
				} else {
					return nil, info, "builder is type-asserted from " + c02Describe(w, x.X)
				}
			} else {
				return nil, info, "builder is type-asserted from " + c02Describe(w, x.X)
			}
		case *ssa.UnOp:
			if x.Op != token.MUL {
				return nil, info, fmt.Sprintf("builder value of form %T", v)
			}
			switch a := x.X.(type) {
			case *ssa.Global:
				shared("package-level variable " + a.Name())
			case *ssa.FieldAddr:
				shared("struct field " + an.FieldName(a.X.Type(), a.Field))
			default:
				return nil, info, "builder is loaded from " + c02Describe(w, x.X)
			}
		case *ssa.Global:
			// address of a package-level ScriptBuilder value
			shared("package-level variable " + x.Name())
		case *ssa.FieldAddr:
			shared("struct field " + an.FieldName(x.X.Type(), x.Field))
		case *ssa.Parameter:
			shared("parameter " + x.Name() + " (the caller's builder)")
		default:
			return nil, info, fmt.Sprintf("builder value of form %T (not a straight chain of builder calls)", v)
		}
		// forward: every use of the builder value
		if v.Referrers() == nil {
			continue
		}
		for _, r := range *v.Referrers() {
			switch rc := r.(type) {
			case *ssa.Call:
				rcallee := rc.Call.StaticCallee()
				m := c02BuilderMethod(rcallee)
				if m == "" || len(rc.Call.Args) == 0 || rc.Call.Args[0] != v {
					return nil, info, "builder value is passed to " + w.Info(rc).Name
				}
				for _, a := range rc.Call.Args[1:] {
					if a == v {
						return nil, info, "builder value is passed to " + w.Info(rc).Name
					}
				}
				if !seenCall[rc] {
					seenCall[rc] = true
					calls = append(calls, rc)
				}
				if m != "Script" {
					work = append(work, rc)
				}
			case *ssa.MakeInterface:
				// boxed to be handed to sync.Pool.Put (directly or deferred)
				if rc.Referrers() == nil {
					continue
				}
				for _, rr := range *rc.Referrers() {
					ci, ok := rr.(ssa.CallInstruction)
					if ok && c02IsPoolCall(w, ci, "Put") {
						info.escapes = append(info.escapes, "handed back to a sync.Pool (Put at "+w.Pos(rr.Pos())+")")
						continue
					}
					if st, ok := rr.(*ssa.Store); ok {
						if _, isG := st.Addr.(*ssa.Global); isG {
							info.escapes = append(info.escapes, "stored in a package-level variable at "+w.Pos(st.Pos()))
							continue
						}
					}
					return nil, info, fmt.Sprintf("builder value escapes as an interface into %T", rr)
				}
			case *ssa.Store:
				if rc.Val != v {
					return nil, info, "builder value is written through"
				}
				switch a := rc.Addr.(type) {
				case *ssa.Global:
					info.escapes = append(info.escapes, "stored in package-level variable "+a.Name())
				case *ssa.FieldAddr:
					info.escapes = append(info.escapes, "stored in struct field "+an.FieldName(a.X.Type(), a.Field))
				default:
					return nil, info, "builder value is stored into a local"
				}
			case *ssa.Return:
				info.escapes = append(info.escapes, "returned to the caller")
			case *ssa.FieldAddr, *ssa.UnOp:
				// a field of the fresh local struct is read/initialised: not a use of the builder value
				if _, isAlloc := v.(*ssa.Alloc); !isAlloc {
					return nil, info, fmt.Sprintf("builder value is used by %T", r)
				}
			default:
				return nil, info, fmt.Sprintf("builder value escapes into %T", r)
			}
		}
	}
	if roots != 1 {
		return nil, info, fmt.Sprintf("%d builder roots", roots)
	}
	for _, c := range calls {
		if c.Block() != sc.Block() {
			return nil, info, "builder calls are spread over several basic blocks (conditional script)"
		}
	}
	sort.Slice(calls, func(i, j int) bool { return an.InstrIndex(calls[i]) < an.InstrIndex(calls[j]) })
	sawReset := false
	for _, c := range calls {
		m := c02BuilderMethod(c.Call.StaticCallee())
		if c == sc {
			continue
		}
		if an.InstrIndex(c) > an.InstrIndex(sc) {
			return nil, info, "builder call after Script()"
		}
		switch m {
		case "Reset":
			// everything added before is discarded: an empty builder from here on
			elems = nil
			sawReset = true
		case "Script":
			return nil, info, "more than one Script() call on the builder"
		case "AddOp":
			if n, ok := an.ConstInt(c.Call.Args[1]); ok {
				elems = append(elems, c02Elem{Kind: "op", Val: n, Pos: c.Pos()})
			} else {
				elems = append(elems, c02Elem{Kind: "unknown", Why: "non-constant opcode", Pos: c.Pos()})
			}
		case "AddData":
			if b, ok := c02ConstBytes(w, c.Call.Args[1], o.fr, 0); ok {
				elems = append(elems, c02Elem{Kind: "push", Hex: hex.EncodeToString(b), Pos: c.Pos()})
			} else {
				e := c02Slot(w, c.Call.Args[1], o.fr)
				if e.Kind == "slot" {
					e.Kind = "slotdata"
				}
				e.Pos = c.Pos()
				elems = append(elems, e)
			}
		case "AddInt64":
			if n, ok := an.ConstInt(c.Call.Args[1]); ok {
				if n >= 17 && n <= 127 {
					// same bytes as AddData([]byte{n})
					elems = append(elems, c02Elem{Kind: "push", Hex: hex.EncodeToString([]byte{byte(n)}), Pos: c.Pos()})
				} else {
					elems = append(elems, c02Elem{Kind: "push", Hex: fmt.Sprintf("int:%d", n), Pos: c.Pos()})
				}
			} else {
				e := c02Slot(w, c.Call.Args[1], o.fr)
				if e.Kind == "slot" {
					e.Kind = "slotint"
				}
				e.Pos = c.Pos()
				elems = append(elems, e)
			}
		default:
			return nil, info, "unsupported builder method " + m
		}
	}
	if !info.fresh && !sawReset {
		return nil, info, "the builder is " + info.root + " and is used without Reset(): what it already contains is not known"
	}
	return elems, info, ""
}

// c02WideningInt: conversion src->dst between integer types that keeps every value.
func c02WideningInt(src, dst types.Type) bool {
	sb, ok1 := src.Underlying().(*types.Basic)
	db, ok2 := dst.Underlying().(*types.Basic)
	if !ok1 || !ok2 || sb.Info()&types.IsInteger == 0 || db.Info()&types.IsInteger == 0 {
		return false
	}
	size := func(b *types.Basic) int {
		switch b.Kind() {
		case types.Int8, types.Uint8:
			return 8
		case types.Int16, types.Uint16:
			return 16
		case types.Int32, types.Uint32:
			return 32
		}
		return 64
	}
	su, du := sb.Info()&types.IsUnsigned != 0, db.Info()&types.IsUnsigned != 0
	switch {
	case su == du:
		return size(db) >= size(sb)
	case su && !du:
		return size(db) > size(sb)
	}
	return false
}

// c02Slot resolves a non-constant builder argument to a root-level descriptor:
// "param#i" (a parameter of the anchor function) or "hex(Type.Field)" (the hex
// decoding of a string field of the anchor's OpeningParams parameter). Only
// value-preserving steps are accepted.
func c02Slot(w *an.World, v ssa.Value, fr *c02Frame) c02Elem {
	for i := 0; i < 32; i++ {
		v, fr = c02Up(v, fr)
		switch x := v.(type) {
		case *ssa.Convert:
			if !c02WideningInt(x.X.Type(), x.Type()) {
				return c02Elem{Kind: "unknown", Why: fmt.Sprintf("conversion %s <- %s on a script parameter", x.Type(), x.X.Type())}
			}
			v = x.X
			continue
		case *ssa.ChangeType:
			v = x.X
			continue
		case *ssa.Slice:
			if x.Low != nil || x.High != nil || x.Max != nil {
				return c02Elem{Kind: "unknown", Why: "script parameter is re-sliced with bounds"}
			}
			v = x.X
			continue
		case *ssa.Parameter:
			return c02Elem{Kind: "slot", Slot: fmt.Sprintf("param#%d", c02ParamIndex(x))}
		case *ssa.BinOp:
			return c02Elem{Kind: "bad", Why: "script parameter is computed with operator " + x.Op.String() + " instead of being passed unchanged"}
		case *ssa.Const:
			return c02Elem{Kind: "bad", Why: "constant " + x.String() + " where a parameter slot is expected"}
		case *ssa.Call:
			return c02SlotThroughCallee(w, x, 0, fr)
		case *ssa.Extract:
			c, ok := x.Tuple.(*ssa.Call)
			if !ok {
				return c02Elem{Kind: "unknown", Why: "script parameter comes from " + c02Describe(w, x.Tuple)}
			}
			if w.Info(c).Name != c02HexDecode || x.Index != 0 {
				return c02SlotThroughCallee(w, c, x.Index, fr)
			}
			s, sfr := c02Up(c.Call.Args[0], fr)
			ld, ok := s.(*ssa.UnOp)
			if !ok || ld.Op != token.MUL {
				return c02Elem{Kind: "unknown", Why: "hex-decoded value is not a field load"}
			}
			fa, ok := ld.X.(*ssa.FieldAddr)
			if !ok {
				return c02Elem{Kind: "unknown", Why: "hex-decoded value is not a field load"}
			}
			base, bfr := c02Up(fa.X, sfr)
			if p, ok := base.(*ssa.Parameter); !ok || bfr.parent != nil || p.Parent() != bfr.fn {
				return c02Elem{Kind: "unknown", Why: "hex-decoded field does not belong to a parameter of the anchor function"}
			}
			return c02Elem{Kind: "slot", Slot: "hex(" + an.FieldName(fa.X.Type(), fa.Field) + ")"}
		default:
			return c02Elem{Kind: "unknown", Why: "script parameter comes from " + c02Describe(w, v)}
		}
	}
	return c02Elem{Kind: "unknown", Why: "resolution too deep"}
}

// c02SlotThroughCallee resolves result #idx of a call to an in-module helper
// (e.g. a one-line wrapper around hex.DecodeString) by resolving what the
// helper returns, with the helper's parameters bound to the call's arguments.
// `return <nil>, err` exits carry no value. All value returns must resolve to
// the same slot.
func c02SlotThroughCallee(w *an.World, c *ssa.Call, idx int, fr *c02Frame) c02Elem {
	callee := c.Call.StaticCallee()
	if callee == nil || !w.InModule(callee) || callee.Blocks == nil || fr.depth() >= 6 {
		return c02Elem{Kind: "unknown", Why: "script parameter comes from " + c02Describe(w, c)}
	}
	for x := fr; x != nil; x = x.parent {
		if x.fn == callee {
			return c02Elem{Kind: "unknown", Why: "recursive helper " + w.FuncName(callee)}
		}
	}
	child := &c02Frame{fn: callee, site: c, parent: fr}
	ei := an.ErrResultIndex(c)
	var res *c02Elem
	for _, r := range an.Returns(callee) {
		if idx >= len(r.Results) {
			continue
		}
		if ei >= 0 && ei != idx && ei < len(r.Results) && !an.IsNilConst(r.Results[ei]) && an.IsNilConst(r.Results[idx]) {
			continue
		}
		e := c02Slot(w, r.Results[idx], child)
		if e.Kind != "slot" {
			return e
		}
		if res != nil && res.Slot != e.Slot {
			return c02Elem{Kind: "unknown", Why: "helper " + w.FuncName(callee) + " returns different values on different paths (" + res.Slot + ", " + e.Slot + ")"}
		}
		ee := e
		res = &ee
	}
	if res == nil {
		return c02Elem{Kind: "unknown", Why: "helper " + w.FuncName(callee) + " returns no value"}
	}
	return *res
}

func c02Describe(w *an.World, v ssa.Value) string {
	if c, ok := v.(*ssa.Call); ok {
		return "call " + w.Info(c).Name
	}
	return fmt.Sprintf("%T %s", v, v.Name())
}

// c02ConstStr resolves a constant string through parameter passing.
func c02ConstStr(v ssa.Value, fr *c02Frame) (string, bool) {
	v, _ = c02Up(v, fr)
	return an.ConstString(v)
}

// c02ConstBytes evaluates a []byte value that is a compile-time constant:
// a slice literal of constant bytes, []byte("const"), hex.DecodeString("const")
// or an in-module helper that returns one of these for its constant arguments.
func c02ConstBytes(w *an.World, v ssa.Value, fr *c02Frame, depth int) ([]byte, bool) {
	if depth > 4 {
		return nil, false
	}
	v, fr = c02Up(v, fr)
	switch x := v.(type) {
	case *ssa.Slice:
		if x.Low != nil || x.High != nil || x.Max != nil {
			return nil, false
		}
		al, ok := x.X.(*ssa.Alloc)
		if !ok {
			return nil, false
		}
		pt, ok := al.Type().Underlying().(*types.Pointer)
		if !ok {
			return nil, false
		}
		at, ok := pt.Elem().Underlying().(*types.Array)
		if !ok {
			return nil, false
		}
		if b, ok := at.Elem().Underlying().(*types.Basic); !ok || b.Kind() != types.Uint8 {
			return nil, false
		}
		out := make([]byte, at.Len())
		if al.Referrers() == nil {
			return nil, false
		}
		for _, r := range *al.Referrers() {
			switch y := r.(type) {
			case *ssa.Slice:
				if y != x {
					return nil, false
				}
			case *ssa.IndexAddr:
				i, ok := an.ConstInt(y.Index)
				if !ok || i < 0 || i >= at.Len() || y.Referrers() == nil {
					return nil, false
				}
				for _, rr := range *y.Referrers() {
					st, ok := rr.(*ssa.Store)
					if !ok || st.Addr != y {
						return nil, false
					}
					n, ok := an.ConstInt(st.Val)
					if !ok {
						return nil, false
					}
					out[i] = byte(n)
				}
			default:
				return nil, false
			}
		}
		return out, true
	case *ssa.Convert:
		if s, ok := an.ConstString(x.X); ok {
			if sl, ok := x.Type().Underlying().(*types.Slice); ok {
				if b, ok := sl.Elem().Underlying().(*types.Basic); ok && b.Kind() == types.Uint8 {
					return []byte(s), true
				}
			}
		}
		return nil, false
	case *ssa.Extract:
		c, ok := x.Tuple.(*ssa.Call)
		if !ok || x.Index != 0 {
			return nil, false
		}
		return c02ConstBytesCall(w, c, fr, depth)
	case *ssa.Call:
		return c02ConstBytesCall(w, x, fr, depth)
	}
	return nil, false
}

func c02ConstBytesCall(w *an.World, c *ssa.Call, fr *c02Frame, depth int) ([]byte, bool) {
	if w.Info(c).Name == c02HexDecode {
		s, ok := c02ConstStr(c.Call.Args[0], fr)
		if !ok {
			return nil, false
		}
		b, err := hex.DecodeString(s)
		if err != nil {
			return nil, false
		}
		return b, true
	}
	callee := c.Call.StaticCallee()
	if callee == nil || !w.InModule(callee) || callee.Blocks == nil {
		return nil, false
	}
	rets := an.Returns(callee)
	if len(rets) != 1 || len(rets[0].Results) == 0 {
		return nil, false
	}
	child := &c02Frame{fn: callee, site: c, parent: fr}
	return c02ConstBytes(w, rets[0].Results[0], child, depth+1)
}

// ---------------------------------------------------------------------------------
// witness shapes

// c02WitnessShape evaluates the [][]byte returned by a witness constructor as
// a list of element descriptors: "param#i" (parameter unchanged), "param#i‖hh"
// (parameter with constant bytes appended), "ε" (empty item), or "?…".
func c02WitnessShape(w *an.World, fn *ssa.Function) ([]string, string) {
	rets := an.Returns(fn)
	if len(rets) != 1 || len(rets[0].Results) != 1 {
		return nil, "witness constructor has several return statements"
	}
	return c02List(w, rets[0].Results[0], 0)
}

// c02VarargElems returns the values stored into the backing array of a
// variadic/literal slice `slice(alloc)[:]`, in index order.
func c02ArrayElems(v ssa.Value) ([]ssa.Value, bool) {
	sl, ok := v.(*ssa.Slice)
	if !ok {
		return nil, false
	}
	al, ok := sl.X.(*ssa.Alloc)
	if !ok {
		return nil, false
	}
	pt, ok := al.Type().Underlying().(*types.Pointer)
	if !ok {
		return nil, false
	}
	at, ok := pt.Elem().Underlying().(*types.Array)
	if !ok {
		return nil, false
	}
	if sl.High != nil {
		if n, ok := an.ConstInt(sl.High); !ok || n != at.Len() {
			return nil, false
		}
	}
	if sl.Low != nil || sl.Max != nil {
		return nil, false
	}
	out := make([]ssa.Value, at.Len())
	if al.Referrers() == nil {
		return nil, false
	}
	for _, r := range *al.Referrers() {
		switch y := r.(type) {
		case *ssa.Slice:
			if y != sl {
				return nil, false
			}
		case *ssa.IndexAddr:
			i, ok := an.ConstInt(y.Index)
			if !ok || i < 0 || i >= at.Len() || y.Referrers() == nil {
				return nil, false
			}
			for _, rr := range *y.Referrers() {
				st, ok := rr.(*ssa.Store)
				if !ok || st.Addr != y || out[i] != nil {
					return nil, false
				}
				out[i] = st.Val
			}
		default:
			return nil, false
		}
	}
	// `s := make([]T, n)` followed by `s[i] = v`: index stores through the slice value
	if sl.Referrers() != nil {
		for _, r := range *sl.Referrers() {
			y, ok := r.(*ssa.IndexAddr)
			if !ok || y.X != sl {
				continue // a use of the finished slice
			}
			i, ok := an.ConstInt(y.Index)
			if !ok || i < 0 || i >= at.Len() || y.Referrers() == nil {
				return nil, false
			}
			for _, rr := range *y.Referrers() {
				st, ok := rr.(*ssa.Store)
				if !ok || st.Addr != y || out[i] != nil || st.Block() != sl.Block() {
					return nil, false // element read back, assigned twice or assigned conditionally
				}
				out[i] = st.Val
			}
		}
	}
	for _, e := range out {
		if e == nil && al.Comment != "makeslice" {
			return nil, false
		}
	}
	// for make(): an element that is never assigned stays nil (reported as a nil entry)
	return out, true
}

func c02IsByteSlice(t types.Type) bool {
	sl, ok := t.Underlying().(*types.Slice)
	if !ok {
		return false
	}
	b, ok := sl.Elem().Underlying().(*types.Basic)
	return ok && b.Kind() == types.Uint8
}

func c02List(w *an.World, v ssa.Value, depth int) ([]string, string) {
	if depth > 16 {
		return nil, "witness list too deep"
	}
	switch x := v.(type) {
	case *ssa.ChangeType:
		return c02List(w, x.X, depth+1)
	case *ssa.Const:
		if x.Value == nil {
			return []string{}, ""
		}
	case *ssa.MakeSlice:
		if n, ok := an.ConstInt(x.Len); ok && n == 0 {
			return []string{}, ""
		}
		return nil, "witness starts from a non-empty make()"
	case *ssa.Slice:
		elems, ok := c02ArrayElems(x)
		if !ok {
			return nil, "witness list built from an unsupported slice expression"
		}
		var out []string
		for _, e := range elems {
			if e == nil {
				out = append(out, "ε") // make()d element never assigned: a nil item
				continue
			}
			out = append(out, c02Item(w, e))
		}
		if out == nil {
			out = []string{}
		}
		return out, ""
	case *ssa.Call:
		if w.Info(x).Name == "builtin:append" && len(x.Call.Args) == 2 {
			base, p := c02List(w, x.Call.Args[0], depth+1)
			if p != "" {
				return nil, p
			}
			add, p := c02List(w, x.Call.Args[1], depth+1)
			if p != "" {
				return nil, p
			}
			return append(append([]string{}, base...), add...), ""
		}
		return nil, "witness list comes from call " + w.Info(x).Name
	}
	return nil, fmt.Sprintf("witness list of unsupported form %T", v)
}

// c02Item describes one witness item.
func c02Item(w *an.World, v ssa.Value) string {
	return c02ItemIn(w, v, &c02Frame{fn: c02ParentOf(v)}, 0)
}

func c02ParentOf(v ssa.Value) *ssa.Function {
	if in, ok := v.(ssa.Instruction); ok {
		return in.Parent()
	}
	if p, ok := v.(*ssa.Parameter); ok {
		return p.Parent()
	}
	return nil
}

// c02ItemIn describes one witness item; fr is the call path from the witness
// constructor (root frame) into in-module helpers that build an item.
func c02ItemIn(w *an.World, v ssa.Value, fr *c02Frame, depth int) string {
	if depth > 6 {
		return "?too deep"
	}
	for i := 0; i < 8; i++ {
		v, fr = c02Up(v, fr)
		switch x := v.(type) {
		case *ssa.ChangeType:
			v = x.X
			continue
		case *ssa.Parameter:
			return fmt.Sprintf("param#%d", c02ParamIndex(x))
		case *ssa.Const:
			if x.Value == nil && c02IsByteSlice(x.Type()) {
				return "ε"
			}
			return "?const " + x.String()
		case *ssa.Slice:
			if b, ok := c02ConstBytes(w, x, fr, 0); ok {
				if len(b) == 0 {
					return "ε"
				}
				return "const:" + hex.EncodeToString(b)
			}
			if x.Low != nil || x.High != nil || x.Max != nil {
				return "?bounded slice"
			}
			v = x.X
			continue
		case *ssa.Call:
			if w.Info(x).Name == "builtin:append" && len(x.Call.Args) == 2 {
				base := c02ItemIn(w, x.Call.Args[0], fr, depth+1)
				if strings.HasPrefix(base, "?") {
					return base
				}
				b, ok := c02ConstBytes(w, x.Call.Args[1], fr, 0)
				if !ok {
					return "?append of non-constant bytes"
				}
				if base == "ε" {
					return "const:" + hex.EncodeToString(b)
				}
				return base + "‖" + hex.EncodeToString(b)
			}
			// an in-module helper that builds the item (e.g. appends the hash type)
			callee := x.Call.StaticCallee()
			if callee != nil && w.InModule(callee) && callee.Blocks != nil {
				rets := an.Returns(callee)
				if len(rets) == 1 && len(rets[0].Results) == 1 {
					return c02ItemIn(w, rets[0].Results[0], &c02Frame{fn: callee, site: x, parent: fr}, depth+1)
				}
			}
			return "?call " + w.Info(x).Name
		}
		break
	}
	return fmt.Sprintf("?%T", v)
}

// c02WitnessRoles matches a shape against a template whose slots are role
// names; "X‖01" means slot X with SIGHASH_ALL appended. Returns role -> parameter index.
func c02WitnessRoles(shape []string, tmpl []string) (map[string]int, string) {
	if len(shape) != len(tmpl) {
		return nil, fmt.Sprintf("witness has %d items %v, the protocol template has %d %v", len(shape), shape, len(tmpl), tmpl)
	}
	roles := map[string]int{}
	used := map[int]string{}
	for i, t := range tmpl {
		s := shape[i]
		if t == "ε" {
			if s != "ε" {
				return nil, fmt.Sprintf("item %d is %s, the template has an empty item", i, s)
			}
			continue
		}
		role, suffix := t, ""
		if j := strings.Index(t, "‖"); j >= 0 {
			role, suffix = t[:j], t[j:]
		}
		if !strings.HasPrefix(s, "param#") || !strings.HasSuffix(s, suffix) || (suffix == "" && strings.Contains(s, "‖")) {
			return nil, fmt.Sprintf("item %d is %s, the template has <%s>%s", i, s, role, suffix)
		}
		var idx int
		if _, err := fmt.Sscanf(strings.TrimSuffix(s, suffix), "param#%d", &idx); err != nil {
			return nil, fmt.Sprintf("item %d is %s, the template has <%s>%s", i, s, role, suffix)
		}
		if r, dup := used[idx]; dup {
			return nil, fmt.Sprintf("items <%s> and <%s> are the same parameter #%d", r, role, idx)
		}
		used[idx] = role
		roles[role] = idx
	}
	return roles, ""
}

// frozen templates, docs/peer-protocol.md §Claim transaction; ‖01 = SIGHASH_ALL.
var c02WitnessTemplates = []struct {
	Fn   string
	Tmpl []string
}{
	{"GetPreimageWitness", []string{"sig‖01", "preimage", "ε", "ε", "script"}},
	{"GetCsvWitness", []string{"sig‖01", "script"}},
	{"GetCooperativeWitness", []string{"takerSig‖01", "makerSig‖01", "ε", "script"}},
}

// ---------------------------------------------------------------------------------

func c02LibConst(w *an.World, name string) (int64, bool) {
	p := w.ByRel["onchain"]
	if p == nil {
		return 0, false
	}
	imp := p.Imports[c02TxscriptPath]
	if imp == nil || imp.Types == nil {
		return 0, false
	}
	o := imp.Types.Scope().Lookup(name)
	cst, ok := o.(*types.Const)
	if !ok {
		return 0, false
	}
	return constant.Int64Val(constant.ToInt(cst.Val()))
}

func runC02(c *an.Check) {
	c.Rule("C02.R1", "the ScriptBuilder chain behind ParamsToTxScript's result equals the protocol template (opcodes and constant pushes by value, parameter slots passed unchanged, both maker slots the same parameter, four distinct parameters)")
	c.Rule("C02.R2", "the template slots resolve, through the call chain, to hex(OpeningParams.MakerPubkey) / TakerPubkey / ClaimPaymentHash and the csv parameter of ParamsToTxScript, in these roles")
	c.Rule("C02.R3", "CSV table btc=1008, lbtc/v6=60, lbtc/v7=10080; Bitcoin call sites pass only 1008, Liquid call sites pass the CSV field of the same OpeningParams; OpeningParams.CSV is only written from getTimelockPolicy().CSV")
	c.Rule("C02.R5", "the script returned through ParamsToTxScript owns its bytes: ScriptBuilder.Script() returns the builder's internal buffer, so the builder must be created in the call and handed to nobody (no sync.Pool.Put, no global / field / return), or the result must be copied (append to nil/empty, bytes.Clone, copy into a fresh make) before it is returned")
	c.Rule("C02.R4", "the three witness constructors return [sig‖ALL, preimage, ε, ε, script], [sig‖ALL, script], [takerSig‖ALL, makerSig‖ALL, ε, script]")
	w := c.W

	entry := w.Func("onchain", "ParamsToTxScript")
	if entry == nil {
		c.Anchor("onchain.ParamsToTxScript does not resolve")
		return
	}
	// library constants must be the consensus values this rule freezes
	for _, op := range c02Ops {
		v, ok := c02LibConst(w, op.Name)
		if !ok {
			c.Anchor("txscript.%s does not resolve", op.Name)
		} else if v != op.Val {
			c.Anchor("txscript.%s = %#x, rule table has %#x", op.Name, v, op.Val)
		}
	}
	if v, ok := c02LibConst(w, "SigHashAll"); !ok || v != 1 {
		c.Anchor("txscript.SigHashAll is not 1")
	}

	// parameters of the anchor by type
	paramsIdx, csvIdx := -1, -1
	for i, p := range entry.Params {
		if n := an.NamedOf(p.Type()); n != nil && n.Obj().Name() == "OpeningParams" {
			paramsIdx = i
		} else if b, ok := p.Type().Underlying().(*types.Basic); ok && b.Info()&types.IsInteger != 0 {
			csvIdx = i
		}
	}
	if paramsIdx < 0 || csvIdx < 0 || len(entry.Params) != 2 {
		c.Anchor("onchain.ParamsToTxScript no longer has the (params *OpeningParams, csv integer) signature")
		return
	}

	c02R1R2(c, entry, csvIdx)
	c02R3(c, entry, paramsIdx, csvIdx)
	c02R4(c)
}

func c02R1R2(c *an.Check, entry *ssa.Function, csvIdx int) {
	w := c.W
	root := &c02Frame{fn: entry}
	var origins []c02Origin
	var problems []string
	for _, r := range an.Returns(entry) {
		o, p := c02ScriptOrigins(w, r.Results[0], 0, root, map[ssa.Value]bool{}, false)
		origins, problems = append(origins, o...), append(problems, p...)
	}
	for _, p := range problems {
		c.Unknown("C02.R1", "onchain.ParamsToTxScript result", w.Pos(entry.Pos()), p)
	}
	if !c.AtLeast("C02.R1", "ScriptBuilder chains behind ParamsToTxScript", len(origins), 1) {
		return
	}
	op := func(name string) c02Elem {
		for _, o := range c02Ops {
			if o.Name == name {
				return c02Elem{Kind: "op", Val: o.Val, Why: name}
			}
		}
		panic(name)
	}
	tmpl := []c02Elem{
		{Kind: "slotdata", Slot: "maker"}, op("OP_CHECKSIG"), op("OP_NOTIF"),
		{Kind: "slotdata", Slot: "maker"}, op("OP_CHECKSIG"), op("OP_NOTIF"),
		op("OP_SIZE"), {Kind: "push", Hex: "20"}, op("OP_EQUALVERIFY"), op("OP_SHA256"),
		{Kind: "slotdata", Slot: "hash"}, op("OP_EQUALVERIFY"), op("OP_ENDIF"),
		{Kind: "slotdata", Slot: "taker"}, op("OP_CHECKSIG"), op("OP_ELSE"),
		{Kind: "slotint", Slot: "csv"}, op("OP_CHECKSEQUENCEVERIFY"), op("OP_ENDIF"),
	}
	want := map[string]string{
		"maker": "hex(OpeningParams.MakerPubkey)",
		"taker": "hex(OpeningParams.TakerPubkey)",
		"hash":  "hex(OpeningParams.ClaimPaymentHash)",
		"csv":   fmt.Sprintf("param#%d", csvIdx),
	}
	nSlots, r1ok := 0, 0
	for _, o := range origins {
		cons := w.FuncName(o.fr.fn) + " script"
		pos := w.Pos(o.script.Pos())
		elems, info, problem := c02ChainInfo(w, o)
		c02R5(c, o, info, problem, cons+" result ownership", pos)
		if problem != "" {
			c.Unknown("C02.R1", cons, pos, "cannot extract the builder chain: "+problem)
			continue
		}
		var got []string
		for _, e := range elems {
			got = append(got, e.String())
		}
		roles := map[string]string{}
		bad, unknown := "", ""
		if len(elems) != len(tmpl) {
			bad = fmt.Sprintf("the script has %d elements, the protocol template has %d", len(elems), len(tmpl))
		}
		for i := 0; i < len(elems) && i < len(tmpl) && bad == ""; i++ {
			e, t := elems[i], tmpl[i]
			switch {
			case e.Kind == "unknown":
				unknown = fmt.Sprintf("element %d: %s", i, e.Why)
			case e.Kind == "bad":
				bad = fmt.Sprintf("element %d (template %s): %s", i, c02TmplName(t), e.Why)
			case e.Kind != t.Kind:
				bad = fmt.Sprintf("element %d is %s, the template has %s", i, e, c02TmplName(t))
			case e.Kind == "op" && e.Val != t.Val:
				bad = fmt.Sprintf("element %d is opcode 0x%02x, the template has %s (0x%02x)", i, e.Val, t.Why, t.Val)
			case e.Kind == "push" && e.Hex != t.Hex:
				bad = fmt.Sprintf("element %d pushes the constant %s, the template pushes %s", i, e.Hex, t.Hex)
			case e.Kind == "slotdata" || e.Kind == "slotint":
				if prev, ok := roles[t.Slot]; ok && prev != e.Slot {
					bad = fmt.Sprintf("the two <%s> slots are fed from different values (%s and %s)", t.Slot, prev, e.Slot)
				}
				roles[t.Slot] = e.Slot
			}
			if unknown != "" {
				break
			}
		}
		if bad == "" && unknown == "" {
			inv := map[string]string{}
			for _, r := range []string{"maker", "hash", "taker", "csv"} {
				if other, dup := inv[roles[r]]; dup {
					bad = fmt.Sprintf("slots <%s> and <%s> are fed from the same value %s", other, r, roles[r])
				}
				inv[roles[r]] = r
			}
		}
		switch {
		case bad != "":
			c.Bad("C02.R1", cons, pos, "the opening script deviates from the protocol template: "+bad+"; extracted: "+strings.Join(got, " "))
			continue
		case unknown != "":
			c.Unknown("C02.R1", cons, pos, "cannot decide the script: "+unknown+"; extracted: "+strings.Join(got, " "))
			continue
		}
		r1ok++
		c.OK("C02.R1", cons, pos, "builder chain equals the template: "+strings.Join(got, " "))
		for _, r := range []string{"maker", "taker", "hash", "csv"} {
			nSlots++
			c.Decide(roles[r] == want[r], "C02.R2", "onchain.ParamsToTxScript slot <"+r+">", pos,
				"slot is fed from "+roles[r],
				fmt.Sprintf("the <%s> slot of the script is fed from %s, the protocol requires %s (the peer derives a different P2WSH / the roles of the keys are exchanged)", r, roles[r], want[r]))
		}
	}
	if r1ok > 0 { // without a script that matches the template R1 has already reported; R2 has nothing to bind
		c.AtLeast("C02.R2", "resolved template slots", nSlots, 4)
	}
}

// c02R5: the returned script must not alias memory that outlives the call and can be rewritten.
func c02R5(c *an.Check, o c02Origin, info *c02Builder, problem, cons, pos string) {
	switch {
	case o.copied:
		c.OK("C02.R5", cons, pos, "the Script() result is copied into fresh memory before it is returned")
	case info != nil && info.root != "" && !info.fresh:
		c.Bad("C02.R5", cons, pos, "the builder is "+info.root+" and ScriptBuilder.Script() returns its internal buffer, which is returned to the callers without a copy: the next script built with the same builder (for another swap, possibly concurrently) overwrites the bytes the caller still holds — the address / witness script derived later belongs to the other swap's keys")
	case info != nil && info.fresh && len(info.escapes) > 0:
		c.Bad("C02.R5", cons, pos, "the builder is created in this call but "+strings.Join(info.escapes, "; ")+" while the internal buffer returned by Script() is handed to the callers without a copy: whoever obtains the builder next rewrites the bytes the caller still holds")
	case info != nil && info.fresh && problem == "":
		c.OK("C02.R5", cons, pos, "the builder is created in this call and handed to nobody: the buffer returned by Script() is owned by the result")
	default:
		c.Unknown("C02.R5", cons, pos, "cannot tell where the builder comes from / goes to: "+problem)
	}
}

func c02TmplName(t c02Elem) string {
	switch t.Kind {
	case "op":
		return t.Why
	case "push":
		return "PUSH(" + t.Hex + ")"
	case "slotdata":
		return "AddData<" + t.Slot + ">"
	case "slotint":
		return "AddInt64<" + t.Slot + ">"
	}
	return t.Kind
}

func c02R3(c *an.Check, entry *ssa.Function, paramsIdx, csvIdx int) {
	w := c.W
	// (a) the table
	// the table function is found structurally: the in-module function whose
	// result's CSV field is stored into OpeningParams.CSV (today getTimelockPolicy)
	tp := c02PolicyFn(w)
	if tp == nil {
		tp = w.Func("swap", "(*SwapData).getTimelockPolicy")
	}
	tpName := ""
	if tp == nil {
		c.Anchor("the timelock table (the function whose result's CSV field feeds OpeningParams.CSV; swap.(*SwapData).getTimelockPolicy) does not resolve")
	} else {
		tpName = w.FuncName(tp)
		type key struct {
			chain string
			ver   int64
		}
		want := map[key]int64{{`"btc"`, 0}: 1008, {`"lbtc"`, 6}: 60, {`"lbtc"`, 7}: 10080}
		seen := map[key]bool{}
		for _, r := range an.Returns(tp) {
			if len(r.Results) != 2 || !an.IsNilConst(r.Results[1]) {
				continue
			}
			pos := w.Pos(r.Pos())
			var csv int64
			okCSV := false
			if ld, ok := r.Results[0].(*ssa.UnOp); ok && ld.Op == token.MUL {
				if al, ok := ld.X.(*ssa.Alloc); ok {
					if v, ok := an.CompositeFieldValue(al, "CSV"); ok {
						csv, okCSV = an.ConstInt(v)
					}
				}
			}
			facts := w.FactsDominatingBlock(r.Block())
			chain := ""
			var ver int64
			for _, f := range facts {
				if f.NonNum && f.Rel == "==" {
					for _, pair := range [][2]string{{f.L, f.R}, {f.R, f.L}} {
						if strings.HasPrefix(pair[0], `"`) && strings.Contains(pair[1], "(*swap.SwapData).GetChain") {
							chain = pair[0]
						}
					}
				}
				for _, n := range []int64{6, 7} {
					if an.MatchLin(f, an.LinSpec{Rel: "==", Terms: map[string]int64{"(*swap.SwapData).GetProtocolVersion": 1}, Const: -n}) {
						ver = n
					}
				}
			}
			if chain == "" {
				c.Unknown("C02.R3", "timelock table successful return", pos, "cannot tell for which chain this policy is returned; facts: "+an.DescribeFacts(facts))
				continue
			}
			k := key{chain, ver}
			if chain == `"btc"` {
				k.ver = 0 // one CSV for every supported Bitcoin version
			}
			cons := tp.Name() + " " + strings.Trim(chain, `"`)
			if k.ver != 0 {
				cons += fmt.Sprintf(" v%d", k.ver)
			}
			exp, known := want[k]
			switch {
			case !okCSV:
				c.Unknown("C02.R3", cons, pos, "the CSV of the returned policy is not a constant of a composite literal")
			case !known:
				c.Note("C02.R3", cons, pos, fmt.Sprintf("chain/version outside the protocol table returns CSV %d", csv))
			default:
				seen[k] = true
				c.Decide(csv == exp, "C02.R3", cons, pos, fmt.Sprintf("CSV = %d", csv),
					fmt.Sprintf("the timelock table returns CSV %d, the protocol fixes %d: the script (and the refund sequence) of this chain/version differs from the peer's", csv, exp))
			}
		}
		c.AtLeast("C02.R3", "classified rows of the timelock table", len(seen), 3)
	}

	// (b) call sites of the anchor
	n, nBtc, nLiq := 0, 0, 0
	for _, fn := range prodFuncs(w) {
		for _, call := range callsMatching(w, fn, func(ci an.CallInfo) bool { return ci.Static == entry }) {
			cc, ok := call.(*ssa.Call)
			if !ok {
				continue
			}
			n++
			top := an.EnclosingTop(fn)
			recv := ""
			if top.Signature.Recv() != nil {
				if nt := an.NamedOf(top.Signature.Recv().Type()); nt != nil {
					recv = nt.Obj().Name()
				}
			}
			cons := w.FuncName(fn) + " call ParamsToTxScript"
			pos := w.Pos(cc.Pos())
			arg := cc.Call.Args[csvIdx]
			style, detail := c02CsvStyle(w, cc, arg, cc.Call.Args[paramsIdx])
			switch {
			case style == "unknown":
				c.Unknown("C02.R3", cons, pos, detail)
			case style == "bad":
				c.Bad("C02.R3", cons, pos, detail)
			case recv == "BitcoinOnChain" && style != "const1008" && style != "paramsCSV" && style != "mixed1008":
				// params.CSV is equivalent for Bitcoin as long as the table row (a) and the writers (c) hold
				c.Bad("C02.R3", cons, pos, "a Bitcoin script is built with "+detail+" instead of the constant 1008")
			case recv == "LiquidOnChain" && style != "paramsCSV":
				// every source was interpreted and at least one is not the swap's own CSV: a validator,
				// locator or spend builder then works with a script the swap was not negotiated with
				c.Bad("C02.R3", cons, pos, "a Liquid script is built with "+detail+" instead of only the per-swap CSV of its OpeningParams (protocol 7 uses 10080, legacy 60): a script with another timelock — e.g. the chain default 60 — is accepted / spent for a swap that was agreed with the per-swap CSV")
			case style != "const1008" && style != "paramsCSV":
				c.Unknown("C02.R3", cons, pos, "a script is built outside the two back-end types with "+detail+"; cannot tell for which chain")
			default:
				c.OK("C02.R3", cons, pos, detail)
			}
			switch recv {
			case "BitcoinOnChain":
				nBtc++
			case "LiquidOnChain":
				nLiq++
			}
		}
	}
	// floor on semantic instances: each back-end builds the script somewhere (9 sites today;
	// a shared helper may legitimately reduce the number of call sites)
	c.AtLeast("C02.R3", "call sites of ParamsToTxScript in BitcoinOnChain methods", nBtc, 1)
	c.AtLeast("C02.R3", "call sites of ParamsToTxScript in LiquidOnChain methods", nLiq, 1)
	_ = n

	// (c) who writes OpeningParams.CSV
	nw := 0
	for _, st := range w.FieldWriters("OpeningParams.CSV") {
		fn := st.Parent()
		if an.IsTestSupport(w.FnRel(fn)) {
			continue
		}
		nw++
		t := w.Term(st.Val)
		cons, pos := w.FuncName(fn)+" store OpeningParams.CSV", w.Pos(st.Pos())
		if tpName != "" && strings.HasPrefix(t, "call:func:"+tpName+"#0") && strings.HasSuffix(t, ".CSV") {
			c.OK("C02.R3", cons, pos, "CSV taken from "+t)
			continue
		}
		// through a helper / a local: look at the sources
		ss := w.Sources(st.Val, an.FlowOpts{IntoCallees: true})
		allPolicy, allConst := len(ss.Leaves) > 0, len(ss.Leaves) > 0
		for _, l := range ss.Leaves {
			if !(l.Kind == "field" && strings.HasSuffix(l.Name, "timelockPolicy.CSV")) {
				allPolicy = false
			}
			if l.Kind != "const" {
				allConst = false
			}
		}
		for op := range ss.Ops {
			if !strings.HasPrefix(op, "convert:") {
				allPolicy = false
			}
		}
		switch {
		case allPolicy:
			c.OK("C02.R3", cons, pos, fmt.Sprintf("CSV taken from %v", ss.Names()))
		case allConst:
			c.Bad("C02.R3", cons, pos, fmt.Sprintf("OpeningParams.CSV is set to the constant(s) %v for every swap, not to the CSV of the swap's timelock policy (btc 1008, lbtc/v6 60, lbtc/v7 10080 cannot share one constant)", ss.Names()))
		default:
			c.Unknown("C02.R3", cons, pos, "cannot tell whether "+t+" is the CSV of the swap's timelock policy")
		}
	}
	c.AtLeast("C02.R3", "production stores to OpeningParams.CSV", nw, 1)
	// every production OpeningParams literal sets CSV (an omitted field is CSV 0)
	nl := 0
	for _, fn := range prodFuncs(w) {
		for _, b := range fn.Blocks {
			for _, in := range b.Instrs {
				al, ok := in.(*ssa.Alloc)
				if !ok {
					continue
				}
				if nt := an.NamedOf(al.Type()); nt == nil || nt.Obj().Name() != "OpeningParams" || w.FnRel(fn) == "" {
					continue
				}
				if pt, ok := al.Type().Underlying().(*types.Pointer); !ok {
					continue
				} else if _, isStruct := pt.Elem().Underlying().(*types.Struct); !isStruct {
					continue
				}
				nl++
				_, set := an.CompositeFieldValue(al, "CSV")
				c.Decide(set, "C02.R3", w.FuncName(fn)+" OpeningParams literal", w.Pos(al.Pos()),
					"literal sets CSV", "an OpeningParams value is created without a CSV: scripts derived from it use CSV 0")
			}
		}
	}
	c.AtLeast("C02.R3", "production OpeningParams literals", nl, 1)
}

// c02PolicyFn finds the timelock table structurally: the static in-module
// callee whose (first) result's field named CSV is stored into
// OpeningParams.CSV by production code. nil if there is none or several.
func c02PolicyFn(w *an.World) *ssa.Function {
	var found *ssa.Function
	for _, st := range w.FieldWriters("OpeningParams.CSV") {
		if an.IsTestSupport(w.FnRel(st.Parent())) {
			continue
		}
		v := st.Val
		for i := 0; i < 8; i++ {
			switch x := v.(type) {
			case *ssa.Convert:
				v = x.X
				continue
			case *ssa.UnOp:
				if x.Op == token.MUL {
					v = x.X
					continue
				}
			case *ssa.Field:
				if strings.HasSuffix(an.FieldName(x.X.Type(), x.Field), ".CSV") {
					v = x.X
					continue
				}
			case *ssa.FieldAddr:
				if strings.HasSuffix(an.FieldName(x.X.Type(), x.Field), ".CSV") {
					v = x.X
					continue
				}
			case *ssa.Alloc:
				// local holding the policy: the value stored into it
				if x.Referrers() != nil {
					for _, r := range *x.Referrers() {
						if s2, ok := r.(*ssa.Store); ok && s2.Addr == x {
							v = s2.Val
						}
					}
				}
				if v != ssa.Value(x) {
					continue
				}
			case *ssa.Extract:
				v = x.Tuple
				continue
			}
			break
		}
		cc, ok := v.(*ssa.Call)
		if !ok {
			continue
		}
		g := cc.Call.StaticCallee()
		if g == nil || !w.InModule(g) || g.Blocks == nil {
			continue
		}
		if found != nil && found != g {
			return nil
		}
		found = g
	}
	return found
}

// c02CsvStyle classifies the csv argument of a ParamsToTxScript call.
func c02CsvStyle(w *an.World, call *ssa.Call, arg, params ssa.Value) (style, detail string) {
	// the CSV field of the same params value?
	v := arg
	for {
		if cv, ok := v.(*ssa.Convert); ok && c02WideningInt(cv.X.Type(), cv.Type()) {
			v = cv.X
			continue
		}
		break
	}
	if ld, ok := v.(*ssa.UnOp); ok && ld.Op == token.MUL {
		if fa, ok := ld.X.(*ssa.FieldAddr); ok {
			name := an.FieldName(fa.X.Type(), fa.Field)
			if name == "OpeningParams.CSV" {
				if fa.X == params {
					return "paramsCSV", "csv = CSV field of the OpeningParams passed as first argument"
				}
				return "unknown", "the csv argument is the CSV field of another SSA value than the OpeningParams the keys are taken from; cannot tell whether both denote the same swap"
			}
		}
	}
	ss := w.Sources(arg, an.FlowOpts{IntoCallers: true, IntoCallees: true})
	if len(ss.Leaves) == 0 {
		return "unknown", "csv argument has no sources"
	}
	// selection operators (element of a slice literal, range variable, conversion)
	// only choose among the sources; anything else computes a new value
	computed := ""
	for op := range ss.Ops {
		switch {
		case strings.HasPrefix(op, "convert:"), op == "index", op == "range", op == "lookup", op == "slice":
		default:
			computed = op
		}
	}
	// classify every source: the CSV field of the very OpeningParams passed as
	// first argument, a constant, or something this rule cannot interpret
	nOwn, nConst, opaque := 0, 0, ""
	vals := map[string]bool{}
	for _, l := range ss.Leaves {
		switch {
		case l.Kind == "const":
			nConst++
			vals[l.Name] = true
		case l.Kind == "field" && (l.Name == "OpeningParams.CSV" || strings.HasSuffix(l.Name, ">OpeningParams.CSV")):
			own := false
			switch at := l.Val.(type) {
			case *ssa.FieldAddr:
				own = at.X == params
			case *ssa.Field:
				own = at.X == params
			case *ssa.UnOp:
				if fa, ok := at.X.(*ssa.FieldAddr); ok {
					own = fa.X == params
				}
			}
			if own {
				nOwn++
			} else {
				opaque = "the CSV field of another OpeningParams value (" + l.String() + ")"
			}
		default:
			opaque = l.String()
		}
	}
	switch {
	case opaque != "":
		return "unknown", fmt.Sprintf("csv argument comes from %v; %s cannot be interpreted", ss.Names(), opaque)
	case computed != "" && nOwn+nConst > 0:
		return "bad", fmt.Sprintf("the csv argument is computed (%s) from %v instead of being the swap's CSV", computed, ss.Names())
	case nConst == 0:
		return "paramsCSV", "csv = CSV field of the OpeningParams passed as first argument (on every path)"
	case nOwn == 0 && len(vals) == 1 && vals["1008"]:
		return "const1008", "csv = constant 1008 on every call path"
	case nOwn == 0:
		return "const", fmt.Sprintf("the constant(s) %v", sortedKeys(vals))
	case len(vals) == 1 && vals["1008"]:
		return "mixed1008", "csv = the OpeningParams' CSV on some paths and the constant 1008 on others"
	}
	return "mixed", fmt.Sprintf("the OpeningParams' CSV on some paths and the constant(s) %v on others (source set %v)", sortedKeys(vals), ss.Names())
}

func c02R4(c *an.Check) {
	w := c.W
	n := 0
	for _, t := range c02WitnessTemplates {
		fn := w.Func("onchain", t.Fn)
		if fn == nil {
			c.Anchor("onchain.%s does not resolve", t.Fn)
			continue
		}
		n++
		cons := "onchain." + t.Fn + " witness"
		pos := w.Pos(fn.Pos())
		shape, problem := c02WitnessShape(w, fn)
		if problem != "" {
			c.Unknown("C02.R4", cons, pos, problem)
			continue
		}
		unknown := false
		for _, s := range shape {
			if strings.HasPrefix(s, "?") {
				unknown = true
			}
		}
		if unknown {
			c.Unknown("C02.R4", cons, pos, fmt.Sprintf("cannot evaluate the witness items: %v", shape))
			continue
		}
		_, mismatch := c02WitnessRoles(shape, t.Tmpl)
		c.Decide(mismatch == "", "C02.R4", cons, pos, fmt.Sprintf("witness = %v", shape),
			"the witness deviates from the protocol template "+fmt.Sprint(t.Tmpl)+": "+mismatch+" — the spend path it is built for cannot be satisfied")
	}
	c.AtLeast("C02.R4", "witness constructors", n, 3)
}
