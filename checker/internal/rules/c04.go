package rules

import (
	"fmt"
	"go/constant"
	"go/token"
	"go/types"
	"regexp"
	"sort"
	"strings"

	"golang.org/x/tools/go/ssa"

	"psv/internal/an"
)

// C04 — Liquid claim payments only inside the anchored window, CLTV-bounded.
//
// Frozen repo-specific knowledge (each entry is resolved against the loaded
// program; an entry that no longer resolves ends the check with exit 2):
//
//   - the chain selector is (*SwapData).GetChain, whose constant results are
//     "btc", "lbtc" and "" (verified on every run from its return statements);
//   - the policy table is (*SwapData).getTimelockPolicy returning the struct
//     type swap.timelockPolicy;
//   - the two external fields that carry the total CLTV of the payment a
//     back-end sends are glightning.RouteHop.Delay (CLN sendpay route) and
//     routerrpc.SendPaymentRequest.CltvLimit (LND SendPaymentV2 request);
//   - the invoice's final CLTV is read as DecodedBolt11.MinFinalCltvExpiry
//     (CLN) resp. (*lnrpc.PayReq).GetCltvExpiry (LND).
const (
	c04GetChain    = "func:(*swap.SwapData).GetChain"
	c04GetVersion  = "func:(*swap.SwapData).GetProtocolVersion"
	c04ValidateTot = "func:swap.ValidateTotalCLTVDelta"
	c04Liquid      = "lbtc"
	c04Bitcoin     = "btc"

	// limits of the property statement (protocol constants, not read from the tree)
	c04MaxWindow   = 60
	c04MaxFinal    = 29
	c04MaxTotal    = 32
	c04MinCSV      = 10080
	c04LiquidProto = 7
)

// the fields of the payment a back-end hands to its node that bound the total CLTV
var c04SentCLTVFields = map[string]bool{"RouteHop.Delay": true, "SendPaymentRequest.CltvLimit": true}

// where a back-end reads the invoice's final CLTV delta from
var c04FinalCLTVTerms = []string{"field:DecodedBolt11.MinFinalCltvExpiry", "lnrpc.PayReq).GetCltvExpiry"}

func init() {
	Register(&Prop{
		ID:   "C04",
		Expl: "Decides on the SSA form of the pinned tree, for ALL anchors, heights, invoices and both Lightning back-ends at once: (R1) by constant evaluation of every successful return of getTimelockPolicy, that a Liquid row allows new claim payments only under the guard version==7 and then has window in [1,60], final CLTV <= 29, total CLTV limit in [1,32] and CSV >= 10080, and that every other Liquid row forbids new payments; (R2) that in every function that starts a claim payment, every CFG path from the entry AND every path from one payment attempt to the next passes, on the Liquid branch, the passing edge of a checkPaymentWindow call whose height argument is the result of a TxWatcher.GetBlockHeight call executed in that same attempt; (R3) that every claim-payment call is dominated by `policy.AllowNewClaimPayment == true` of an error-checked getTimelockPolicy result (the legacy edge cannot reach a payment); (R4) that checkPaymentWindow returns nil only under anchor-set, current >= start and current < start+window with the sum formed in 64 bits; (R5) that validateClaimInvoice returns nil only for 0 <= final CLTV <= policy.InvoiceFinalCLTV and that every registration of the confirmation watch is preceded, on the Liquid branch, by its passing edge on the decoded claim invoice, and pay states are entered only from such states; (R6) that the limit handed to RebalancePayment is policy.MaxTotalCLTVDelta, is forwarded unchanged by both back-ends into a builder whose successful return requires ValidateTotalCLTVDelta(final+k, limit) (k>=1) to pass when limit != 0, that the CLTV value placed in the outgoing route/request on that path is the validated one (CLN) or at most limit+1 (LND), and that ValidateTotalCLTVDelta accepts only limit==0 or required<=limit (the same comparison written inline in a builder is accepted in its place). The height operand of a window test is followed through helper objects: a helper whose window operands are fields of an object parameter (e.g. a Check method) is resolved through 'field of a fresh struct stored once by its constructor' to the constructor call that performs the tip lookup, and that call must lie in the same retry iteration as the attempt (a window tested against a tip read before the retry loop is a violation). A payment inside a closure or helper also counts the facts that dominate every call of it for R3. The policy table, the window predicate and the invoice predicate are found by their types and by what they compare (not by their unexported names); predicate helpers with one bool result and one return are instantiated with their arguments, pure pass-through wrappers of the two predicates count as the predicate, payment / registration calls inside small helpers are judged at the helper's call site, and a CLTV value stored by a helper is followed to the argument that carries it.",
		NotD: "Run-time heights and clocks (block intervals, whether 32 Bitcoin blocks really take less than 10021 Liquid blocks); that GetChain/getTimelockPolicy give the same answer at each call within one action; the semantics of lnd's cltv_limit and CLN's route delay inside the nodes; truncation in the uint32/int32 conversions of the builders beyond the guards present; the watcher's own deadline (C20).",
		Run:  runC04,
	})
}

func runC04(c *an.Check) {
	c.Rule("C04.R1", "policy table: a Liquid row allows new claim payments only for version 7 with window<=60, final CLTV<=29, 1<=limit<=32, CSV>=10080; all other Liquid rows forbid new payments")
	c.Rule("C04.R2", "per attempt: on the Liquid branch every path to the claim-payment call (from entry and from the previous attempt) passes checkPaymentWindow(swap, fresh GetBlockHeight, policy) == nil")
	c.Rule("C04.R3", "every claim-payment call is dominated by AllowNewClaimPayment == true of an error-checked getTimelockPolicy result")
	c.Rule("C04.R4", "checkPaymentWindow succeeds only if anchor set, current >= start, current < start+window (64-bit sum)")
	c.Rule("C04.R5", "validateClaimInvoice succeeds only for 0 <= final <= policy.InvoiceFinalCLTV; it guards every confirmation-watch registration on the Liquid branch; pay states are entered only from such states")
	c.Rule("C04.R6", "RebalancePayment's limit is policy.MaxTotalCLTVDelta, forwarded unchanged by CLN and LND into a builder guarded by ValidateTotalCLTVDelta(final+k, limit); the CLTV sent is the validated one / limit+1")
	if !needEffects(c, fxPay, fxWaitConf, fxBlockHeight, fxDecodePayreq, fxRecoverPay) {
		return
	}
	if !c04Anchors(c) {
		return
	}
	c04R1(c)
	shape := c04R4(c)
	// pure pass-through wrappers of a window predicate count as the predicate
	for g, m := range c04PassThrough(c.W, c04X.isWindow, func(f *ssa.Function) []int {
		sh := shape[f]
		return []int{sh.heightIdx, sh.swapIdx, sh.polIdx}
	}) {
		in := c04CallsTo(g, c04X.isWindow)[0].Common().StaticCallee()
		sh := shape[in]
		if !sh.ok {
			continue
		}
		ws := c04WindowShape{ok: true, heightIdx: m[sh.heightIdx], swapIdx: m[sh.swapIdx], polIdx: -1}
		if sh.polIdx >= 0 {
			ws.polIdx = m[sh.polIdx]
		}
		shape[g] = ws
		c04X.windowFns = append(c04X.windowFns, g)
	}
	c04R2R3(c, shape)
	c04R5(c)
	c04R6(c)
}

// ---- anchors ------------------------------------------------------------------

func c04Anchors(c *an.Check) bool {
	w := c.W
	ok := true
	for _, n := range []string{"(*SwapData).GetChain", "(*SwapData).GetProtocolVersion", "ValidateTotalCLTVDelta"} {
		if w.Func("swap", n) == nil {
			c.Anchor("swap.%s does not resolve", n)
			ok = false
		}
	}
	if !ok {
		return false
	}
	// GetChain returns only the constants the rules branch on
	got := map[string]bool{}
	for _, r := range an.Returns(w.Func("swap", "(*SwapData).GetChain")) {
		for _, v := range r.Results {
			s, isConst := an.ConstString(v)
			if !isConst {
				c.Anchor("(*SwapData).GetChain returns a non-constant at %s: the chain branches of C04 cannot be named", w.Pos(r.Pos()))
				return false
			}
			got[s] = true
		}
	}
	if !got[c04Liquid] || !got[c04Bitcoin] {
		c.Anchor("(*SwapData).GetChain no longer returns %q and %q (got %v)", c04Liquid, c04Bitcoin, sortedKeys(got))
		return false
	}
	for s := range got {
		if s != c04Liquid && s != c04Bitcoin && s != "" {
			c.Anchor("(*SwapData).GetChain returns an unknown chain %q", s)
			return false
		}
	}
	return c04Resolve(c)
}

// c04Ctx holds what is resolved structurally at the start of a run (no
// function-name anchors for unexported helpers):
//
//   - the policy table = the production function of package swap whose results
//     are (timelockPolicy, error);
//   - window predicates = functions of package swap returning one error that
//     compare SwapData.StartingBlockHeight with timelockPolicy.PaymentWindow;
//   - invoice predicates = functions of package swap returning one error that
//     compare something with timelockPolicy.InvoiceFinalCLTV.
type c04Ctx struct {
	pol        *types.Named // the policy struct (found by its fields)
	polName    string       // its type name, as it appears in field terms
	services   string       // CallInfo.Name of the chain-service selector (results include TxWatcher and Validator)
	policyFn   *ssa.Function
	policyName string // CallInfo.Name of the policy function
	policyTerm string // term of its first result
	windowFns  []*ssa.Function
	invoiceFns []*ssa.Function
	facts      map[*ssa.Function][]an.Fact
}

var c04X *c04Ctx

func (x *c04Ctx) isWindow(fn *ssa.Function) bool {
	for _, f := range x.windowFns {
		if f == fn {
			return true
		}
	}
	return false
}

func (x *c04Ctx) isInvoice(fn *ssa.Function) bool {
	for _, f := range x.invoiceFns {
		if f == fn {
			return true
		}
	}
	return false
}

// c04CallsTo lists the calls in fn whose static callee satisfies pred.
func c04CallsTo(fn *ssa.Function, pred func(*ssa.Function) bool) []ssa.CallInstruction {
	var out []ssa.CallInstruction
	for _, call := range an.Calls(fn) {
		if g := call.Common().StaticCallee(); g != nil && !call.Common().IsInvoke() && pred(g) {
			out = append(out, call)
		}
	}
	return out
}

// c04PolicyType finds the policy struct of package swap by its field set (not
// by its unexported name).
func c04PolicyType(w *an.World) *types.Named {
	pkg := w.ByRel["swap"]
	if pkg == nil {
		return nil
	}
	var found *types.Named
	sc := pkg.Types.Scope()
	for _, name := range sc.Names() {
		tn, ok := sc.Lookup(name).(*types.TypeName)
		if !ok || tn.IsAlias() {
			continue
		}
		n, ok := tn.Type().(*types.Named)
		if !ok {
			continue
		}
		st, ok := n.Underlying().(*types.Struct)
		if !ok {
			continue
		}
		need := map[string]bool{"CSV": true, "PaymentWindow": true, "InvoiceFinalCLTV": true, "MaxTotalCLTVDelta": true, "AllowNewClaimPayment": true}
		for i := 0; i < st.NumFields(); i++ {
			delete(need, st.Field(i).Name())
		}
		if len(need) == 0 {
			if found != nil {
				return nil
			}
			found = n
		}
	}
	return found
}

func c04Resolve(c *an.Check) bool {
	w := c.W
	x := &c04Ctx{facts: map[*ssa.Function][]an.Fact{}}
	c04X = x
	pol := c04PolicyType(w)
	if pol == nil {
		c.Anchor("package swap has no (single) struct type with the fields CSV, PaymentWindow, InvoiceFinalCLTV, MaxTotalCLTVDelta, AllowNewClaimPayment: the timelock policy type is not found")
		return false
	}
	x.pol, x.polName = pol, pol.Obj().Name()
	onlyError := func(fn *ssa.Function) bool {
		r := fn.Signature.Results()
		return r.Len() == 1 && an.IsErrorType(r.At(0).Type())
	}
	for _, fn := range prodFuncs(w) {
		if w.FnRel(fn) != "swap" || fn.Parent() != nil {
			continue
		}
		r := fn.Signature.Results()
		if r.Len() >= 3 {
			hasW, hasV := false, false
			for i := 0; i < r.Len(); i++ {
				if n := an.NamedOf(r.At(i).Type()); n != nil && n.Obj().Pkg() == fn.Pkg.Pkg {
					switch n.Obj().Name() {
					case "TxWatcher":
						hasW = true
					case "Validator":
						hasV = true
					}
				}
			}
			if hasW && hasV && fn.Signature.Recv() != nil {
				x.services = "func:" + w.FuncName(fn)
			}
		}
		if r.Len() == 2 && an.NamedOf(r.At(0).Type()) == pol && an.IsErrorType(r.At(1).Type()) {
			if _, isPtr := r.At(0).Type().(*types.Pointer); !isPtr {
				if x.policyFn != nil {
					c.Anchor("two functions of package swap return (timelockPolicy, error): %s and %s", w.FuncName(x.policyFn), w.FuncName(fn))
					return false
				}
				x.policyFn = fn
			}
		}
		if !onlyError(fn) {
			continue
		}
		isW, isI := false, false
		for _, f := range w.Facts(fn) {
			if f.NonNum || f.Terms == nil {
				continue
			}
			hasStart, hasWin, hasInv := false, false, false
			for k := range f.Terms {
				switch {
				case k == "field:SwapData.StartingBlockHeight":
					hasStart = true
				case strings.HasSuffix(k, x.polName+".PaymentWindow"):
					hasWin = true
				case strings.HasSuffix(k, x.polName+".InvoiceFinalCLTV"):
					hasInv = true
				}
			}
			if hasStart && hasWin {
				isW = true
			}
			if hasInv {
				isI = true
			}
		}
		if isW {
			x.windowFns = append(x.windowFns, fn)
		}
		if isI {
			x.invoiceFns = append(x.invoiceFns, fn)
		}
	}
	if x.policyFn == nil {
		c.Anchor("no function of package swap returns (timelockPolicy, error): the policy table is not found")
		return false
	}
	x.policyName = "func:" + w.FuncName(x.policyFn)
	x.policyTerm = "call:" + x.policyName + "#0"
	if len(x.windowFns) == 0 {
		c.Anchor("no function of package swap returning an error compares SwapData.StartingBlockHeight with timelockPolicy.PaymentWindow: the payment-window predicate is not found")
		return false
	}
	if len(x.invoiceFns) == 0 {
		c.Anchor("no function of package swap returning an error compares a value with timelockPolicy.InvoiceFinalCLTV: the invoice predicate is not found")
		return false
	}
	return true
}

// ---- facts with predicate helpers looked into -------------------------------------------

var c04ParamRe = regexp.MustCompile(`param#(\d+)`)

// c04Facts are the engine's facts of fn plus, for every branch on a call of an
// in-module predicate helper (one bool result, one return), the facts of the
// helper's returned condition with the helper's parameters renamed to the
// call's arguments.
func c04Facts(w *an.World, fn *ssa.Function) []an.Fact {
	if c04X != nil {
		if fs, ok := c04X.facts[fn]; ok {
			return fs
		}
	}
	base := w.Facts(fn)
	out := append([]an.Fact{}, base...)
	for _, f := range base {
		if f.Rel != "true" && f.Rel != "false" {
			continue
		}
		call, ok := f.Cond.(*ssa.Call)
		if !ok {
			continue
		}
		out = append(out, c04HelperFacts(w, call, f.Rel == "true", f.Edge, 0)...)
	}
	if c04X != nil {
		c04X.facts[fn] = out
	}
	return out
}

func c04HelperFacts(w *an.World, call *ssa.Call, truth bool, edge an.Edge, depth int) []an.Fact {
	g := call.Call.StaticCallee()
	if g == nil || call.Call.IsInvoke() || depth > 3 || !w.InModule(g) || g.Blocks == nil || len(g.Params) != len(call.Call.Args) {
		return nil
	}
	res := g.Signature.Results()
	if res.Len() != 1 {
		return nil
	}
	if bt, ok := res.At(0).Type().Underlying().(*types.Basic); !ok || bt.Info()&types.IsBoolean == 0 {
		return nil
	}
	rets := an.Returns(g)
	if len(rets) != 1 {
		return nil
	}
	rename := func(t string) string {
		return c04ParamRe.ReplaceAllStringFunc(t, func(m string) string {
			i := 0
			fmt.Sscanf(m, "param#%d", &i)
			if i < len(call.Call.Args) {
				return w.Term(call.Call.Args[i])
			}
			return m
		})
	}
	var out []an.Fact
	var walk func(cond ssa.Value, truth bool, d int)
	walk = func(cond ssa.Value, truth bool, d int) {
		if d > 6 {
			return
		}
		switch x := cond.(type) {
		case *ssa.UnOp:
			if x.Op == token.NOT {
				walk(x.X, !truth, d+1)
				return
			}
		case *ssa.Phi:
			if ops, isAnd, ok := an.PhiConjuncts(x); ok && isAnd == truth {
				for _, op := range ops {
					walk(op, truth, d+1)
				}
				for i, in := range x.Edges {
					if _, isC := in.(*ssa.Const); !isC {
						continue
					}
					pred := x.Block().Preds[i]
					if len(pred.Instrs) == 0 {
						continue
					}
					if pi, ok := pred.Instrs[len(pred.Instrs)-1].(*ssa.If); ok && len(pred.Succs) == 2 {
						if (isAnd && pred.Succs[1] == x.Block() && pred.Succs[0] != x.Block()) || (!isAnd && pred.Succs[0] == x.Block() && pred.Succs[1] != x.Block()) {
							walk(pi.Cond, truth, d+1)
						}
					}
				}
			}
			return
		case *ssa.Call:
			for _, f := range c04HelperFacts(w, x, truth, edge, depth+1) {
				f.L, f.R, f.Atom = rename(f.L), rename(f.R), rename(f.Atom)
				if f.Terms != nil {
					nt := map[string]int64{}
					for k, v := range f.Terms {
						nt[rename(k)] += v
					}
					f.Terms = nt
				}
				out = append(out, f)
			}
		case *ssa.BinOp:
			op := x.Op
			switch op {
			case token.EQL, token.NEQ, token.LSS, token.LEQ, token.GTR, token.GEQ:
			default:
				return
			}
			if !truth {
				op = map[token.Token]token.Token{token.EQL: token.NEQ, token.NEQ: token.EQL, token.LSS: token.GEQ, token.LEQ: token.GTR, token.GTR: token.LEQ, token.GEQ: token.LSS}[op]
			}
			f := an.Fact{Edge: edge, Cond: x, LV: x.X, RV: x.Y}
			if d := w.LinearDiff(x.X, x.Y); d != nil {
				f.Terms = map[string]int64{}
				for k, v := range d.Terms {
					f.Terms[rename(k)] += v
				}
				f.Const = d.Const
				flip := op == token.LSS || op == token.LEQ
				switch op {
				case token.LSS:
					op = token.GTR
				case token.LEQ:
					op = token.GEQ
				case token.EQL, token.NEQ:
					var ks []string
					for k, v := range f.Terms {
						if v != 0 {
							ks = append(ks, k)
						}
					}
					sort.Strings(ks)
					if (len(ks) > 0 && f.Terms[ks[0]] < 0) || (len(ks) == 0 && f.Const < 0) {
						flip = true
					}
				}
				if flip {
					for k := range f.Terms {
						f.Terms[k] = -f.Terms[k]
					}
					f.Const = -f.Const
				}
				for k, v := range f.Terms {
					if v == 0 {
						delete(f.Terms, k)
					}
				}
				f.Rel = op.String()
				out = append(out, f)
				return
			}
			f.NonNum = true
			l, r := rename(w.Term(x.X)), rename(w.Term(x.Y))
			switch op {
			case token.EQL, token.NEQ:
				if l > r {
					l, r = r, l
				}
			case token.LSS:
				l, r, op = r, l, token.GTR
			case token.LEQ:
				l, r, op = r, l, token.GEQ
			}
			f.L, f.R, f.Rel = l, r, op.String()
			out = append(out, f)
			return
		}
		// a plain boolean value
		f := an.Fact{Edge: edge, Cond: cond, Atom: rename(w.Term(cond)), Rel: "false"}
		if truth {
			f.Rel = "true"
		}
		out = append(out, f)
	}
	walk(rets[0].Results[0], truth, 0)
	return out
}

func c04FactsDominatingBlock(w *an.World, b *ssa.BasicBlock) []an.Fact {
	var out []an.Fact
	for _, f := range c04Facts(w, b.Parent()) {
		if f.Edge.From == b {
			continue
		}
		if an.EdgeDominates(f.Edge, b) {
			out = append(out, f)
		}
	}
	return out
}

func c04FactsDominating(w *an.World, in ssa.Instruction) []an.Fact {
	return c04FactsDominatingBlock(w, in.Block())
}

// ---- shared helpers ---------------------------------------------------------------

// c04ChainFact classifies a fact about the chain selector: +1 = "the chain is
// not Liquid" holds on the edge, -1 = "the chain is not Bitcoin", 0 = neither.
func c04ChainFact(f an.Fact) int {
	if !f.NonNum {
		return 0
	}
	other := ""
	switch {
	case strings.HasSuffix(f.L, "call:"+c04GetChain):
		other = f.R
	case strings.HasSuffix(f.R, "call:"+c04GetChain):
		other = f.L
	default:
		return 0
	}
	switch {
	case f.Rel == "==" && other == `"`+c04Bitcoin+`"`, f.Rel == "!=" && other == `"`+c04Liquid+`"`:
		return +1
	case f.Rel == "==" && other == `"`+c04Liquid+`"`, f.Rel == "!=" && other == `"`+c04Bitcoin+`"`:
		return -1
	}
	return 0
}

// c04NonLiquidEdges are the CFG edges of fn on which the swap is known not to be
// a Liquid swap.
func c04NonLiquidEdges(w *an.World, fn *ssa.Function) []an.Edge {
	var out []an.Edge
	for _, f := range c04Facts(w, fn) {
		if c04ChainFact(f) > 0 {
			out = append(out, f.Edge)
		}
	}
	return out
}

// c04DirectEdges are the edges taken when the error result of call is nil
// (ok) / non-nil (fail), considering only tests applied to the call's own
// result value (not to a phi that merges it with other errors). viaCopies
// reports whether a looser search (through phis/locals) would have found more.
func c04DirectEdges(call *ssa.Call) (ok, fail []an.Edge, viaCopies bool) {
	idx := an.ErrResultIndex(call)
	if idx < 0 {
		return nil, nil, false
	}
	for _, rv := range an.ResultValues(call, idx) {
		if rv.Referrers() == nil {
			continue
		}
		for _, r := range *rv.Referrers() {
			bo, isb := r.(*ssa.BinOp)
			if !isb || (bo.Op != token.EQL && bo.Op != token.NEQ) {
				continue
			}
			if !(an.IsNilConst(bo.X) || an.IsNilConst(bo.Y)) {
				continue
			}
			for _, ce := range an.CondUses(bo) {
				if bo.Op == token.NEQ {
					ok = append(ok, ce.False)
					fail = append(fail, ce.True)
				} else {
					ok = append(ok, ce.True)
					fail = append(fail, ce.False)
				}
			}
		}
	}
	loose, _ := an.OkEdges(call)
	return ok, fail, len(loose) > len(ok)
}

func c04DirectOkEdges(call *ssa.Call) (ok []an.Edge, viaCopies bool) {
	ok, _, viaCopies = c04DirectEdges(call)
	return
}

// c04Implies reports whether integer fact f (Σ coef·term + c  >|>=  0) has
// exactly the given terms and is at least as strong as Σ + wantC wantRel 0.
func c04Implies(f an.Fact, terms map[string]int64, wantC int64, wantRel string) bool {
	if f.NonNum || f.Terms == nil || (f.Rel != ">" && f.Rel != ">=") || len(f.Terms) != len(terms) {
		return false
	}
	for k, v := range terms {
		if f.Terms[k] != v {
			return false
		}
	}
	norm := func(c int64, rel string) int64 {
		if rel == ">" {
			return c - 1
		}
		return c
	}
	return norm(f.Const, f.Rel) <= norm(wantC, wantRel)
}

// c04WrappedIn names an in-module helper called directly by fn (other than
// target itself) whose effect summary contains a call of target.
func c04WrappedIn(w *an.World, fn *ssa.Function, target func(*ssa.Function) bool) string {
	for _, call := range an.Calls(fn) {
		ci := w.Info(call)
		if ci.Static == nil || target(ci.Static) || !w.InModule(ci.Static) || ci.Static.Blocks == nil {
			continue
		}
		for _, ef := range w.Summary(ci.Static).Effects {
			if ef.Info.Static != nil && target(ef.Info.Static) {
				return w.FuncName(ci.Static)
			}
		}
	}
	return ""
}

// c04ComparesVia names an in-module helper called by fn that has a fact about a
// term with the given suffix (a comparison moved out of fn).
func c04ComparesVia(w *an.World, fn *ssa.Function, suffix string) string {
	for _, call := range an.Calls(fn) {
		g := call.Common().StaticCallee()
		if g == nil || call.Common().IsInvoke() || !w.InModule(g) || g.Blocks == nil {
			continue
		}
		for _, a := range call.Common().Args {
			if strings.HasSuffix(w.Term(a), suffix) {
				return w.FuncName(g)
			}
		}
	}
	return ""
}

// c04OpaquePreds names the in-module bool helpers fn branches on that could not
// be looked into (more than one return, etc.): a guard may hide in them.
func c04OpaquePreds(w *an.World, fn *ssa.Function) []string {
	var out []string
	for _, f := range w.Facts(fn) {
		if f.Rel != "true" {
			continue
		}
		call, ok := f.Cond.(*ssa.Call)
		if !ok {
			continue
		}
		g := call.Call.StaticCallee()
		if g == nil || call.Call.IsInvoke() || !w.InModule(g) || g.Blocks == nil {
			continue
		}
		if len(c04HelperFacts(w, call, true, f.Edge, 0)) == 0 {
			out = append(out, w.FuncName(g))
		}
	}
	return out
}

// c04HandsParamsOn names an in-module helper that fn passes one of its own
// parameters (or a field of one) to: a condition may have moved there.
func c04HandsParamsOn(w *an.World, fn *ssa.Function) string {
	for _, call := range an.Calls(fn) {
		g := call.Common().StaticCallee()
		if g == nil || call.Common().IsInvoke() || !w.InModule(g) || g.Blocks == nil {
			continue
		}
		for _, a := range call.Common().Args {
			t := w.Term(a)
			if strings.HasPrefix(t, "param#") || strings.HasPrefix(t, "field:") {
				return w.FuncName(g)
			}
		}
	}
	return ""
}

// c04LimitFact classifies a fact about the unsigned limit parameter named
// term: +1 = limit != 0 (also written limit > 0), -1 = limit == 0 (also
// written limit <= 0), 0 = something else.
func c04LimitFact(f an.Fact, term string) int {
	if f.NonNum || f.Const != 0 || len(f.Terms) != 1 || f.Terms[term] == 0 {
		return 0
	}
	switch {
	case f.Rel == "!=", f.Rel == ">" && f.Terms[term] == 1:
		return +1
	case f.Rel == "==", f.Rel == ">=" && f.Terms[term] == -1:
		return -1
	}
	return 0
}

func c04Cut(sets ...[]an.Edge) map[an.Edge]bool {
	m := map[an.Edge]bool{}
	for _, s := range sets {
		for _, e := range s {
			m[e] = true
		}
	}
	return m
}

// c04Strip removes integer conversions and type changes.
func c04Strip(v ssa.Value) ssa.Value {
	for {
		switch x := v.(type) {
		case *ssa.Convert:
			v = x.X
		case *ssa.ChangeType:
			v = x.X
		default:
			return v
		}
	}
}

// c04CallOf returns the call whose result (possibly one element of its tuple) v is.
func c04CallOf(v ssa.Value) *ssa.Call {
	v = c04Strip(v)
	if ex, ok := v.(*ssa.Extract); ok {
		v = ex.Tuple
	}
	call, _ := v.(*ssa.Call)
	return call
}

// c04BetweenPasses: every path from the successors of `from` to block `to`
// executes instruction `via` first.
func c04BetweenPasses(from *ssa.BasicBlock, to ssa.Instruction, via ssa.Instruction) bool {
	if via.Block() == to.Block() {
		return an.InstrIndex(via) < an.InstrIndex(to)
	}
	reach := an.ReachBlocks(from.Succs, nil, map[*ssa.BasicBlock]bool{via.Block(): true})
	return !reach[to.Block()]
}

// c04Lin is a linear form Σ coef·term + c over canonical term names.
type c04Lin struct {
	T    map[string]int64
	C    int64
	Leaf map[string]ssa.Value
}

func (l c04Lin) String() string {
	var ks []string
	for k := range l.T {
		ks = append(ks, k)
	}
	sort.Strings(ks)
	var sb strings.Builder
	for _, k := range ks {
		fmt.Fprintf(&sb, "%+d*%s ", l.T[k], k)
	}
	fmt.Fprintf(&sb, "%+d", l.C)
	return sb.String()
}

func (l c04Lin) equal(o c04Lin) bool {
	if l.C != o.C || len(l.T) != len(o.T) {
		return false
	}
	for k, v := range l.T {
		if o.T[k] != v {
			return false
		}
	}
	return true
}

// single returns the only term and its coefficient.
func (l c04Lin) single() (string, int64, bool) {
	if len(l.T) != 1 {
		return "", 0, false
	}
	for k, v := range l.T {
		return k, v, true
	}
	return "", 0, false
}

func c04Linear(w *an.World, v ssa.Value) c04Lin {
	out := c04Lin{T: map[string]int64{}, Leaf: map[string]ssa.Value{}}
	var rec func(v ssa.Value, sign int64, depth int)
	rec = func(v ssa.Value, sign int64, depth int) {
		if i, ok := an.ConstInt(v); ok {
			out.C += sign * i
			return
		}
		if depth < 10 {
			switch x := v.(type) {
			case *ssa.Convert:
				if c04IsInt(x.Type()) && c04IsInt(x.X.Type()) {
					rec(x.X, sign, depth+1)
					return
				}
			case *ssa.ChangeType:
				rec(x.X, sign, depth+1)
				return
			case *ssa.BinOp:
				switch x.Op {
				case token.ADD:
					rec(x.X, sign, depth+1)
					rec(x.Y, sign, depth+1)
					return
				case token.SUB:
					rec(x.X, sign, depth+1)
					rec(x.Y, -sign, depth+1)
					return
				}
			}
		}
		k := w.Term(v)
		out.T[k] += sign
		out.Leaf[k] = v
	}
	rec(v, 1, 0)
	for k, c := range out.T {
		if c == 0 {
			delete(out.T, k)
		}
	}
	return out
}

func c04IsInt(t types.Type) bool {
	b, ok := t.Underlying().(*types.Basic)
	return ok && b.Info()&types.IsInteger != 0
}

// c04PathFacts are the facts known on the CFG edge pred -> succ: everything
// that dominates pred plus the fact of the edge itself.
func c04PathFacts(w *an.World, pred, succ *ssa.BasicBlock) []an.Fact {
	out := c04FactsDominatingBlock(w, pred)
	if len(pred.Instrs) > 0 {
		if i, ok := pred.Instrs[len(pred.Instrs)-1].(*ssa.If); ok && len(pred.Succs) == 2 && pred.Succs[0] != pred.Succs[1] {
			t, f := w.FactsOfIf(i)
			for _, x := range []an.Fact{t, f} {
				if x.Edge.To() == succ {
					out = append(out, x)
				}
			}
		}
	}
	return out
}

// c04ParamIndex returns the index of p in its function's parameter list.
func c04ParamIndex(p *ssa.Parameter) int {
	for i, q := range p.Parent().Params {
		if q == p {
			return i
		}
	}
	return -1
}

// c04ErrReturnKind classifies what a return delivers in its error result:
// "nil", "err" (certainly non-nil: a fresh error value, or a callee's error on
// the edge where it was found non-nil) or "?" (anything else).
func c04ErrReturnKind(w *an.World, r *ssa.Return) string {
	if len(r.Results) == 0 {
		return "?"
	}
	v := r.Results[len(r.Results)-1]
	if !an.IsErrorType(v.Type()) {
		return "?"
	}
	if an.IsNilConst(v) {
		return "nil"
	}
	if _, ok := v.(*ssa.MakeInterface); ok {
		return "err"
	}
	if call := c04CallOf(v); call != nil {
		switch w.Info(call).Name {
		case "func:fmt.Errorf", "func:errors.New":
			return "err"
		}
		_, fail, _ := c04DirectEdges(call)
		if len(fail) > 0 && an.EdgesDominate(fail, r.Block()) {
			return "err"
		}
	}
	return "?"
}

// c04ConstFold folds an integer expression of constants (+ - * / % << >>,
// conversions) to its value.
func c04ConstFold(v ssa.Value) (int64, bool) {
	if i, ok := an.ConstInt(v); ok {
		return i, true
	}
	switch x := v.(type) {
	case *ssa.Convert:
		if c04IsInt(x.Type()) && c04IsInt(x.X.Type()) {
			return c04ConstFold(x.X)
		}
	case *ssa.ChangeType:
		return c04ConstFold(x.X)
	case *ssa.BinOp:
		a, aok := c04ConstFold(x.X)
		b, bok := c04ConstFold(x.Y)
		if !aok || !bok {
			return 0, false
		}
		switch x.Op {
		case token.ADD:
			return a + b, true
		case token.SUB:
			return a - b, true
		case token.MUL:
			return a * b, true
		case token.QUO:
			if a >= 0 && b > 0 {
				return a / b, true
			}
		case token.REM:
			if a >= 0 && b > 0 {
				return a % b, true
			}
		case token.SHR:
			if a >= 0 && b >= 0 && b < 63 {
				return a >> uint(b), true
			}
		case token.SHL:
			if a >= 0 && b >= 0 && b < 31 && a < 1<<31 {
				return a << uint(b), true
			}
		}
	}
	return 0, false
}

// ---- R1: the policy table ----------------------------------------------------------

type c04Row struct {
	ret     *ssa.Return
	chain   string // "" = not determined by a dominating guard
	version int64  // -1 = not determined
	vals    map[string]int64
	allow   bool
	known   bool // all fields constant
	// some dominating condition talks about the protocol version
	verMention bool
}

// c04PolicyRows decodes every successful return of getTimelockPolicy.
func c04PolicyRows(c *an.Check, rule string) []c04Row {
	w := c.W
	fn := c04X.policyFn
	var rows []c04Row
	for _, r := range an.Returns(fn) {
		kind := c04ErrReturnKind(w, r)
		if kind == "err" {
			continue
		}
		row := c04Row{ret: r, version: -1, vals: map[string]int64{}, known: true}
		if kind != "nil" {
			c.Unknown(rule, "getTimelockPolicy return", w.Pos(r.Pos()), "cannot tell whether this return reports an error; unsupported shape")
			continue
		}
		for _, f := range c04FactsDominatingBlock(w, r.Block()) {
			if strings.Contains(f.Atom+f.L+f.R, c04GetVersion) {
				row.verMention = true
			}
			for k := range f.Terms {
				if strings.Contains(k, c04GetVersion) {
					row.verMention = true
				}
			}
			if f.NonNum && f.Rel == "==" {
				for _, ch := range []string{c04Liquid, c04Bitcoin} {
					if (strings.HasSuffix(f.L, "call:"+c04GetChain) && f.R == `"`+ch+`"`) || (strings.HasSuffix(f.R, "call:"+c04GetChain) && f.L == `"`+ch+`"`) {
						row.chain = ch
					}
				}
			}
			if !f.NonNum && f.Rel == "==" && len(f.Terms) == 1 {
				for k, co := range f.Terms {
					if strings.HasSuffix(k, "call:"+c04GetVersion) && (co == 1 || co == -1) {
						row.version = -f.Const * co
					}
				}
			}
		}
		// the struct value
		v := r.Results[0]
		var al *ssa.Alloc
		if u, ok := v.(*ssa.UnOp); ok && u.Op == token.MUL {
			al, _ = u.X.(*ssa.Alloc)
		}
		st, _ := v.Type().Underlying().(*types.Struct)
		if st == nil {
			c.Unknown(rule, "getTimelockPolicy return", w.Pos(r.Pos()), "first result is not a struct")
			continue
		}
		for i := 0; i < st.NumFields(); i++ {
			name := st.Field(i).Name()
			switch {
			case al != nil:
				fv, set := an.CompositeFieldValue(al, name)
				if !set {
					row.vals[name] = 0
					continue
				}
				if cst, ok := fv.(*ssa.Const); ok && cst.Value != nil && cst.Value.Kind() == constant.Bool {
					row.vals[name] = 0
					if constant.BoolVal(cst.Value) {
						row.vals[name] = 1
					}
					continue
				}
				if n, ok := c04ConstFold(fv); ok {
					row.vals[name] = n
					continue
				}
				row.known = false
			default:
				if _, isConst := v.(*ssa.Const); isConst {
					row.vals[name] = 0 // zero struct
				} else {
					row.known = false
				}
			}
		}
		row.allow = row.vals["AllowNewClaimPayment"] != 0
		rows = append(rows, row)
	}
	return rows
}

func (r c04Row) key() string {
	ch, v := r.chain, "any"
	if ch == "" {
		ch = "any-chain"
	}
	if r.version >= 0 {
		v = fmt.Sprint(r.version)
	}
	return fmt.Sprintf("policy row (%s,version %s)", ch, v)
}

func c04R1(c *an.Check) {
	w := c.W
	rows := c04PolicyRows(c, "C04.R1")
	st, _ := c04X.pol.Underlying().(*types.Struct)
	need := map[string]bool{"CSV": false, "PaymentWindow": false, "InvoiceFinalCLTV": false, "MaxTotalCLTVDelta": false, "AllowNewClaimPayment": false}
	if st != nil {
		for i := 0; i < st.NumFields(); i++ {
			if _, ok := need[st.Field(i).Name()]; ok {
				need[st.Field(i).Name()] = true
			}
		}
	}
	for k, ok := range need {
		if !ok {
			c.Anchor("swap.timelockPolicy has no field %s", k)
			return
		}
	}
	nAllow, nDeny := 0, 0
	for _, r := range rows {
		if r.chain == c04Bitcoin {
			continue // the Bitcoin row is C05's
		}
		pos := w.Pos(r.ret.Pos())
		if !r.known {
			c.Unknown("C04.R1", r.key(), pos, "a field of the returned policy is not a constant; the table cannot be evaluated")
			continue
		}
		desc := fmt.Sprintf("CSV=%d window=%d finalCLTV=%d maxTotal=%d allowNew=%v", r.vals["CSV"], r.vals["PaymentWindow"], r.vals["InvoiceFinalCLTV"], r.vals["MaxTotalCLTVDelta"], r.allow)
		if !r.allow {
			nDeny++
			c.OK("C04.R1", r.key(), pos, "Liquid row forbids new claim payments: "+desc)
			continue
		}
		nAllow++
		var bad []string
		if r.version < 0 && r.verMention {
			c.Unknown("C04.R1", r.key(), pos, "a Liquid row that allows new claim payments is conditional on the protocol version, but not recognisably on version == 7 ("+desc+")")
			continue
		}
		if r.version != c04LiquidProto {
			bad = append(bad, fmt.Sprintf("new claim payments are allowed for a Liquid swap that is not guarded by version == %d", c04LiquidProto))
		}
		if r.vals["PaymentWindow"] < 1 || r.vals["PaymentWindow"] > c04MaxWindow {
			bad = append(bad, fmt.Sprintf("payment window %d not in [1,%d]", r.vals["PaymentWindow"], c04MaxWindow))
		}
		if r.vals["InvoiceFinalCLTV"] > c04MaxFinal {
			bad = append(bad, fmt.Sprintf("invoice final CLTV %d > %d", r.vals["InvoiceFinalCLTV"], c04MaxFinal))
		}
		if r.vals["MaxTotalCLTVDelta"] < 1 || r.vals["MaxTotalCLTVDelta"] > c04MaxTotal {
			bad = append(bad, fmt.Sprintf("total CLTV limit %d not in [1,%d] (0 disables the limit)", r.vals["MaxTotalCLTVDelta"], c04MaxTotal))
		}
		if r.vals["CSV"] < c04MinCSV {
			bad = append(bad, fmt.Sprintf("CSV %d < %d", r.vals["CSV"], c04MinCSV))
		}
		c.Decide(len(bad) == 0, "C04.R1", r.key(), pos, "Liquid v7 row within the limits of the property: "+desc, strings.Join(bad, "; ")+" ("+desc+")")
	}
	c.AtLeast("C04.R1", "Liquid policy rows (allowing + forbidding new claim payments)", nAllow+nDeny, 2)
}

// ---- R4: the window predicate ---------------------------------------------------------

// c04WindowShape is what R4 established about checkPaymentWindow and what the
// call-site rule needs: which parameter is the height, which the swap, which the policy.
type c04WindowShape struct {
	ok                         bool
	heightIdx, swapIdx, polIdx int
}

func c04R4(c *an.Check) map[*ssa.Function]c04WindowShape {
	out := map[*ssa.Function]c04WindowShape{}
	for _, fn := range c04X.windowFns {
		out[fn] = c04R4One(c, fn)
	}
	return out
}

func c04R4One(c *an.Check, fn *ssa.Function) (c04Shape c04WindowShape) {
	w := c.W
	c04Shape = c04WindowShape{heightIdx: -1, swapIdx: -1, polIdx: -1}
	fname := w.FuncName(fn)
	pos := w.Pos(fn.Pos())
	// parameters by type
	for i, p := range fn.Params {
		switch n := an.NamedOf(p.Type()); {
		case n != nil && n.Obj().Name() == "SwapData":
			c04Shape.swapIdx = i
		case n != nil && n == c04X.pol:
			c04Shape.polIdx = i
		}
	}
	nInt := 0
	for i, p := range fn.Params {
		if c04IsInt(p.Type()) {
			nInt++
			c04Shape.heightIdx = i
		}
	}
	if c04Shape.swapIdx < 0 || nInt != 1 {
		c04Shape.heightIdx = -1
		c.Unknown("C04.R4", fname, pos, "expected exactly one *SwapData and one integer (height) parameter: unsupported signature")
		return c04Shape
	}
	c04Shape.ok = true
	wantH := fmt.Sprintf("param#%d", c04Shape.heightIdx)
	nSucc := 0
	for _, rc := range c04RetCases(w, fn) {
		r := rc.Ret
		switch rc.Kind {
		case "err":
			continue
		case "?":
			c.Unknown("C04.R4", fname, w.Pos(r.Pos()), "a return whose error value is neither nil nor a fresh error: unsupported shape")
			continue
		}
		nSucc++
		facts := rc.Facts
		desc := an.DescribeFacts(facts)
		// (a) anchor set
		a := an.AnyFact(facts, func(f an.Fact) bool { return an.AtomIs(f, "field:SwapData.StartingBlockHeightSet", true) })
		// (b) current >= start : +1*H -1*start >= 0, H a parameter
		var lower, upper *an.Fact
		for i, f := range facts {
			// (b) current >= start
			if c04Implies(f, map[string]int64{wantH: 1, "field:SwapData.StartingBlockHeight": -1}, 0, ">=") {
				lower = &facts[i]
			}
			// (c) start + window - current > 0
			for k := range f.Terms {
				if strings.HasSuffix(k, c04X.polName+".PaymentWindow") && c04Implies(f, map[string]int64{wantH: -1, "field:SwapData.StartingBlockHeight": 1, k: 1}, 0, ">") {
					upper = &facts[i]
				}
			}
		}
		var bad []string
		if !a {
			bad = append(bad, "success is not conditional on StartingBlockHeightSet (an unanchored swap passes)")
		}
		if lower == nil {
			bad = append(bad, "success is not conditional on current >= StartingBlockHeight (a tip below the anchor passes)")
		}
		if upper == nil {
			bad = append(bad, "success is not conditional on current < StartingBlockHeight + PaymentWindow (exactly this strict relation)")
		}
		if upper != nil {
			if msg, undecided := c04Overflow(w, *upper, wantH, lower); msg != "" {
				if undecided {
					c.Unknown("C04.R4", fname+" arithmetic", w.Pos(upper.Cond.Pos()), msg)
				} else {
					bad = append(bad, msg)
				}
			}
		}
		if h := c04HandsParamsOn(w, fn); len(bad) > 0 && h != "" {
			c.Unknown("C04.R4", fname, w.Pos(r.Pos()), strings.Join(bad, "; ")+" — but the function hands its arguments to "+h+", where the condition may be tested: unsupported shape. Facts on the success path: "+desc)
		} else if op := c04OpaquePreds(w, fn); len(bad) > 0 && len(op) > 0 {
			c.Unknown("C04.R4", fname, w.Pos(r.Pos()), strings.Join(bad, "; ")+" — but the function branches on "+strings.Join(op, ", ")+", which this rule cannot look into. Facts on the success path: "+desc)
		} else if len(bad) > 0 {
			c.Bad("C04.R4", fname, w.Pos(r.Pos()), strings.Join(bad, "; ")+". Facts on the success path: "+desc)
		} else {
			c.OK("C04.R4", fname, w.Pos(r.Pos()), "nil only under: "+desc)
		}
	}
	c.AtLeast("C04.R4", "successful returns of "+fname, nSucc, 1)
	return c04Shape
}

// c04Overflow inspects the arithmetic under the upper-bound comparison: an
// addition or multiplication narrower than 64 bits can wrap for heights near
// 2^32 and make the deadline small; a narrow subtraction is only safe as
// current-start under the dominating current>=start.
func c04Overflow(w *an.World, f an.Fact, hTerm string, lower *an.Fact) (msg string, undecided bool) {
	var ops []*ssa.BinOp
	var walk func(v ssa.Value, d int)
	walk = func(v ssa.Value, d int) {
		if d > 10 {
			return
		}
		switch x := v.(type) {
		case *ssa.Convert:
			walk(x.X, d+1)
		case *ssa.ChangeType:
			walk(x.X, d+1)
		case *ssa.BinOp:
			switch x.Op {
			case token.ADD, token.SUB, token.MUL:
				ops = append(ops, x)
				walk(x.X, d+1)
				walk(x.Y, d+1)
			}
		case *ssa.UnOp:
			// a local that holds the deadline
			if x.Op == token.MUL {
				if al, ok := x.X.(*ssa.Alloc); ok && al.Referrers() != nil {
					for _, r := range *al.Referrers() {
						if s, ok := r.(*ssa.Store); ok && s.Addr == al {
							walk(s.Val, d+1)
						}
					}
				}
			}
		}
	}
	walk(f.LV, 0)
	walk(f.RV, 0)
	if len(ops) == 0 {
		return "the deadline comparison performs no arithmetic that can be inspected", true
	}
	for _, op := range ops {
		b, _ := op.Type().Underlying().(*types.Basic)
		wide := b != nil && (b.Kind() == types.Uint64 || b.Kind() == types.Int64 || b.Kind() == types.Int || b.Kind() == types.Uint)
		if wide {
			continue
		}
		switch op.Op {
		case token.ADD, token.MUL:
			return fmt.Sprintf("start+window is computed in %s at %s: for an anchor near 2^32 the sum wraps and the deadline check accepts/rejects the wrong heights (must be a 64-bit addition)", op.Type(), w.Pos(op.Pos())), false
		case token.SUB:
			l, r := c04Linear(w, op.X), c04Linear(w, op.Y)
			lk, lc, lok := l.single()
			rk, rc, rok := r.single()
			if lok && rok && lc == 1 && rc == 1 && l.C == 0 && r.C == 0 && lk == hTerm && rk == "field:SwapData.StartingBlockHeight" && lower != nil && an.EdgeDominates(lower.Edge, op.Block()) {
				continue // current-start under current>=start cannot wrap
			}
			return fmt.Sprintf("narrow subtraction %s at %s is not the guarded current-start form; cannot decide wrap-around", op.Type(), w.Pos(op.Pos())), true
		}
	}
	return "", false
}

// c04Site is a claim-payment site as seen from the function that decides about
// it: the RebalancePayment call itself, or — when the call sits in a small
// in-module helper that has static callers — the call of that helper (lifted,
// to a bounded depth), with the helper's parameters bound to the arguments.
type c04Site struct {
	at    ssa.CallInstruction   // instruction in the deciding function
	pay   ssa.CallInstruction   // the RebalancePayment call
	steps []ssa.CallInstruction // helper calls from the innermost outwards (empty when not lifted)
	// the pay call can repeat inside a helper without returning to the caller
	loopInHelper bool
}

var c04ParamRx = regexp.MustCompile(`param#(\d+)`)

// argTerm names argument i of the pay call in the vocabulary of the deciding function.
func (s c04Site) argTerm(w *an.World, i int) string {
	args := s.pay.Common().Args
	if i >= len(args) {
		return ""
	}
	t := w.Term(args[i])
	for _, st := range s.steps {
		cargs := st.Common().Args
		t = c04ParamRx.ReplaceAllStringFunc(t, func(m string) string {
			k := 0
			fmt.Sscanf(m, "param#%d", &k)
			if k < len(cargs) {
				return w.Term(cargs[k])
			}
			return m
		})
	}
	return t
}

// argRoot returns the value at the root of argument i's field chain, followed
// through helper parameters into the deciding function (nil if not traceable).
func (s c04Site) argRoot(w *an.World, i int) ssa.Value {
	args := s.pay.Common().Args
	if i >= len(args) {
		return nil
	}
	v := args[i]
	for {
		if cv, ok := v.(*ssa.Convert); ok {
			v = cv.X
			continue
		}
		break
	}
	_, root := w.FieldChain(v)
	for _, st := range s.steps {
		p, ok := root.(*ssa.Parameter)
		if !ok {
			return nil
		}
		k := -1
		for j, q := range p.Parent().Params {
			if q == p {
				k = j
			}
		}
		if k < 0 || k >= len(st.Common().Args) {
			return nil
		}
		_, root = w.FieldChain(st.Common().Args[k])
	}
	return root
}

// c04PaySites lists the claim-payment sites, lifted out of helpers.
func c04PaySites(w *an.World) []c04Site { return c04Sites(w, fxPay) }

// c04Sites lists the call sites of the service method name, lifted out of helpers.
func c04Sites(w *an.World, name string) []c04Site {
	var out []c04Site
	var lift func(s c04Site, depth int)
	lift = func(s c04Site, depth int) {
		fn := s.at.Parent()
		var callers []ssa.CallInstruction
		if fn.Parent() == nil && depth < 3 {
			for _, cs := range findCallSites(w, "func:"+w.FuncName(fn)) {
				if _, isCall := cs.(*ssa.Call); isCall && len(cs.Common().Args) == len(fn.Params) {
					callers = append(callers, cs)
				}
			}
		}
		if len(callers) == 0 {
			out = append(out, s)
			return
		}
		if an.ReachBlocks(s.at.Block().Succs, nil, nil)[s.at.Block()] {
			s.loopInHelper = true
		}
		for _, cs := range callers {
			lift(c04Site{at: cs, pay: s.pay, steps: append(append([]ssa.CallInstruction{}, s.steps...), cs), loopInHelper: s.loopInHelper}, depth+1)
		}
	}
	for _, p := range findCallSites(w, name) {
		lift(c04Site{at: p, pay: p}, 0)
	}
	return out
}

// c04PassThrough finds in-module functions of package swap that are pure
// pass-through wrappers of one of the predicates in core: one error result,
// every return is either a fresh error, the inner call's own result, or nil
// behind the inner call's nil edge, and every inner argument listed in idx is
// one of the wrapper's parameters. It returns wrapper -> (inner function,
// inner parameter index -> wrapper parameter index).
func c04PassThrough(w *an.World, core func(*ssa.Function) bool, idx func(*ssa.Function) []int) map[*ssa.Function]map[int]int {
	out := map[*ssa.Function]map[int]int{}
	for _, g := range prodFuncs(w) {
		if w.FnRel(g) != "swap" || g.Parent() != nil || core(g) {
			continue
		}
		r := g.Signature.Results()
		if r.Len() != 1 || !an.IsErrorType(r.At(0).Type()) {
			continue
		}
		inner := c04CallsTo(g, core)
		if len(inner) != 1 {
			continue
		}
		call, ok := inner[0].(*ssa.Call)
		if !ok {
			continue
		}
		m := map[int]int{}
		good := true
		for _, i := range idx(call.Call.StaticCallee()) {
			if i < 0 {
				continue
			}
			if i >= len(call.Call.Args) {
				good = false
				break
			}
			p, isParam := c04Strip(call.Call.Args[i]).(*ssa.Parameter)
			if !isParam {
				good = false
				break
			}
			m[i] = c04ParamIndex(p)
		}
		if !good {
			continue
		}
		okE, _ := c04DirectOkEdges(call)
		for _, ret := range an.Returns(g) {
			switch c04ErrReturnKind(w, ret) {
			case "err":
			case "nil":
				if len(okE) == 0 || !an.EdgesDominate(okE, ret.Block()) {
					good = false
				}
			default:
				if len(ret.Results) != 1 || ret.Results[0] != ssa.Value(call) {
					good = false
				}
			}
		}
		if good {
			out[g] = m
		}
	}
	return out
}

// c04CallerFacts: for a closure or helper fn with static call sites, the facts
// (by text) that dominate every one of those call sites, transitively upwards,
// and the functions that contain them. Empty when fn has no static call site.
func c04CallerFacts(w *an.World, fn *ssa.Function, depth int) ([]an.Fact, []*ssa.Function) {
	if depth > 2 {
		return nil, nil
	}
	sites := findCallSites(w, "func:"+w.FuncName(fn))
	if len(sites) == 0 {
		return nil, nil
	}
	var common []an.Fact
	var fns []*ssa.Function
	for i, cs := range sites {
		fs := c04FactsDominating(w, cs)
		up, upFns := c04CallerFacts(w, cs.Parent(), depth+1)
		fs = append(fs, up...)
		fns = append(append(fns, cs.Parent()), upFns...)
		if i == 0 {
			common = fs
			continue
		}
		have := map[string]bool{}
		for _, f := range fs {
			have[f.String()] = true
		}
		var keep []an.Fact
		for _, f := range common {
			if have[f.String()] {
				keep = append(keep, f)
			}
		}
		common = keep
	}
	return common, fns
}

// ---- R2 + R3: the claim-payment call sites ----------------------------------------------

type c04WindowCall struct {
	call   *ssa.Call
	height *ssa.Call // the instruction of the deciding function that performs the tip lookup: the GetBlockHeight call, or the call of the constructor helper that looks the tip up and stores it
	recv   ssa.Value // the chain service the tip is read from, as a value of the deciding function
	via    string    // "" or the helper object / constructor the height travels through
	ok     []an.Edge
	why    string // non-empty: not usable, with the reason
}

// c04Operand is a value needed by a window predicate, resolved into the
// vocabulary of the deciding function fn: either a value of fn, or "looked up
// by the tip lookup inside the call `at` of fn on receiver recv".
type c04Operand struct {
	val    ssa.Value // value in fn (nil when the operand is produced inside a helper call)
	at     *ssa.Call // call of fn inside which a tip lookup produces the operand
	recv   ssa.Value // receiver of that lookup, as a value of fn
	via    string
	failed string
}

// c04IsTipLookup: an interface call of a method named GetBlockHeight returning (integer, error).
func c04IsTipLookup(call *ssa.Call) bool {
	if !call.Call.IsInvoke() || call.Call.Method == nil || call.Call.Method.Name() != "GetBlockHeight" {
		return false
	}
	r := call.Call.Signature().Results()
	return r.Len() == 2 && c04IsInt(r.At(0).Type()) && an.IsErrorType(r.At(1).Type())
}

// c04FieldOfObject resolves field `field` (index) of the struct object obj (a
// value of fn, usually a pointer) by interpreting "field of a fresh struct
// stored once by its constructor" as the stored value: obj may be a phi with
// nil alternatives, a fresh struct of fn, or the result of an in-module
// constructor helper that allocates the struct and stores the field once.
func c04FieldOfObject(w *an.World, obj ssa.Value, field int, depth int) c04Operand {
	if depth > 4 {
		return c04Operand{failed: "object nesting too deep"}
	}
	obj = c04Strip(obj)
	switch x := obj.(type) {
	case *ssa.Phi:
		var got *c04Operand
		for _, e := range x.Edges {
			if an.IsNilConst(e) {
				continue
			}
			o := c04FieldOfObject(w, e, field, depth+1)
			if o.failed != "" {
				return o
			}
			if got != nil && (got.val != o.val || got.at != o.at) {
				return c04Operand{failed: "the helper object comes from more than one construction"}
			}
			got = &o
		}
		if got == nil {
			return c04Operand{failed: "the helper object is never constructed"}
		}
		return *got
	case *ssa.UnOp:
		// a local variable holding the object
		if al, ok := x.X.(*ssa.Alloc); ok && x.Op == token.MUL && al.Referrers() != nil {
			var stores []ssa.Value
			for _, r := range *al.Referrers() {
				if st, ok := r.(*ssa.Store); ok && st.Addr == al && !an.IsNilConst(st.Val) {
					stores = append(stores, st.Val)
				}
			}
			if len(stores) == 1 {
				return c04FieldOfObject(w, stores[0], field, depth+1)
			}
		}
	case *ssa.Alloc:
		// a fresh struct of this function: the single store to the field
		var vals []ssa.Value
		if x.Referrers() != nil {
			for _, r := range *x.Referrers() {
				fa, ok := r.(*ssa.FieldAddr)
				if !ok || fa.Field != field || fa.Referrers() == nil {
					continue
				}
				for _, rr := range *fa.Referrers() {
					if st, ok := rr.(*ssa.Store); ok && st.Addr == fa {
						vals = append(vals, st.Val)
					}
				}
			}
		}
		if len(vals) != 1 {
			return c04Operand{failed: fmt.Sprintf("the field is stored %d times in the fresh struct", len(vals))}
		}
		if lk := c04CallOf(vals[0]); lk != nil && c04IsTipLookup(lk) {
			return c04Operand{val: vals[0], at: lk, recv: lk.Call.Value}
		}
		return c04Operand{val: vals[0]}
	case *ssa.Extract:
		call, ok := x.Tuple.(*ssa.Call)
		if !ok {
			break
		}
		return c04FieldFromCtor(w, call, x.Index, field, depth)
	case *ssa.Call:
		return c04FieldFromCtor(w, x, 0, field, depth)
	}
	return c04Operand{failed: "cannot trace the helper object " + w.Term(obj) + " to its construction"}
}

// c04FieldFromCtor: the object is result #idx of call (an in-module constructor helper).
func c04FieldFromCtor(w *an.World, call *ssa.Call, idx, field, depth int) c04Operand {
	g := call.Call.StaticCallee()
	if g == nil || call.Call.IsInvoke() || !w.InModule(g) || g.Blocks == nil || len(g.Params) != len(call.Call.Args) {
		return c04Operand{failed: "the helper object is produced by " + w.Info(call).Name + ", which this rule cannot look into"}
	}
	var got *c04Operand
	for _, r := range an.Returns(g) {
		if idx >= len(r.Results) || an.IsNilConst(r.Results[idx]) {
			continue
		}
		o := c04FieldOfObject(w, r.Results[idx], field, depth+1)
		if o.failed != "" {
			return o
		}
		if got != nil && (got.val != o.val || got.at != o.at) {
			return c04Operand{failed: "the constructor " + w.FuncName(g) + " builds the object in more than one way"}
		}
		got = &o
	}
	if got == nil {
		return c04Operand{failed: "the constructor " + w.FuncName(g) + " never returns an object"}
	}
	// translate from g's vocabulary into the caller's
	bindArg := func(v ssa.Value) (ssa.Value, bool) {
		if p, ok := c04Strip(v).(*ssa.Parameter); ok && p.Parent() == g {
			return call.Call.Args[c04ParamIndex(p)], true
		}
		return nil, false
	}
	out := c04Operand{via: w.FuncName(g)}
	if got.at != nil {
		// the tip is looked up inside the constructor: the lookup happens when (and
		// only when) the constructor call executes
		rv, ok := bindArg(got.recv)
		if !ok {
			return c04Operand{failed: "inside " + w.FuncName(g) + " the tip is read from " + w.Term(got.recv) + ", not from a chain service handed in by the caller"}
		}
		out.at, out.recv = call, rv
		return out
	}
	if v, ok := bindArg(got.val); ok {
		out.val = v
		return out
	}
	return c04Operand{failed: "inside " + w.FuncName(g) + " the field is set to " + w.Term(got.val) + ", which is neither a parameter nor a tip lookup"}
}

// c04ObjectWindowCall interprets a call of an in-module helper g that is a
// pass-through of a window predicate whose operands are parameters of g or
// fields of an object parameter of g (e.g. (*claimPaymentWindow).Check).
func c04ObjectWindowCall(w *an.World, call *ssa.Call, shapes map[*ssa.Function]c04WindowShape) (c04WindowCall, bool) {
	g := call.Call.StaticCallee()
	if g == nil || call.Call.IsInvoke() || c04X.isWindow(g) || !w.InModule(g) || g.Blocks == nil || len(g.Params) != len(call.Call.Args) {
		return c04WindowCall{}, false
	}
	r := g.Signature.Results()
	if r.Len() != 1 || !an.IsErrorType(r.At(0).Type()) {
		return c04WindowCall{}, false
	}
	inner := c04CallsTo(g, c04X.isWindow)
	if len(inner) != 1 {
		return c04WindowCall{}, false
	}
	in, ok := inner[0].(*ssa.Call)
	if !ok {
		return c04WindowCall{}, false
	}
	// g returns nil only if the inner predicate returned nil
	okE, _ := c04DirectOkEdges(in)
	for _, ret := range an.Returns(g) {
		switch c04ErrReturnKind(w, ret) {
		case "err":
		case "nil":
			if len(okE) == 0 || !an.EdgesDominate(okE, ret.Block()) {
				return c04WindowCall{}, false
			}
		default:
			if len(ret.Results) != 1 || ret.Results[0] != ssa.Value(in) {
				return c04WindowCall{}, false
			}
		}
	}
	sh := shapes[in.Call.StaticCallee()]
	wc := c04WindowCall{call: call, via: w.FuncName(g)}
	if !sh.ok {
		wc.why = "?the window predicate behind " + w.FuncName(g) + " has a signature this rule does not interpret"
		return wc, true
	}
	// resolve an inner operand into the caller's vocabulary
	resolve := func(v ssa.Value) c04Operand {
		v = c04Strip(v)
		if p, ok := v.(*ssa.Parameter); ok && p.Parent() == g {
			return c04Operand{val: call.Call.Args[c04ParamIndex(p)]}
		}
		// field of an object parameter: load of &param.f (pointer) or param.f (value)
		var base ssa.Value
		field := -1
		switch x := v.(type) {
		case *ssa.UnOp:
			if fa, ok := x.X.(*ssa.FieldAddr); ok && x.Op == token.MUL {
				base, field = fa.X, fa.Field
			}
		case *ssa.Field:
			base, field = x.X, x.Field
		}
		if p, ok := base.(*ssa.Parameter); ok && p.Parent() == g && field >= 0 {
			return c04FieldOfObject(w, call.Call.Args[c04ParamIndex(p)], field, 0)
		}
		return c04Operand{failed: "inside " + w.FuncName(g) + " the operand " + w.Term(v) + " is neither a parameter nor a field of a parameter"}
	}
	args := in.Call.Args
	if sh.heightIdx >= len(args) || sh.swapIdx >= len(args) {
		wc.why = "?argument list does not match the analysed signature"
		return wc, true
	}
	if o := resolve(args[sh.swapIdx]); o.failed != "" {
		wc.why = "?" + o.failed
	} else if _, isParam := o.val.(*ssa.Parameter); !isParam {
		wc.why = "?the swap behind " + w.FuncName(g) + " is not the action's own swap parameter"
	}
	if sh.polIdx >= 0 && sh.polIdx < len(args) {
		if o := resolve(args[sh.polIdx]); o.failed != "" {
			wc.why = "?" + o.failed
		} else if o.val == nil || w.Term(o.val) != c04X.policyTerm {
			wc.why = "?the policy behind " + w.FuncName(g) + " is not the result of getTimelockPolicy"
		}
	}
	h := resolve(args[sh.heightIdx])
	switch {
	case h.failed != "":
		wc.why = "?" + h.failed
	case h.at != nil:
		wc.height, wc.recv = h.at, h.recv
		if h.via != "" {
			wc.via = h.via
		}
	default:
		lk := c04CallOf(h.val)
		if lk == nil || !c04IsTipLookup(lk) || !strings.HasSuffix(w.Term(h.val), "#0") {
			wc.why = "?the height behind " + w.FuncName(g) + " is not the result of a tip lookup (" + w.Term(h.val) + ")"
		} else {
			wc.height, wc.recv = lk, lk.Call.Value
		}
	}
	var loose bool
	wc.ok, loose = c04DirectOkEdges(call)
	if len(wc.ok) == 0 && wc.why == "" {
		if loose {
			wc.why = "?its error is only tested after being merged with other errors"
		} else {
			wc.why = "its error result is never tested"
		}
	}
	return wc, true
}

// c04WindowCalls lists the checkPaymentWindow calls of fn that test this
// swap, a height read from the chain watcher, and the swap's own policy.
func c04WindowCalls(w *an.World, fn *ssa.Function, shapes map[*ssa.Function]c04WindowShape) []c04WindowCall {
	var out []c04WindowCall
	for _, ci := range c04CallsTo(fn, c04X.isWindow) {
		call, isCall := ci.(*ssa.Call)
		if !isCall {
			continue
		}
		wc := c04WindowCall{call: call}
		args := call.Call.Args
		sh := shapes[call.Call.StaticCallee()]
		switch {
		case !sh.ok:
			wc.why = "?the window predicate " + w.FuncName(call.Call.StaticCallee()) + " has a signature this rule does not interpret"
		case sh.heightIdx >= len(args) || sh.swapIdx >= len(args):
			wc.why = "?argument list does not match the analysed signature"
		default:
			if _, isParam := args[sh.swapIdx].(*ssa.Parameter); !isParam {
				wc.why = "?the swap argument is not the action's own swap parameter (" + w.Term(args[sh.swapIdx]) + ")"
			}
			h := c04CallOf(args[sh.heightIdx])
			if h == nil || w.Info(h).Name != fxBlockHeight || !strings.HasSuffix(w.Term(args[sh.heightIdx]), "#0") {
				wc.why = "?the height argument is not the result of TxWatcher.GetBlockHeight (" + w.Term(args[sh.heightIdx]) + ")"
			} else {
				wc.height, wc.recv = h, h.Call.Value
			}
			if sh.polIdx >= 0 && sh.polIdx < len(args) && w.Term(args[sh.polIdx]) != c04X.policyTerm {
				wc.why = "?the policy argument is not the result of getTimelockPolicy (" + w.Term(args[sh.polIdx]) + ")"
			}
		}
		var loose bool
		wc.ok, loose = c04DirectOkEdges(call)
		if len(wc.ok) == 0 && wc.why == "" {
			if loose {
				wc.why = "?its error is only tested after being merged with other errors"
			} else {
				wc.why = "its error result is never tested"
			}
		}
		out = append(out, wc)
	}
	// window tests made through a helper object / a helper whose operands are fields
	for _, ci := range an.Calls(fn) {
		call, isCall := ci.(*ssa.Call)
		if !isCall {
			continue
		}
		if wc, ok := c04ObjectWindowCall(w, call, shapes); ok {
			out = append(out, wc)
		}
	}
	return out
}

func c04R2R3(c *an.Check, shapes map[*ssa.Function]c04WindowShape) {
	w := c.W
	sites := c04PaySites(w)
	if !c.AtLeast("C04.R2", "claim-payment (RebalancePayment) call sites", len(sites), 1) {
		return
	}
	for _, site := range sites {
		p := site.at // the pay call, or the call of the helper that pays
		fn := p.Parent()
		cons := w.FuncName(fn) + " call LightningClient.RebalancePayment"
		pos := w.Pos(p.Pos())
		if site.loopInHelper {
			c.Unknown("C04.R2", cons, pos, "the payment is made inside a helper in which it can repeat without returning to the caller's checks: unsupported shape")
			c.Unknown("C04.R3", cons, pos, "see C04.R2: payment inside a looping helper")
			continue
		}

		// --- R3: dominated by AllowNewClaimPayment == true of an error-checked policy
		facts := c04FactsDominating(w, p)
		// a payment inside a closure / helper with static call sites also runs under
		// the facts that hold at every one of those call sites
		outer, outerFns := c04CallerFacts(w, fn, 0)
		facts = append(facts, outer...)
		allow := an.AnyFact(facts, func(f an.Fact) bool {
			return (f.Rel == "true") && f.Atom == c04X.policyTerm+">"+c04X.polName+".AllowNewClaimPayment"
		})
		polOK := an.AnyFact(facts, func(f an.Fact) bool {
			return f.NonNum && f.Rel == "==" && ((f.L == "call:"+c04X.policyName+"#1" && f.R == "nil") || (f.R == "call:"+c04X.policyName+"#1" && f.L == "nil"))
		})
		ownSwap := false
		var polCalls []ssa.CallInstruction
		for _, f := range append([]*ssa.Function{fn}, outerFns...) {
			polCalls = append(polCalls, callsNamed(w, f, c04X.policyName)...)
		}
		for _, pc := range polCalls {
			if len(pc.Common().Args) == 0 {
				continue
			}
			if prm, ok := pc.Common().Args[0].(*ssa.Parameter); ok {
				if root := site.argRoot(w, 0); root == prm {
					ownSwap = true
				}
			}
		}
		allowLoose := an.AnyFact(facts, func(f an.Fact) bool {
			return f.Rel == "true" && strings.HasSuffix(f.Atom, c04X.polName+".AllowNewClaimPayment")
		})
		opaque := c04OpaquePreds(w, fn)
		switch {
		case !allow && allowLoose:
			c.Unknown("C04.R3", cons, pos, "the payment is dominated by an AllowNewClaimPayment test, but this rule cannot tie the tested policy value to this swap's getTimelockPolicy result. Facts: "+an.DescribeFacts(facts))
		case !allow && len(outerFns) > 0:
			c.Unknown("C04.R3", cons, pos, "no AllowNewClaimPayment test dominates the payment inside "+w.FuncName(fn)+" nor every call of it; a closure/helper whose guards are split between it and its callers is a shape this rule does not fully interpret")
		case !allow && len(opaque) > 0:
			c.Unknown("C04.R3", cons, pos, "no AllowNewClaimPayment test is visible, but the action branches on "+strings.Join(opaque, ", ")+", which this rule cannot look into")
		case !allow:
			c.Bad("C04.R3", cons, pos, "the claim payment is reachable without policy.AllowNewClaimPayment being true: a legacy (protocol 6) Liquid swap, whose policy row forbids new payments, can create a new claim payment here. Facts that do dominate: "+an.DescribeFacts(facts))
		case !polOK:
			c.Bad("C04.R3", cons, pos, "the policy used in the AllowNewClaimPayment test comes from a getTimelockPolicy call whose error is not checked (the zero policy is tested). Facts: "+an.DescribeFacts(facts))
		case !ownSwap:
			c.Unknown("C04.R3", cons, pos, "cannot show that the policy and the paid invoice belong to the same SwapData parameter; unsupported shape")
		default:
			c.OK("C04.R3", cons, pos, "dominated by AllowNewClaimPayment == true of this swap's error-checked policy")
		}

		// --- R2: window re-check per attempt on the Liquid branch
		nonLiq := c04NonLiquidEdges(w, fn)
		wcs := c04WindowCalls(w, fn, shapes)
		var okEdges []an.Edge
		var used []c04WindowCall
		var rejected []string
		undecided := false
		for _, wc := range wcs {
			if wc.why != "" {
				if strings.HasPrefix(wc.why, "?") {
					undecided = true
				}
				rejected = append(rejected, w.Pos(wc.call.Pos())+": "+strings.TrimPrefix(wc.why, "?"))
				continue
			}
			okEdges = append(okEdges, wc.ok...)
			used = append(used, wc)
		}
		cut := c04Cut(nonLiq, okEdges)
		entry := an.ReachBlocks([]*ssa.BasicBlock{fn.Blocks[0]}, cut, nil)
		again := an.ReachBlocks(p.Block().Succs, cut, nil)
		rej := ""
		if len(rejected) > 0 {
			rej = " checkPaymentWindow calls not counted: " + strings.Join(rejected, " | ")
		}
		if wrapped := c04WrappedIn(w, fn, c04X.isWindow); wrapped != "" && (entry[p.Block()] || again[p.Block()]) {
			c.Unknown("C04.R2", cons, pos, "the payment is not directly guarded by checkPaymentWindow, but "+wrapped+" (called here) reaches it: a wrapped window check is a shape this rule does not interpret")
			continue
		}
		if op := c04OpaquePreds(w, fn); len(op) > 0 && (entry[p.Block()] || again[p.Block()]) {
			c.Unknown("C04.R2", cons, pos, "the payment is reachable without a recognised window check, but the action branches on "+strings.Join(op, ", ")+", which this rule cannot look into."+rej)
			continue
		}
		if undecided && (entry[p.Block()] || again[p.Block()]) {
			c.Unknown("C04.R2", cons, pos, "window checks exist on the way to the payment but their arguments / error handling are not in a form this rule can credit."+rej)
			continue
		}
		switch {
		case entry[p.Block()]:
			if undecided {
				c.Unknown("C04.R2", cons, pos, "a window check exists but its result is merged with other errors before being tested."+rej)
				continue
			}
			c.Bad("C04.R2", cons, pos, "on the Liquid branch the payment is reachable from the action entry without a passing checkPaymentWindow(swap, GetBlockHeight(), policy): a Liquid claim payment can be created outside [anchor, anchor+window)."+rej)
			continue
		case again[p.Block()]:
			c.Bad("C04.R2", cons, pos, "after a failed payment attempt the next attempt is reachable without passing checkPaymentWindow again: the retry loop keeps paying after the Liquid tip has left the window (the check is not per attempt)."+rej)
			continue
		}
		// fresh height per attempt
		stale, odd := "", ""
		for _, wc := range used {
			if !c04BetweenPasses(p.Block(), wc.call, wc.height) {
				how := "by GetBlockHeight"
				if wc.via != "" {
					how = "inside " + wc.via + " (which stores it in the helper object)"
				}
				stale = fmt.Sprintf("window tested against a tip read before the retry loop: the height tested by the window check at %s is read %s at %s, which is not re-executed between two payment attempts: retries reuse a stale height and a claim payment is created after the Liquid tip left [anchor, anchor+window)", w.Pos(wc.call.Pos()), how, w.Pos(wc.height.Pos()))
			}
			// the watcher must be the one selected for this swap's chain
			if recv := wc.recv; recv != nil && (c04X.services == "" || !strings.HasPrefix(w.Term(recv), "call:"+c04X.services+"#")) {
				odd = fmt.Sprintf("cannot show that the height at %s is read from the chain service selected by getOnChainServices(swap.GetChain()) (receiver %s)", w.Pos(wc.height.Pos()), w.Term(recv))
			}
		}
		if stale != "" {
			c.Bad("C04.R2", cons, pos, stale)
			continue
		}
		if odd != "" {
			c.Unknown("C04.R2", cons, pos, odd)
			continue
		}
		c.OK("C04.R2", cons, pos, fmt.Sprintf("every path to the payment (entry and retry) passes a checkPaymentWindow on a height read in the same attempt, or a non-Liquid edge (%d window calls, %d non-Liquid edges)", len(used), len(nonLiq)))
	}
}

// ---- R5: the invoice check ---------------------------------------------------------------

type c04InvShape struct {
	ok              bool
	cltvIdx, polIdx int
}

// c04R5Fn checks one invoice predicate and reports which parameters carry the
// final CLTV (the only int64) and the policy (by type).
func c04R5Fn(c *an.Check, fn *ssa.Function) c04InvShape {
	w := c.W
	fname := w.FuncName(fn)
	cltvIdx, polIdx := -1, -1
	for i, p := range fn.Params {
		if n := an.NamedOf(p.Type()); n != nil && n == c04X.pol {
			polIdx = i
		}
		if b, ok := p.Type().Underlying().(*types.Basic); ok && b.Kind() == types.Int64 {
			if cltvIdx >= 0 {
				cltvIdx = -2
			} else {
				cltvIdx = i
			}
		}
	}
	if cltvIdx < 0 || polIdx < 0 {
		c.Unknown("C04.R5", fname, w.Pos(fn.Pos()), "cannot identify the final-CLTV (the only int64) and policy parameters by type: unsupported signature")
		return c04InvShape{}
	}
	hT := fmt.Sprintf("param#%d", cltvIdx)
	limT := fmt.Sprintf("param#%d>%s.InvoiceFinalCLTV", polIdx, c04X.polName)
	nSucc := 0
	for _, rc := range c04RetCases(w, fn) {
		r := rc.Ret
		switch rc.Kind {
		case "err":
			continue
		case "?":
			c.Unknown("C04.R5", fname, w.Pos(r.Pos()), "a return whose error value is neither nil nor a fresh error: unsupported shape")
			continue
		}
		nSucc++
		facts := rc.Facts
		nonNeg := an.AnyFact(facts, func(f an.Fact) bool { return c04Implies(f, map[string]int64{hT: 1}, 0, ">=") })
		upper, upperUnsigned, mentions := false, false, false
		for _, f := range facts {
			for k := range f.Terms {
				if strings.HasSuffix(k, c04X.polName+".InvoiceFinalCLTV") {
					mentions = true
				}
			}
			if c04Implies(f, map[string]int64{hT: -1, limT: 1}, 0, ">=") {
				upper = true
				// compared as unsigned: a negative delta converts to >= 2^63 and is
				// rejected by the same test (the policy limits are small constants, R1)
				if f.LV != nil {
					if b, ok := f.LV.Type().Underlying().(*types.Basic); ok && b.Info()&types.IsUnsigned != 0 {
						upperUnsigned = true
					}
				}
			}
		}
		var bad []string
		if !nonNeg && !upperUnsigned {
			bad = append(bad, "a negative final CLTV is accepted (it becomes a huge unsigned delta further down)")
		}
		if !upper {
			bad = append(bad, "success does not require final CLTV <= policy.InvoiceFinalCLTV (inclusive)")
		}
		if !upper && !mentions {
			// no comparison with the limit dominates at all: the comparison may sit
			// in a helper or in a shape the facts do not show
			if h := c04ComparesVia(w, fn, c04X.polName+".InvoiceFinalCLTV"); h != "" {
				c.Unknown("C04.R5", fname, w.Pos(r.Pos()), "the comparison with policy.InvoiceFinalCLTV is made in "+h+", a shape this rule does not interpret")
				continue
			}
		}
		c.Decide(len(bad) == 0, "C04.R5", fname, w.Pos(r.Pos()), "nil only under: "+an.DescribeFacts(facts), strings.Join(bad, "; ")+". Facts on the success path: "+an.DescribeFacts(facts))
	}
	c.AtLeast("C04.R5", "successful returns of "+fname, nSucc, 1)
	return c04InvShape{ok: true, cltvIdx: cltvIdx, polIdx: polIdx}
}

func c04R5(c *an.Check) {
	w := c.W
	invShapes := map[*ssa.Function]c04InvShape{}
	for _, fn := range c04X.invoiceFns {
		invShapes[fn] = c04R5Fn(c, fn)
	}
	for g, m := range c04PassThrough(w, c04X.isInvoice, func(f *ssa.Function) []int {
		return []int{invShapes[f].cltvIdx, invShapes[f].polIdx}
	}) {
		in := c04CallsTo(g, c04X.isInvoice)[0].Common().StaticCallee()
		if sh := invShapes[in]; sh.ok {
			invShapes[g] = c04InvShape{ok: true, cltvIdx: m[sh.cltvIdx], polIdx: m[sh.polIdx]}
			c04X.invoiceFns = append(c04X.invoiceFns, g)
		}
	}

	// call sites: every confirmation-watch registration
	var swapRegs []c04Site
	for _, r := range c04Sites(w, fxWaitConf) {
		if w.FnRel(r.at.Parent()) == "swap" {
			swapRegs = append(swapRegs, r)
		}
	}
	if !c.AtLeast("C04.R5", "AddWaitForConfirmationTx call sites in package swap", len(swapRegs), 1) {
		return
	}
	// the invoice that is paid
	payTerms := map[string]bool{}
	for _, site := range c04PaySites(w) {
		if t := site.argTerm(w, 0); t != "" {
			payTerms[t] = true
		}
	}
	checked := map[*ssa.Function]bool{}
	for _, rsite := range swapRegs {
		reg := rsite.at
		rf := reg.Parent()
		cons := w.FuncName(rf) + " call TxWatcher.AddWaitForConfirmationTx"
		pos := w.Pos(reg.Pos())
		checked[rsite.pay.Parent()] = true
		checked[rf] = true // the edge rule below only asks for such a registration; its guard is this obligation
		var okEdges []an.Edge
		var rejected, untested []string // rejected: not interpretable; untested: positively no guard
		for _, ci := range c04CallsTo(rf, c04X.isInvoice) {
			call, isCall := ci.(*ssa.Call)
			if !isCall {
				continue
			}
			sh := invShapes[call.Call.StaticCallee()]
			cltvIdx, polIdx := sh.cltvIdx, sh.polIdx
			if !sh.ok || cltvIdx >= len(call.Call.Args) || polIdx >= len(call.Call.Args) {
				continue
			}
			at := w.Pos(call.Pos())
			src := c04CallOf(call.Call.Args[cltvIdx])
			switch {
			case src == nil || w.Info(src).Name != fxDecodePayreq:
				rejected = append(rejected, at+": the final CLTV argument is not a result of LightningClient.DecodePayreq ("+w.Term(call.Call.Args[cltvIdx])+")")
				continue
			case !strings.HasSuffix(w.Term(call.Call.Args[cltvIdx]), "#2"):
				rejected = append(rejected, at+": the final CLTV argument is not DecodePayreq's third result ("+w.Term(call.Call.Args[cltvIdx])+")")
				continue
			case len(src.Call.Args) < 1 || !payTerms[w.Term(src.Call.Args[0])]:
				rejected = append(rejected, at+": the decoded invoice is not the one that is paid")
				continue
			case w.Term(call.Call.Args[polIdx]) != c04X.policyTerm:
				rejected = append(rejected, at+": the policy argument is not the result of getTimelockPolicy")
				continue
			}
			e, loose := c04DirectOkEdges(call)
			if len(e) == 0 && loose {
				rejected = append(rejected, at+": the error result is only tested after being merged with other errors")
			} else if len(e) == 0 {
				untested = append(untested, at+": the error result is never tested")
			}
			okEdges = append(okEdges, e...)
		}
		cut := c04Cut(c04NonLiquidEdges(w, rf), okEdges)
		reach := an.ReachBlocks([]*ssa.BasicBlock{rf.Blocks[0]}, cut, nil)
		rej := ""
		if len(rejected)+len(untested) > 0 {
			rej = " Calls not counted: " + strings.Join(append(append([]string{}, rejected...), untested...), " | ")
		}
		if wrapped := c04WrappedIn(w, rf, c04X.isInvoice); wrapped != "" && reach[reg.Block()] {
			c.Unknown("C04.R5", cons, pos, "the registration is not directly guarded by validateClaimInvoice, but "+wrapped+" (called here) reaches it: a wrapped invoice check is a shape this rule does not interpret")
			continue
		}
		if op := c04OpaquePreds(w, rf); len(op) > 0 && reach[reg.Block()] {
			c.Unknown("C04.R5", cons, pos, "the registration is reachable without a recognised invoice check, but the action branches on "+strings.Join(op, ", ")+", which this rule cannot look into."+rej)
			continue
		}
		if len(rejected) > 0 && reach[reg.Block()] {
			c.Unknown("C04.R5", cons, pos, "invoice checks exist before the registration but their arguments / error handling are not in a form this rule can credit."+rej)
			continue
		}
		c.Decide(!reach[reg.Block()], "C04.R5", cons, pos,
			"on the Liquid branch the watch is only registered after validateClaimInvoice(DecodePayreq(paid invoice).finalCLTV, policy) passed",
			"on the Liquid branch the confirmation watch (whose callback leads to the payment) is registered without a passing validateClaimInvoice on the invoice that will be paid: an invoice with final CLTV above policy.InvoiceFinalCLTV is accepted."+rej)
	}
	// pay states are entered only from states that ran such a registration
	ts := tables(c)
	if ts == nil {
		return
	}
	nEdges := 0
	for _, t := range takers(ts) {
		for _, p := range t.statesWith(fxPay) {
			for _, in := range t.T.InEdges(p) {
				if in[0] == p {
					continue
				}
				nEdges++
				from := t.Sum[in[0]]
				good := false
				for _, s := range from.Sites(fxWaitConf) {
					if checked[s.In] {
						good = true
					}
				}
				c.Decide(good, "C04.R5", t.edgeKey(in[0], in[1]), w.Pos(t.T.States[in[0]].EventPos[in[1]]),
					"the pay state is entered from a state whose action registers the confirmation watch in a function covered by the obligation above",
					"the pay state can be entered from a state whose action tree does not register the confirmation watch in package swap: the invoice CLTV check that precedes that registration is bypassed on this edge")
			}
		}
	}
	c.AtLeast("C04.R5", "edges into pay states", nEdges, 2)
}

// ---- R6: the route limit plumbing --------------------------------------------------------------

// c04Impls lists the production implementations of an interface method.
func c04Impls(w *an.World, rel, iface, method string) []*ssa.Function {
	in := w.Named(rel, iface)
	if in == nil {
		return nil
	}
	it, _ := in.Underlying().(*types.Interface)
	if it == nil {
		return nil
	}
	var out []*ssa.Function
	rels := make([]string, 0, len(w.ByRel))
	for r := range w.ByRel {
		rels = append(rels, r)
	}
	sort.Strings(rels)
	for _, r := range rels {
		if an.IsTestSupport(r) {
			continue
		}
		sc := w.ByRel[r].Types.Scope()
		for _, name := range sc.Names() {
			tn, ok := sc.Lookup(name).(*types.TypeName)
			if !ok || tn.IsAlias() {
				continue
			}
			n, ok := tn.Type().(*types.Named)
			if !ok || types.IsInterface(n) {
				continue
			}
			if types.Implements(types.NewPointer(n), it) || types.Implements(n, it) {
				if f := w.Method(n, method); f != nil && f.Blocks != nil {
					out = append(out, f)
				}
			}
		}
	}
	return out
}

type c04Builder struct {
	fn    *ssa.Function
	limit *ssa.Parameter
	path  []string
}

// c04Forward follows parameter p through static in-module calls that pass it
// on unchanged, and returns the functions in which it reaches the limit
// argument of ValidateTotalCLTVDelta.
func c04Forward(w *an.World, p *ssa.Parameter, path []string, seen map[*ssa.Parameter]bool, out *[]c04Builder) {
	if seen[p] || p.Referrers() == nil {
		return
	}
	seen[p] = true
	path = append(append([]string{}, path...), w.FuncName(p.Parent()))
	for _, r := range *p.Referrers() {
		call, ok := r.(*ssa.Call)
		if !ok {
			continue
		}
		ci := w.Info(call)
		if ci.Name == c04ValidateTot {
			if len(call.Call.Args) == 2 && call.Call.Args[1] == p {
				dup := false
				for _, b := range *out {
					if b.fn == p.Parent() {
						dup = true
					}
				}
				if !dup {
					*out = append(*out, c04Builder{fn: p.Parent(), limit: p, path: path})
				}
			}
			continue
		}
		if ci.Static == nil || !w.InModule(ci.Static) || ci.Static.Blocks == nil {
			continue
		}
		for i, a := range call.Call.Args {
			if a == p && i < len(ci.Static.Params) {
				c04Forward(w, ci.Static.Params[i], path, seen, out)
			}
		}
	}
	// the comparison required <= limit written out in this function
	if len(c04InlineLimitFacts(w, p.Parent(), fmt.Sprintf("param#%d", c04ParamIndex(p)))) > 0 {
		dup := false
		for _, b := range *out {
			if b.fn == p.Parent() {
				dup = true
			}
		}
		if !dup {
			*out = append(*out, c04Builder{fn: p.Parent(), limit: p, path: path})
		}
	}
}

// c04InlineLimitFacts are the facts  limit - (something) >= 0  of fn, i.e. an
// inlined ValidateTotalCLTVDelta.
func c04InlineLimitFacts(w *an.World, fn *ssa.Function, limitTerm string) []an.Fact {
	var out []an.Fact
	for _, f := range c04Facts(w, fn) {
		if f.NonNum || f.Terms == nil || (f.Rel != ">=" && f.Rel != ">") || len(f.Terms) < 2 || f.Terms[limitTerm] != 1 {
			continue
		}
		out = append(out, f)
	}
	return out
}

// c04HasUses: the parameter is referenced by something other than debug info.
func c04HasUses(p *ssa.Parameter) bool {
	if p.Referrers() == nil {
		return false
	}
	for _, r := range *p.Referrers() {
		if _, dbg := r.(*ssa.DebugRef); !dbg {
			return true
		}
	}
	return false
}

func c04R6(c *an.Check) {
	w := c.W
	// (a) the argument at the call sites
	for _, site := range c04PaySites(w) {
		p := site.at
		cons := w.FuncName(p.Parent()) + " RebalancePayment limit argument"
		args := site.pay.Common().Args
		if len(args) != 3 {
			c.Unknown("C04.R6", cons, w.Pos(p.Pos()), "RebalancePayment no longer takes (payreq, channel, limit)")
			continue
		}
		t := site.argTerm(w, 2)
		_, isConst := c04ConstFold(args[2])
		switch {
		case t == c04X.policyTerm+">"+c04X.polName+".MaxTotalCLTVDelta":
			c.OK("C04.R6", cons, w.Pos(p.Pos()), "the limit is policy.MaxTotalCLTVDelta")
		case isConst || (strings.HasPrefix(t, c04X.policyTerm+">") && !strings.Contains(t, "phi(")):
			c.Bad("C04.R6", cons, w.Pos(p.Pos()), "the total-CLTV limit handed to the Lightning back-end is not policy.MaxTotalCLTVDelta but "+t+": the Liquid route is not bounded by the policy's 32 blocks")
		default:
			c.Unknown("C04.R6", cons, w.Pos(p.Pos()), "the total-CLTV limit handed to the Lightning back-end is "+t+", which this rule cannot trace to policy.MaxTotalCLTVDelta")
		}
	}

	// (d) ValidateTotalCLTVDelta itself: nil only if limit == 0 or required <= limit
	vf := w.Func("swap", "ValidateTotalCLTVDelta")
	if len(vf.Params) != 2 {
		c.Unknown("C04.R6", "ValidateTotalCLTVDelta", w.Pos(vf.Pos()), "signature is not (required, limit)")
		return
	}
	for _, p := range vf.Params {
		if bt, ok := p.Type().Underlying().(*types.Basic); !ok || bt.Info()&types.IsUnsigned == 0 {
			c.Unknown("C04.R6", "ValidateTotalCLTVDelta", w.Pos(vf.Pos()), "parameters are not unsigned integers")
			return
		}
	}
	var pass []an.Edge
	for _, f := range w.Facts(vf) {
		if c04LimitFact(f, "param#1") < 0 {
			pass = append(pass, f.Edge) // limit == 0
		}
		if c04Implies(f, map[string]int64{"param#1": 1, "param#0": -1}, 0, ">=") {
			pass = append(pass, f.Edge) // required <= limit
		}
	}
	vreach := an.ReachBlocks([]*ssa.BasicBlock{vf.Blocks[0]}, c04Cut(pass), nil)
	vOK, nNil := true, 0
	for _, r := range an.Returns(vf) {
		switch c04ErrReturnKind(w, r) {
		case "nil":
			nNil++
			if vreach[r.Block()] {
				vOK = false
			}
		case "?":
			vOK = false
		}
	}
	c.Decide(vOK && nNil > 0, "C04.R6", "ValidateTotalCLTVDelta", w.Pos(vf.Pos()),
		"returns nil only on an edge limit == 0 or required <= limit", "ValidateTotalCLTVDelta can return nil although limit != 0 and required > limit (the inclusive bound `required > limit` was weakened). Facts: "+an.DescribeFacts(w.Facts(vf)))

	// (b) forwarding in every back-end
	impls := c04Impls(w, "swap", "LightningClient", "RebalancePayment")
	if !c.AtLeast("C04.R6", "production implementations of LightningClient.RebalancePayment", len(impls), 2) {
		return
	}
	nBuilders := 0
	for _, im := range impls {
		cons := w.FuncName(im) + " limit forwarding"
		if len(im.Params) != 4 {
			c.Unknown("C04.R6", cons, w.Pos(im.Pos()), "unexpected parameter list")
			continue
		}
		var bs []c04Builder
		c04Forward(w, im.Params[3], nil, map[*ssa.Parameter]bool{}, &bs)
		if len(bs) == 0 && c04HasUses(im.Params[3]) {
			c.Unknown("C04.R6", cons, w.Pos(im.Pos()), "the maxTotalCLTVDelta parameter is used, but not in a way this rule follows to a required <= limit comparison (only unchanged forwarding through static in-module calls is followed)")
			continue
		}
		if len(bs) == 0 {
			c.Bad("C04.R6", cons, w.Pos(im.Pos()), "the maxTotalCLTVDelta parameter of this back-end is not passed on unchanged to a ValidateTotalCLTVDelta(required, limit) call: the policy's route limit is dropped in this back-end (sibling back-ends must agree)")
			continue
		}
		c.OK("C04.R6", cons, w.Pos(im.Pos()), "limit reaches ValidateTotalCLTVDelta via "+strings.Join(bs[0].path, " -> "))
		for _, b := range bs {
			nBuilders++
			c04CheckBuilder(c, b)
		}
	}
	_ = nBuilders // every implementation without a builder is reported above; no separate floor
}

// c04CheckBuilder: in the builder, (i) a successful return requires limit == 0
// or a passing ValidateTotalCLTVDelta(final+k, limit), k >= 1; (ii) the CLTV
// value placed into the outgoing route/request on the limited path is the
// validated value or at most limit+1; (iii) the caller uses the result only
// after the builder's error was checked.
func c04CheckBuilder(c *an.Check, b c04Builder) {
	w := c.W
	fn := b.fn
	name := w.FuncName(fn)
	if bt, ok := b.limit.Type().Underlying().(*types.Basic); !ok || bt.Info()&types.IsUnsigned == 0 {
		c.Unknown("C04.R6", name+" limit enforced", w.Pos(fn.Pos()), "the limit parameter is not an unsigned integer: the zero/non-zero path split is not interpreted")
		return
	}
	k := c04ParamIndex(b.limit)
	pT := fmt.Sprintf("param#%d", k)
	var zeroEdges, okEdges []an.Edge
	for _, f := range c04Facts(w, fn) {
		if c04LimitFact(f, pT) < 0 {
			zeroEdges = append(zeroEdges, f.Edge)
		}
	}
	var required []c04Lin
	nValid := 0
	judge := func(req c04Lin, pos string, e []an.Edge) {
		term, co, single := req.single()
		isFinal := false
		for _, ft := range c04FinalCLTVTerms {
			if strings.Contains(term, ft) {
				isFinal = true
			}
		}
		cons := name + " required CLTV"
		okEdges = append(okEdges, e...)
		nValid++
		switch {
		case single && co == 1 && isFinal && req.C >= 1:
			c.OK("C04.R6", cons, pos, "validated value is "+req.String())
			required = append(required, req)
		case single && co == 1 && isFinal:
			c.Bad("C04.R6", cons, pos, "the value validated against the limit is "+req.String()+", not invoiceFinalCLTV + k with k >= 1 (the route needs at least final+1): the limit is compared with less than what the payment will use")
		default:
			c.Unknown("C04.R6", cons, pos, "the value validated against the limit is "+req.String()+", which this rule cannot read as invoiceFinalCLTV + k")
		}
	}
	for _, ci := range callsNamed(w, fn, c04ValidateTot) {
		call, ok := ci.(*ssa.Call)
		if !ok || len(call.Call.Args) != 2 || call.Call.Args[1] != b.limit {
			continue
		}
		e, _ := c04DirectOkEdges(call)
		if len(e) == 0 {
			continue
		}
		judge(c04Linear(w, call.Call.Args[0]), w.Pos(call.Pos()), e)
	}
	for _, f := range c04InlineLimitFacts(w, fn, pT) {
		// limit + Σothers + C >= 0  (or > 0)  <=>  required := -(Σothers + C) [+1] <= limit
		req := c04Lin{T: map[string]int64{}, Leaf: map[string]ssa.Value{}}
		for k, v := range f.Terms {
			if k != pT {
				req.T[k] = -v
			}
		}
		req.C = -f.Const
		if f.Rel == ">" {
			req.C++
		}
		pos := "-"
		if f.Cond != nil {
			pos = w.Pos(f.Cond.Pos())
		}
		judge(req, pos, []an.Edge{f.Edge})
	}
	// (i)
	reach := an.ReachBlocks([]*ssa.BasicBlock{fn.Blocks[0]}, c04Cut(zeroEdges, okEdges), nil)
	nSucc, guarded := 0, true
	for _, r := range an.Returns(fn) {
		switch c04ErrReturnKind(w, r) {
		case "nil":
			nSucc++
			if reach[r.Block()] {
				guarded = false
			}
		case "?":
			c.Unknown("C04.R6", name+" limit enforced", w.Pos(r.Pos()), "a return whose error is neither nil nor certainly non-nil: unsupported shape")
		}
	}
	c.Decide(guarded && nSucc > 0 && nValid > 0, "C04.R6", name+" limit enforced", w.Pos(fn.Pos()),
		"a route/request is only returned when limit == 0 or required <= limit (ValidateTotalCLTVDelta or the same comparison inline) passed", "with a non-zero limit the builder can return a route/request without a passing ValidateTotalCLTVDelta(final+k, limit): a Liquid claim payment may lock funds for more than the policy's total CLTV")

	// (ii) what is sent
	sent := c04SentValues(w, fn, 0)
	for _, sv := range sent {
		cons := name + " " + sv.field
		var bad, unk []string
		for _, alt := range c04PhiAlternatives(w, sv.v, sv.at, pT) {
			if alt.unlimited && !alt.limited {
				continue // the limit == 0 path (Bitcoin): C05's business
			}
			l := c04Linear(w, alt.v)
			good := false
			for _, req := range required {
				if l.equal(req) {
					good = true // the validated value itself
				}
			}
			term, co, single := l.single()
			if single && co == 1 && term == pT && l.C <= 1 {
				good = true // limit (+1)
			}
			if good {
				continue
			}
			readable := single && co == 1 && term == pT
			if single && co == 1 {
				for _, ft := range c04FinalCLTVTerms {
					if strings.Contains(term, ft) {
						readable = true
					}
				}
			}
			msg := fmt.Sprintf("on the limited path %s is set to %s, which is neither the validated value nor limit(+1)", sv.field, l.String())
			if readable && len(required) == nValid {
				bad = append(bad, msg)
			} else {
				unk = append(unk, msg+" (not in a form this rule can compare)")
			}
		}
		switch {
		case len(bad) > 0:
			c.Bad("C04.R6", cons, w.Pos(sv.pos), strings.Join(bad, "; "))
		case len(unk) > 0:
			c.Unknown("C04.R6", cons, w.Pos(sv.pos), strings.Join(unk, "; "))
		default:
			c.OK("C04.R6", cons, w.Pos(sv.pos), "the CLTV sent on the limited path is the validated value / limit+1")
		}
	}
	if len(sent) == 0 {
		c.Unknown("C04.R6", name+" sent CLTV", w.Pos(fn.Pos()), "no store to RouteHop.Delay / SendPaymentRequest.CltvLimit found in the builder or its helpers: cannot relate the validated value to what is sent")
	}

	// (iii) callers check the builder's error before sending
	nCallers := 0
	for _, site := range findCallSites(w, "func:"+name) {
		call, ok := site.(*ssa.Call)
		if !ok {
			c.Unknown("C04.R6", w.FuncName(site.Parent())+" uses "+name, w.Pos(site.Pos()), "the builder is started with go/defer: unsupported")
			continue
		}
		nCallers++
		okE, loose := c04DirectOkEdges(call)
		if len(okE) == 0 && loose {
			c.Unknown("C04.R6", w.FuncName(call.Parent())+" uses "+name, w.Pos(call.Pos()), "the builder's error is only tested after being merged with other errors: unsupported shape")
			continue
		}
		// everything that uses result #0 must be dominated by an ok edge
		good := len(okE) > 0
		for _, rv := range an.ResultValues(call, 0) {
			if rv.Referrers() == nil {
				continue
			}
			for _, u := range *rv.Referrers() {
				if _, isDbg := u.(*ssa.DebugRef); isDbg {
					continue
				}
				if !an.EdgesDominate(okE, u.Block()) {
					good = false
				}
			}
		}
		c.Decide(good, "C04.R6", w.FuncName(call.Parent())+" uses "+name, w.Pos(call.Pos()),
			"the built route/request is only used after the builder's error was found nil", "the caller uses the builder's result without (or before) testing its error: a rejected route is sent anyway")
	}
	if nCallers == 0 {
		c.Unknown("C04.R6", name+" callers", w.Pos(fn.Pos()), "no production caller of the builder found in the call graph")
	}
}

// c04Sent is a value that ends up in one of the CLTV-carrying fields of the
// outgoing route/request, seen from fn: stored directly, or handed as an
// argument to an in-module helper that stores that parameter.
type c04Sent struct {
	v     ssa.Value
	at    *ssa.BasicBlock
	pos   token.Pos
	field string
}

func c04SentValues(w *an.World, fn *ssa.Function, depth int) []c04Sent {
	var out []c04Sent
	for _, blk := range fn.Blocks {
		for _, in := range blk.Instrs {
			switch x := in.(type) {
			case *ssa.Store:
				fa, ok := x.Addr.(*ssa.FieldAddr)
				if !ok || !c04SentCLTVFields[an.FieldName(fa.X.Type(), fa.Field)] {
					continue
				}
				out = append(out, c04Sent{v: x.Val, at: x.Block(), pos: x.Pos(), field: an.FieldName(fa.X.Type(), fa.Field)})
			case *ssa.Call:
				g := x.Call.StaticCallee()
				if g == nil || x.Call.IsInvoke() || depth >= 2 || g == fn || !w.InModule(g) || g.Blocks == nil || len(g.Params) != len(x.Call.Args) {
					continue
				}
				for _, sv := range c04SentValues(w, g, depth+1) {
					if p, isParam := c04Strip(sv.v).(*ssa.Parameter); isParam && sv.at.Parent() == g {
						out = append(out, c04Sent{v: x.Call.Args[c04ParamIndex(p)], at: x.Block(), pos: x.Pos(), field: sv.field})
					}
				}
			}
		}
	}
	return out
}

type c04Alt struct {
	v                  ssa.Value
	limited, unlimited bool
}

// c04PhiAlternatives splits a value into its phi alternatives and classifies
// each by whether it arrives on a path where the limit parameter is known to
// be non-zero (limited) or zero (unlimited); values that are not path specific
// count as both.
func c04PhiAlternatives(w *an.World, v ssa.Value, at *ssa.BasicBlock, limitTerm string) []c04Alt {
	classify := func(fs []an.Fact) (lim, unl bool) {
		for _, f := range fs {
			switch c04LimitFact(f, limitTerm) {
			case +1:
				lim = true
			case -1:
				unl = true
			}
		}
		if !lim && !unl {
			return true, true
		}
		return
	}
	phi, ok := c04Strip(v).(*ssa.Phi)
	if !ok {
		l, u := classify(c04FactsDominatingBlock(w, at))
		return []c04Alt{{v: v, limited: l, unlimited: u}}
	}
	var out []c04Alt
	for i, e := range phi.Edges {
		l, u := classify(c04PathFacts(w, phi.Block().Preds[i], phi.Block()))
		out = append(out, c04Alt{v: e, limited: l, unlimited: u})
	}
	return out
}

// c04RetCase is one way a predicate function can hand back its error result:
// a return instruction, or — for the single-return shape `var err error; if …
// { err = … }; return err` — one incoming edge of the returned phi. Facts are
// the facts that hold on that way (dominating the predecessor, the edge's own
// fact, and whatever dominates the return).
type c04RetCase struct {
	Ret   *ssa.Return
	Kind  string // "nil", "err", "?"
	Facts []an.Fact
}

func c04RetCases(w *an.World, fn *ssa.Function) []c04RetCase {
	var out []c04RetCase
	all := c04Facts(w, fn)
	var expand func(r *ssa.Return, v ssa.Value, facts []an.Fact, depth int)
	expand = func(r *ssa.Return, v ssa.Value, facts []an.Fact, depth int) {
		phi, ok := v.(*ssa.Phi)
		if !ok || depth > 3 {
			kind := "?"
			switch {
			case an.IsNilConst(v):
				kind = "nil"
			case c04FreshErr(w, v):
				kind = "err"
			}
			out = append(out, c04RetCase{Ret: r, Kind: kind, Facts: facts})
			return
		}
		for i, e := range phi.Edges {
			pred := phi.Block().Preds[i]
			fs := append([]an.Fact{}, facts...)
			fs = append(fs, c04FactsDominatingBlock(w, pred)...)
			for _, f := range all {
				if f.Edge.From == pred && f.Edge.To() == phi.Block() {
					fs = append(fs, f)
				}
			}
			expand(r, e, fs, depth+1)
		}
	}
	for _, r := range an.Returns(fn) {
		if len(r.Results) > 0 {
			v := r.Results[len(r.Results)-1]
			if _, ok := v.(*ssa.Phi); ok && an.IsErrorType(v.Type()) {
				expand(r, v, c04FactsDominatingBlock(w, r.Block()), 0)
				continue
			}
		}
		out = append(out, c04RetCase{Ret: r, Kind: c04ErrReturnKind(w, r), Facts: c04FactsDominatingBlock(w, r.Block())})
	}
	return out
}

// c04FreshErr: the value is an error constructed on the spot.
func c04FreshErr(w *an.World, v ssa.Value) bool {
	if _, ok := v.(*ssa.MakeInterface); ok {
		return true
	}
	if call := c04CallOf(v); call != nil {
		switch w.Info(call).Name {
		case "func:fmt.Errorf", "func:errors.New":
			return true
		}
	}
	return false
}
