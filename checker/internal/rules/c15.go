package rules

import (
	"fmt"
	"go/types"
	"sort"
	"strings"

	"golang.org/x/tools/go/ssa"

	"psv/internal/an"
)

func init() {
	Register(&Prop{
		ID:   "C15",
		Expl: "Decides the recovery structure: (R1) every action with an irreversible effect (opening broadcast, the three spends, the two payment calls) is either used only by FailOnrecover states or its effect call is dominated by a guard on a persisted SwapData field that the same function assigns after the effect, and whose 'already done' branch cannot reach the effect or a failure; (R2) every state whose action builds a request/agreement message is FailOnrecover and sending states send the persisted NextMessage bytes; (R3) IsFinished is true exactly for the terminal states of all tables and RecoverSwaps calls Recover only when IsFinished is false; (R4) terminal states have no events (nothing runs after cancel); (R5) RecoverSwaps binds (type, role) to the same table as the constructors, for all four combinations; (R6) every FailOnrecover state accepts Event_ActionFailed.",
		NotD: "Duplicate suppression inside the Lightning node or wallet; behaviour of a payment that is in flight during the crash.",
		Run:  runC15,
	})
}

var c15Irreversible = []string{fxOpenTx, fxPreimageSpend, fxCsvSpend, fxCoopSpend, fxPay, fxPayViaChannel, fxPayInvoice}

func runC15(c *an.Check) {
	c.Rule("C15.R1", "irreversible effect: FailOnrecover-only state, or guarded by a persisted field assigned after the effect")
	c.Rule("C15.R2", "request/agreement builders are FailOnrecover; senders send the persisted NextMessage")
	c.Rule("C15.R3", "IsFinished == terminal states; Recover only when not finished")
	c.Rule("C15.R4", "terminal states have no events; cancelled is terminal")
	c.Rule("C15.R5", "RecoverSwaps uses the constructors' (type, role) -> table binding for all four combinations")
	c.Rule("C15.R6", "every FailOnrecover state accepts Event_ActionFailed")
	if !needEffects(c, fxOpenTx, fxPreimageSpend, fxCsvSpend, fxCoopSpend, fxPay, fxPayViaChannel, fxSendMessage) {
		return
	}
	w := c.W
	ts := tables(c)
	if ts == nil {
		return
	}

	// ---- R1 ------------------------------------------------------------------
	type siteKey struct {
		fn   *ssa.Function
		name string
	}
	failOnly := map[ssa.CallInstruction]bool{}   // site used only by FailOnrecover states
	usedBy := map[ssa.CallInstruction][]string{} // states
	for _, t := range ts {
		for _, s := range t.T.Order {
			for _, ef := range t.Sum[s].Effects {
				for _, irr := range c15Irreversible {
					if ef.Name != irr {
						continue
					}
					in := ef.Info.Instr
					if _, seen := usedBy[in]; !seen {
						failOnly[in] = true
					}
					usedBy[in] = append(usedBy[in], t.key(s))
					if !t.T.States[s].FailOnRecover {
						failOnly[in] = false
					}
				}
			}
		}
	}
	c.AtLeast("C15.R1", "irreversible effect call sites in actions", len(usedBy), 6)
	var sites []ssa.CallInstruction
	for in := range usedBy {
		sites = append(sites, in)
	}
	sort.Slice(sites, func(i, j int) bool { return sites[i].Pos() < sites[j].Pos() })
	for _, in := range sites {
		fn := in.Parent()
		ci := w.Info(in)
		cons := w.FuncName(fn) + " effect " + strings.TrimPrefix(ci.Name, "iface:")
		if failOnly[in] {
			c.OK("C15.R1", cons, w.Pos(in.Pos()), "only run by FailOnrecover states: "+strings.Join(usedBy[in], ", "))
			continue
		}
		call, ok := in.(*ssa.Call)
		if !ok {
			c.Unknown("C15.R1", cons, w.Pos(in.Pos()), "effect is not a plain call")
			continue
		}
		facts := w.FactsDominating(call)
		okE, _ := an.OkEdges(call)
		var after map[*ssa.BasicBlock]bool
		if len(okE) > 0 {
			var st []*ssa.BasicBlock
			for _, e := range okE {
				st = append(st, e.To())
			}
			after = an.ReachBlocks(st, nil, nil)
		} else {
			after = an.ReachFromInstr(call)
			after[call.Block()] = true
		}
		guard := ""
		for _, f := range facts {
			fld := c15ZeroGuardField(f)
			if fld == "" {
				continue
			}
			// assigned after the effect in the same function?
			assigned := false
			for _, st := range storesTo(fn, fld) {
				if after[st.Block()] {
					assigned = true
				}
			}
			if !assigned {
				continue
			}
			// the "already done" edge must not reach the effect nor return a failure
			other := an.Edge{From: f.Edge.From, Idx: 1 - f.Edge.Idx}
			reach := an.ReachBlocks([]*ssa.BasicBlock{other.To()}, nil, nil)
			if reach[call.Block()] {
				continue
			}
			bad := false
			for ev := range returnEventsFrom(w, fn, reach) {
				if ev != evSucceeded && ev != "NEXT" {
					bad = true
				}
			}
			if bad {
				continue
			}
			guard = fld
		}
		if guard != "" {
			// the re-execution path (result already recorded) must not consult outside services
			imp := impureCallsIn(w, fn, alreadyDoneRegion(w, fn, guard))
			c.Decide(len(imp) == 0, "C15.R1", cons+" already-done path", w.Pos(in.Pos()),
				"when "+guard+" is already recorded the action decides from the persisted record alone",
				"when "+guard+" is already recorded (re-execution after a restart) the action still calls outside services before it returns: "+strings.Join(imp, "; ")+" - a failure or a changed answer there fails an action whose irreversible effect already happened")
		}
		c.Decide(guard != "", "C15.R1", cons, w.Pos(in.Pos()),
			"guarded by persisted field "+guard+" which this function assigns after the effect",
			fmt.Sprintf("this irreversible call is re-executed by Recover (states %s are not FailOnrecover) and no guard on a persisted result field protects it: a crash after the post-action store write and before the next state is stored repeats it. Facts that hold: %s", strings.Join(usedBy[in], ", "), an.DescribeFacts(facts)))
	}

	// ---- R2 ------------------------------------------------------------------
	marshal := w.Func("swap", "MarshalPeerswapMessage")
	if marshal == nil {
		c.Anchor("swap.MarshalPeerswapMessage does not resolve")
		return
	}
	negotiation := map[string]bool{"SwapInRequestMessage": true, "SwapOutRequestMessage": true, "SwapInAgreementMessage": true, "SwapOutAgreementMessage": true}
	nBuild := 0
	for _, t := range ts {
		for _, s := range t.T.Order {
			e := t.T.States[s]
			for _, ef := range t.Sum[s].Effects {
				if ef.Info.Static != marshal {
					continue
				}
				args := ef.Info.Instr.Common().Args
				if len(args) != 1 {
					continue
				}
				tn := c15DynType(args[0])
				if tn != "" && !negotiation[tn] {
					continue
				}
				nBuild++
				what := tn
				if what == "" {
					what = "a request (dynamic type)"
				}
				c.Decide(e.FailOnRecover, "C15.R2", t.key(s)+" builds "+what, t.pos(c, s),
					"message builder is failed, not re-run, on recovery", "a state that builds "+what+" is re-executed on recovery: the re-sent message can carry different parameters (new premium, new invoice, new anchor)")
			}
			// senders use the persisted bytes
			for _, ef := range t.Sum[s].Sites(fxSendMessage) {
				if ef.In == nil || !strings.Contains(w.FuncName(ef.In), "SendMessageAction") {
					continue
				}
				args := ef.Info.Instr.Common().Args
				if len(args) != 3 {
					continue
				}
				src := w.Sources(args[1], an.FlowOpts{})
				c.Decide(len(src.Leaves) == 1 && src.Has("field", "SwapData.NextMessage"), "C15.R2", w.FuncName(ef.In)+" payload", w.Pos(ef.Info.Instr.Pos()),
					"sends the persisted NextMessage", "payload does not come from the persisted NextMessage: "+strings.Join(src.Names(), ","))
			}
		}
	}
	c.AtLeast("C15.R2", "request/agreement building states", nBuild, 4)

	// ---- R3 / R4 ---------------------------------------------------------------
	terms := map[string]bool{}
	for _, t := range ts {
		for _, s := range t.terminals() {
			terms[s] = true
			ss := t.Sum[s]
			onlyDone := len(ss.Events) == 1 && ss.Events[evDone] && !ss.Unknown
			c.Decide(onlyDone, "C15.R4", t.key(s)+" terminal", t.pos(c, s), "terminal: no events, action returns only Event_Done", fmt.Sprintf("terminal state's action may return %v", sortedKeys(ss.Events)))
		}
		// cancelled state: target of the cancel-sending action's success
		for _, s := range t.T.Order {
			if !c15SendsCancel(w, t, s, marshal) {
				continue
			}
			for _, ev := range t.T.States[s].SortedEvents() {
				nx := t.T.States[s].Events[ev]
				c.Decide(t.T.States[nx].Terminal(), "C15.R4", t.edgeKey(s, ev), w.Pos(t.T.States[s].EventPos[ev]), "after the cancel message the swap is terminal", "the state after sending cancel is not terminal: payments/broadcasts remain reachable after cancel")
			}
		}
	}
	fin := w.Func("swap", "(*SwapStateMachine).IsFinished")
	if fin == nil {
		c.Anchor("(*SwapStateMachine).IsFinished does not resolve")
	} else {
		set, ok := c15TrueSet(w, fin, "SwapStateMachine.Current")
		if !ok {
			c.Unknown("C15.R3", "(*SwapStateMachine).IsFinished shape", w.Pos(fin.Pos()), "cannot extract the set of states for which IsFinished returns true")
		} else {
			for s := range terms {
				c.Decide(set[s], "C15.R3", "IsFinished covers "+s, w.Pos(fin.Pos()), "terminal state counts as finished", "terminal state "+s+" is not finished for IsFinished: it is recovered (its action re-run) after every restart and keeps its channel locked")
			}
			for s := range set {
				c.Decide(terms[s], "C15.R3", "IsFinished only-terminal "+s, w.Pos(fin.Pos()), "finished state is terminal in every table", "IsFinished reports the non-terminal state "+s+" as finished: a restart abandons the swap in that state")
			}
		}
	}
	rec := w.Func("swap", "(*SwapStateMachine).Recover")
	rs := w.Func("swap", "(*SwapService).RecoverSwaps")
	if rec == nil || rs == nil {
		c.Anchor("Recover / RecoverSwaps do not resolve")
		return
	}
	nRec := 0
	fns := append([]*ssa.Function{rs}, rs.AnonFuncs...)
	for _, fn := range fns {
		for _, call := range an.Calls(fn) {
			if call.Common().StaticCallee() != rec {
				continue
			}
			nRec++
			facts := w.FactsDominating(call)
			c.Decide(an.AnyFact(facts, func(f an.Fact) bool { return an.AtomIs(f, ").IsFinished", false) }), "C15.R3", "RecoverSwaps Recover-only-unfinished", w.Pos(call.Pos()),
				"Recover is called only when IsFinished() is false", "Recover is called on finished swaps: their terminal action (and everything it triggers) runs again")
		}
	}
	c.AtLeast("C15.R3", "Recover call sites in RecoverSwaps", nRec, 1)

	// ---- R5 ------------------------------------------------------------------
	// *FromStore functions: assign <table>() to SwapStateMachine.States
	fromStore := map[*ssa.Function]string{}
	for _, st := range w.FieldWriters("SwapStateMachine.States") {
		fn := st.Parent()
		if w.FnRel(fn) != "swap" {
			continue
		}
		if cv, ok := st.Val.(*ssa.Call); ok {
			if callee := cv.Common().StaticCallee(); callee != nil {
				if _, isTable := ts[0].F.ByFunc[callee.Name()]; isTable {
					fromStore[fn] = callee.Name()
				}
			}
		}
	}
	seenCombos := map[string]bool{}
	typeN := w.Named("swap", "SwapType")
	_ = typeN
	for _, fn := range fns {
		for _, call := range an.Calls(fn) {
			callee := call.Common().StaticCallee()
			tb, ok := fromStore[callee]
			if !ok {
				continue
			}
			facts := w.FactsDominating(call)
			var tv, rv *int64
			for _, f := range facts {
				if f.NonNum || f.Rel != "==" || len(f.Terms) != 1 {
					continue
				}
				for term, coef := range f.Terms {
					v := -f.Const * coef
					switch {
					case strings.Contains(term, "SwapStateMachine.Type"):
						x := v
						tv = &x
					case strings.Contains(term, "SwapStateMachine.Role"):
						x := v
						rv = &x
					}
				}
			}
			table := ts[0].F.ByFunc[tb]
			cons := "RecoverSwaps -> " + w.FuncName(callee)
			if tv == nil || rv == nil {
				c.Unknown("C15.R5", cons, w.Pos(call.Pos()), "cannot determine the (type, role) condition under which this table is chosen: "+an.DescribeFacts(facts))
				continue
			}
			seenCombos[fmt.Sprintf("%d/%d", *tv, *rv)] = true
			c.Decide(table.Bound && table.Type == *tv && table.Role == *rv, "C15.R5", cons, w.Pos(call.Pos()),
				fmt.Sprintf("recovery binds (%d,%d) to %s like the constructor %s", *tv, *rv, tb, table.Constructor),
				fmt.Sprintf("recovery runs a swap of (type=%d, role=%d) with table %s, but the constructor %s binds that table to (type=%d, role=%d): the restarted swap continues in the wrong state machine", *tv, *rv, tb, table.Constructor, table.Type, table.Role))
		}
	}
	for _, t := range ts {
		k := fmt.Sprintf("%d/%d", t.T.Type, t.T.Role)
		c.Decide(seenCombos[k], "C15.R5", "RecoverSwaps handles "+t.Name(), w.Pos(rs.Pos()), "combination is recovered", "swaps of "+t.Name()+" are never given a state table on recovery")
	}

	// ---- R6 ------------------------------------------------------------------
	for _, t := range ts {
		for _, s := range t.T.Order {
			e := t.T.States[s]
			if !e.FailOnRecover {
				continue
			}
			_, ok := e.Events[evFailed]
			c.Decide(ok, "C15.R6", t.key(s)+" accepts ActionFailed", t.pos(c, s), "FailOnrecover state can be failed", "FailOnrecover state does not accept Event_ActionFailed: Recover's SendEvent is rejected and the swap stays active forever")
		}
	}
}

// c15ZeroGuardField returns "SwapData.X" when fact f says that persisted field
// X of SwapData holds its zero value ("" / nil).
func c15ZeroGuardField(f an.Fact) string {
	if !f.NonNum || f.Rel != "==" {
		return ""
	}
	for _, pair := range [][2]string{{f.L, f.R}, {f.R, f.L}} {
		if (pair[1] == `""` || pair[1] == "nil") && strings.HasPrefix(pair[0], "field:SwapData.") && !strings.Contains(pair[0], ">") {
			return strings.TrimPrefix(pair[0], "field:")
		}
	}
	return ""
}

// c15DynType names the concrete message type behind an interface argument.
func c15DynType(v ssa.Value) string {
	if mi, ok := v.(*ssa.MakeInterface); ok {
		if n := an.NamedOf(mi.X.Type()); n != nil {
			return n.Obj().Name()
		}
	}
	return ""
}

// c15SendsCancel: the state's action marshals a CancelMessage and sends it.
func c15SendsCancel(w *an.World, t *TI, s string, marshal *ssa.Function) bool {
	if !t.Sum[s].HasEffect(fxSendMessage) {
		return false
	}
	for _, ef := range t.Sum[s].Effects {
		if ef.Info.Static == marshal {
			args := ef.Info.Instr.Common().Args
			if len(args) == 1 && c15DynType(args[0]) == "CancelMessage" {
				return true
			}
		}
	}
	return false
}

// c15TrueSet extracts, for a func() bool that is a switch / if-chain over one
// string field, the set of constants for which it returns true.
func c15TrueSet(w *an.World, fn *ssa.Function, field string) (map[string]bool, bool) {
	out := map[string]bool{}
	for _, r := range an.Returns(fn) {
		if len(r.Results) != 1 {
			return nil, false
		}
		cv, ok := r.Results[0].(*ssa.Const)
		if !ok {
			// phi of constants: resolve per incoming edge
			phi, isPhi := r.Results[0].(*ssa.Phi)
			if !isPhi {
				return nil, false
			}
			for i, e := range phi.Edges {
				ec, ok := e.(*ssa.Const)
				if !ok {
					return nil, false
				}
				if ec.Value.String() != "true" {
					continue
				}
				pred := phi.Block().Preds[i]
				vals := c15EqConsts(w, w.FactsDominatingBlock(pred), field)
				// plus the edge pred -> phi block itself
				for _, f := range w.Facts(fn) {
					if f.Edge.From == pred && f.Edge.To() == phi.Block() {
						vals = append(vals, c15EqConsts(w, []an.Fact{f}, field)...)
					}
				}
				if len(vals) == 0 {
					return nil, false
				}
				for _, v := range vals {
					out[v] = true
				}
			}
			continue
		}
		if cv.Value == nil || cv.Value.String() != "true" {
			continue
		}
		vals := c15EqConsts(w, w.FactsDominatingBlock(r.Block()), field)
		if len(vals) == 0 {
			return nil, false
		}
		for _, v := range vals {
			out[v] = true
		}
	}
	return out, len(out) > 0
}

func c15EqConsts(w *an.World, fs []an.Fact, field string) []string {
	var out []string
	for _, f := range fs {
		if !f.NonNum || f.Rel != "==" {
			continue
		}
		for _, pair := range [][2]string{{f.L, f.R}, {f.R, f.L}} {
			if strings.Contains(pair[0], field) && strings.HasPrefix(pair[1], `"`) {
				if s, err := unquote(pair[1]); err == nil {
					out = append(out, s)
				}
			}
		}
	}
	return out
}

func unquote(s string) (string, error) {
	if len(s) >= 2 && s[0] == '"' && s[len(s)-1] == '"' {
		return s[1 : len(s)-1], nil
	}
	return "", fmt.Errorf("not quoted")
}

var _ = types.Typ
