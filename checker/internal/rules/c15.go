package rules

import (
	"fmt"
	"go/constant"
	"go/token"
	"go/types"
	"sort"
	"strings"
	"sync"

	"golang.org/x/tools/go/ssa"

	"psv/internal/an"
)

func init() {
	Register(&Prop{
		ID:   "C15",
		Expl: "Decides the recovery structure: (R1) every action with an irreversible effect (opening broadcast, the three spends, the two payment calls) is either used only by FailOnrecover states or, on every static call chain from the action to the effect call, some call of the chain is dominated by a guard on a persisted SwapData field that is assigned after the effect (in the same function or further down the chain), and whose 'already done' branch cannot reach the effect or a failure; (R2) every state whose action builds a request/agreement message is FailOnrecover and sending states send the persisted NextMessage bytes; (R3) IsFinished is true exactly for the terminal states of all tables (decided by evaluating IsFinished's control flow for every state constant) and Recover is called from RecoverSwaps (incl. the goroutines and helpers it starts) only when IsFinished is false; (R4) terminal states have no events (nothing runs after cancel); (R5) RecoverSwaps binds (type, role) to the same table as the constructors, for all four combinations; (R6) every FailOnrecover state accepts Event_ActionFailed; (R7) in SendEvent and every other function of package swap that both moves the machine to a new state (store to SwapStateMachine.Current, directly or through helpers) and runs Action.Execute, no Store.UpdateData (directly or through helpers) can execute after the transition and before the Execute of the new state: the guards of R1 are assigned only after the effect, so a record may say 'state S' only once the action of S has returned at least once - otherwise a crash inside the action re-runs it with the guard unset.",
		NotD: "Duplicate suppression inside the Lightning node or wallet; behaviour of a payment that is in flight during the crash.",
		Run:  runC15,
	})
}

var c15Irreversible = []string{fxOpenTx, fxPreimageSpend, fxCsvSpend, fxCoopSpend, fxPay, fxPayViaChannel, fxPayInvoice}

// c15Use records who runs one irreversible effect call.
type c15Use struct {
	in       ssa.CallInstruction
	roots    map[*ssa.Function]bool // Execute functions whose summary contains the call
	states   []string
	failOnly bool
}

func runC15(c *an.Check) {
	c.Rule("C15.R1", "irreversible effect: FailOnrecover-only state, or guarded (at the effect or at a call leading to it) by a persisted field assigned after the effect")
	c.Rule("C15.R2", "request/agreement builders are FailOnrecover; senders send the persisted NextMessage")
	c.Rule("C15.R3", "IsFinished == terminal states; Recover only when not finished")
	c.Rule("C15.R4", "terminal states have no events; cancelled is terminal")
	c.Rule("C15.R5", "RecoverSwaps uses the constructors' (type, role) -> table binding for all four combinations")
	c.Rule("C15.R6", "every FailOnrecover state accepts Event_ActionFailed")
	c.Rule("C15.R7", "no store write lies between the transition to a state and the run of that state's action: the idempotence guards are set after the effect, so 'the record says state S' must imply 'the action of S has completed once' (a write-ahead of the state itself is not the repair of the C07.R6 crash window; an intent record distinct from Current would be)")
	if !needEffects(c, fxOpenTx, fxPreimageSpend, fxCsvSpend, fxCoopSpend, fxPay, fxPayViaChannel, fxSendMessage) {
		return
	}
	w := c.W
	ts := tables(c)
	if ts == nil {
		return
	}
	idx := c15BuildCallIdx(w)

	// ---- R1 ------------------------------------------------------------------
	uses := map[ssa.CallInstruction]*c15Use{}
	instances := map[string]bool{} // (state, effect) pairs: the semantic instances
	for _, t := range ts {
		for _, s := range t.T.Order {
			for _, ex := range t.Sum[s].Execs {
				for _, ef := range w.Summary(ex).Effects {
					for _, irr := range c15Irreversible {
						if ef.Name != irr {
							continue
						}
						in := ef.Info.Instr
						u := uses[in]
						if u == nil {
							u = &c15Use{in: in, roots: map[*ssa.Function]bool{}, failOnly: true}
							uses[in] = u
						}
						u.roots[ex] = true
						u.states = append(u.states, t.key(s))
						instances[t.key(s)+" "+irr] = true
						if !t.T.States[s].FailOnRecover {
							u.failOnly = false
						}
					}
				}
			}
		}
	}
	c.AtLeast("C15.R1", "(state, irreversible effect) pairs in the tables", len(instances), 11)
	var sites []*c15Use
	for _, u := range uses {
		sites = append(sites, u)
	}
	sort.Slice(sites, func(i, j int) bool { return sites[i].in.Pos() < sites[j].in.Pos() })
	for _, u := range sites {
		c15EffectGuard(c, idx, u)
	}

	// ---- R2 ------------------------------------------------------------------
	marshal := w.Func("swap", "MarshalPeerswapMessage")
	if marshal == nil {
		c.Anchor("swap.MarshalPeerswapMessage does not resolve")
		return
	}
	negotiation := map[string]bool{"SwapInRequestMessage": true, "SwapOutRequestMessage": true, "SwapInAgreementMessage": true, "SwapOutAgreementMessage": true}
	nBuild := 0
	for _, t := range ts {
		for _, s := range t.T.Order {
			e := t.T.States[s]
			done := map[string]bool{}
			for _, ex := range t.Sum[s].Execs {
				for _, ef := range w.Summary(ex).Effects {
					if ef.Info.Static != marshal {
						continue
					}
					args := ef.Info.Instr.Common().Args
					if len(args) != 1 {
						continue
					}
					tns, resolved := c15DynTypes(w, idx, ex, ef.Info.Instr, args[0])
					for _, tn := range tns {
						if !negotiation[tn] || done[tn] {
							continue
						}
						done[tn] = true
						if !done["#"] {
							done["#"] = true
							nBuild++
						}
						c.Decide(e.FailOnRecover, "C15.R2", t.key(s)+" builds "+tn, t.pos(c, s),
							"message builder is failed, not re-run, on recovery", "a state that builds "+tn+" is re-executed on recovery: the re-sent message can carry different parameters (new premium, new invoice, new anchor)")
					}
					if !resolved && !done["?"] {
						done["?"] = true
						if !done["#"] {
							done["#"] = true
							nBuild++
						}
						if e.FailOnRecover {
							c.OK("C15.R2", t.key(s)+" builds a message of unresolved type", t.pos(c, s), "message builder is failed, not re-run, on recovery")
						} else {
							c.Unknown("C15.R2", t.key(s)+" builds a message of unresolved type", w.Pos(ef.Info.Instr.Pos()),
								"the concrete type of the message marshalled here cannot be resolved (interface value that does not come from a constructor expression on the call chain); if it is a request/agreement the state must be FailOnrecover")
						}
					}
				}
			}
			// senders use the persisted bytes
			for _, ef := range t.Sum[s].Sites(fxSendMessage) {
				if ef.In == nil || !strings.Contains(w.FuncName(ef.In), "SendMessageAction") {
					continue
				}
				args := ef.Info.Instr.Common().Args
				if len(args) != 3 {
					continue
				}
				src := w.Sources(args[1], an.FlowOpts{})
				if len(src.Leaves) == 1 && src.Has("field", "SwapData.NextMessage") {
					c.OK("C15.R2", w.FuncName(ef.In)+" payload", w.Pos(ef.Info.Instr.Pos()), "sends the persisted NextMessage")
				} else if src.HasPrefix("unknown", "") || src.HasPrefix("param", "") {
					c.Unknown("C15.R2", w.FuncName(ef.In)+" payload", w.Pos(ef.Info.Instr.Pos()), "origin of the payload cannot be resolved: "+strings.Join(src.Names(), ","))
				} else {
					c.Bad("C15.R2", w.FuncName(ef.In)+" payload", w.Pos(ef.Info.Instr.Pos()), "payload does not come from the persisted NextMessage: "+strings.Join(src.Names(), ","))
				}
			}
		}
	}
	c.AtLeast("C15.R2", "request/agreement building states", nBuild, 4)

	// ---- R3 / R4 ---------------------------------------------------------------
	terms := map[string]bool{}
	universe := map[string]bool{}
	for _, t := range ts {
		for _, s := range t.T.Order {
			universe[s] = true
		}
		for _, s := range t.terminals() {
			terms[s] = true
			ss := t.Sum[s]
			onlyDone := len(ss.Events) == 1 && ss.Events[evDone] && !ss.Unknown
			if !onlyDone && ss.Unknown && len(ss.Events) <= 1 && (len(ss.Events) == 0 || ss.Events[evDone]) {
				c.Unknown("C15.R4", t.key(s)+" terminal", t.pos(c, s), "the value returned by the terminal state's action cannot be resolved")
			} else {
				c.Decide(onlyDone, "C15.R4", t.key(s)+" terminal", t.pos(c, s), "terminal: no events, action returns only Event_Done", fmt.Sprintf("terminal state's action may return %v", sortedKeys(ss.Events)))
			}
		}
		// cancelled state: target of the cancel-sending action's success
		for _, s := range t.T.Order {
			if !c15SendsCancel(w, t, s, marshal) {
				continue
			}
			for _, ev := range t.T.States[s].SortedEvents() {
				nx := t.T.States[s].Events[ev]
				c.Decide(t.T.States[nx].Terminal(), "C15.R4", t.edgeKey(s, ev), w.Pos(t.T.States[s].EventPos[ev]), "after the cancel message the swap is terminal", "the state after sending cancel is not terminal: payments/broadcasts remain reachable after cancel")
			}
		}
	}
	fin := w.Func("swap", "(*SwapStateMachine).IsFinished")
	if fin == nil {
		c.Anchor("(*SwapStateMachine).IsFinished does not resolve")
	} else {
		set, why := c15FinishedSet(w, fin, "SwapStateMachine.Current", universe)
		if set == nil {
			c.Unknown("C15.R3", "(*SwapStateMachine).IsFinished shape", w.Pos(fin.Pos()), "cannot extract the set of states for which IsFinished returns true: "+why)
		} else {
			for _, s := range sortedKeys(terms) {
				c.Decide(set[s], "C15.R3", "IsFinished covers "+s, w.Pos(fin.Pos()), "terminal state counts as finished", "terminal state "+s+" is not finished for IsFinished: it is recovered (its action re-run) after every restart and keeps its channel locked")
			}
			for _, s := range sortedKeys(set) {
				if !universe[s] {
					continue // a constant that is no state of any table: harmless
				}
				c.Decide(terms[s], "C15.R3", "IsFinished only-terminal "+s, w.Pos(fin.Pos()), "finished state is terminal in every table", "IsFinished reports the non-terminal state "+nonEmpty(s)+" as finished: a restart abandons the swap in that state")
			}
		}
	}
	rec := w.Func("swap", "(*SwapStateMachine).Recover")
	rs := w.Func("swap", "(*SwapService).RecoverSwaps")
	if rec == nil || rs == nil {
		c.Anchor("Recover / RecoverSwaps do not resolve")
		return
	}
	scope := c15Scope(w, rs)
	nRec := 0
	for _, fn := range scope {
		for _, call := range an.Calls(fn) {
			if call.Common().StaticCallee() != rec {
				continue
			}
			nRec++
			isUnfinished := func(f an.Fact) bool { return an.AtomIs(f, ").IsFinished", false) }
			chains := c15Chains(w, idx, rs, call, true)
			guarded, complete := true, len(chains) > 0
			if !complete {
				guarded = an.AnyFact(w.FactsDominating(call), isUnfinished)
			}
			for _, ch := range chains {
				g := false
				for _, st := range ch {
					if an.AnyFact(w.FactsDominating(st.Call), isUnfinished) {
						g = true
					}
				}
				if !g {
					guarded = false
				}
			}
			// positively wrong: nobody tests IsFinished at all, or this very swap is
			// recovered on a path where IsFinished() returned true; a test that does not
			// dominate the call and is made on another value (e.g. a filter loop that
			// collects the unfinished swaps first) is not interpreted
			tested, witness := false, false
			for _, sf := range scope {
				for _, sc := range an.Calls(sf) {
					if g := sc.Common().StaticCallee(); g != nil && g == fin {
						tested = true
					}
				}
			}
			for _, ch := range chains {
				if c15FinishedWitness(w, fin, ch) {
					witness = true
				}
			}
			switch {
			case guarded:
				c.OK("C15.R3", "RecoverSwaps Recover-only-unfinished", w.Pos(call.Pos()), "Recover is called only when IsFinished() is false")
			case complete && tested && !witness:
				c.Unknown("C15.R3", "RecoverSwaps Recover-only-unfinished", w.Pos(call.Pos()), "IsFinished is tested in the recovery code but not as a condition that dominates this Recover call (filtering through a collection or a predicate helper is not interpreted)")
			case complete:
				c.Bad("C15.R3", "RecoverSwaps Recover-only-unfinished", w.Pos(call.Pos()), "Recover is called on finished swaps: their terminal action (and everything it triggers) runs again")
			default:
				c.Unknown("C15.R3", "RecoverSwaps Recover-only-unfinished", w.Pos(call.Pos()), "the call chain from RecoverSwaps to this Recover call cannot be followed (function value), so a guard at a caller cannot be excluded")
			}
		}
	}
	c.AtLeast("C15.R3", "Recover call sites reached from RecoverSwaps", nRec, 1)

	// ---- R5 ------------------------------------------------------------------
	// *FromStore functions: assign <table>() to SwapStateMachine.States, or take
	// the table as a parameter.
	fromStore := map[*ssa.Function]string{} // function -> table function name
	fromStoreArg := map[*ssa.Function]int{} // function -> index of the States parameter
	for _, st := range w.FieldWriters("SwapStateMachine.States") {
		fn := st.Parent()
		if w.FnRel(fn) != "swap" {
			continue
		}
		switch v := st.Val.(type) {
		case *ssa.Call:
			if callee := v.Common().StaticCallee(); callee != nil {
				if _, isTable := ts[0].F.ByFunc[callee.Name()]; isTable {
					fromStore[fn] = callee.Name()
				}
			}
		case *ssa.Parameter:
			for i, p := range fn.Params {
				if p == v {
					fromStoreArg[fn] = i
				}
			}
		}
	}
	seenCombos := map[string]bool{}
	anyUnknown := false
	nBind := 0
	for _, fn := range scope {
		for _, call := range an.Calls(fn) {
			callee := call.Common().StaticCallee()
			if callee == nil {
				continue
			}
			tb, ok := fromStore[callee]
			if !ok {
				ai, isArg := fromStoreArg[callee]
				if !isArg {
					continue
				}
				args := call.Common().Args
				if ai < len(args) {
					if cv, isCall := args[ai].(*ssa.Call); isCall {
						if tf := cv.Common().StaticCallee(); tf != nil {
							if _, isTable := ts[0].F.ByFunc[tf.Name()]; isTable {
								tb, ok = tf.Name(), true
							}
						}
					}
				}
				if !ok {
					if _, inScope := fromStoreArg[fn]; inScope {
						continue // the parametrised function itself, forwarding its parameter
					}
					anyUnknown = true
					c.Unknown("C15.R5", "RecoverSwaps -> "+w.FuncName(callee), w.Pos(call.Pos()), "the state table passed here is not a direct call of a table function")
					continue
				}
			}
			nBind++
			var facts []an.Fact
			chains := c15Chains(w, idx, rs, call, true)
			if len(chains) == 0 {
				facts = w.FactsDominating(call)
			} else {
				for _, st := range chains[0] {
					facts = append(facts, w.FactsDominating(st.Call)...)
				}
			}
			tv, rv := c15TypeRole(facts)
			// every other chain must give the same answer
			for _, ch := range chains[min(1, len(chains)):] {
				var fs []an.Fact
				for _, st := range ch {
					fs = append(fs, w.FactsDominating(st.Call)...)
				}
				t2, r2 := c15TypeRole(fs)
				if tv == nil || rv == nil || t2 == nil || r2 == nil || *t2 != *tv || *r2 != *rv {
					tv, rv = nil, nil
				}
			}
			table := ts[0].F.ByFunc[tb]
			cons := "RecoverSwaps -> " + w.FuncName(callee)
			if callee != nil && fromStore[callee] == "" {
				cons += "(" + tb + ")"
			}
			if tv == nil || rv == nil {
				anyUnknown = true
				c.Unknown("C15.R5", cons, w.Pos(call.Pos()), "cannot determine the (type, role) condition under which this table is chosen: "+an.DescribeFacts(facts))
				continue
			}
			seenCombos[fmt.Sprintf("%d/%d", *tv, *rv)] = true
			c.Decide(table.Bound && table.Type == *tv && table.Role == *rv, "C15.R5", cons, w.Pos(call.Pos()),
				fmt.Sprintf("recovery binds (%d,%d) to %s like the constructor %s", *tv, *rv, tb, table.Constructor),
				fmt.Sprintf("recovery runs a swap of (type=%d, role=%d) with table %s, but the constructor %s binds that table to (type=%d, role=%d): the restarted swap continues in the wrong state machine", *tv, *rv, tb, table.Constructor, table.Type, table.Role))
		}
	}
	for _, t := range ts {
		k := fmt.Sprintf("%d/%d", t.T.Type, t.T.Role)
		cons := "RecoverSwaps handles " + t.Name()
		switch {
		case seenCombos[k]:
			c.OK("C15.R5", cons, w.Pos(rs.Pos()), "combination is recovered")
		case anyUnknown || nBind == 0:
			c.Unknown("C15.R5", cons, w.Pos(rs.Pos()), "no table binding for this combination was recognised among the functions reached from RecoverSwaps (some bindings could not be interpreted, or the dispatch is not a chain of (type, role) tests)")
		default:
			c.Bad("C15.R5", cons, w.Pos(rs.Pos()), "swaps of "+t.Name()+" are never given a state table on recovery")
		}
	}

	// ---- R7 ------------------------------------------------------------------
	c15NoWriteBeforeAction(c)

	// ---- R6 ------------------------------------------------------------------
	for _, t := range ts {
		for _, s := range t.T.Order {
			e := t.T.States[s]
			if !e.FailOnRecover {
				continue
			}
			_, ok := e.Events[evFailed]
			c.Decide(ok, "C15.R6", t.key(s)+" accepts ActionFailed", t.pos(c, s), "FailOnrecover state can be failed", "FailOnrecover state does not accept Event_ActionFailed: Recover's SendEvent is rejected and the swap stays active forever")
		}
	}
}

// c15NoWriteBeforeAction: R7. Anchors as in C07.R6 (transition = store to
// SwapStateMachine.Current, Action.Execute, Store.UpdateData; each directly or
// through the effect summary of an in-module callee).
func c15NoWriteBeforeAction(c *an.Check) {
	w := c.W
	se := w.Func("swap", "(*SwapStateMachine).SendEvent")
	if se == nil {
		c.Anchor("(*SwapStateMachine).SendEvent does not resolve")
		return
	}
	// what a function does, summarised
	kind := func(g *ssa.Function) (isExec, isTrans, isUpd bool) {
		if g == nil || !w.InModule(g) || g.Blocks == nil {
			return
		}
		sum := w.Summary(g)
		return sum.HasEffect(fxActionExecute), c15FnStores(w, g, "SwapStateMachine.Current"), sum.HasEffect(fxStoreUpdate)
	}
	analysed := 0
	for _, fn := range prodFuncs(w) {
		if w.FnRel(fn) != "swap" || isDummy(w, fn) {
			continue
		}
		var execs, trans, upd, opaque []ssa.Instruction
		for _, b := range fn.Blocks {
			for _, in := range b.Instrs {
				if st, ok := in.(*ssa.Store); ok {
					if fa, ok := st.Addr.(*ssa.FieldAddr); ok && an.FieldName(fa.X.Type(), fa.Field) == "SwapStateMachine.Current" {
						trans = append(trans, in)
					}
					continue
				}
				call, ok := in.(ssa.CallInstruction)
				if !ok {
					continue
				}
				if _, isGo := call.(*ssa.Go); isGo {
					continue
				}
				ci := w.Info(call)
				switch {
				case ci.Name == fxActionExecute:
					execs = append(execs, in)
				case ci.Name == fxStoreUpdate:
					upd = append(upd, in)
				case ci.Static != nil:
					if ci.Static == fn {
						continue
					}
					e, t, u := kind(ci.Static)
					if e && t {
						continue // transition and action both inside the callee: analysed there
					}
					if e {
						execs = append(execs, in)
					}
					if t {
						trans = append(trans, in)
					}
					if u && !e {
						upd = append(upd, in)
					}
				case strings.HasPrefix(ci.Name, "dyn:"):
					opaque = append(opaque, in)
				case ci.Iface != nil && c15RelOf(w, ci.PkgPath) == "swap" && ci.Iface.Obj().Name() != "Store" && ci.Iface.Obj().Name() != "Action":
					// an in-module service interface: its implementations are not looked into
					opaque = append(opaque, in)
				}
			}
		}
		if len(execs) == 0 || len(trans) == 0 {
			continue
		}
		analysed++
		between := func(x ssa.Instruction) bool {
			afterTr, beforeEx := false, false
			for _, tr := range trans {
				if tr != x && pathAvoiding(tr, x, execs) {
					afterTr = true
				}
			}
			for _, ex := range execs {
				if ex != x && pathAvoiding(x, ex, trans) {
					beforeEx = true
				}
			}
			return afterTr && beforeEx
		}
		cons := w.FuncName(fn) + " write between transition and Execute"
		var bad, unk []string
		for _, u := range upd {
			if between(u) {
				bad = append(bad, strings.TrimPrefix(w.Info(u.(ssa.CallInstruction)).Name, "iface:")+" at "+w.Pos(u.Pos()))
			}
		}
		for _, o := range opaque {
			if between(o) {
				unk = append(unk, w.Info(o.(ssa.CallInstruction)).Name+" at "+w.Pos(o.Pos()))
			}
		}
		switch {
		case len(bad) > 0:
			c.Bad("C15.R7", cons, w.Pos(c15FirstBetween(upd, between).Pos()),
				"the record is written after the machine moved to the new state and before that state's action runs ("+strings.Join(bad, "; ")+"): a crash inside the action - e.g. after the wallet broadcast, before the post-action write - leaves the record in the new state with its idempotence guard (OpeningTxBroadcasted, ClaimTxId, ClaimPreimage) still unset; the state is recoverable, Recover re-runs the action and the irreversible effect happens twice. Persisting the state ahead of the action is not the repair of the crash window of C07.R6; an intent record distinct from Current would be")
		case len(unk) > 0:
			c.Unknown("C15.R7", cons, w.Pos(fn.Pos()), "between the transition and the Execute call lies a call whose effect on the store is not interpreted: "+strings.Join(unk, "; "))
		default:
			c.OK("C15.R7", cons, w.Pos(fn.Pos()), "nothing is persisted between the transition and the run of the new state's action: a stored state implies its action has returned once")
		}
	}
	c.AtLeast("C15.R7", "functions that both transition and run Action.Execute", analysed, 1)
}

func c15RelOf(w *an.World, pkgPath string) string {
	r, _ := w.Rel(pkgPath)
	return r
}

func c15FirstBetween(upd []ssa.Instruction, between func(ssa.Instruction) bool) ssa.Instruction {
	for _, u := range upd {
		if between(u) {
			return u
		}
	}
	return upd[0]
}

// c15FinishedWitness: in some function of the chain IsFinished is called on the
// value that the chain's call then works on, and the branch taken when it
// returned true still reaches that call.
func c15FinishedWitness(w *an.World, fin *ssa.Function, ch []c15Step) bool {
	if fin == nil {
		return false
	}
	for _, st := range ch {
		// values the call of this level works on, with what they are derived from
		related := map[ssa.Value]bool{}
		var back func(v ssa.Value, depth int)
		back = func(v ssa.Value, depth int) {
			if v == nil || related[v] || depth > 8 {
				return
			}
			related[v] = true
			switch x := v.(type) {
			case *ssa.Phi:
				for _, e := range x.Edges {
					back(e, depth+1)
				}
			case *ssa.Call:
				if g := x.Common().StaticCallee(); g != nil && w.InModule(g) {
					for _, a := range x.Common().Args {
						back(a, depth+1)
					}
				}
			case *ssa.ChangeType:
				back(x.X, depth+1)
			case *ssa.MakeClosure:
				for _, b := range x.Bindings {
					back(b, depth+1)
				}
			case *ssa.UnOp:
				if al, ok := x.X.(*ssa.Alloc); ok && x.Op == token.MUL && al.Referrers() != nil {
					for _, r := range *al.Referrers() {
						if s, ok := r.(*ssa.Store); ok && s.Addr == al {
							back(s.Val, depth+1)
						}
					}
				}
			}
		}
		for _, a := range st.Call.Common().Args {
			back(a, 0)
		}
		if !st.Call.Common().IsInvoke() {
			back(st.Call.Common().Value, 0)
		}
		for _, c2 := range an.Calls(st.Fn) {
			cv, ok := c2.(*ssa.Call)
			if !ok || cv.Common().StaticCallee() != fin || len(cv.Common().Args) == 0 || !related[cv.Common().Args[0]] {
				continue
			}
			tE, _ := an.BoolEdges(cv)
			for _, e := range tE {
				if an.ReachBlocks([]*ssa.BasicBlock{e.To()}, nil, nil)[st.Call.Block()] {
					return true
				}
			}
		}
	}
	return false
}

// c15TypeRole extracts the constants that Type and Role are known to equal.
func c15TypeRole(facts []an.Fact) (tv, rv *int64) {
	for _, f := range facts {
		if f.NonNum || f.Rel != "==" || len(f.Terms) != 1 {
			continue
		}
		for term, coef := range f.Terms {
			v := -f.Const * coef
			switch {
			case strings.Contains(term, "SwapStateMachine.Type"):
				x := v
				tv = &x
			case strings.Contains(term, "SwapStateMachine.Role"):
				x := v
				rv = &x
			}
		}
	}
	return
}

// ---- R1: guard on a call chain ----------------------------------------------------

// c15EffectGuard decides R1 for one effect call: on every static call chain
// Execute -> ... -> effect some call of the chain must be guarded.
func c15EffectGuard(c *an.Check, idx *c15CallIdx, u *c15Use) {
	w := c.W
	in := u.in
	ci := w.Info(in)
	cons := w.FuncName(in.Parent()) + " effect " + strings.TrimPrefix(ci.Name, "iface:")
	pos := w.Pos(in.Pos())
	if u.failOnly {
		c.OK("C15.R1", cons, pos, "only run by FailOnrecover states: "+strings.Join(u.states, ", "))
		return
	}
	if _, ok := in.(*ssa.Call); !ok {
		c.Unknown("C15.R1", cons, pos, "effect is not a plain call")
		return
	}
	var roots []*ssa.Function
	for r := range u.roots {
		roots = append(roots, r)
	}
	sort.Slice(roots, func(i, j int) bool { return w.FuncName(roots[i]) < w.FuncName(roots[j]) })
	guards := map[string]bool{}
	var impBad, impUnknown []string
	unguarded := ""     // a complete chain without any guard: positively established
	uninterpreted := "" // a chain we could not follow
	allFacts := []an.Fact{}
	for _, root := range roots {
		chains := c15Chains(w, idx, root, in, false)
		if len(chains) == 0 {
			uninterpreted = "no static call chain from " + w.FuncName(root) + " to the effect could be reconstructed"
			continue
		}
		for _, ch := range chains {
			g := c15ChainGuard(w, ch, "", true, true)
			allFacts = append(allFacts, g.facts...)
			if g.field == "" {
				if g.opaque != "" {
					uninterpreted = g.opaque
				} else {
					unguarded = c15ChainString(w, ch)
				}
				continue
			}
			guards[g.field] = true
			impBad = append(impBad, g.impure...)
			impUnknown = append(impUnknown, g.impureAfter...)
		}
	}
	gl := strings.Join(sortedKeys(guards), ", ")
	switch {
	case unguarded != "":
		c.Bad("C15.R1", cons, pos,
			fmt.Sprintf("this irreversible call is re-executed by Recover (states %s are not FailOnrecover) and no guard on a persisted result field protects it (call chain %s): a crash after the post-action store write and before the next state is stored repeats it. Facts that hold: %s", strings.Join(u.states, ", "), unguarded, an.DescribeFacts(allFacts)))
		return
	case uninterpreted != "":
		c.Unknown("C15.R1", cons, pos, "cannot decide whether the effect is guarded: "+uninterpreted)
		return
	}
	// the re-execution path (result already recorded) must not consult outside services
	switch {
	case len(impBad) > 0:
		c.Bad("C15.R1", cons+" already-done path", pos,
			"when "+gl+" is already recorded (re-execution after a restart) the action still calls outside services before it returns: "+strings.Join(c15Uniq(impBad), "; ")+" - a failure or a changed answer there fails an action whose irreversible effect already happened")
	case len(impUnknown) > 0:
		c.Unknown("C15.R1", cons+" already-done path", pos,
			"the guard on "+gl+" sits inside a helper; after the helper returns its caller calls outside services ("+strings.Join(c15Uniq(impUnknown), "; ")+") and the rule cannot separate the first execution from the re-execution there")
	default:
		c.OK("C15.R1", cons+" already-done path", pos, "when "+gl+" is already recorded the action decides from the persisted record alone")
	}
	c.OK("C15.R1", cons, pos, "guarded by persisted field "+gl+" which is assigned after the effect")
}

// ==== shared-begin: call-chain / guard helpers (the same code, up to the prefix, in each of this author's rule files) ====

func c15Uniq(in []string) []string {
	m := map[string]bool{}
	for _, s := range in {
		m[s] = true
	}
	return sortedKeys(m)
}

func c15ChainString(w *an.World, ch []c15Step) string {
	var p []string
	for _, st := range ch {
		p = append(p, w.FuncName(st.Fn))
	}
	return strings.Join(p, " -> ")
}

type c15GuardResult struct {
	field       string // guarding field, "" if none
	opaque      string // why the chain could not be interpreted (then field == "")
	facts       []an.Fact
	impure      []string // outside-service calls that certainly lie on the already-done path
	impureAfter []string // outside-service calls in callers after a guarded helper returned
}

// c15After: blocks that execute after call succeeded (after the call when its
// error is not tested or it has none).
func c15After(call ssa.CallInstruction) map[*ssa.BasicBlock]bool {
	if cv, ok := call.(*ssa.Call); ok {
		if okE, _ := an.OkEdges(cv); len(okE) > 0 {
			var st []*ssa.BasicBlock
			for _, e := range okE {
				st = append(st, e.To())
			}
			return an.ReachBlocks(st, nil, nil)
		}
	}
	after := an.ReachFromInstr(call)
	after[call.Block()] = true
	return after
}

// c15ChainGuard looks for a guard `SwapData.X is zero` that dominates one call
// of the chain, with X assigned after the effect at that level or further down.
//
// only restricts the search to one field ("" = any persisted field);
// needAssigned demands the assignment after the effect; allowNext accepts an
// already-done branch that delegates to the next action of a wrapper.
func c15ChainGuard(w *an.World, ch []c15Step, only string, needAssigned, allowNext bool) c15GuardResult {
	var res c15GuardResult
	for k, st := range ch {
		facts := w.FactsDominating(st.Call)
		res.facts = append(res.facts, facts...)
		for _, f := range facts {
			fld := c15ZeroFactField(w, f)
			if fld == "" || (only != "" && fld != only) {
				continue
			}
			// assigned after the effect: at this level after the call, or at a deeper level
			assigned := false
			for j := k; j < len(ch); j++ {
				after := c15After(ch[j].Call)
				for _, s := range storesTo(ch[j].Fn, fld) {
					if after[s.Block()] {
						assigned = true
					}
				}
				// through a recording helper called after the effect
				for _, call := range an.Calls(ch[j].Fn) {
					if !after[call.Block()] || call == ch[j].Call {
						continue
					}
					if g := call.Common().StaticCallee(); g != nil && w.InModule(g) && c15FnStores(w, g, fld) {
						assigned = true
					}
				}
			}
			if !assigned && needAssigned {
				continue
			}
			// the "already done" edge must not reach the guarded call nor return a failure
			other := an.Edge{From: f.Edge.From, Idx: 1 - f.Edge.Idx}
			reach := an.ReachBlocks([]*ssa.BasicBlock{other.To()}, nil, nil)
			if reach[st.Call.Block()] {
				continue
			}
			bad, unres := false, false
			for ev := range returnEventsFrom(w, st.Fn, reach) {
				if ev == "?" {
					unres = true
				} else if ev != evSucceeded && !(ev == "NEXT" && allowNext) {
					bad = true
				}
			}
			for _, r := range an.Returns(st.Fn) {
				if !reach[r.Block()] {
					continue
				}
				for _, rv := range r.Results {
					if an.IsErrorType(rv.Type()) && !an.IsNilConst(rv) && !c15OnlyNil(w, rv) {
						bad = true
					}
				}
			}
			if bad {
				continue
			}
			if unres {
				res.opaque = "the already-done branch of the guard on " + fld + " in " + w.FuncName(st.Fn) + " returns an event that cannot be resolved"
				continue
			}
			res.field = fld
			res.impure, res.impureAfter = nil, nil
			// purity of the already-done path: the guard's function with the zero
			// edges removed, and everything the callers above run before the call
			res.impure = append(res.impure, impureCallsIn(w, st.Fn, c15DoneRegion(w, st.Fn, fld))...)
			for j := 0; j < k; j++ {
				before, after := c15BeforeAfter(ch[j].Call)
				res.impure = append(res.impure, impureCallsIn(w, ch[j].Fn, before)...)
				for _, x := range c15ImpureExcept(w, ch[j].Fn, after, ch[j].Call) {
					res.impureAfter = append(res.impureAfter, x)
				}
			}
		}
		if res.field != "" {
			return res
		}
	}
	if only != "" && res.opaque == "" {
		// a dominating condition that talks about the field in a form that is not
		// understood: do not claim the guard is missing
		short := only[strings.LastIndex(only, ".")+1:]
		for _, f := range res.facts {
			if strings.Contains(f.String(), short) && c15ZeroFactField(w, f) == "" && !c15NonZeroFact(w, f, only) {
				res.opaque = "a condition that dominates the call mentions " + only + " in a form the rule does not interpret: " + f.String()
			}
		}
	}
	return res
}

// c15NonZeroFact: f says that field is NOT zero (the interpreted opposite of a guard).
func c15NonZeroFact(w *an.World, f an.Fact, field string) bool {
	if !f.NonNum || f.Rel != "!=" {
		return false
	}
	g := f
	g.Rel = "=="
	return c15ZeroFactField(w, g) == field
}

// c15OnlyNil: an error value that can only be nil (named result never assigned).
func c15OnlyNil(w *an.World, v ssa.Value) bool {
	src := w.Sources(v, an.FlowOpts{})
	return len(src.Leaves) > 0 && src.OnlyFrom(func(s an.Src) bool { return s.Kind == "zero" && s.Name == "nil" })
}

// c15BeforeAfter: blocks from which call's block is reachable without having
// executed it (strictly before) / blocks reachable after it.
func c15BeforeAfter(call ssa.CallInstruction) (before, after map[*ssa.BasicBlock]bool) {
	fn := call.Parent()
	after = an.ReachFromInstr(call)
	before = map[*ssa.BasicBlock]bool{}
	// backward reachability from the call's block
	work := []*ssa.BasicBlock{call.Block()}
	seen := map[*ssa.BasicBlock]bool{call.Block(): true}
	for len(work) > 0 {
		b := work[len(work)-1]
		work = work[:len(work)-1]
		for _, p := range b.Preds {
			if !seen[p] {
				seen[p] = true
				work = append(work, p)
			}
		}
	}
	for _, b := range fn.Blocks {
		if seen[b] && b != call.Block() {
			before[b] = true
		}
	}
	return before, after
}

// c15ImpureExcept lists outside-service calls in region other than `except`.
func c15ImpureExcept(w *an.World, fn *ssa.Function, region map[*ssa.BasicBlock]bool, except ssa.CallInstruction) []string {
	r2 := map[*ssa.BasicBlock]bool{}
	for b := range region {
		if b != except.Block() {
			r2[b] = true
		}
	}
	return impureCallsIn(w, fn, r2)
}

// c15FnStores: g, or a function it reaches synchronously, stores field fld.
func c15FnStores(w *an.World, g *ssa.Function, fld string) bool {
	if g == nil || g.Blocks == nil {
		return false
	}
	if len(storesTo(g, fld)) > 0 {
		return true
	}
	for _, ef := range w.Summary(g).Effects {
		if ef.Info.Static != nil && w.InModule(ef.Info.Static) && ef.Info.Static.Blocks != nil && len(storesTo(ef.Info.Static, fld)) > 0 {
			return true
		}
	}
	return false
}

// c15ZeroGuardField returns "SwapData.X" when fact f says that persisted field
// X of SwapData holds its zero value ("" / nil).
func c15ZeroGuardField(f an.Fact) string {
	if !f.NonNum || f.Rel != "==" {
		return ""
	}
	for _, pair := range [][2]string{{f.L, f.R}, {f.R, f.L}} {
		if (pair[1] == `""` || pair[1] == "nil") && strings.HasPrefix(pair[0], "field:SwapData.") && !strings.Contains(pair[0], ">") {
			return strings.TrimPrefix(pair[0], "field:")
		}
	}
	return ""
}

// c15ZeroFactField is c15ZeroGuardField extended to predicate helpers: the fact
// `p(swap) is true/false` where the in-module function p returns that value only
// when SwapData.X is zero.
func c15ZeroFactField(w *an.World, f an.Fact) string {
	if fld := c15ZeroGuardField(f); fld != "" {
		return fld
	}
	// `swap.GetX() == ""` where the in-module getter returns the field itself
	if f.NonNum && f.Rel == "==" {
		for _, pair := range [][2]ssa.Value{{f.LV, f.RV}, {f.RV, f.LV}} {
			if pair[0] == nil || pair[1] == nil {
				continue
			}
			zero := an.IsNilConst(pair[1])
			if s, ok := an.ConstString(pair[1]); ok && s == "" {
				zero = true
			}
			if !zero {
				continue
			}
			if fld := c15GetterField(w, pair[0]); fld != "" {
				return fld
			}
		}
	}
	if f.Rel != "true" && f.Rel != "false" {
		return ""
	}
	call, ok := f.Cond.(*ssa.Call)
	if !ok {
		return ""
	}
	g := call.Common().StaticCallee()
	if g == nil || !w.InModule(g) || g.Blocks == nil {
		return ""
	}
	return c15PredZeroField(w, g, f.Rel == "true")
}

// c15GetterField: v is the result of an in-module getter whose every return is
// the SwapData field X of its receiver/argument: "SwapData.X".
func c15GetterField(w *an.World, v ssa.Value) string {
	for {
		switch x := v.(type) {
		case *ssa.ChangeType:
			v = x.X
			continue
		case *ssa.Convert:
			v = x.X
			continue
		}
		break
	}
	call, ok := v.(*ssa.Call)
	if !ok {
		return ""
	}
	g := call.Common().StaticCallee()
	if g == nil || !w.InModule(g) || g.Blocks == nil || g.Signature.Results().Len() != 1 {
		return ""
	}
	field := ""
	for _, r := range an.Returns(g) {
		if len(r.Results) != 1 {
			return ""
		}
		t := w.Term(r.Results[0])
		if !strings.HasPrefix(t, "field:SwapData.") || strings.Contains(t, ">") || (field != "" && field != t) {
			return ""
		}
		field = t
	}
	return strings.TrimPrefix(field, "field:")
}

// c15PredZeroField: field X such that every return of g that may yield `want`
// happens only when SwapData.X is zero; "" if there is no such field.
func c15PredZeroField(w *an.World, g *ssa.Function, want bool) string {
	res := g.Signature.Results()
	if res.Len() != 1 {
		return ""
	}
	if b, ok := res.At(0).Type().Underlying().(*types.Basic); !ok || b.Info()&types.IsBoolean == 0 {
		return ""
	}
	field := ""
	okAll := true
	note := func(fld string) {
		if fld == "" || (field != "" && field != fld) {
			okAll = false
			return
		}
		field = fld
	}
	var eval func(v ssa.Value, blk *ssa.BasicBlock, edge []an.Fact, depth int)
	eval = func(v ssa.Value, blk *ssa.BasicBlock, edge []an.Fact, depth int) {
		if depth > 6 {
			okAll = false
			return
		}
		switch x := v.(type) {
		case *ssa.Const:
			if x.Value == nil || x.Value.Kind() != constant.Bool {
				okAll = false
				return
			}
			if constant.BoolVal(x.Value) != want {
				return
			}
			fld := ""
			for _, f := range append(append([]an.Fact{}, w.FactsDominatingBlock(blk)...), edge...) {
				if z := c15ZeroGuardField(f); z != "" {
					fld = z
				}
			}
			note(fld)
		case *ssa.BinOp:
			// (X == zero) yields `want` only when X is zero iff the comparison's
			// polarity equals want
			fld, isEq := c15ZeroCompare(w, x)
			if fld == "" || isEq != want {
				okAll = false
				return
			}
			note(fld)
		case *ssa.UnOp:
			if x.Op == token.NOT {
				// !(inner): want from inner == !want
				sub := c15PredValueZero(w, x.X, !want)
				note(sub)
				return
			}
			okAll = false
		case *ssa.Phi:
			for i, e := range x.Edges {
				pred := x.Block().Preds[i]
				var ef []an.Fact
				for _, f := range w.Facts(g) {
					if f.Edge.From == pred && f.Edge.To() == x.Block() {
						ef = append(ef, f)
					}
				}
				eval(e, pred, ef, depth+1)
			}
		default:
			okAll = false
		}
	}
	for _, r := range an.Returns(g) {
		if len(r.Results) != 1 {
			return ""
		}
		eval(r.Results[0], r.Block(), nil, 0)
	}
	if !okAll {
		return ""
	}
	return field
}

// c15PredValueZero: for a comparison value, the field that is zero whenever the
// value equals want.
func c15PredValueZero(w *an.World, v ssa.Value, want bool) string {
	bo, ok := v.(*ssa.BinOp)
	if !ok {
		return ""
	}
	fld, isEq := c15ZeroCompare(w, bo)
	if fld == "" || isEq != want {
		return ""
	}
	return fld
}

// c15ZeroCompare recognises `swap.X == ""` / `swap.X != nil` …; isEq tells
// whether the comparison is true when X is zero.
func c15ZeroCompare(w *an.World, bo *ssa.BinOp) (field string, isEq bool) {
	if bo.Op != token.EQL && bo.Op != token.NEQ {
		return "", false
	}
	for _, pair := range [][2]ssa.Value{{bo.X, bo.Y}, {bo.Y, bo.X}} {
		zero := an.IsNilConst(pair[1])
		if s, ok := an.ConstString(pair[1]); ok && s == "" {
			zero = true
		}
		if !zero {
			continue
		}
		t := w.Term(pair[0])
		if strings.HasPrefix(t, "field:SwapData.") && !strings.Contains(t, ">") {
			return strings.TrimPrefix(t, "field:"), bo.Op == token.EQL
		}
	}
	return "", false
}

// c15DoneRegion: the blocks of fn that can execute while field is already set
// (every edge that carries the fact `field is zero`, directly or through a
// predicate helper, removed).
func c15DoneRegion(w *an.World, fn *ssa.Function, field string) map[*ssa.BasicBlock]bool {
	if len(fn.Blocks) == 0 {
		return nil
	}
	cut := cutEdges(w, fn, func(f an.Fact) bool { return c15ZeroFactField(w, f) == field })
	return an.ReachBlocks([]*ssa.BasicBlock{fn.Blocks[0]}, cut, nil)
}

// ---- call index and call chains ------------------------------------------------------

// c15CallIdx: production call sites per static callee; a closure passed as an
// argument counts as called by the call it is passed to (as in an.Summary).
type c15CallIdx struct {
	sites map[*ssa.Function][]ssa.CallInstruction
}

var c15IdxCache sync.Map // *an.World -> *c15CallIdx

func c15BuildCallIdx(w *an.World) *c15CallIdx {
	if v, ok := c15IdxCache.Load(w); ok {
		return v.(*c15CallIdx)
	}
	idx := &c15CallIdx{sites: map[*ssa.Function][]ssa.CallInstruction{}}
	defer c15IdxCache.Store(w, idx)
	for _, fn := range prodFuncs(w) {
		if isDummy(w, fn) {
			continue
		}
		for _, call := range an.Calls(fn) {
			for _, g := range c15Callees(w, call) {
				idx.sites[g] = append(idx.sites[g], call)
			}
		}
	}
	return idx
}

// c15Callees: the in-module functions a call runs synchronously (its static
// callee and closures passed to it).
func c15Callees(w *an.World, call ssa.CallInstruction) []*ssa.Function {
	var out []*ssa.Function
	if g := call.Common().StaticCallee(); g != nil && w.InModule(g) && g.Blocks != nil {
		out = append(out, g)
	}
	for _, a := range call.Common().Args {
		if mc, ok := a.(*ssa.MakeClosure); ok {
			if g, ok := mc.Fn.(*ssa.Function); ok && g.Blocks != nil {
				out = append(out, g)
			}
		}
	}
	return out
}

// c15Step is one call of a chain: Call is an instruction of Fn.
type c15Step struct {
	Fn   *ssa.Function
	Call ssa.CallInstruction
}

// c15Chains returns the static call chains root -> … -> site (depth <= 6): each
// chain lists the call made in root, the call made in its callee, …, and ends
// with site itself. `go` statements are followed only when followGo is set.
func c15Chains(w *an.World, idx *c15CallIdx, root *ssa.Function, site ssa.CallInstruction, followGo bool) [][]c15Step {
	target := site.Parent()
	// functions from which target is reachable
	canReach := map[*ssa.Function]bool{target: true}
	frontier := []*ssa.Function{target}
	for d := 0; d < 6 && len(frontier) > 0; d++ {
		var next []*ssa.Function
		for _, f := range frontier {
			for _, s := range idx.sites[f] {
				if p := s.Parent(); !canReach[p] {
					canReach[p] = true
					next = append(next, p)
				}
			}
		}
		frontier = next
	}
	var out [][]c15Step
	onPath := map[*ssa.Function]bool{}
	var rec func(f *ssa.Function, path []c15Step)
	rec = func(f *ssa.Function, path []c15Step) {
		if len(out) >= 24 {
			return
		}
		if f == target {
			out = append(out, append(append([]c15Step{}, path...), c15Step{f, site}))
			return
		}
		if len(path) >= 6 {
			return
		}
		onPath[f] = true
		for _, call := range an.Calls(f) {
			if _, isGo := call.(*ssa.Go); isGo && !followGo {
				continue
			}
			for _, g := range c15Callees(w, call) {
				if canReach[g] && !onPath[g] {
					rec(g, append(path, c15Step{f, call}))
				}
			}
		}
		onPath[f] = false
	}
	if canReach[root] {
		rec(root, nil)
	}
	return out
}

// ==== shared-end ====

// c15Scope: RecoverSwaps with the closures, goroutines and in-module helpers it
// runs (depth <= 4).
func c15Scope(w *an.World, rs *ssa.Function) []*ssa.Function {
	seen := map[*ssa.Function]bool{rs: true}
	out := []*ssa.Function{rs}
	frontier := []*ssa.Function{rs}
	rec := w.Func("swap", "(*SwapStateMachine).Recover")
	for d := 0; d < 4 && len(frontier) > 0; d++ {
		var next []*ssa.Function
		add := func(g *ssa.Function) {
			if g != nil && !seen[g] && g.Blocks != nil && w.InModule(g) && g != rec {
				seen[g] = true
				out = append(out, g)
				next = append(next, g)
			}
		}
		for _, f := range frontier {
			for _, a := range f.AnonFuncs {
				add(a)
			}
			for _, call := range an.Calls(f) {
				for _, g := range c15Callees(w, call) {
					// only helpers of the service layer: the body of the state machine is not
					// part of the recovery dispatch
					if w.FnRel(g) == "swap" {
						add(g)
					}
				}
			}
		}
		frontier = next
	}
	return out
}

// ---- R2/R4 helpers ----------------------------------------------------------------------

// c15DynType names the concrete message type behind an interface argument.
func c15DynType(v ssa.Value) string {
	if mi, ok := v.(*ssa.MakeInterface); ok {
		if n := an.NamedOf(mi.X.Type()); n != nil {
			return n.Obj().Name()
		}
	}
	return ""
}

// c15DynTypes resolves the concrete types of interface value v used at call
// `at` (reached from root): a parameter is resolved at the calls of the chains
// root -> at; resolved is false when some origin stays unknown.
func c15DynTypes(w *an.World, idx *c15CallIdx, root *ssa.Function, at ssa.CallInstruction, v ssa.Value) (names []string, resolved bool) {
	set := map[string]bool{}
	resolved = true
	var val func(v ssa.Value, ch []c15Step, depth int)
	val = func(v ssa.Value, ch []c15Step, depth int) {
		if depth > 8 {
			resolved = false
			return
		}
		switch x := v.(type) {
		case *ssa.MakeInterface:
			if n := an.NamedOf(x.X.Type()); n != nil {
				set[n.Obj().Name()] = true
			} else {
				resolved = false
			}
		case *ssa.ChangeInterface:
			val(x.X, ch, depth+1)
		case *ssa.Const:
			if !an.IsNilConst(x) {
				resolved = false
			}
		case *ssa.Call:
			// an in-module accessor/constructor that returns the interface: its returns
			g := x.Common().StaticCallee()
			if g == nil || !w.InModule(g) || g.Blocks == nil || g.Signature.Results().Len() != 1 {
				resolved = false
				return
			}
			for _, r := range an.Returns(g) {
				if len(r.Results) == 1 {
					val(r.Results[0], nil, depth+1)
				}
			}
		case *ssa.Phi:
			for _, e := range x.Edges {
				val(e, ch, depth+1)
			}
		case *ssa.Parameter:
			// ch ends with the step inside x.Parent(); the call that entered it is the previous step
			if len(ch) < 2 {
				resolved = false
				return
			}
			prev := ch[len(ch)-2]
			callee := prev.Call.Common().StaticCallee()
			if callee != x.Parent() {
				resolved = false // entered as a closure argument: no parameter binding
				return
			}
			args := prev.Call.Common().Args
			for i, p := range x.Parent().Params {
				if p == x && i < len(args) {
					val(args[i], ch[:len(ch)-1], depth+1)
					return
				}
			}
			resolved = false
		default:
			if n := an.NamedOf(v.Type()); n != nil {
				if _, isI := n.Underlying().(*types.Interface); !isI {
					set[n.Obj().Name()] = true
					return
				}
			}
			resolved = false
		}
	}
	if _, isPar := v.(*ssa.Parameter); !isPar {
		val(v, nil, 0)
	} else {
		chains := c15Chains(w, idx, root, at, false)
		if len(chains) == 0 {
			resolved = false
		}
		for _, ch := range chains {
			val(v, ch, 0)
		}
	}
	return sortedKeys(set), resolved
}

// c15SendsCancel: the state's action marshals a CancelMessage and sends it.
func c15SendsCancel(w *an.World, t *TI, s string, marshal *ssa.Function) bool {
	idx := c15BuildCallIdx(w)
	if !t.Sum[s].HasEffect(fxSendMessage) {
		return false
	}
	for _, ex := range t.Sum[s].Execs {
		for _, ef := range w.Summary(ex).Effects {
			if ef.Info.Static == marshal {
				args := ef.Info.Instr.Common().Args
				if len(args) != 1 {
					continue
				}
				tns, _ := c15DynTypes(w, idx, ex, ef.Info.Instr, args[0])
				for _, tn := range tns {
					if tn == "CancelMessage" {
						return true
					}
				}
			}
		}
	}
	return false
}

// ---- R3: evaluating IsFinished --------------------------------------------------------

// c15FinishedSet evaluates the boolean function fn for `field == K`, for every K
// of universe and every string constant fn compares field with, by partial
// evaluation of its control flow (conditions that do not depend on field are
// followed both ways). It returns the set of K for which fn can only return
// true; nil (with a reason) when some return value cannot be evaluated or fn
// may return both values for some K.
func c15FinishedSet(w *an.World, fn *ssa.Function, field string, universe map[string]bool) (map[string]bool, string) {
	if len(fn.Blocks) == 0 {
		return nil, "no body"
	}
	cands := map[string]bool{}
	for k := range universe {
		cands[k] = true
	}
	isField := func(v ssa.Value) bool { return strings.Contains(w.Term(v), "field:"+field) }
	for _, b := range fn.Blocks {
		for _, in := range b.Instrs {
			if bo, ok := in.(*ssa.BinOp); ok && (bo.Op == token.EQL || bo.Op == token.NEQ) {
				for _, pair := range [][2]ssa.Value{{bo.X, bo.Y}, {bo.Y, bo.X}} {
					if s, ok := an.ConstString(pair[1]); ok && isField(pair[0]) {
						cands[s] = true
					}
				}
			}
		}
	}
	out := map[string]bool{}
	for k := range cands {
		res, why := c15EvalFor(w, fn, isField, k)
		if why != "" {
			return nil, why
		}
		if res {
			out[k] = true
		}
	}
	// a value that is none of the constants
	if res, why := c15EvalFor(w, fn, isField, "\x00other"); why != "" {
		return nil, why
	} else if res {
		return nil, "IsFinished is true for state values it does not name (complement form)"
	}
	return out, ""
}

// c15EvalFor: the value fn returns when field holds k ("" reason = decided).
func c15EvalFor(w *an.World, fn *ssa.Function, isField func(ssa.Value) bool, k string) (result bool, why string) {
	type tri int
	const (
		unk tri = iota
		tt
		ff
	)
	of := func(b bool) tri {
		if b {
			return tt
		}
		return ff
	}
	sawTrue, sawFalse := false, false
	steps := 0
	var walk func(b, pred *ssa.BasicBlock, env map[*ssa.Phi]ssa.Value, depth int)
	var eval func(v ssa.Value, env map[*ssa.Phi]ssa.Value, at ssa.Instruction, depth int) tri
	eval = func(v ssa.Value, env map[*ssa.Phi]ssa.Value, at ssa.Instruction, depth int) tri {
		if depth > 12 {
			return unk
		}
		switch x := v.(type) {
		case *ssa.Const:
			if x.Value != nil && x.Value.Kind() == constant.Bool {
				return of(constant.BoolVal(x.Value))
			}
		case *ssa.BinOp:
			if x.Op == token.EQL || x.Op == token.NEQ {
				for _, pair := range [][2]ssa.Value{{x.X, x.Y}, {x.Y, x.X}} {
					if s, ok := an.ConstString(pair[1]); ok && isField(pair[0]) {
						return of((s == k) == (x.Op == token.EQL))
					}
				}
			}
		case *ssa.UnOp:
			if x.Op == token.NOT {
				switch eval(x.X, env, at, depth+1) {
				case tt:
					return ff
				case ff:
					return tt
				}
				return unk
			}
			if x.Op == token.MUL {
				// defer-spilled result / local: the stores that reach this load
				if al, ok := x.X.(*ssa.Alloc); ok {
					stores, fromEntry := an.StoresReaching(x, al)
					if len(stores) == 1 && !fromEntry {
						return eval(stores[0].Val, env, at, depth+1)
					}
				}
			}
		case *ssa.Phi:
			if e, ok := env[x]; ok {
				return eval(e, env, at, depth+1)
			}
		}
		return unk
	}
	walk = func(b, pred *ssa.BasicBlock, env map[*ssa.Phi]ssa.Value, depth int) {
		steps++
		if why != "" || steps > 20000 || depth > 400 {
			if why == "" {
				why = "control flow too large to evaluate"
			}
			return
		}
		// bind the phis of b for the edge pred -> b
		if pred != nil {
			ne := map[*ssa.Phi]ssa.Value{}
			for p, v := range env {
				ne[p] = v
			}
			for _, in := range b.Instrs {
				phi, ok := in.(*ssa.Phi)
				if !ok {
					break
				}
				for i, p := range b.Preds {
					if p == pred && i < len(phi.Edges) {
						// resolve through already bound phis so the binding stays valid later
						v := phi.Edges[i]
						if inner, ok := v.(*ssa.Phi); ok {
							if bound, ok := env[inner]; ok {
								v = bound
							}
						}
						ne[phi] = v
					}
				}
			}
			env = ne
		}
		last := b.Instrs[len(b.Instrs)-1]
		switch x := last.(type) {
		case *ssa.Return:
			if len(x.Results) != 1 {
				why = "unexpected result count"
				return
			}
			switch eval(x.Results[0], env, x, 0) {
			case tt:
				sawTrue = true
			case ff:
				sawFalse = true
			default:
				why = "a returned value is not a constant or a comparison of " + "the state field with a constant (at " + w.Pos(x.Pos()) + ")"
			}
		case *ssa.If:
			switch eval(x.Cond, env, x, 0) {
			case tt:
				walk(b.Succs[0], b, env, depth+1)
			case ff:
				walk(b.Succs[1], b, env, depth+1)
			default:
				walk(b.Succs[0], b, env, depth+1)
				walk(b.Succs[1], b, env, depth+1)
			}
		case *ssa.Jump:
			walk(b.Succs[0], b, env, depth+1)
		case *ssa.Panic:
		default:
			why = "unsupported control flow"
		}
	}
	walk(fn.Blocks[0], nil, map[*ssa.Phi]ssa.Value{}, 0)
	if why != "" {
		return false, why
	}
	if sawTrue && sawFalse {
		return false, "for state " + k + " the result depends on more than the state field"
	}
	return sawTrue, ""
}
