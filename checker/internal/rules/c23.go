package rules

// C23 — secrets leave the node only as the taker's per-swap key in coop_close.
//
// A module-wide forward taint analysis on the SSA form (own engine, this file):
//
//   nodes   SSA values that can carry data, struct fields by
//           "<pkg>.<Type>.<Field>" (field-based heap: all instances of a struct
//           type are merged), return slots (fn, i). Pointers to / slices of
//           structs declared in the module are handles and never tainted: what
//           they hold is in the field nodes. Pointers into library structures
//           stand for their contents (stores propagate to the enclosing value).
//   edges   one per SSA data dependence. Calls are linked through the VTA call
//           graph: argument -> parameter ("down"), return slot -> result and
//           reference parameter -> argument ("up"). A path may go up and then
//           down, never down through one call site and up through another; the
//           matched pairs are per-call-site summary edges (argument -> result,
//           argument -> other reference argument) computed to a fixpoint.
//           Fields and globals are context-free. Calls without a body in the
//           module (libraries, RPC stubs) copy every operand into every result
//           (into error results only for packages that quote their operands)
//           and into every other pointer/slice/map/writer operand. A struct
//           converted to `any` additionally receives what a rendering shows:
//           for fmt operands the String/Error/Format method if there is one,
//           else all fields reachable in the type; for encoding/json the
//           exported fields or the Marshal* method; for unknown consumers both.
//   origins every place where a secret enters the value flow (a read of a source
//           field, a rendering of a struct that contains one, the result of a
//           source call). One origin per (statement, label), so every reported
//           flow names the statement where the secret was picked up, and the
//           feasibility of that statement can be decided per state.
//   sinks   stores into fields of wire message types, the value handed to
//           MarshalPeerswapMessage, []byte arguments of SendMessage calls, stores
//           into SwapData.CancelMessage (R1); stores into OpeningParams (R3).
//
// Fields of wire types do not propagate further (whatever reaches them is
// judged there), which also keeps the taker's CoopCloseMessage.Privkey from
// being confused with the copy the maker received. Instead, in a second pass the
// bytes returned by MarshalPeerswapMessage become an origin of their own
// ("encoded[labels]") when a field of the encoded message type carries a
// secret on a feasible flow (coop_close: the key). Their only legitimate
// destination is the payload of a SendMessage call; what the transport does
// with the payload is not followed.
//
// Feasibility is three-valued: a guarded flow is a VIOLATION only with a
// concrete counterexample in-edge, undecided if a shape is not understood.
// Rendering statements (`%v` of a struct) that cannot execute are cut out of
// every flow, not only when they are the origin.

import (
	"fmt"
	"go/token"
	"go/types"
	"os"
	"reflect"
	"sort"
	"strings"

	"golang.org/x/tools/go/ssa"

	"psv/internal/an"
)

func init() {
	Register(&Prop{
		ID:   "C23",
		Expl: "Decides, by a forward taint analysis over the SSA form of every production function of the module (package swap, the chain/lightning adapters and everything they call), that (R1) no value derived from SwapData.PrivkeyBytes, SwapData.ClaimPreimage, SwapData.FeePreimage, ClaimParams.Signer, from a preimage returned by a payment call or by lightning.GetPreimage, or from a %v / String() / json rendering of a struct that contains one of them, reaches a field of a wire message type (every implementer of swap.PeerMessage), the value given to MarshalPeerswapMessage, a []byte argument of any SendMessage / SendCustomMessage call, or SwapData.CancelMessage (which HandleError fills from err.Error() and which the cancel and coop-close actions copy into their Message field) — except the key into CoopCloseMessage.Privkey inside a disclosing function. Interface calls are linked through the VTA call graph; calls are call-site sensitive (argument->result summaries, no descent through one call site and return through another); struct fields are merged per type; calls without a body in the module copy every operand into every non-error result. PubKey(), Preimage.Hash(), hashes/transaction ids, signing and the invoice returned by GetPayreq are the only sanitisers. The bytes returned by MarshalPeerswapMessage for a message with a secret-carrying field (coop_close) are themselves tracked (label encoded[...]): they may only reach the payload of a SendMessage call and SwapData.NextMessage, not an error text, SwapData.CancelMessage or another message. A flow whose origin or rendering statement (in an action's Execute or in a helper reached from it by enumerable static calls that pass the SwapData on) is guarded by `swap.F == nil` tests is discharged only if, by the per-state definitely-set-fields argument over the four tables and all SendEvent call sites (context type applied before the transition, field never reset to nil, persisted, SwapData never replaced), F is set in every state that runs that action; if an in-edge is found on which F is not set the flow is reported with that in-edge; if the argument cannot be completed because a shape is not understood the flow is undecided (exit 2). (R3) a preimage created by lightning.GetPreimage in package swap reaches, without going through struct fields, only GetPayreq and SwapData fields, and no secret reaches a field of OpeningParams (the public script parameters: the preimage leaves only as its hash). The quantifier is over every statement, call site and state of the tree, i.e. over all message sequences in all roles and failure paths.",
		NotD: "Secrets in log output or in RPC answers to the local user; secrets inside on-chain transactions (the preimage spend publishes the preimage by design); wallet seeds handled by lwk; key material before it is stored in SwapData.PrivkeyBytes; error values returned by libraries and node RPC stubs are assumed not to contain their operands (only fmt, errors, strconv, net/url are modelled as quoting them); implicit flows (branching on a secret) and side channels; R2 (disclosing actions only in taker tables and never after a successful payment) is decided by C06.R1/R2 and not repeated.",
		Run:  runC23,
	})
}

// ---- frozen repo-specific tables ------------------------------------------------------

// c23SourceFields: fields whose every read is an origin. "Type.Field" -> label.
var c23SourceFields = map[string]string{
	"swap.SwapData.PrivkeyBytes":  "key",           // the per-swap private key
	"swap.SwapData.ClaimPreimage": "claimPreimage", // maker: own preimage; taker: proof of payment
	"swap.SwapData.FeePreimage":   "feePreimage",   // proof of the fee payment
	"swap.ClaimParams.Signer":     "signer",        // wraps the private key
}

// c23SourceCalls: calls whose result #0 is a secret. CallInfo.Name -> label.
var c23SourceCalls = map[string]string{
	"func:lightning.GetPreimage": "makerPreimage", // fresh preimage of an invoice this node issues (call sites in package swap; the adapters use throw-away ones for probes)
	fxPay:                        "paidPreimage",  // preimage learnt by paying
	fxPayViaChannel:              "paidPreimage",
	fxPayInvoice:                 "paidPreimage",
	fxRecoverPay:                 "paidPreimage",
}

// c23Clean: sanitisers and boundaries. Nothing flows into the results of a
// matching call (only into result #0 when first is true). Matching is by
// callee identity (method/function name and declaring type or package), never
// by source text. A stale entry can only cause a report, never hide a flow.
func (g *c23Graph) cleanReason(ci an.CallInfo) (reason string, first bool) {
	w := g.w
	meth := ci.Method
	fname := ""
	inMod := false
	pkg := ci.PkgPath
	if ci.Static != nil {
		fname = ci.Static.Name()
		inMod = w.InModule(ci.Static)
	} else if ci.Iface != nil {
		_, inMod = w.Rel(ci.PkgPath)
	}
	recv := ""
	if ci.Recv != nil {
		recv = ci.Recv.Obj().Name()
	} else if ci.Iface != nil {
		recv = ci.Iface.Obj().Name()
	}
	switch {
	case ci.Name == "func:swap.MarshalPeerswapMessage":
		return "the encoded message is judged field by field at the wire types", false
	case ci.Name == fxGetPayreq:
		return "the invoice issued by the Lightning node carries the payment hash only (trusted node behaviour)", true
	case meth == "Sign" && inMod && (recv == "Signer" || recv == "Secp256k1Signer"):
		return "a signature does not reveal the key", false
	case !inMod && fname == "Sign" && (strings.HasSuffix(pkg, "/ecdsa") || strings.HasSuffix(pkg, "/schnorr")):
		return "a signature does not reveal the key", false
	case !inMod && meth == "PubKey" && recv == "PrivateKey":
		return "public key of a private key", false
	case inMod && meth == "Hash" && recv == "Preimage":
		return "payment hash of a preimage", false
	case !inMod && (pkg == "crypto/sha256" || pkg == "crypto/sha512" || strings.HasSuffix(pkg, "/ripemd160") || strings.HasSuffix(pkg, "/chainhash")) && (strings.HasPrefix(fname, "Sum") || strings.HasPrefix(fname, "Hash") || strings.HasPrefix(fname, "DoubleHash")):
		return "cryptographic hash", false
	case !inMod && ci.Iface != nil && pkg == "hash" && meth == "Sum":
		return "cryptographic hash", false
	case !inMod && strings.HasSuffix(pkg, "/btcutil") && strings.HasPrefix(fname, "Hash"):
		return "cryptographic hash", false
	case !inMod && (meth == "TxHash" || meth == "WitnessHash"):
		return "transaction id (hash)", false
	case (ci.Static == nil || !inMod) && (meth == "SendRawTx" || meth == "SendRawTransaction"):
		return "transaction id returned by the node after broadcasting (hash)", true
	}
	return "", false
}

// c23SendNames: methods that hand a payload to the peer transport (swap.Messenger,
// messages.Messenger, the peersync ports and their adapters).
var c23SendNames = map[string]bool{"SendMessage": true, "SendCustomMessage": true}

const (
	c23KeyField     = "swap.CoopCloseMessage.Privkey"
	c23CancelField  = "swap.SwapData.CancelMessage"
	c23MarshalName  = "func:swap.MarshalPeerswapMessage"
	c23SendEvent    = "func:(*swap.SwapStateMachine).SendEvent"
	c23ApplyCtx     = "iface:swap.EventContext.ApplyToSwapData"
	c23PublicParams = "swap.OpeningParams"
)

// ---- graph ------------------------------------------------------------------------------

type c23Field string

type c23Ret struct {
	fn *ssa.Function
	i  int
}

// Edge kinds for call-site sensitivity: a path may climb out of callees (up)
// and then descend into callees (down), but never descend through one call
// site and climb back through another; the matched descend/climb pairs are
// replaced by per-call-site summary edges (argument -> result, argument ->
// other reference argument). Struct fields and globals are context-free.
const (
	c23Intra = iota
	c23Down
	c23Up
)

type c23Edge struct {
	to   interface{}
	pos  token.Pos
	why  string
	kind int
	site ssa.CallInstruction // the call this edge models (nil for plain data dependences)
	stmt ssa.Instruction     // the rendering statement this edge belongs to (its feasibility is decided per state)
}

// c23CallRec remembers how a call site is linked to a callee with a body.
type c23CallRec struct {
	f     *ssa.Function
	args  []ssa.Value // aligned with f.Params (nil = none)
	res   map[int]ssa.Value
	clean func(int) bool
	pos   token.Pos
	site  ssa.CallInstruction
}

type c23Origin struct {
	label string
	node  interface{}
	site  ssa.Instruction // statement where the secret enters (nil only for synthetic)
	what  string
}

type c23Graph struct {
	w        *an.World
	succ     map[interface{}][]c23Edge
	origins  []*c23Origin
	oseen    map[string]bool
	fns      map[*ssa.Function]bool
	queue    []*ssa.Function
	callees  map[ssa.CallInstruction][]*ssa.Function
	wire     map[string]bool // "Type.Field" keys of wire message types
	wireT    map[*types.Named]bool
	expCache map[string]*c23Exposure
	implOf   map[*types.Interface][]*types.Named
	named    []*types.Named // all in-module production named types
	nClean   map[string]int
	opq      map[types.Type]bool
	recs     []*c23CallRec
	sumSeen  map[string]bool
	marshals []c23Marshal
	curSite  ssa.CallInstruction // call being modelled while edges are added
	curStmt  ssa.Instruction     // rendering statement being modelled while edges are added
	stmtFeas func(ssa.Instruction) int
}

// c23Marshal is one call of MarshalPeerswapMessage.
type c23Marshal struct {
	call ssa.CallInstruction
	arg  ssa.Value
	res0 ssa.Value // the encoded bytes (nil if unused)
}

type c23Exposure struct {
	fields  []string
	methods []*ssa.Function
}

func (g *c23Graph) edge(from, to interface{}, pos token.Pos, why string) {
	g.edgeK(from, to, pos, why, c23Intra)
}

func (g *c23Graph) edgeK(from, to interface{}, pos token.Pos, why string, kind int) {
	if from == nil || to == nil || from == to {
		return
	}
	if c, ok := from.(*ssa.Const); ok && c != nil {
		return
	}
	if v, ok := from.(ssa.Value); ok && (c23NoData(v.Type()) || g.opaque(v.Type())) {
		return
	}
	if v, ok := to.(ssa.Value); ok && (c23NoData(v.Type()) || g.opaque(v.Type())) {
		return
	}
	if v, ok := from.(ssa.Value); ok && v == nil {
		return
	}
	g.succ[from] = append(g.succ[from], c23Edge{to, pos, why, kind, g.curSite, g.curStmt})
}

// opaque: (pointers to / slices of) structs declared in the module are handles:
// what they hold is represented by the field keys, so the handle itself never
// carries taint. This is what keeps `swap *SwapData` from spreading everything.
func (g *c23Graph) opaque(t types.Type) bool {
	if r, ok := g.opq[t]; ok {
		return r
	}
	r := false
	cur := t
	for i := 0; i < 6; i++ {
		switch u := cur.Underlying().(type) {
		case *types.Pointer:
			cur = u.Elem()
			continue
		case *types.Slice:
			cur = u.Elem()
			continue
		case *types.Array:
			cur = u.Elem()
			continue
		case *types.Struct:
			r = g.inModuleType(cur)
		}
		break
	}
	g.opq[t] = r
	return r
}

// c23NoData: values of these types cannot carry a secret (booleans: implicit
// flows are out of scope; functions).
func c23NoData(t types.Type) bool {
	if t == nil {
		return false
	}
	switch u := t.Underlying().(type) {
	case *types.Basic:
		return u.Info()&types.IsBoolean != 0
	case *types.Signature:
		return true
	}
	return false
}

// c23RefLike: a callee can write through an operand of this type.
func c23RefLike(t types.Type) bool {
	switch u := t.Underlying().(type) {
	case *types.Pointer, *types.Slice, *types.Map, *types.Chan:
		return true
	case *types.Interface:
		// writers (io.Writer, hash.Hash, ...) only; errors, contexts etc. are not written to
		for i := 0; i < u.NumMethods(); i++ {
			if n := u.Method(i).Name(); n == "Write" || n == "WriteString" {
				return true
			}
		}
	}
	return false
}

// c23ErrQuotes: packages whose functions render their operands into the error
// they return. For every other body-less callee (libraries, node RPC stubs) the
// trusted-base assumption is that error values do not contain the operands.
var c23ErrQuotes = map[string]bool{"fmt": true, "errors": true, "strconv": true, "net/url": true, "github.com/pkg/errors": true, "golang.org/x/xerrors": true}

func c23IsErr(t types.Type) bool { return an.IsErrorType(t) }

// fkey names a struct field module-wide: "<pkg rel>.<Type>.<Field>".
func (g *c23Graph) fkey(t types.Type, idx int) string {
	short := an.FieldName(t, idx)
	if n := an.NamedOf(t); n != nil && n.Obj().Pkg() != nil {
		if rel, ok := g.w.Rel(n.Obj().Pkg().Path()); ok {
			return rel + "." + short
		}
		return n.Obj().Pkg().Path() + "." + short
	}
	return short
}

func (g *c23Graph) inModuleType(t types.Type) bool {
	n := an.NamedOf(t)
	if n == nil || n.Obj().Pkg() == nil {
		return false
	}
	_, ok := g.w.Rel(n.Obj().Pkg().Path())
	return ok
}

func (g *c23Graph) want(fn *ssa.Function) bool {
	if fn == nil || fn.Blocks == nil {
		return false
	}
	rel := g.w.FnRel(fn)
	if rel == "" {
		// synthetic wrapper / bound method of a module type
		if fn.Synthetic == "" || !g.w.InModule(fn) {
			if fn.Object() == nil || fn.Object().Pkg() == nil {
				return false
			}
			r, ok := g.w.Rel(fn.Object().Pkg().Path())
			if !ok {
				return false
			}
			rel = r
		}
	}
	return !an.IsTestSupport(rel)
}

func (g *c23Graph) addFn(fn *ssa.Function) {
	if fn == nil || g.fns[fn] || !g.want(fn) {
		return
	}
	g.fns[fn] = true
	g.queue = append(g.queue, fn)
}

func (g *c23Graph) origin(label string, node interface{}, site ssa.Instruction, what string) {
	k := fmt.Sprintf("%s|%p|%p", label, site, node)
	if g.oseen[k] {
		return
	}
	g.oseen[k] = true
	g.origins = append(g.origins, &c23Origin{label: label, node: node, site: site, what: what})
}

// fromField links a field key to the value read from it. Source fields create
// an origin instead of an edge; wire fields are terminal (no out edges).
func (g *c23Graph) fromField(key string, to ssa.Value, at ssa.Instruction, how string) {
	if lab, ok := c23SourceFields[key]; ok {
		g.origin(lab, to, at, how+" of "+key)
		return
	}
	if g.wire[key] {
		return
	}
	g.edge(c23Field(key), to, at.Pos(), how+" of "+key)
}

func c23Pos(in ssa.Instruction) token.Pos {
	if in == nil {
		return token.NoPos
	}
	if p := in.Pos(); p.IsValid() {
		return p
	}
	// fall back to the closest positioned instruction of the block
	b := in.Block()
	if b != nil {
		idx := an.InstrIndex(in)
		for i := idx; i >= 0 && i < len(b.Instrs); i-- {
			if p := b.Instrs[i].Pos(); p.IsValid() {
				return p
			}
		}
		for i := idx; i >= 0 && i < len(b.Instrs); i++ {
			if p := b.Instrs[i].Pos(); p.IsValid() {
				return p
			}
		}
	}
	if in.Parent() != nil {
		return in.Parent().Pos()
	}
	return token.NoPos
}

func (g *c23Graph) build() {
	w := g.w
	// call-site -> callees from the VTA graph
	for fn, n := range w.CG().Nodes {
		if fn == nil || n == nil {
			continue
		}
		for _, e := range n.Out {
			if e.Site != nil && e.Callee != nil && e.Callee.Func != nil {
				g.callees[e.Site] = append(g.callees[e.Site], e.Callee.Func)
			}
		}
	}
	for site, fs := range g.callees {
		sort.Slice(fs, func(i, j int) bool { return w.FuncName(fs[i]) < w.FuncName(fs[j]) })
		g.callees[site] = fs
	}
	for _, fn := range prodFuncs(w) {
		g.addFn(fn)
	}
	for len(g.queue) > 0 {
		fn := g.queue[0]
		g.queue = g.queue[1:]
		for _, a := range fn.AnonFuncs {
			g.addFn(a)
		}
		for _, b := range fn.Blocks {
			for _, in := range b.Instrs {
				g.instr(fn, in)
			}
		}
	}
}

func (g *c23Graph) instr(fn *ssa.Function, in ssa.Instruction) {
	pos := c23Pos(in)
	switch x := in.(type) {
	case *ssa.Phi:
		for _, e := range x.Edges {
			g.edge(e, x, pos, "phi")
		}
	case *ssa.ChangeType:
		g.edge(x.X, x, pos, "convert")
	case *ssa.Convert:
		g.edge(x.X, x, pos, "convert")
	case *ssa.MultiConvert:
		g.edge(x.X, x, pos, "convert")
	case *ssa.SliceToArrayPointer:
		g.edge(x.X, x, pos, "convert")
		g.edge(x, x.X, pos, "alias")
	case *ssa.ChangeInterface:
		g.edge(x.X, x, pos, "interface conversion")
		if c23IsEmptyIface(x.Type()) {
			if it, ok := x.X.Type().Underlying().(*types.Interface); ok {
				for _, n := range g.implementers(it) {
					if types.Implements(n, it) {
						g.expose(n, x, in)
					} else {
						g.expose(types.NewPointer(n), x, in)
					}
				}
			}
		}
	case *ssa.MakeInterface:
		g.edge(x.X, x, pos, "interface conversion")
		if c23IsEmptyIface(x.Type()) {
			g.expose(x.X.Type(), x, in)
		}
	case *ssa.TypeAssert:
		g.edge(x.X, x, pos, "type assertion")
	case *ssa.BinOp:
		g.edge(x.X, x, pos, "operator "+x.Op.String())
		g.edge(x.Y, x, pos, "operator "+x.Op.String())
	case *ssa.UnOp:
		switch x.Op {
		case token.MUL:
			g.load(x, in)
		default:
			g.edge(x.X, x, pos, "operator "+x.Op.String())
		}
	case *ssa.Store:
		g.store(x)
	case *ssa.FieldAddr:
		g.edge(x.X, x, pos, "field address")
		if !g.inModuleType(c23Deref(x.X.Type())) {
			g.edge(x, x.X, pos, "part of library value")
		}
	case *ssa.Field:
		g.edge(x.X, x, pos, "field of tainted struct")
		g.fromField(g.fkey(x.X.Type(), x.Field), x, in, "read")
	case *ssa.IndexAddr:
		g.edge(x.X, x, pos, "element address")
		g.edge(x, x.X, pos, "element of")
	case *ssa.Index:
		g.edge(x.X, x, pos, "element")
	case *ssa.Lookup:
		g.edge(x.X, x, pos, "map/string element")
	case *ssa.Slice:
		g.edge(x.X, x, pos, "slice")
		if _, isStr := x.X.Type().Underlying().(*types.Basic); !isStr {
			g.edge(x, x.X, pos, "alias of sliced value")
		}
	case *ssa.Extract:
		if _, isCall := x.Tuple.(*ssa.Call); !isCall {
			g.edge(x.Tuple, x, pos, "tuple component")
		}
	case *ssa.MapUpdate:
		g.edge(x.Value, x.Map, pos, "map update")
		g.edge(x.Key, x.Map, pos, "map update (key)")
	case *ssa.Send:
		g.edge(x.X, x.Chan, pos, "channel send")
	case *ssa.Range:
		g.edge(x.X, x, pos, "range")
	case *ssa.Next:
		g.edge(x.Iter, x, pos, "range element")
	case *ssa.Select:
		for _, s := range x.States {
			if s.Dir == types.RecvOnly {
				g.edge(s.Chan, x, pos, "channel receive")
			} else if s.Send != nil {
				g.edge(s.Send, s.Chan, pos, "channel send")
			}
		}
	case *ssa.MakeClosure:
		if f, ok := x.Fn.(*ssa.Function); ok {
			g.addFn(f)
			for i, b := range x.Bindings {
				if i < len(f.FreeVars) {
					g.edge(b, f.FreeVars[i], pos, "captured by closure")
					if c23RefLike(b.Type()) {
						g.edge(f.FreeVars[i], b, pos, "written through captured variable")
					}
				}
			}
		}
	case *ssa.Return:
		for i, r := range x.Results {
			g.edge(r, c23Ret{fn, i}, pos, "returned from "+g.w.FuncName(fn))
		}
	case ssa.CallInstruction:
		g.call(fn, x)
	}
}

func c23Deref(t types.Type) types.Type {
	if p, ok := t.Underlying().(*types.Pointer); ok {
		return p.Elem()
	}
	return t
}

func c23IsEmptyIface(t types.Type) bool {
	it, ok := t.Underlying().(*types.Interface)
	return ok && it.NumMethods() == 0
}

func (g *c23Graph) load(x *ssa.UnOp, in ssa.Instruction) {
	pos := c23Pos(in)
	g.edge(x.X, x, pos, "load")
	if fa, ok := x.X.(*ssa.FieldAddr); ok {
		g.fromField(g.fkey(fa.X.Type(), fa.Field), x, in, "read")
	}
	// a reference loaded out of a library value is part of that value
	if c23RefLike(x.Type()) && !g.inModuleType(c23Deref(x.Type())) {
		if _, isAlloc := x.X.(*ssa.Alloc); !isAlloc {
			if fa, ok := x.X.(*ssa.FieldAddr); !ok || !g.inModuleType(c23Deref(fa.X.Type())) {
				g.edge(x, x.X, pos, "part of library value")
			}
		}
	}
}

func (g *c23Graph) store(s *ssa.Store) {
	pos := c23Pos(s)
	switch a := s.Addr.(type) {
	case *ssa.FieldAddr:
		key := g.fkey(a.X.Type(), a.Field)
		g.edge(s.Val, c23Field(key), pos, "stored into "+key)
		if !g.inModuleType(c23Deref(a.X.Type())) {
			g.edge(s.Val, a, pos, "stored into library value")
		}
	default:
		g.edge(s.Val, s.Addr, pos, "stored")
	}
}

func (g *c23Graph) resultNodes(c ssa.CallInstruction) map[int]ssa.Value {
	out := map[int]ssa.Value{}
	v := c.Value()
	if v == nil {
		return out
	}
	if tup, ok := v.Type().(*types.Tuple); ok {
		_ = tup
		if v.Referrers() != nil {
			for _, r := range *v.Referrers() {
				if e, ok := r.(*ssa.Extract); ok {
					out[e.Index] = e
				}
			}
		}
		return out
	}
	out[0] = v
	return out
}

func (g *c23Graph) call(fn *ssa.Function, c ssa.CallInstruction) {
	g.curSite = c
	defer func() { g.curSite = nil }()
	w := g.w
	cc := c.Common()
	ci := w.Info(c)
	pos := c23Pos(c)
	name := ci.Name
	res := g.resultNodes(c)

	// operands: receiver (invoke) + args
	var ops []ssa.Value
	if cc.IsInvoke() {
		ops = append(ops, cc.Value)
	}
	ops = append(ops, cc.Args...)

	if strings.HasPrefix(name, "builtin:") {
		switch name {
		case "builtin:append":
			for _, a := range cc.Args {
				g.edge(a, res[0], pos, "append")
			}
			if len(cc.Args) == 2 {
				g.edge(cc.Args[1], cc.Args[0], pos, "append into backing array")
			}
		case "builtin:copy":
			if len(cc.Args) == 2 {
				g.edge(cc.Args[1], cc.Args[0], pos, "copy")
			}
		case "builtin:min", "builtin:max":
			for _, a := range cc.Args {
				g.edge(a, res[0], pos, name)
			}
		}
		return
	}

	cleanWhy, cleanFirst := g.cleanReason(ci)
	if cleanWhy != "" {
		g.nClean[strings.TrimPrefix(strings.TrimPrefix(name, "iface:"), "func:")+" ("+cleanWhy+")"]++
	}
	clean := func(i int) bool {
		return cleanWhy != "" && (!cleanFirst || i == 0)
	}

	if name == c23MarshalName && len(cc.Args) == 1 {
		g.marshals = append(g.marshals, c23Marshal{call: c, arg: cc.Args[0], res0: res[0]})
	}
	// source calls
	if lab, ok := c23SourceCalls[name]; ok && (lab != "makerPreimage" || w.FnRel(fn) == "swap") {
		if r := res[0]; r != nil {
			g.origin(lab, r, c, "result of "+strings.TrimPrefix(strings.TrimPrefix(name, "iface:"), "func:"))
		}
	}

	// callees with bodies
	var bodies []*ssa.Function
	if f := cc.StaticCallee(); f != nil {
		if g.want(f) {
			bodies = append(bodies, f)
		}
	} else {
		for _, f := range g.callees[c] {
			if g.want(f) {
				bodies = append(bodies, f)
			}
		}
	}
	for _, f := range bodies {
		g.addFn(f)
		rec := &c23CallRec{f: f, args: make([]ssa.Value, len(f.Params)), res: res, clean: clean, pos: pos, site: c}
		if cc.IsInvoke() {
			// The interface value is not copied into the receiver of every
			// possible implementation (a value built by fmt.Errorf is not a
			// PeerNotAllowedError); struct receivers are handles anyway and the
			// result of a method on a tainted value is tainted below.
			for i, a := range cc.Args {
				if j := i + 1; j < len(f.Params) {
					rec.args[j] = a
				}
			}
		} else {
			// bound method closures etc.: align from the end
			off := len(f.Params) - len(ops)
			for i, a := range ops {
				if j := i + off; j >= 0 && j < len(f.Params) {
					rec.args[j] = a
				}
			}
		}
		for j, a := range rec.args {
			if a != nil {
				g.param(a, f.Params[j], pos, f)
			}
		}
		for i, r := range res {
			if !clean(i) {
				g.edgeK(c23Ret{f, i}, r, pos, "result of "+w.FuncName(f), c23Up)
			}
		}
		g.recs = append(g.recs, rec)
	}
	// calls into code without a body: every operand may end up in every result
	// and in every other reference-like operand
	if len(bodies) == 0 {
		short := strings.TrimPrefix(strings.TrimPrefix(name, "iface:"), "func:")
		quotes := c23ErrQuotes[ci.PkgPath]
		for _, a := range ops {
			for i, r := range res {
				if c23IsErr(r.Type()) && !quotes {
					continue
				}
				if !clean(i) {
					g.edge(a, r, pos, "through "+short)
				}
			}
			for _, b := range ops {
				if b != a && c23RefLike(b.Type()) {
					g.edge(a, b, pos, "written by "+short)
				}
			}
		}
	} else if cc.IsInvoke() {
		// dynamic types the call graph does not see (library errors etc.)
		for i, r := range res {
			if !clean(i) {
				g.edge(cc.Value, r, pos, "method of tainted value")
			}
		}
	}
}

func (g *c23Graph) param(arg ssa.Value, p *ssa.Parameter, pos token.Pos, f *ssa.Function) {
	g.edgeK(arg, p, pos, "argument of "+g.w.FuncName(f), c23Down)
	if c23RefLike(p.Type()) {
		g.edgeK(p, arg, pos, "written through parameter of "+g.w.FuncName(f), c23Up)
	}
}

// ---- rendering of whole values (fmt / json) ------------------------------------------------

func (g *c23Graph) implementers(it *types.Interface) []*types.Named {
	if r, ok := g.implOf[it]; ok {
		return r
	}
	var out []*types.Named
	if it.NumMethods() > 0 {
		for _, n := range g.named {
			if _, isI := n.Underlying().(*types.Interface); isI {
				continue
			}
			if types.Implements(n, it) || types.Implements(types.NewPointer(n), it) {
				out = append(out, n)
			}
		}
	}
	g.implOf[it] = out
	return out
}

// renderMode finds out who consumes a value converted to `any`: "fmt" (an
// operand of a fmt/log/errors call: a String/Error/Format method replaces the
// fields), "json" (encoding/json: exported fields, or a Marshal* method), or
// "any" (unknown consumer: everything).
func (g *c23Graph) renderMode(x ssa.Value) string {
	refs := x.Referrers()
	if refs == nil {
		return "any"
	}
	mode := ""
	merge := func(m string) {
		if mode == "" {
			mode = m
		} else if mode != m {
			mode = "any"
		}
	}
	callee := func(c ssa.CallInstruction) string {
		ci := g.w.Info(c)
		if ci.Static == nil {
			return "any"
		}
		switch ci.PkgPath {
		case "fmt", "log", "errors":
			return "fmt"
		case "encoding/json":
			return "json"
		}
		return "any"
	}
	for _, r := range *refs {
		switch y := r.(type) {
		case *ssa.DebugRef:
		case ssa.CallInstruction:
			merge(callee(y))
		case *ssa.Store:
			ia, ok := y.Addr.(*ssa.IndexAddr)
			al, ok2 := (ssa.Value)(nil), false
			if ok {
				al, ok2 = ia.X.(*ssa.Alloc)
			}
			if !ok || !ok2 || y.Val != x || al.Referrers() == nil {
				merge("any")
				continue
			}
			for _, ar := range *al.Referrers() {
				sl, ok := ar.(*ssa.Slice)
				if !ok {
					if _, isIA := ar.(*ssa.IndexAddr); !isIA {
						merge("any")
					}
					continue
				}
				if sl.Referrers() == nil {
					continue
				}
				for _, sr := range *sl.Referrers() {
					if c, ok := sr.(ssa.CallInstruction); ok {
						merge(callee(c))
					} else if _, ok := sr.(*ssa.DebugRef); !ok {
						merge("any")
					}
				}
			}
		default:
			merge("any")
		}
	}
	if mode == "" {
		mode = "any"
	}
	return mode
}

var c23FmtMethods = []string{"String", "Error", "Format", "GoString"}
var c23JSONMethods = []string{"MarshalJSON", "MarshalText"}

// exposure lists the field keys and renderer methods a rendering of a value of
// type t can show.
func (g *c23Graph) exposure(t types.Type, mode string) *c23Exposure {
	ck := mode + "|" + types.TypeString(t, nil)
	if e, ok := g.expCache[ck]; ok {
		return e
	}
	e := &c23Exposure{}
	g.expCache[ck] = e
	seenT := map[types.Type]bool{}
	seenF := map[string]bool{}
	seenM := map[*ssa.Function]bool{}
	methods := func(t types.Type, names []string) bool {
		found := false
		ms := g.w.Prog.MethodSets.MethodSet(t)
		for _, nm := range names {
			for i := 0; i < ms.Len(); i++ {
				if ms.At(i).Obj().Name() != nm || !g.inModuleType(t) {
					continue
				}
				f := g.w.Prog.MethodValue(ms.At(i))
				if f == nil || f.Blocks == nil {
					continue
				}
				found = true
				if !seenM[f] {
					seenM[f] = true
					e.methods = append(e.methods, f)
				}
			}
		}
		return found
	}
	var walk func(t types.Type, depth int, exported bool)
	walk = func(t types.Type, depth int, exported bool) {
		if t == nil || depth > 8 || seenT[t] {
			return
		}
		seenT[t] = true
		if an.NamedOf(t) != nil {
			fm := false
			jm := false
			if mode != "json" {
				fm = methods(t, c23FmtMethods)
			}
			if mode != "fmt" {
				jm = methods(t, c23JSONMethods)
			}
			// the method replaces the field-by-field rendering
			if (mode == "fmt" && fm && exported) || (mode == "json" && jm) {
				return
			}
		}
		switch u := t.Underlying().(type) {
		case *types.Pointer:
			walk(u.Elem(), depth+1, exported)
		case *types.Slice:
			walk(u.Elem(), depth+1, exported)
		case *types.Array:
			walk(u.Elem(), depth+1, exported)
		case *types.Map:
			walk(u.Key(), depth+1, exported)
			walk(u.Elem(), depth+1, exported)
		case *types.Struct:
			for i := 0; i < u.NumFields(); i++ {
				fld := u.Field(i)
				if mode == "json" && (!fld.Exported() || reflect.StructTag(u.Tag(i)).Get("json") == "-") {
					continue
				}
				k := g.fkey(t, i)
				if !seenF[k] {
					seenF[k] = true
					e.fields = append(e.fields, k)
				}
				walk(fld.Type(), depth+1, exported && fld.Exported())
			}
		}
	}
	walk(t, 0, true)
	return e
}

func (g *c23Graph) expose(t types.Type, to ssa.Value, at ssa.Instruction) {
	if _, isI := t.Underlying().(*types.Interface); isI {
		return
	}
	mode := g.renderMode(to)
	e := g.exposure(t, mode)
	g.curStmt = at
	defer func() { g.curStmt = nil }()
	how := "rendering (" + mode + ") of " + types.TypeString(t, func(p *types.Package) string { return p.Name() })
	how = strings.Replace(how, "(any)", "(fmt/json)", 1)
	for _, k := range e.fields {
		if lab, ok := c23SourceFields[k]; ok {
			g.origin(lab, to, at, how+" which contains "+k)
			continue
		}
		if g.wire[k] {
			continue
		}
		g.edge(c23Field(k), to, c23Pos(at), how+" which contains "+k)
	}
	for _, m := range e.methods {
		g.addFn(m)
		g.edgeK(c23Ret{m, 0}, to, c23Pos(at), how+" calls "+g.w.FuncName(m), c23Up)
	}
}

// ---- per-call-site summaries ------------------------------------------------------------------

// summarize adds, for every linked call site, the edges "argument i ->
// result j" and "argument i -> reference argument k" whenever parameter i
// reaches return slot j / parameter k inside the callee (using the summaries of
// its own callees), until nothing changes.
func (g *c23Graph) summarize() {
	byFn := map[*ssa.Function][]*c23CallRec{}
	for _, r := range g.recs {
		byFn[r.f] = append(byFn[r.f], r)
	}
	type out struct {
		ret   map[int]bool
		param map[int]bool
	}
	var fns []*ssa.Function
	for f := range byFn {
		fns = append(fns, f)
	}
	sort.Slice(fns, func(i, j int) bool {
		a, b := g.w.FuncName(fns[i]), g.w.FuncName(fns[j])
		if a != b {
			return a < b
		}
		return fns[i].Pos() < fns[j].Pos()
	})
	defer func() { g.curSite = nil }()
	for changed := true; changed; {
		changed = false
		for _, f := range fns {
			recs := byFn[f]
			pidx := map[interface{}]int{}
			for i, p := range f.Params {
				pidx[p] = i
			}
			for i, p := range f.Params {
				if c23NoData(p.Type()) || g.opaque(p.Type()) {
					continue
				}
				o := out{map[int]bool{}, map[int]bool{}}
				seen := map[interface{}]bool{p: true}
				q := []interface{}{p}
				for len(q) > 0 {
					n := q[0]
					q = q[1:]
					switch x := n.(type) {
					case c23Ret:
						if x.fn == f {
							o.ret[x.i] = true
						}
						continue
					case c23Field:
						continue
					case *ssa.Global:
						continue
					}
					if k, ok := pidx[n]; ok && k != i {
						o.param[k] = true
					}
					for _, e := range g.succ[n] {
						if e.kind != c23Intra || seen[e.to] {
							continue
						}
						seen[e.to] = true
						q = append(q, e.to)
					}
				}
				if len(o.ret) == 0 && len(o.param) == 0 {
					continue
				}
				for _, r := range recs {
					a := r.args[i]
					if a == nil {
						continue
					}
					g.curSite = r.site
					for j := range o.ret {
						if res := r.res[j]; res != nil && !r.clean(j) {
							k := fmt.Sprintf("%p>%p", a, res)
							if !g.sumSeen[k] {
								g.sumSeen[k] = true
								changed = true
								g.edge(a, res, r.pos, "through "+g.w.FuncName(f))
							}
						}
					}
					for j := range o.param {
						if b := r.args[j]; b != nil && c23RefLike(f.Params[j].Type()) {
							k := fmt.Sprintf("%p>%p", a, b)
							if !g.sumSeen[k] {
								g.sumSeen[k] = true
								changed = true
								g.edge(a, b, r.pos, "written by "+g.w.FuncName(f))
							}
						}
					}
				}
			}
		}
	}
}

// ---- search ---------------------------------------------------------------------------------

type c23State struct {
	n  interface{}
	ph int // 0: may still climb out of callees; 1: has descended into a callee
}

type c23Reach struct {
	parent map[c23State]c23State
	via    map[c23State]c23Edge
	first  map[interface{}]c23State // first state in which a node was reached
}

func (g *c23Graph) bfs(o *c23Origin, stopAtFields func(string) bool) *c23Reach {
	return g.bfsSkip(o, stopAtFields, nil)
}

// bfsSkip is bfs that does not follow the edges that model the calls in skip
// (used for encoded messages: what the peer transport does with the payload
// it is handed is not followed).
func (g *c23Graph) bfsSkip(o *c23Origin, stopAtFields func(string) bool, skip map[ssa.CallInstruction]bool) *c23Reach {
	start := c23State{o.node, 0}
	r := &c23Reach{parent: map[c23State]c23State{start: {}}, via: map[c23State]c23Edge{}, first: map[interface{}]c23State{o.node: start}}
	q := []c23State{start}
	for len(q) > 0 {
		st := q[0]
		q = q[1:]
		n := st.n
		if f, ok := n.(c23Field); ok && n != o.node {
			if g.wire[string(f)] {
				continue
			}
			if _, src := c23SourceFields[string(f)]; src {
				continue
			}
			if stopAtFields != nil && stopAtFields(string(f)) {
				continue
			}
		}
		for _, e := range g.succ[n] {
			if e.site != nil && skip[e.site] {
				continue
			}
			if e.stmt != nil && g.stmtFeas != nil && g.stmtFeas(e.stmt) == c23Yes {
				continue // the rendering statement cannot execute
			}
			ph := st.ph
			switch e.kind {
			case c23Up:
				if ph == 1 {
					continue
				}
			case c23Down:
				ph = 1
			}
			switch e.to.(type) {
			case c23Field, *ssa.Global:
				ph = 0 // the heap is context-free
			}
			nx := c23State{e.to, ph}
			if _, seen := r.parent[nx]; seen {
				continue
			}
			if ph == 1 {
				// already reached in the more permissive phase
				if _, seen := r.parent[c23State{e.to, 0}]; seen {
					continue
				}
			}
			r.parent[nx] = st
			r.via[nx] = e
			if _, ok := r.first[e.to]; !ok {
				r.first[e.to] = nx
			}
			q = append(q, nx)
		}
	}
	return r
}

func (r *c23Reach) has(n interface{}) bool {
	_, ok := r.first[n]
	return ok
}

func (g *c23Graph) nodeString(n interface{}) string {
	switch x := n.(type) {
	case c23Field:
		return "field " + string(x)
	case c23Ret:
		return fmt.Sprintf("result #%d of %s", x.i, g.w.FuncName(x.fn))
	case *ssa.Parameter:
		return fmt.Sprintf("parameter %s of %s", x.Name(), g.w.FuncName(x.Parent()))
	case *ssa.Global:
		return "global " + x.Name()
	case ssa.Value:
		fn := ""
		if x.Parent() != nil {
			fn = " in " + g.w.FuncName(x.Parent())
		}
		return fmt.Sprintf("%s%s", x.Name(), fn)
	}
	return fmt.Sprint(n)
}

// undecidedStmt returns a rendering statement on the witness path whose
// feasibility could not be decided (nil if none).
func (g *c23Graph) undecidedStmt(r *c23Reach, n interface{}) ssa.Instruction {
	cur, ok := r.first[n]
	for ok {
		p, has := r.parent[cur]
		if !has || p.n == nil {
			break
		}
		if e := r.via[cur]; e.stmt != nil && g.stmtFeas != nil && g.stmtFeas(e.stmt) == c23Unk {
			return e.stmt
		}
		cur = p
	}
	return nil
}

// path renders the witness from the origin to n.
func (g *c23Graph) path(o *c23Origin, r *c23Reach, n interface{}) []string {
	var rev []string
	cur, ok := r.first[n]
	for ok {
		p, has := r.parent[cur]
		if !has || p.n == nil {
			break
		}
		e := r.via[cur]
		step := fmt.Sprintf("%s: %s", g.w.Pos(e.pos), e.why)
		switch cur.n.(type) {
		case c23Field, *ssa.Parameter, *ssa.Global:
			step += " -> " + g.nodeString(cur.n)
		}
		rev = append(rev, step)
		cur = p
	}
	out := []string{fmt.Sprintf("%s: %s [%s] in %s", g.w.Pos(c23Pos(o.site)), o.what, o.label, g.w.FuncName(o.site.Parent()))}
	for i := len(rev) - 1; i >= 0; i-- {
		out = append(out, rev[i])
	}
	return out
}

// ---- sinks ----------------------------------------------------------------------------------

type c23Sink struct {
	kind  string // wire | marshal | send | cancel | params
	node  interface{}
	at    ssa.Instruction
	field string
	desc  string // construct text (no line numbers)
}

func (g *c23Graph) sinks() []*c23Sink {
	w := g.w
	var out []*c23Sink
	fns := make([]*ssa.Function, 0, len(g.fns))
	for f := range g.fns {
		fns = append(fns, f)
	}
	sort.Slice(fns, func(i, j int) bool {
		a, b := w.FuncName(fns[i]), w.FuncName(fns[j])
		if a != b {
			return a < b
		}
		return fns[i].Pos() < fns[j].Pos()
	})
	for _, fn := range fns {
		name := w.FuncName(fn)
		for _, b := range fn.Blocks {
			for _, in := range b.Instrs {
				switch x := in.(type) {
				case *ssa.Store:
					fa, ok := x.Addr.(*ssa.FieldAddr)
					if !ok {
						continue
					}
					key := g.fkey(fa.X.Type(), fa.Field)
					switch {
					case g.wire[key]:
						out = append(out, &c23Sink{"wire", x.Val, x, key, name + " store " + key})
					case key == c23CancelField:
						out = append(out, &c23Sink{"cancel", x.Val, x, key, name + " store " + key})
					case strings.HasPrefix(key, c23PublicParams+"."):
						out = append(out, &c23Sink{"params", x.Val, x, key, name + " store " + key})
					}
				case ssa.CallInstruction:
					ci := w.Info(x)
					cc := x.Common()
					if ci.Name == c23MarshalName {
						for _, a := range cc.Args {
							out = append(out, &c23Sink{"marshal", a, x, "", name + " argument of MarshalPeerswapMessage"})
						}
					}
					if c23SendNames[ci.Method] || (ci.Static != nil && c23SendNames[ci.Static.Name()]) {
						args := cc.Args
						for _, a := range args {
							if sl, ok := a.Type().Underlying().(*types.Slice); ok {
								if bt, ok := sl.Elem().Underlying().(*types.Basic); ok && bt.Kind() == types.Byte {
									out = append(out, &c23Sink{"send", a, x, "", name + " payload of " + strings.TrimPrefix(strings.TrimPrefix(ci.Name, "iface:"), "func:")})
								}
							}
						}
					}
				}
			}
		}
	}
	return out
}

// ---- feasibility: per-state definitely-set fields (E2+E4) -------------------------------------
//
// Every answer is three-valued: c23Yes (established), c23No (a concrete
// counterexample was found: an in-edge on which the field is not set), c23Unk
// (a shape the analysis cannot interpret). Only c23No makes a guarded flow a
// VIOLATION; c23Unk makes it undecided.

const (
	c23Yes = iota
	c23No
	c23Unk
)

type c23Inject struct {
	site   ssa.CallInstruction // outermost call site the event/context were resolved at
	events []string
	ctxs   []types.Type // alternatives for the context value; a nil entry = nil context
	ctxUnk bool         // the context value has a shape that is not understood
}

type c23Feas struct {
	c        *an.Check
	w        *an.World
	ts       []*TI
	swapData *types.Named
	prod     map[*ssa.Function]bool
	injects  []*c23Inject
	baseOK   bool
	baseWhy  string
	defset   map[string]map[*TI]map[string]bool // field -> table -> state -> set
	defpos   map[string]map[*TI]map[string]bool // ... -> "not set" is established (not merely unknown)
	whyNot   map[string]string
	whyPos   map[string]bool
	edgeWhy  map[string]string // field|table/state -> why an in-edge does not guarantee the field
	setMemo  map[string]int
	siteMemo map[ssa.Instruction]c23SiteVerdict
	jumps    map[string]bool // states entered by a direct assignment outside the tables
}

func c23NewFeas(c *an.Check, ts []*TI) *c23Feas {
	f := &c23Feas{c: c, w: c.W, ts: ts, defset: map[string]map[*TI]map[string]bool{}, defpos: map[string]map[*TI]map[string]bool{}, whyNot: map[string]string{}, whyPos: map[string]bool{}, edgeWhy: map[string]string{}, prod: map[*ssa.Function]bool{}, setMemo: map[string]int{}, siteMemo: map[ssa.Instruction]c23SiteVerdict{}}
	f.swapData = c.W.Named("swap", "SwapData")
	for _, fn := range prodFuncs(c.W) {
		f.prod[fn] = true
	}
	f.baseOK, f.baseWhy = f.base()
	return f
}

// staticCallers lists the call sites of fn if every way to reach fn is a
// static call in a production function (no function value, no interface).
func (f *c23Feas) staticCallers(fn *ssa.Function) ([]ssa.CallInstruction, bool) {
	n := f.w.CG().Nodes[fn]
	if n == nil || len(n.In) == 0 {
		return nil, false
	}
	var out []ssa.CallInstruction
	seen := map[ssa.CallInstruction]bool{}
	for _, in := range n.In {
		if in.Site != nil && in.Caller != nil && in.Caller.Func != nil && in.Caller.Func.Synthetic != "" && in.Site.Common().StaticCallee() == fn && !strings.HasSuffix(in.Caller.Func.Name(), "$bound") {
			// a compiler-made wrapper (promoted method, pointer receiver): its own
			// call sites are the call sites; a wrapper nobody calls is ignored
			wn := f.w.CG().Nodes[in.Caller.Func]
			if wn == nil || len(wn.In) == 0 {
				continue
			}
			sub, ok := f.staticCallers(in.Caller.Func)
			if !ok {
				return nil, false
			}
			for _, c := range sub {
				if !seen[c] {
					seen[c] = true
					out = append(out, c)
				}
			}
			continue
		}
		if in.Site == nil || in.Caller == nil || !f.prod[in.Caller.Func] || in.Site.Common().StaticCallee() != fn {
			return nil, false
		}
		if _, isGo := in.Site.(*ssa.Go); isGo {
			return nil, false
		}
		if !seen[in.Site] {
			seen[in.Site] = true
			out = append(out, in.Site)
		}
	}
	if len(out) == 0 {
		return nil, false
	}
	// a reference to fn as a value (method value, closure argument) escapes the call graph test above only if it is never called; be strict anyway
	for g := range f.prod {
		for _, b := range g.Blocks {
			for _, in := range b.Instrs {
				if mc, ok := in.(*ssa.MakeClosure); ok {
					if cf, ok := mc.Fn.(*ssa.Function); ok && cf.Synthetic != "" && cf.Object() != nil && fn.Object() != nil && cf.Object() == fn.Object() {
						return nil, false
					}
				}
			}
		}
	}
	sort.Slice(out, func(i, j int) bool { return out[i].Pos() < out[j].Pos() })
	return out, true
}

func c23ParamIndex(fn *ssa.Function, v ssa.Value) int {
	p, ok := v.(*ssa.Parameter)
	if !ok || p.Parent() != fn {
		return -1
	}
	for i, q := range fn.Params {
		if q == p {
			return i
		}
	}
	return -1
}

// ctxAlts lists what the context argument may be.
func c23CtxAlts(v ssa.Value, seen map[ssa.Value]bool) (alts []types.Type, unk bool) {
	if seen[v] {
		return nil, false
	}
	seen[v] = true
	switch x := v.(type) {
	case *ssa.MakeInterface:
		return []types.Type{x.X.Type()}, false
	case *ssa.Phi:
		for _, e := range x.Edges {
			a, u := c23CtxAlts(e, seen)
			alts = append(alts, a...)
			unk = unk || u
		}
		return alts, unk
	case *ssa.ChangeType:
		return c23CtxAlts(x.X, seen)
	}
	if an.IsNilConst(v) {
		return []types.Type{nil}, false
	}
	return nil, true
}

// msgTypes resolves the concrete types an interface value may hold by going
// back through phis, results of static in-module callees and parameters (to the
// enumerable call sites). ok=false: could be anything.
func (f *c23Feas) msgTypes(v ssa.Value, depth int, seen map[ssa.Value]bool) (out []types.Type, ok bool) {
	if seen[v] {
		return nil, true
	}
	seen[v] = true
	if depth > 4 {
		return nil, false
	}
	switch x := v.(type) {
	case *ssa.MakeInterface:
		return []types.Type{x.X.Type()}, true
	case *ssa.ChangeInterface:
		return f.msgTypes(x.X, depth, seen)
	case *ssa.ChangeType:
		return f.msgTypes(x.X, depth, seen)
	case *ssa.Phi:
		for _, e := range x.Edges {
			if an.IsNilConst(e) {
				continue
			}
			t, k := f.msgTypes(e, depth, seen)
			if !k {
				return nil, false
			}
			out = append(out, t...)
		}
		return out, true
	case *ssa.Call:
		callee := x.Common().StaticCallee()
		if callee == nil || !f.w.InModule(callee) || callee.Blocks == nil {
			return nil, false
		}
		for _, r := range an.Returns(callee) {
			if len(r.Results) == 0 || an.IsNilConst(r.Results[0]) {
				continue
			}
			t, k := f.msgTypes(r.Results[0], depth+1, seen)
			if !k {
				return nil, false
			}
			out = append(out, t...)
		}
		return out, true
	case *ssa.Parameter:
		fn := x.Parent()
		idx := c23ParamIndex(fn, x)
		callers, k := f.staticCallers(fn)
		if !k || idx < 0 {
			return nil, false
		}
		for _, gc := range callers {
			args := gc.Common().Args
			if idx >= len(args) {
				return nil, false
			}
			t, k := f.msgTypes(args[idx], depth+1, seen)
			if !k {
				return nil, false
			}
			out = append(out, t...)
		}
		return out, true
	}
	return nil, false
}

// resolveInject turns one SendEvent call into injections, following event and
// context values that are parameters of the enclosing function (a delivery
// helper) to the helper's call sites.
func (f *c23Feas) resolveInject(fn *ssa.Function, site ssa.CallInstruction, ev, ctx ssa.Value, depth int) {
	evs := eventValues(f.w, ev)
	evIdx, ctxIdx := c23ParamIndex(fn, ev), c23ParamIndex(fn, ctx)
	evOpen := evIdx >= 0 && len(evs) == 1 && evs[0] == "?"
	if (evOpen || ctxIdx >= 0) && depth < 3 {
		if callers, ok := f.staticCallers(fn); ok {
			for _, gc := range callers {
				args := gc.Common().Args
				ev2, ctx2 := ev, ctx
				if evOpen && evIdx < len(args) {
					ev2 = args[evIdx]
				}
				if ctxIdx >= 0 && ctxIdx < len(args) {
					ctx2 = args[ctxIdx]
				}
				f.resolveInject(gc.Parent(), gc, ev2, ctx2, depth+1)
			}
			return
		}
	}
	inj := &c23Inject{site: site, events: evs}
	inj.ctxs, inj.ctxUnk = c23CtxAlts(ctx, map[ssa.Value]bool{})
	f.injects = append(f.injects, inj)
}

// base checks the facts about the dispatcher the argument rests on. A failure
// means "cannot interpret", never "the property is broken".
func (f *c23Feas) base() (bool, string) {
	w := f.w
	if f.swapData == nil || len(f.ts) == 0 {
		return false, "swap.SwapData / tables not resolved"
	}
	se := w.Func("swap", "(*SwapStateMachine).SendEvent")
	rec := w.Func("swap", "(*SwapStateMachine).Recover")
	if se == nil || rec == nil {
		return false, "SendEvent / Recover not found"
	}
	// (1) Action.Execute is invoked only by SendEvent, Recover and wrapper actions
	nExec := 0
	for _, fn := range prodFuncs(w) {
		for _, call := range callsNamed(w, fn, fxActionExecute) {
			nExec++
			if fn != se && fn != rec && f.actionOf(fn) == nil && !c23OnlyCalledBy(w, fn, rec) && !c23OnlyCalledBy(w, fn, se) {
				return false, fmt.Sprintf("Action.Execute is also invoked by %s (%s)", w.FuncName(fn), w.Pos(call.Pos()))
			}
		}
	}
	if nExec < 2 {
		return false, "dispatch sites of Action.Execute not found"
	}
	// (2) in SendEvent the action runs only after ApplyToSwapData, unless the context is nil.
	// The application may sit in SendEvent or in a helper it calls with the context.
	if len(se.Params) < 3 {
		return false, "SendEvent: unexpected signature"
	}
	ctxParam := se.Params[2]
	var applies []ssa.Instruction
	for _, call := range an.Calls(se) {
		ci := w.Info(call)
		if ci.Name == c23ApplyCtx {
			applies = append(applies, call)
			continue
		}
		if ci.Static != nil && w.InModule(ci.Static) && ci.Static != se {
			for i, a := range call.Common().Args {
				if a == ssa.Value(ctxParam) && i < len(ci.Static.Params) && f.mustApply(ci.Static, ci.Static.Params[i]) {
					applies = append(applies, call)
				}
			}
		}
	}
	// the dispatch may likewise sit in a helper called only by SendEvent
	var execs []ssa.Instruction
	for _, call := range an.Calls(se) {
		ci := w.Info(call)
		if ci.Name == fxActionExecute {
			execs = append(execs, call)
		} else if ci.Static != nil && w.InModule(ci.Static) && ci.Static != se && len(callsNamed(w, ci.Static, fxActionExecute)) > 0 {
			execs = append(execs, call)
		}
	}
	if len(applies) == 0 || len(execs) == 0 {
		return false, "SendEvent: context application / action dispatch not found"
	}
	cut := map[an.Edge]bool{}
	for _, fa := range w.Facts(se) {
		if fa.NonNum && fa.Rel == "==" && ((fa.LV == ssa.Value(ctxParam) && an.IsNilConst(fa.RV)) || (fa.RV == ssa.Value(ctxParam) && an.IsNilConst(fa.LV))) {
			cut[fa.Edge] = true
		}
	}
	if len(cut) == 0 {
		return false, "SendEvent: no test of the event context against nil"
	}
	stop := map[*ssa.BasicBlock]bool{}
	for _, a := range applies {
		stop[a.Block()] = true
	}
	reach := an.ReachBlocks([]*ssa.BasicBlock{se.Blocks[0]}, cut, stop)
	for _, e := range execs {
		if stop[e.Block()] {
			// same block: the application must come first
			first := -1
			for _, a := range applies {
				if a.Block() == e.Block() && (first < 0 || an.InstrIndex(a) < first) {
					first = an.InstrIndex(a)
				}
			}
			if first >= 0 && first < an.InstrIndex(e) {
				continue
			}
			return false, "SendEvent: the action is dispatched before the context is applied"
		}
		if reach[e.Block()] {
			return false, "SendEvent: the action can run with a non-nil context that was not applied"
		}
	}
	// (3) the SwapData object of a machine is only installed while the machine is
	// constructed (store into a freshly allocated SwapStateMachine)
	for _, st := range w.FieldWriters("SwapStateMachine.Data") {
		fn := st.Parent()
		if an.IsTestSupport(w.FnRel(fn)) {
			continue
		}
		fa, _ := st.Addr.(*ssa.FieldAddr)
		if fa == nil {
			return false, fmt.Sprintf("SwapStateMachine.Data is written in %s in a way that is not understood", w.FuncName(fn))
		}
		if _, fresh := fa.X.(*ssa.Alloc); !fresh {
			return false, fmt.Sprintf("SwapStateMachine.Data of an existing machine is replaced in %s", w.FuncName(fn))
		}
	}
	// (4) no whole-struct overwrite of a SwapData
	for _, fn := range prodFuncs(w) {
		for _, b := range fn.Blocks {
			for _, in := range b.Instrs {
				st, ok := in.(*ssa.Store)
				if !ok {
					continue
				}
				if n, ok := st.Val.Type().(*types.Named); ok && n == f.swapData {
					if al, isAlloc := st.Addr.(*ssa.Alloc); isAlloc && al.Comment == "complit" {
						continue
					}
					return false, fmt.Sprintf("a whole SwapData value is overwritten in %s", w.FuncName(fn))
				}
			}
		}
	}
	// (4b) the current state changes only by the table transition in SendEvent;
	// any other assignment must name a constant state, which is then treated
	// like the default state (nothing known about the fields on entry)
	f.jumps = map[string]bool{}
	var resolveState func(fn *ssa.Function, v ssa.Value, depth int) bool
	resolveState = func(fn *ssa.Function, v ssa.Value, depth int) bool {
		if fn == se {
			return true // the transition proper
		}
		if st, ok := an.ConstString(v); ok {
			f.jumps[st] = true
			return true
		}
		idx := c23ParamIndex(fn, v)
		if idx < 0 || depth > 2 {
			return false
		}
		callers, ok := f.staticCallers(fn)
		if !ok {
			return false
		}
		for _, gc := range callers {
			args := gc.Common().Args
			if idx >= len(args) || !resolveState(gc.Parent(), args[idx], depth+1) {
				return false
			}
		}
		return true
	}
	for _, st := range w.FieldWriters("SwapStateMachine.Current") {
		fn := st.Parent()
		if an.IsTestSupport(w.FnRel(fn)) {
			continue
		}
		if _, fresh := st.Addr.(*ssa.FieldAddr).X.(*ssa.Alloc); fresh {
			continue // construction
		}
		if !resolveState(fn, st.Val, 0) {
			return false, fmt.Sprintf("the current state is assigned in %s from a value that is neither the table transition nor a constant", w.FuncName(fn))
		}
	}
	// (5) event injection sites (resolved through delivery helpers)
	nSites := 0
	for _, fn := range prodFuncs(w) {
		for _, call := range callsNamed(w, fn, c23SendEvent) {
			args := call.Common().Args
			if len(args) != 3 {
				return false, "SendEvent call with unexpected arity"
			}
			nSites++
			f.resolveInject(fn, call, args[1], args[2], 0)
		}
	}
	if nSites < 3 || len(f.injects) < 10 {
		return false, "fewer event injections than confirmed"
	}
	return true, ""
}

// mustApply: helper fn applies the context parameter (EventContext.ApplyToSwapData
// on it) on every path to a return, unless the context is nil.
func (f *c23Feas) mustApply(fn *ssa.Function, ctx *ssa.Parameter) bool {
	if fn.Blocks == nil {
		return false
	}
	var applies []ssa.Instruction
	for _, call := range callsNamed(f.w, fn, c23ApplyCtx) {
		if call.Common().Value == ssa.Value(ctx) {
			applies = append(applies, call)
		}
	}
	if len(applies) == 0 {
		return false
	}
	cut := map[an.Edge]bool{}
	for _, fa := range f.w.Facts(fn) {
		if fa.NonNum && fa.Rel == "==" && ((fa.LV == ssa.Value(ctx) && an.IsNilConst(fa.RV)) || (fa.RV == ssa.Value(ctx) && an.IsNilConst(fa.LV))) {
			cut[fa.Edge] = true
		}
	}
	stop := map[*ssa.BasicBlock]bool{}
	for _, a := range applies {
		stop[a.Block()] = true
	}
	reach := an.ReachBlocks([]*ssa.BasicBlock{fn.Blocks[0]}, cut, stop)
	for _, r := range an.Returns(fn) {
		if reach[r.Block()] && !stop[r.Block()] {
			return false
		}
	}
	return true
}

// actionOf returns the action type whose Execute method fn is (nil otherwise).
func (f *c23Feas) actionOf(fn *ssa.Function) *types.Named {
	if fn == nil || fn.Name() != "Execute" || fn.Signature.Recv() == nil {
		return nil
	}
	n := an.NamedOf(fn.Signature.Recv().Type())
	if n == nil {
		return nil
	}
	if _, ok := f.ts[0].F.Exec[n]; ok {
		return n
	}
	return nil
}

// mustSet: fn leaves SwapData.<field> of `data` non-nil on every return
// (stores in fn or in static in-module callees that receive `data`).
func (f *c23Feas) mustSet(fn *ssa.Function, data ssa.Value, field string, depth int) int {
	if fn == nil || fn.Blocks == nil {
		return c23Unk
	}
	key := fmt.Sprintf("%p|%p|%s", fn, data, field)
	if v, ok := f.setMemo[key]; ok {
		return v
	}
	f.setMemo[key] = c23Unk // recursion guard
	var sure, maybe []ssa.Instruction
	for _, b := range fn.Blocks {
		for _, in := range b.Instrs {
			switch x := in.(type) {
			case *ssa.Store:
				if fa, ok := x.Addr.(*ssa.FieldAddr); ok && fa.X == data && an.FieldName(fa.X.Type(), fa.Field) == "SwapData."+field {
					if c23NonNil(x.Val) || f.paramAlwaysNonNil(fn, x.Val, 0) {
						sure = append(sure, x)
					} else if !an.IsNilConst(x.Val) {
						maybe = append(maybe, x)
					}
				}
			case ssa.CallInstruction:
				cc := x.Common()
				passes := false
				idx := -1
				for i, a := range cc.Args {
					if a == data {
						passes, idx = true, i
					}
				}
				if !passes {
					continue
				}
				callee := cc.StaticCallee()
				if callee == nil || !f.w.InModule(callee) || depth >= 2 || idx >= len(callee.Params) {
					maybe = append(maybe, x)
					continue
				}
				switch f.mustSet(callee, callee.Params[idx], field, depth+1) {
				case c23Yes:
					sure = append(sure, x)
				case c23Unk:
					maybe = append(maybe, x)
				}
			}
		}
	}
	res := c23Yes
	for _, r := range an.Returns(fn) {
		if len(sure) > 0 && an.MustPassInstr(r, sure) {
			continue
		}
		guarded := false
		for _, fa := range f.w.FactsDominatingBlock(r.Block()) {
			if fa.NonNum && fa.Rel == "!=" && c23NilTestOf(fa, map[ssa.Value]bool{data: true}, field) {
				guarded = true
			}
		}
		if guarded {
			continue
		}
		if len(maybe) > 0 && an.MustPassInstr(r, append(append([]ssa.Instruction{}, sure...), maybe...)) {
			if res == c23Yes {
				res = c23Unk
			}
			continue
		}
		res = c23No
	}
	f.setMemo[key] = res
	return res
}

// ctxSets: ApplyToSwapData of the context type leaves SwapData.<field> non-nil on every return.
func (f *c23Feas) ctxSets(t types.Type, field string) int {
	n := an.NamedOf(t)
	if n == nil {
		return c23Unk
	}
	fn := c23DeclaredMethod(f.w, n, "ApplyToSwapData")
	if fn == nil || fn.Blocks == nil || len(fn.Params) != 2 {
		return c23Unk
	}
	return f.mustSet(fn, fn.Params[1], field, 0)
}

// c23DeclaredMethod returns the source-level method (not a pointer wrapper).
func c23DeclaredMethod(w *an.World, n *types.Named, meth string) *ssa.Function {
	for _, t := range []types.Type{n, types.NewPointer(n)} {
		ms := w.Prog.MethodSets.MethodSet(t)
		for i := 0; i < ms.Len(); i++ {
			if ms.At(i).Obj().Name() == meth {
				if f := w.Prog.MethodValue(ms.At(i)); f != nil && f.Synthetic == "" {
					return f
				}
			}
		}
	}
	return nil
}

func c23NonNil(v ssa.Value) bool {
	switch x := v.(type) {
	case *ssa.Alloc:
		return true
	case *ssa.MakeInterface:
		return true
	case *ssa.ChangeType:
		return c23NonNil(x.X)
	}
	return false
}

// c23NilTestOf: the fact compares SwapData.<field> of one of the `data` values with nil.
func c23NilTestOf(fa an.Fact, data map[ssa.Value]bool, field string) bool {
	isLoad := func(v ssa.Value) bool {
		u, ok := v.(*ssa.UnOp)
		if !ok || u.Op != token.MUL {
			return false
		}
		a, ok := u.X.(*ssa.FieldAddr)
		return ok && data[a.X] && an.FieldName(a.X.Type(), a.Field) == "SwapData."+field
	}
	return (isLoad(fa.LV) && an.IsNilConst(fa.RV)) || (isLoad(fa.RV) && an.IsNilConst(fa.LV))
}

// fieldOK: global conditions on a SwapData field (only non-nil values are ever
// stored; the field survives the store round trip).
func (f *c23Feas) fieldOK(field string) (int, string) {
	st, _ := f.swapData.Underlying().(*types.Struct)
	persisted := false
	for i := 0; st != nil && i < st.NumFields(); i++ {
		if st.Field(i).Name() == field {
			tag := reflect.StructTag(st.Tag(i)).Get("json")
			persisted = st.Field(i).Exported() && tag != "-"
		}
	}
	if !persisted {
		return c23No, "SwapData." + field + " is not persisted (recovery would run the action without it)"
	}
	n := 0
	for _, s := range f.w.FieldWriters("SwapData." + field) {
		if an.IsTestSupport(f.w.FnRel(s.Parent())) {
			continue
		}
		n++
		if an.IsNilConst(s.Val) {
			return c23No, fmt.Sprintf("SwapData.%s is reset to nil in %s", field, f.w.FuncName(s.Parent()))
		}
		if !c23NonNil(s.Val) {
			// a pointer handed to a setter helper: non-nil if every call site passes a non-nil value
			if f.paramAlwaysNonNil(s.Parent(), s.Val, 0) {
				continue
			}
			return c23Unk, fmt.Sprintf("SwapData.%s is assigned a value in %s that is not known to be non-nil", field, f.w.FuncName(s.Parent()))
		}
	}
	if n == 0 {
		return c23Unk, "SwapData." + field + " is never assigned"
	}
	return c23Yes, ""
}

// paramAlwaysNonNil: v is a parameter of fn and every (static, enumerable) call
// site passes a provably non-nil value.
func (f *c23Feas) paramAlwaysNonNil(fn *ssa.Function, v ssa.Value, depth int) bool {
	idx := c23ParamIndex(fn, v)
	if idx < 0 || depth > 2 {
		return false
	}
	callers, ok := f.staticCallers(fn)
	if !ok {
		return false
	}
	for _, gc := range callers {
		args := gc.Common().Args
		if idx >= len(args) {
			return false
		}
		if !c23NonNil(args[idx]) && !f.paramAlwaysNonNil(gc.Parent(), args[idx], depth+1) {
			return false
		}
	}
	return true
}

// injectSets: every external injection of ev carries a context that sets the
// field; otherwise c23No (a counterexample injection) / c23Unk and the reason.
func (f *c23Feas) injectSets(ev, field string) (int, string) {
	n := 0
	res, why := c23Yes, ""
	worse := func(v int, w string) {
		if v == c23No && res != c23No || v == c23Unk && res == c23Yes {
			res, why = v, w
		}
	}
	for _, inj := range f.injects {
		hit, open := false, false
		for _, e := range inj.events {
			if e == "?" {
				open = true
			}
			if e == ev {
				hit = true
			}
		}
		at := fmt.Sprintf("%s (%s)", f.w.Pos(inj.site.Pos()), f.w.FuncName(inj.site.Parent()))
		if open {
			worse(c23Unk, fmt.Sprintf("the event sent at %s is not a constant", at))
			continue
		}
		if !hit {
			continue
		}
		n++
		if inj.ctxUnk {
			worse(c23Unk, fmt.Sprintf("%s is sent at %s with a context value of a shape that is not understood", ev, at))
		}
		for _, ct := range inj.ctxs {
			if ct == nil {
				worse(c23No, fmt.Sprintf("%s is sent at %s without a context (or with a context that may be nil)", ev, at))
				continue
			}
			tn := types.TypeString(ct, func(p *types.Package) string { return p.Name() })
			switch f.ctxSets(ct, field) {
			case c23No:
				worse(c23No, fmt.Sprintf("%s is sent at %s with a %s, whose ApplyToSwapData has a path to a return that does not set SwapData.%s", ev, at, tn, field))
			case c23Unk:
				worse(c23Unk, fmt.Sprintf("%s is sent at %s with a %s; whether its ApplyToSwapData always sets SwapData.%s could not be decided", ev, at, tn, field))
			}
		}
	}
	if n == 0 && res == c23Yes {
		return c23Unk, ev + " is sent by no SendEvent call with a constant event"
	}
	return res, why
}

// defSet computes, per table and state, whether SwapData.<field> is non-nil
// whenever the action of the state runs (greatest fixpoint). defpos tells for
// the states where it is not whether that is established by a counterexample.
func (f *c23Feas) defSet(field string) map[*TI]map[string]bool {
	if r, ok := f.defset[field]; ok {
		return r
	}
	res := map[*TI]map[string]bool{}
	pos := map[*TI]map[string]bool{}
	f.defset[field] = res
	f.defpos[field] = pos
	okv, why := f.fieldOK(field)
	if !f.baseOK {
		okv, why = c23Unk, f.baseWhy
	}
	ok := okv == c23Yes
	f.whyNot[field] = why
	f.whyPos[field] = okv == c23No
	for _, t := range f.ts {
		m := map[string]bool{}
		pm := map[string]bool{}
		res[t] = m
		pos[t] = pm
		for _, s := range t.T.Order {
			m[s] = ok && s != "" && !f.jumps[s]
			pm[s] = s == "" || f.jumps[s] || okv == c23No
		}
		if !ok {
			continue
		}
		for changed := true; changed; {
			changed = false
			for _, s := range t.T.Order {
				if !m[s] {
					continue
				}
				for _, in := range t.T.InEdges(s) {
					p, ev := in[0], in[1]
					if m[p] {
						continue
					}
					reason, positive := "", false
					if t.Sum[p].Events[ev] {
						reason = fmt.Sprintf("%s is returned by the action of %s, where the field need not be set", ev, nonEmpty(p))
						positive = pm[p]
					} else if t.Sum[p].Unknown {
						reason = fmt.Sprintf("the events returned by the action of %s could not be resolved", nonEmpty(p))
					} else if v, why := f.injectSets(ev, field); v != c23Yes {
						reason, positive = why, v == c23No && pm[p]
					}
					if reason == "" {
						continue
					}
					m[s] = false
					pm[s] = positive
					f.edgeWhy[field+"|"+t.key(s)] = fmt.Sprintf("%s --%s-->: %s", nonEmpty(p), ev, reason)
					changed = true
					break
				}
			}
		}
	}
	return res
}

// c23Level is one frame of a call chain from an action's Execute down to the
// function that contains the origin statement.
type c23Level struct {
	fn    *ssa.Function
	block *ssa.BasicBlock     // block of the origin statement / of the call to the next lower frame
	call  ssa.CallInstruction // call to the next lower frame (nil in the lowest frame)
}

// chains enumerates the call chains (lowest frame first) that lead from an
// action's Execute (or, failing that, from a function whose callers cannot be
// enumerated) to the origin statement.
func (f *c23Feas) chains(fn *ssa.Function, block *ssa.BasicBlock, call ssa.CallInstruction, depth int, cur []c23Level, out *[][]c23Level) {
	cur = append(append([]c23Level{}, cur...), c23Level{fn, block, call})
	if f.actionOf(fn) != nil || depth >= 3 {
		*out = append(*out, cur)
		return
	}
	callers, ok := f.staticCallers(fn)
	if !ok || len(callers) > 6 {
		*out = append(*out, cur)
		return
	}
	for _, gc := range callers {
		f.chains(gc.Parent(), gc.Block(), gc, depth+1, cur, out)
	}
}

// infeasible decides whether the origin statement can execute at all. The
// statement sits in the Execute of an action, or in a helper reached from one by
// static calls that hand the SwapData on, behind `swap.F == nil` tests; it is
// unreachable if in every state that runs the action some such F is set.
// Result: c23Yes = unreachable, c23No = reachable (or not guarded at all),
// c23Unk = guarded, but the argument could not be completed.
func (f *c23Feas) infeasible(site ssa.Instruction) (int, string) {
	if site == nil {
		return c23No, ""
	}
	if m, ok := f.siteMemo[site]; ok {
		return m.v, m.why
	}
	v, why := f.infeasible0(site)
	f.siteMemo[site] = c23SiteVerdict{v, why}
	return v, why
}

type c23SiteVerdict struct {
	v   int
	why string
}

func (f *c23Feas) infeasible0(site ssa.Instruction) (int, string) {
	var chains [][]c23Level
	f.chains(site.Parent(), site.Block(), nil, 0, nil, &chains)
	res, why := c23Yes, ""
	var okWhy []string
	for _, ch := range chains {
		v, w := f.chainInfeasible(ch)
		switch v {
		case c23No:
			return c23No, w
		case c23Unk:
			if res == c23Yes {
				res, why = c23Unk, w
			}
		default:
			okWhy = append(okWhy, w)
		}
	}
	if res == c23Yes {
		why = strings.Join(okWhy, "; ")
	}
	return res, why
}

func (f *c23Feas) chainInfeasible(ch []c23Level) (int, string) {
	top := ch[len(ch)-1]
	act := f.actionOf(top.fn)
	st, _ := f.swapData.Underlying().(*types.Struct)
	// walk down from the top frame, tracking which values are the action's SwapData
	data := map[ssa.Value]bool{}
	if act != nil && top.fn.Synthetic == "" && len(top.fn.Params) == 3 {
		data[top.fn.Params[2]] = true
	}
	fieldSet := map[string]bool{}
	anyGuard := false
	opaqueGuard := ""
	for i := len(ch) - 1; i >= 0; i-- {
		lv := ch[i]
		for _, fa := range f.w.FactsDominatingBlock(lv.block) {
			// a predicate over the swap data that is not looked into
			if call, isCall := fa.Cond.(*ssa.Call); isCall && (fa.Rel == "true" || fa.Rel == "false") {
				ops := append([]ssa.Value{}, call.Common().Args...)
				if call.Common().IsInvoke() {
					ops = append(ops, call.Common().Value)
				}
				for _, a := range ops {
					if data[a] {
						opaqueGuard = fmt.Sprintf("%s (%s)", f.w.Info(call).Name, f.w.Pos(call.Pos()))
					}
				}
			}
			if !fa.NonNum || fa.Rel != "==" {
				continue
			}
			for k := 0; st != nil && k < st.NumFields(); k++ {
				if c23NilTestOf(fa, data, st.Field(k).Name()) {
					fieldSet[st.Field(k).Name()] = true
				}
				// a nil test on a SwapData field of a value we cannot tie to the action
				if act == nil && c23NilTestOfAny(fa, st.Field(k).Name()) {
					anyGuard = true
				}
			}
		}
		if i == 0 {
			break
		}
		next := ch[i-1]
		nd := map[ssa.Value]bool{}
		args := lv.call.Common().Args
		for k, a := range args {
			if data[a] && k < len(next.fn.Params) {
				nd[next.fn.Params[k]] = true
			}
		}
		data = nd
	}
	if act == nil {
		if anyGuard {
			return c23Unk, fmt.Sprintf("the statement is behind nil tests of SwapData fields, but %s is not reached from an action's Execute by enumerable static calls", f.w.FuncName(top.fn))
		}
		return c23No, ""
	}
	var fields []string
	for k := range fieldSet {
		fields = append(fields, k)
	}
	if len(fields) == 0 {
		if opaqueGuard != "" {
			return c23Unk, "the statement is behind the predicate " + opaqueGuard + " over the swap data, which is not interpreted"
		}
		return c23No, ""
	}
	sort.Strings(fields)
	guard := "swap." + strings.Join(fields, " == nil && swap.") + " == nil"
	fn := top.fn
	// the action is entered only through the dispatcher
	if n := f.w.CG().Nodes[fn]; n != nil {
		for _, in := range n.In {
			if in.Site == nil {
				continue
			}
			if in.Caller != nil && in.Caller.Func != nil && in.Caller.Func.Synthetic != "" && f.actionOf(in.Caller.Func) == act {
				continue // pointer-receiver wrapper of the same method
			}
			if f.w.Info(in.Site).Name != fxActionExecute {
				return c23Unk, fmt.Sprintf("the guard `%s` cannot be resolved: %s is also called directly from %s", guard, f.w.FuncName(fn), f.w.FuncName(in.Caller.Func))
			}
		}
	}
	users := 0
	var open []string
	positive := false
	for _, t := range f.ts {
		for _, s := range t.T.Order {
			uses := false
			for _, e := range t.Sum[s].Execs {
				if f.actionOf(e) == act {
					uses = true
				}
			}
			if !uses {
				continue
			}
			users++
			set := false
			for _, fld := range fields {
				if f.defSet(fld)[t][s] {
					set = true
				}
			}
			if set {
				continue
			}
			// reachable with all guard fields unset only if that is established for every field
			allPos := true
			var whys []string
			for _, fld := range fields {
				if w := f.whyNot[fld]; w != "" {
					whys = append(whys, w)
					allPos = allPos && f.whyPos[fld]
				} else {
					if w := f.edgeWhy[fld+"|"+t.key(s)]; w != "" {
						whys = append(whys, "SwapData."+fld+": "+w)
					}
					allPos = allPos && f.defpos[fld][t][s]
				}
			}
			if allPos {
				positive = true
			}
			open = append(open, fmt.Sprintf("in %s [%s]", t.key(s), strings.Join(whys, "; ")))
		}
	}
	if users == 0 {
		return c23Unk, "the action is in no table"
	}
	if len(open) > 0 {
		if positive {
			return c23No, "the statement is guarded by `" + guard + "`, which is satisfiable: " + strings.Join(open, " | ")
		}
		return c23Unk, "the statement is guarded by `" + guard + "`; that this is unsatisfiable could not be established: " + strings.Join(open, " | ")
	}
	via := ""
	if len(ch) > 1 {
		via = fmt.Sprintf(" (statement in %s, reached from there by static calls)", f.w.FuncName(ch[0].fn))
	}
	return c23Yes, fmt.Sprintf("guarded by `%s`; in each of the %d states that run %s%s one of these fields is set on every in-edge (context applied by SendEvent before the transition, never reset to nil, persisted)", guard, users, f.w.FuncName(fn), via)
}

// c23NilTestOfAny: the fact compares the SwapData.<field> of any value with nil.
func c23NilTestOfAny(fa an.Fact, field string) bool {
	isLoad := func(v ssa.Value) bool {
		u, ok := v.(*ssa.UnOp)
		if !ok || u.Op != token.MUL {
			return false
		}
		a, ok := u.X.(*ssa.FieldAddr)
		return ok && an.FieldName(a.X.Type(), a.Field) == "SwapData."+field
	}
	return (isLoad(fa.LV) && an.IsNilConst(fa.RV)) || (isLoad(fa.RV) && an.IsNilConst(fa.LV))
}

// ---- the rules --------------------------------------------------------------------------------

func runC23(c *an.Check) {
	c.Rule("C23.R1", "no secret (key, preimages, signer, rendering of a struct holding one) flows into a wire-message field, the MarshalPeerswapMessage argument, a SendMessage payload or SwapData.CancelMessage; only exception: the key into CoopCloseMessage.Privkey in a disclosing function")
	c.Rule("C23.R2", "disclosing functions appear only in taker tables and never after a successful payment (decided by C06.R1/R2)")
	c.Rule("C23.R3", "a preimage from lightning.GetPreimage reaches directly only GetPayreq and SwapData fields; no secret reaches a field of OpeningParams")
	w := c.W
	if !needEffects(c, fxGetPayreq, fxPay, fxPayViaChannel, fxPayInvoice, fxRecoverPay, fxSendMessage, fxActionExecute) {
		return
	}
	// anchors: source fields, wire interface, key field
	for k := range c23SourceFields {
		if !c23FieldExists(w, k) {
			c.Anchor("source field %s does not resolve", k)
		}
	}
	for _, k := range []string{c23KeyField, c23CancelField, "swap.CancelMessage.Message", "swap.CoopCloseMessage.Message"} {
		if !c23FieldExists(w, k) {
			c.Anchor("field %s does not resolve", k)
		}
	}
	pm := w.Named("swap", "PeerMessage")
	if pm == nil || w.Func("swap", "MarshalPeerswapMessage") == nil || w.Func("lightning", "GetPreimage") == nil || w.Named("swap", "OpeningParams") == nil {
		c.Anchor("swap.PeerMessage / swap.MarshalPeerswapMessage / lightning.GetPreimage / swap.OpeningParams do not resolve")
	}
	if len(c.Anchors) > 0 {
		return
	}
	ts := tables(c)
	if ts == nil {
		return
	}
	dis := disclosingFuncs(w)
	if !c.AtLeast("C23", "disclosing functions", len(dis), 1) {
		return
	}

	g := &c23Graph{w: w, succ: map[interface{}][]c23Edge{}, oseen: map[string]bool{}, fns: map[*ssa.Function]bool{}, callees: map[ssa.CallInstruction][]*ssa.Function{}, wire: map[string]bool{}, wireT: map[*types.Named]bool{}, expCache: map[string]*c23Exposure{}, implOf: map[*types.Interface][]*types.Named{}, nClean: map[string]int{}, opq: map[types.Type]bool{}, sumSeen: map[string]bool{}}
	// all production named types; wire types = implementers of swap.PeerMessage
	for rel, p := range w.ByRel {
		if an.IsTestSupport(rel) {
			continue
		}
		sc := p.Types.Scope()
		for _, nm := range sc.Names() {
			if tn, ok := sc.Lookup(nm).(*types.TypeName); ok {
				if n, ok := tn.Type().(*types.Named); ok && !tn.IsAlias() {
					g.named = append(g.named, n)
				}
			}
		}
	}
	sort.Slice(g.named, func(i, j int) bool { return g.named[i].String() < g.named[j].String() })
	pmi, _ := pm.Underlying().(*types.Interface)
	for _, n := range g.implementers(pmi) {
		st, ok := n.Underlying().(*types.Struct)
		if !ok {
			continue
		}
		g.wireT[n] = true
		for i := 0; i < st.NumFields(); i++ {
			g.wire[g.fkey(n, i)] = true
		}
	}
	if !c.AtLeast("C23.R1", "wire message types (implementers of swap.PeerMessage)", len(g.wireT), 7) {
		return
	}
	g.build()
	g.summarize()
	c.Extra["taint_functions"] = len(g.fns)
	c.Extra["taint_origins"] = len(g.origins)

	sinks := g.sinks()
	nk := map[string]int{}
	for _, s := range sinks {
		nk[s.kind]++
	}
	if os.Getenv("C23_DEBUG") != "" {
		fmt.Fprintf(os.Stderr, "sinks %v\n", nk)
		no := map[string]int{}
		for _, o := range g.origins {
			no[o.label]++
		}
		fmt.Fprintf(os.Stderr, "origins %v\n", no)
	}
	// vacuity floors count semantic instances (message kinds, functions, fields,
	// labels), not call sites, so that de-duplicating refactors stay above them
	wireKinds, sendFns, cancelFns, paramFields := map[string]bool{}, map[*ssa.Function]bool{}, map[*ssa.Function]bool{}, map[string]bool{}
	for _, s := range sinks {
		switch s.kind {
		case "wire":
			wireKinds[s.field[:strings.LastIndex(s.field, ".")]] = true
		case "send":
			sendFns[s.at.Parent()] = true
		case "cancel":
			cancelFns[s.at.Parent()] = true
		case "params":
			paramFields[s.field] = true
		}
	}
	c.AtLeast("C23.R1", "wire message kinds that are built by field stores", len(wireKinds), 7)
	c.AtLeast("C23.R1", "MarshalPeerswapMessage call sites", nk["marshal"], 1)
	c.AtLeast("C23.R1", "functions handing a payload to SendMessage/SendCustomMessage", len(sendFns), 2)
	c.AtLeast("C23.R1", "functions storing SwapData.CancelMessage", len(cancelFns), 2)
	c.AtLeast("C23.R3", "OpeningParams fields that are stored", len(paramFields), 5)
	no := map[string]int{}
	for _, o := range g.origins {
		no[o.label]++
	}
	for _, lab := range []string{"key", "claimPreimage", "feePreimage", "signer", "paidPreimage", "makerPreimage"} {
		c.AtLeast("C23.R1", "origins of label "+lab, no[lab], 1)
	}
	if len(c.Anchors) > 0 {
		return
	}

	feas := c23NewFeas(c, ts)
	g.stmtFeas = func(in ssa.Instruction) int { v, _ := feas.infeasible(in); return v }
	debug := os.Getenv("C23_DEBUG") != ""

	// group sinks by construct
	type agg struct {
		pos   string
		n     int
		flows int
	}
	aggs := map[string]*agg{}
	var aggOrder []string
	ruleOf := func(s *c23Sink) string {
		if s.kind == "params" {
			return "C23.R3"
		}
		return "C23.R1"
	}
	for _, s := range sinks {
		k := ruleOf(s) + "|" + s.desc
		if aggs[k] == nil {
			aggs[k] = &agg{pos: w.Pos(c23Pos(s.at))}
			aggOrder = append(aggOrder, k)
		}
		aggs[k].n++
	}

	legit := 0
	ctlPayreq, ctlPersist := false, false
	infeasMemo := map[*c23Origin][2]string{}
	wireTaint := map[string]map[string]bool{} // wire field -> labels that reach it on a feasible flow
	encodedSent := 0
	sendCalls := map[ssa.CallInstruction]bool{}
	for _, s := range sinks {
		if s.kind == "send" {
			if call, ok := s.at.(ssa.CallInstruction); ok {
				sendCalls[call] = true
			}
		}
	}
	process := func(o *c23Origin, encoded bool) {
		var r *c23Reach
		if encoded {
			r = g.bfsSkip(o, nil, sendCalls)
		} else {
			r = g.bfs(o, nil)
		}
		if debug {
			fmt.Fprintf(os.Stderr, "origin %s %s @%s in %s: reaches %d nodes\n", o.label, o.what, w.Pos(c23Pos(o.site)), w.FuncName(o.site.Parent()), len(r.first))
		}
		// positive controls
		if o.label == "paidPreimage" && r.has(c23Field("swap.SwapData.ClaimPreimage")) {
			ctlPersist = true
		}
		for _, s := range sinks {
			if !r.has(s.node) {
				continue
			}
			rule := ruleOf(s)
			k := rule + "|" + s.desc
			ofn := w.FuncName(o.site.Parent())
			cons := fmt.Sprintf("%s <- %s (%s) in %s", s.desc, o.label, c23Short(o.what), ofn)
			pos := w.Pos(c23Pos(s.at))
			path := g.path(o, r, s.node)
			if s.kind == "wire" && s.field == c23KeyField && o.label == "key" && len(dis[s.at.Parent()]) > 0 {
				legit++
				aggs[k].flows++
				if wireTaint[s.field] == nil {
					wireTaint[s.field] = map[string]bool{}
				}
				wireTaint[s.field][o.label] = true
				c.OK(rule, cons, pos, "the legitimate disclosure: the per-swap key goes into coop_close inside a disclosing function (where such functions may run is C06.R1/R2)")
				continue
			}
			if encoded && s.kind == "send" {
				// the only legitimate destination of an encoded message that carries the key
				encodedSent++
				aggs[k].flows++
				c.OK(rule, cons, pos, "the encoded coop_close message is handed to the peer transport (its content was judged at the wire fields)")
				continue
			}
			aggs[k].flows++
			memo, done := infeasMemo[o]
			if !done {
				v, why := feas.infeasible(o.site)
				memo = [2]string{fmt.Sprint(v), why}
				infeasMemo[o] = memo
			}
			if debug {
				fmt.Fprintf(os.Stderr, "FLOW %s\n   %s\n", cons, strings.Join(path, "\n   "))
			}
			if memo[0] == fmt.Sprint(c23Yes) {
				c.OK(rule, cons, pos, "flow exists in the code but its origin statement is unreachable: "+memo[1])
				continue
			}
			if s.kind == "wire" {
				if wireTaint[s.field] == nil {
					wireTaint[s.field] = map[string]bool{}
				}
				wireTaint[s.field][o.label] = true
			}
			detail := fmt.Sprintf("secret [%s] picked up at %s (%s) reaches %s", o.label, w.Pos(c23Pos(o.site)), o.what, c23SinkText(s))
			if memo[1] != "" {
				detail += ". Feasibility: " + memo[1]
			}
			if memo[0] == fmt.Sprint(c23Unk) {
				c.Unknown(rule, cons, pos, detail+". Path: "+strings.Join(path, " => "))
				continue
			}
			if st := g.undecidedStmt(r, s.node); st != nil {
				_, why := feas.infeasible(st)
				c.Unknown(rule, cons, pos, detail+fmt.Sprintf(". The flow passes the rendering at %s whose reachability is undecided: %s", w.Pos(c23Pos(st)), why)+". Path: "+strings.Join(path, " => "))
				continue
			}
			c.Bad(rule, cons, pos, detail, path...)
		}
		// R3 (direct escapes of a fresh preimage)
		if o.label == "makerPreimage" {
			// persisted SwapData fields end the direct flow (their readers are origins
			// or ordinary R1 propagation); scratch structures are passed through
			rd := g.bfs(o, func(k string) bool { return strings.HasPrefix(k, "swap.SwapData.") })
			c23Direct(c, g, o, rd, &ctlPayreq)
		}
	}
	for _, o := range g.origins {
		process(o, false)
	}
	// Second pass: the bytes produced by MarshalPeerswapMessage carry what the
	// fields of the encoded message carry. For a message with a tainted field
	// (coop_close: the key) the encoded form is itself a secret whose only
	// legitimate destination is the payload of a SendMessage call (and the
	// persisted SwapData.NextMessage); an error text, SwapData.CancelMessage or a
	// field of another message are not.
	nEnc := 0
	for _, m := range g.marshals {
		if m.res0 == nil {
			continue
		}
		tys, known := feas.msgTypes(m.arg, 0, map[ssa.Value]bool{})
		var kinds []*types.Named
		if known {
			for _, t := range tys {
				if n := an.NamedOf(t); n != nil && g.wireT[n] {
					kinds = append(kinds, n)
				}
			}
		} else {
			for n := range g.wireT {
				kinds = append(kinds, n)
			}
		}
		sort.Slice(kinds, func(i, j int) bool { return kinds[i].Obj().Name() < kinds[j].Obj().Name() })
		labs := map[string]bool{}
		var from []string
		for _, n := range kinds {
			st := n.Underlying().(*types.Struct)
			for i := 0; i < st.NumFields(); i++ {
				for l := range wireTaint[g.fkey(n, i)] {
					if !labs[l] {
						labs[l] = true
					}
					from = append(from, n.Obj().Name()+"."+st.Field(i).Name())
				}
			}
		}
		if len(labs) == 0 {
			continue
		}
		nEnc++
		sort.Strings(from)
		o := &c23Origin{label: "encoded[" + strings.Join(sortedKeys(labs), ",") + "]", node: m.res0, site: m.call, what: "bytes of MarshalPeerswapMessage for a message whose field " + strings.Join(from, ", ") + " carries the secret"}
		process(o, true)
	}
	c.AtLeast("C23.R1", "positive control: the encoded coop_close message is seen reaching a SendMessage payload", encodedSent, 1)
	c.Extra["encoded_message_origins"] = nEnc
	for _, k := range aggOrder {
		a := aggs[k]
		i := strings.Index(k, "|")
		if a.flows == 0 {
			c.OK(k[:i], k[i+1:], a.pos, fmt.Sprintf("no secret reaches this sink (%d site(s))", a.n))
		}
	}
	c.AtLeast("C23.R1", "positive control: key -> CoopCloseMessage.Privkey flow found by the engine", legit, 1)
	if !ctlPersist {
		c.Anchor("C23.R1: positive control failed: the preimage returned by a payment call is not seen reaching SwapData.ClaimPreimage")
	}
	if !ctlPayreq {
		c.Anchor("C23.R3: positive control failed: the fresh preimage is not seen reaching GetPayreq")
	}
	var cl []string
	for k, n := range g.nClean {
		cl = append(cl, fmt.Sprintf("%s x%d", k, n))
	}
	sort.Strings(cl)
	c.Note("C23.R1", "sanitiser/boundary calls met", "-", strings.Join(cl, "; "))
	var dn []string
	for fn := range dis {
		dn = append(dn, w.FuncName(fn))
	}
	sort.Strings(dn)
	c.Note("C23.R2", "disclosing functions", "-", strings.Join(dn, ", ")+" — that they are used only by taker tables and are unreachable after a successful claim payment is C06.R2 / C06.R1")
	if feas.baseOK {
		c.Note("C23.R1", "feasibility base", "-", fmt.Sprintf("dispatcher facts hold (Execute only via SendEvent/Recover/wrappers; context applied before the action; SwapData never replaced); %d event injections resolved", len(feas.injects)))
	} else {
		c.Note("C23.R1", "feasibility base", "-", "NOT established: "+feas.baseWhy+" — guarded flows are undecided")
	}
}

// c23Direct: R3 for one fresh preimage: which services does it reach without
// passing through a persisted SwapData field?
func c23Direct(c *an.Check, g *c23Graph, o *c23Origin, r *c23Reach, sawPayreq *bool) {
	w := c.W
	ofn := w.FuncName(o.site.Parent())
	bad := 0
	// service calls reached
	for _, fn := range prodFuncs(w) {
		if w.FnRel(fn) != "swap" || !g.fns[fn] {
			continue
		}
		for _, call := range an.Calls(fn) {
			ci := w.Info(call)
			if ci.Iface == nil || !call.Common().IsInvoke() {
				continue
			}
			if rel, ok := w.Rel(ci.PkgPath); !ok || rel != "swap" {
				continue
			}
			for _, a := range call.Common().Args {
				if !r.has(a) {
					continue
				}
				if ci.Name == fxGetPayreq {
					*sawPayreq = true
					continue
				}
				if why, _ := g.cleanReason(ci); why != "" {
					continue
				}
				bad++
				c.Bad("C23.R3", fmt.Sprintf("%s fresh preimage -> %s", ofn, strings.TrimPrefix(ci.Name, "iface:")), w.Pos(call.Pos()), "the preimage of an invoice this node issued is handed to a service other than GetPayreq", g.path(o, r, a)...)
			}
		}
	}
	if bad == 0 {
		c.OK("C23.R3", ofn+" fresh preimage", w.Pos(c23Pos(o.site)), "reaches only GetPayreq, SwapData fields and its hash")
	}
}

// c23ModuleField: the key names a field of a struct declared in the module.
func c23ModuleField(w *an.World, key string) bool {
	parts := strings.Split(key, ".")
	if len(parts) < 3 {
		return false
	}
	rel := strings.Join(parts[:len(parts)-2], ".")
	_, ok := w.ByRel[rel]
	return ok
}

func c23FieldExists(w *an.World, key string) bool {
	parts := strings.Split(key, ".")
	if len(parts) < 3 {
		return false
	}
	n := w.Named(strings.Join(parts[:len(parts)-2], "."), parts[len(parts)-2])
	if n == nil {
		return false
	}
	st, ok := n.Underlying().(*types.Struct)
	if !ok {
		return false
	}
	for j := 0; j < st.NumFields(); j++ {
		if st.Field(j).Name() == parts[len(parts)-1] {
			return true
		}
	}
	return false
}

func c23Short(what string) string {
	for _, m := range []string{"fmt/json", "fmt", "json"} {
		what = strings.TrimPrefix(what, "rendering ("+m+") of ")
	}
	what = strings.ReplaceAll(what, " which contains ", " incl. ")
	if i := strings.Index(what, " for a message whose field "); i >= 0 {
		what = "marshalled " + strings.TrimSuffix(what[i+len(" for a message whose field "):], " carries the secret")
	}
	return what
}

func c23SinkText(s *c23Sink) string {
	switch s.kind {
	case "wire":
		return "the wire message field " + s.field
	case "marshal":
		return "the value encoded by MarshalPeerswapMessage"
	case "send":
		return "the payload of a SendMessage call"
	case "cancel":
		return "SwapData.CancelMessage (copied into CancelMessage.Message / CoopCloseMessage.Message by the cancel and coop-close actions)"
	case "params":
		return "the public opening parameter " + s.field
	}
	return s.kind
}

// c23OnlyCalledBy: fn is an unexported helper whose only production call sites
// are static calls inside `only` (e.g. a locked section split out of Recover).
func c23OnlyCalledBy(w *an.World, fn, only *ssa.Function) bool {
	n := 0
	for _, g := range prodFuncs(w) {
		for _, call := range an.Calls(g) {
			if call.Common().StaticCallee() != fn {
				// a reference as a value (closure / method value) would escape this test
				for _, a := range call.Common().Args {
					if a == ssa.Value(fn) {
						return false
					}
				}
				continue
			}
			if g != only {
				return false
			}
			n++
		}
	}
	return n > 0
}
