package rules

import (
	"go/token"
	"fmt"
	"go/types"
	"sort"
	"strings"

	"golang.org/x/tools/go/ssa"

	"psv/internal/an"
)

// Effect names (CallInfo.Name) of the swap-package service interfaces. These are
// the frozen repo-specific anchors of the table rules; each must resolve (the
// interface method must exist) or the check fails as "unresolved anchor".
const (
	fxPay            = "iface:swap.LightningClient.RebalancePayment"
	fxPayViaChannel  = "iface:swap.LightningClient.PayInvoiceViaChannel"
	fxPayInvoice     = "iface:swap.LightningClient.PayInvoice"
	fxRecoverPay     = "iface:swap.LightningClient.RecoverClaimPayment"
	fxGetPayreq      = "iface:swap.LightningClient.GetPayreq"
	fxDecodePayreq   = "iface:swap.LightningClient.DecodePayreq"
	fxPayNotifier    = "iface:swap.LightningClient.AddPaymentNotifier"
	fxOpenTx         = "iface:swap.Wallet.CreateOpeningTransaction"
	fxPreimageSpend  = "iface:swap.Wallet.CreatePreimageSpendingTransaction"
	fxCsvSpend       = "iface:swap.Wallet.CreateCsvSpendingTransaction"
	fxCoopSpend      = "iface:swap.Wallet.CreateCoopSpendingTransaction"
	fxWaitConf       = "iface:swap.TxWatcher.AddWaitForConfirmationTx"
	fxWaitCsv        = "iface:swap.TxWatcher.AddWaitForCsvTx"
	fxBlockHeight    = "iface:swap.TxWatcher.GetBlockHeight"
	fxValidateTx     = "iface:swap.Validator.ValidateTx"
	fxSendMessage    = "iface:swap.Messenger.SendMessage"
	fxAddSender      = "iface:swap.MessengerManager.AddSender"
	fxRemoveSender   = "iface:swap.MessengerManager.RemoveSender"
	fxAddTimeout     = "iface:swap.TimeOutService.addNewTimeOut"
	fxAddSuspicious  = "iface:swap.Policy.AddToSuspiciousPeerList"
	fxStoreUpdate    = "iface:swap.Store.UpdateData"
	fxActionExecute  = "iface:swap.Action.Execute"
	evSucceeded      = "Event_ActionSucceeded"
	evFailed         = "Event_ActionFailed"
	evRetry          = "Event_OnRetry"
	evNoOp           = "NoOp"
	evDone           = "Event_Done"
	evTimeout        = "Event_OnTimeout"
	evTxConfirmed    = "Event_OnTxConfirmed"
	evCsvPassed      = "Event_OnCsvPassed"
	evInvalidMessage = "Event_Invalid_Message"
)

// ifaceMethodExists checks that an effect name of the form
// iface:<rel>.<Iface>.<Method> still resolves in the loaded program.
func ifaceMethodExists(w *an.World, name string) bool {
	s := strings.TrimPrefix(name, "iface:")
	parts := strings.Split(s, ".")
	if len(parts) < 3 {
		return false
	}
	rel := strings.Join(parts[:len(parts)-2], ".")
	n := w.Named(rel, parts[len(parts)-2])
	if n == nil {
		return false
	}
	it, ok := n.Underlying().(*types.Interface)
	if !ok {
		return false
	}
	for i := 0; i < it.NumMethods(); i++ {
		if it.Method(i).Name() == parts[len(parts)-1] {
			return true
		}
	}
	return false
}

func needEffects(c *an.Check, names ...string) bool {
	ok := true
	for _, n := range names {
		if !ifaceMethodExists(c.W, n) {
			c.Anchor("service method %s does not resolve", n)
			ok = false
		}
	}
	return ok
}

// TI is a table with the summaries of its states.
type TI struct {
	F   *an.FSMInfo
	T   *an.Table
	Sum map[string]*an.StateSummary
}

func (t *TI) Name() string { return t.T.Name() }

// key names a state of a table, e.g. "(SWAPTYPE_OUT,SWAPROLE_SENDER)/State_X".
func (t *TI) key(s string) string {
	if s == "" {
		s = "Default"
	}
	return t.Name() + "/" + s
}

func (t *TI) edgeKey(from, ev string) string {
	return fmt.Sprintf("%s --%s--> %s", t.key(from), ev, nonEmpty(t.T.States[from].Events[ev]))
}

func nonEmpty(s string) string {
	if s == "" {
		return "Default"
	}
	return s
}

func (t *TI) pos(c *an.Check, s string) string {
	if e := t.T.States[s]; e != nil {
		return c.W.Pos(e.Pos)
	}
	return c.W.Pos(t.T.Pos)
}

// statesWith lists the states whose action tree has the effect.
func (t *TI) statesWith(effect string) []string {
	var out []string
	for _, s := range t.T.Order {
		if t.Sum[s].HasEffect(effect) {
			out = append(out, s)
		}
	}
	return out
}

func (t *TI) terminals() []string {
	var out []string
	for _, s := range t.T.Order {
		if t.T.States[s].Terminal() {
			out = append(out, s)
		}
	}
	return out
}

// tables loads and sanity-checks the four state machines.
func tables(c *an.Check) []*TI {
	f, err := c.W.FSM()
	if err != nil {
		c.Anchor("cannot extract state tables: %v", err)
		return nil
	}
	if !c.AtLeast("E2", "state tables", len(f.Tables), 4) {
		return nil
	}
	var out []*TI
	nStates := 0
	for _, t := range f.Tables {
		if !t.Bound {
			c.Anchor("table %s is not bound to a (type, role) by a constructor", t.Func)
			continue
		}
		ti := &TI{F: f, T: t, Sum: map[string]*an.StateSummary{}}
		for _, s := range t.Order {
			ti.Sum[s] = c.W.StateSummary(f, t.States[s])
			nStates++
			// every event target must be a state of the table
			for _, ev := range t.States[s].SortedEvents() {
				if _, ok := t.States[t.States[s].Events[ev]]; !ok {
					c.Anchor("table %s: state %s event %s targets unknown state %q", t.Func, s, ev, t.States[s].Events[ev])
				}
			}
		}
		out = append(out, ti)
	}
	c.AtLeast("E2", "state entries", nStates, 58)
	c.Extra["tables"] = len(out)
	c.Extra["states"] = nStates
	return out
}

// takers / makers are decided by effects, not by names.
func takers(ts []*TI) []*TI {
	var out []*TI
	for _, t := range ts {
		if len(t.statesWith(fxPay)) > 0 {
			out = append(out, t)
		}
	}
	return out
}

func makers(ts []*TI) []*TI {
	var out []*TI
	for _, t := range ts {
		if len(t.statesWith(fxOpenTx)) > 0 {
			out = append(out, t)
		}
	}
	return out
}

// disclosingFuncs returns the production functions that store a non-constant
// value into CoopCloseMessage.Privkey (the only wire field that carries a key).
func disclosingFuncs(w *an.World) map[*ssa.Function][]*ssa.Store {
	out := map[*ssa.Function][]*ssa.Store{}
	for _, st := range w.FieldWriters("CoopCloseMessage.Privkey") {
		fn := st.Parent()
		if an.IsTestSupport(w.FnRel(fn)) {
			continue
		}
		if s, ok := an.ConstString(st.Val); ok && s == "" {
			continue
		}
		out[fn] = append(out[fn], st)
	}
	return out
}

// discloses reports whether the state's action tree (incl. helpers reached
// synchronously) contains a disclosing function.
func (t *TI) discloses(w *an.World, s string, dis map[*ssa.Function][]*ssa.Store) bool {
	ss := t.Sum[s]
	for _, fn := range ss.Execs {
		if len(dis[fn]) > 0 {
			return true
		}
	}
	for _, ef := range ss.Effects {
		if ef.Info.Static != nil && len(dis[ef.Info.Static]) > 0 {
			return true
		}
	}
	return false
}

func sortedKeys(m map[string]bool) []string {
	var out []string
	for k := range m {
		out = append(out, k)
	}
	sort.Strings(out)
	return out
}

// execOf returns the Execute function of the named action type.
func execOf(c *an.Check, f *an.FSMInfo, name string) *ssa.Function {
	for nt, fn := range f.Exec {
		if nt.Obj().Name() == name {
			return fn
		}
	}
	return nil
}

// callsNamed lists the call instructions in fn whose CallInfo.Name equals name.
func callsNamed(w *an.World, fn *ssa.Function, name string) []ssa.CallInstruction {
	var out []ssa.CallInstruction
	for _, c := range an.Calls(fn) {
		if w.Info(c).Name == name {
			out = append(out, c)
		}
	}
	return out
}

// callsMatching lists calls in fn whose name satisfies pred.
func callsMatching(w *an.World, fn *ssa.Function, pred func(an.CallInfo) bool) []ssa.CallInstruction {
	var out []ssa.CallInstruction
	for _, c := range an.Calls(fn) {
		if pred(w.Info(c)) {
			out = append(out, c)
		}
	}
	return out
}

// prodFuncs are all production functions with bodies.
func prodFuncs(w *an.World) []*ssa.Function { return w.SrcFuncs(an.NonTest) }

// findCallSites returns every production call site with the given callee name.
func findCallSites(w *an.World, name string) []ssa.CallInstruction {
	var out []ssa.CallInstruction
	for _, fn := range prodFuncs(w) {
		out = append(out, callsNamed(w, fn, name)...)
	}
	return out
}

// returnEventsFrom collects the constant events returned on paths starting at
// the given blocks.
func returnEventsFrom(w *an.World, fn *ssa.Function, from map[*ssa.BasicBlock]bool) map[string][]*ssa.Return {
	out := map[string][]*ssa.Return{}
	for _, r := range an.Returns(fn) {
		if !from[r.Block()] {
			continue
		}
		for _, res := range r.Results {
			n, ok := res.Type().(*types.Named)
			if !ok || n.Obj().Name() != "EventType" {
				continue
			}
			for _, ev := range eventValues(w, res) {
				out[ev] = append(out[ev], r)
			}
		}
	}
	return out
}

// eventValues resolves the constant events a value may hold ("?" if unknown,
// "NEXT" for wrapper delegation).
func eventValues(w *an.World, v ssa.Value) []string {
	m := map[string]bool{}
	seen := map[ssa.Value]bool{}
	var rec func(v ssa.Value)
	rec = func(v ssa.Value) {
		if seen[v] {
			return
		}
		seen[v] = true
		if s, ok := an.ConstString(v); ok {
			m[s] = true
			return
		}
		switch x := v.(type) {
		case *ssa.Phi:
			for _, e := range x.Edges {
				rec(e)
			}
		case *ssa.ChangeType:
			rec(x.X)
		case *ssa.Convert:
			rec(x.X)
		case *ssa.UnOp:
			// defer-spilled result: `*t0 = ev; rundefers; t = *t0; return t`
			if al, ok := x.X.(*ssa.Alloc); ok && x.Op == token.MUL {
				stores, fromEntry := an.StoresReaching(x, al)
				for _, s := range stores {
					rec(s.Val)
				}
				if fromEntry || len(stores) == 0 {
					m["?"] = true
				}
				return
			}
			m["?"] = true
		case *ssa.Call:
			ci := w.Info(x)
			if ci.Name == fxActionExecute {
				m["NEXT"] = true
				return
			}
			if ci.Static != nil && w.InModule(ci.Static) {
				s := w.Summary(ci.Static)
				for e := range s.Events {
					m[e] = true
				}
				if s.Delegates {
					m["NEXT"] = true
				}
				if s.Unknown {
					m["?"] = true
				}
				return
			}
			m["?"] = true
		default:
			m["?"] = true
		}
	}
	rec(v)
	return sortedKeys(m)
}
