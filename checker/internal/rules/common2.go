package rules

import (
	"go/constant"
	"go/types"
	"sort"
	"strconv"
	"strings"

	"golang.org/x/tools/go/ssa"

	"psv/internal/an"
)

// ---- E4: where events come from ------------------------------------------------

// EventSource is one call of (*SwapStateMachine).SendEvent with a constant event.
type EventSource struct {
	Event   string
	Fn      *ssa.Function
	Call    ssa.CallInstruction
	CtxType string // static type of the context argument ("nil" if none)
}

// eventSources lists every production call of SendEvent outside the state
// machine's own methods (SendEvent's recursion and Recover are listed with
// Fn set to those functions so rules can tell them apart).
func eventSources(c *an.Check) []EventSource {
	w := c.W
	se := w.Func("swap", "(*SwapStateMachine).SendEvent")
	if se == nil {
		c.Anchor("(*SwapStateMachine).SendEvent does not resolve")
		return nil
	}
	var out []EventSource
	for _, fn := range prodFuncs(w) {
		for _, call := range an.Calls(fn) {
			if call.Common().StaticCallee() != se {
				continue
			}
			args := call.Common().Args
			if len(args) < 3 {
				continue
			}
			ctxOf := func(v ssa.Value) string {
				if an.IsNilConst(v) {
					return "nil"
				}
				if mi, ok := v.(*ssa.MakeInterface); ok {
					return types.TypeString(mi.X.Type(), func(p *types.Package) string { return p.Name() })
				}
				return "?"
			}
			evs := eventValues(w, args[1])
			ctx := ctxOf(args[2])
			// a shared delivery helper `deliver(swap, event, ctx)`: the event (and
			// context) are the helper's parameters; resolve them at its callers
			if evPar, isPar := args[1].(*ssa.Parameter); isPar && len(evs) == 1 && evs[0] == "?" {
				resolved := false
				for _, g := range prodFuncs(w) {
					for _, gc := range an.Calls(g) {
						if gc.Common().StaticCallee() != fn {
							continue
						}
						ga := gc.Common().Args
						ei, ci := -1, -1
						for i, p := range fn.Params {
							if p == evPar {
								ei = i
							}
							if p == args[2] {
								ci = i
							}
						}
						if ei < 0 || ei >= len(ga) {
							continue
						}
						cctx := ctx
						if ci >= 0 && ci < len(ga) {
							cctx = ctxOf(ga[ci])
						}
						for _, ev := range eventValues(w, ga[ei]) {
							resolved = true
							out = append(out, EventSource{Event: ev, Fn: g, Call: gc, CtxType: cctx})
						}
					}
				}
				if resolved {
					continue
				}
			}
			for _, ev := range evs {
				out = append(out, EventSource{Event: ev, Fn: fn, Call: call, CtxType: ctx})
			}
		}
	}
	sort.Slice(out, func(i, j int) bool {
		if out[i].Event != out[j].Event {
			return out[i].Event < out[j].Event
		}
		return w.FuncName(out[i].Fn) < w.FuncName(out[j].Fn)
	})
	return out
}

// callbackTargets returns the functions passed (as bound methods, closures or
// function values) to production calls whose callee name is `name`, e.g. the
// argument of iface:swap.TxWatcher.AddCsvCallback.
func callbackTargets(w *an.World, name string) []*ssa.Function {
	var out []*ssa.Function
	seen := map[*ssa.Function]bool{}
	for _, site := range findCallSites(w, name) {
		for _, a := range site.Common().Args {
			for _, f := range funcValues(a) {
				if !seen[f] {
					seen[f] = true
					out = append(out, f)
				}
			}
		}
	}
	return out
}

// funcValues resolves a func-typed SSA value to the functions it may denote
// (closures, bound methods, plain functions).
func funcValues(v ssa.Value) []*ssa.Function {
	switch x := v.(type) {
	case *ssa.Function:
		return []*ssa.Function{x}
	case *ssa.MakeClosure:
		if f, ok := x.Fn.(*ssa.Function); ok {
			// a bound-method wrapper ($bound): resolve to the method itself
			if f.Synthetic != "" && strings.HasSuffix(f.Name(), "$bound") && f.Object() != nil {
				if m := f.Prog.FuncValue(f.Object().(*types.Func)); m != nil {
					return []*ssa.Function{m}
				}
			}
			return []*ssa.Function{f}
		}
	case *ssa.ChangeType:
		return funcValues(x.X)
	case *ssa.Phi:
		var out []*ssa.Function
		for _, e := range x.Edges {
			out = append(out, funcValues(e)...)
		}
		return out
	}
	return nil
}

// eventsSentFrom returns the constant events sent via SendEvent from fn or any
// function it reaches synchronously through static in-module calls.
func eventsSentFrom(c *an.Check, fn *ssa.Function, srcs []EventSource) map[string]bool {
	w := c.W
	reach := map[*ssa.Function]bool{fn: true}
	for _, ef := range w.Summary(fn).Effects {
		if ef.Info.Static != nil {
			reach[ef.Info.Static] = true
		}
		reach[ef.In] = true
	}
	out := map[string]bool{}
	fsmOwn := map[*ssa.Function]bool{w.Func("swap", "(*SwapStateMachine).SendEvent"): true, w.Func("swap", "(*SwapStateMachine).Recover"): true}
	for _, s := range srcs {
		if fsmOwn[s.Fn] {
			continue // the machine's own recursion (invalid message, recovery) is not an external source
		}
		if reach[s.Fn] {
			out[s.Event] = true
		}
	}
	return out
}

// ---- path helpers ----------------------------------------------------------------

// pathAvoiding reports whether some CFG path leads from just after `from` to
// `to` without executing any instruction of `avoid`.
func pathAvoiding(from, to ssa.Instruction, avoid []ssa.Instruction) bool {
	if from.Parent() != to.Parent() {
		return false
	}
	avoidAt := map[*ssa.BasicBlock][]int{}
	for _, a := range avoid {
		if a.Parent() == from.Parent() {
			avoidAt[a.Block()] = append(avoidAt[a.Block()], an.InstrIndex(a))
		}
	}
	fb, fi := from.Block(), an.InstrIndex(from)
	tb, ti := to.Block(), an.InstrIndex(to)
	firstAvoidAfter := func(b *ssa.BasicBlock, idx int) int {
		best := -1
		for _, i := range avoidAt[b] {
			if i > idx && (best < 0 || i < best) {
				best = i
			}
		}
		return best
	}
	// same block, straight line
	if fb == tb && ti > fi {
		a := firstAvoidAfter(fb, fi)
		if a < 0 || a > ti {
			return true
		}
		// fallthrough: may still reach via a loop, but leaving fb requires passing a
		return false
	}
	// leaving the from-block
	if a := firstAvoidAfter(fb, fi); a >= 0 {
		return false
	}
	seen := map[*ssa.BasicBlock]bool{}
	st := append([]*ssa.BasicBlock{}, fb.Succs...)
	for len(st) > 0 {
		b := st[len(st)-1]
		st = st[:len(st)-1]
		if seen[b] {
			continue
		}
		seen[b] = true
		a := firstAvoidAfter(b, -1)
		if b == tb {
			if a < 0 || a > ti {
				return true
			}
			continue
		}
		if a >= 0 {
			continue
		}
		st = append(st, b.Succs...)
	}
	return false
}

// storesTo lists the stores in fn to field "Type.Field".
func storesTo(fn *ssa.Function, key string) []ssa.Instruction {
	var out []ssa.Instruction
	for _, b := range fn.Blocks {
		for _, in := range b.Instrs {
			if st, ok := in.(*ssa.Store); ok {
				if fa, ok := st.Addr.(*ssa.FieldAddr); ok && an.FieldName(fa.X.Type(), fa.Field) == key {
					out = append(out, st)
				}
			}
		}
	}
	return out
}

// implementers returns the production named types (as pointer or value) that
// implement interface rel.Iface, with the method `meth` of each.
func implementers(w *an.World, rel, iface, meth string) []*ssa.Function {
	in := w.Named(rel, iface)
	if in == nil {
		return nil
	}
	it, ok := in.Underlying().(*types.Interface)
	if !ok {
		return nil
	}
	var out []*ssa.Function
	for _, p := range w.Pkgs {
		r, _ := w.Rel(p.PkgPath)
		if an.IsTestSupport(r) {
			continue
		}
		sc := p.Types.Scope()
		for _, n := range sc.Names() {
			tn, ok := sc.Lookup(n).(*types.TypeName)
			if !ok || tn.IsAlias() {
				continue
			}
			nt, ok := tn.Type().(*types.Named)
			if !ok {
				continue
			}
			if _, isI := nt.Underlying().(*types.Interface); isI {
				continue
			}
			if types.Implements(nt, it) || types.Implements(types.NewPointer(nt), it) {
				// skip test doubles declared in production packages, by file
				if f := w.Method(nt, meth); f != nil && f.Blocks != nil {
					file := w.PosFile(f.Pos())
					if strings.HasSuffix(file, "_test.go") || strings.Contains(file, "mock") {
						continue
					}
					out = append(out, f)
				}
			}
		}
	}
	sort.Slice(out, func(i, j int) bool { return w.FuncName(out[i]) < w.FuncName(out[j]) })
	return out
}

// isDummyType: test doubles that live in production files of package swap
// (swap/mocks.go, timeOutDummy in swap/timeout.go). Decided by declaring file
// or by the documented Dummy suffix of this repository.
func isDummy(w *an.World, fn *ssa.Function) bool {
	file := w.PosFile(fn.Pos())
	if strings.Contains(file, "mock") || strings.HasSuffix(file, "_test.go") {
		return true
	}
	if fn.Signature.Recv() != nil {
		if n := an.NamedOf(fn.Signature.Recv().Type()); n != nil && strings.HasSuffix(strings.ToLower(n.Obj().Name()), "dummy") {
			return true
		}
	}
	return false
}

// ---- constants and chain/version facts ----------------------------------------------

// constOf returns the constant value of package-level constant rel.name.
func constOf(w *an.World, rel, name string) (constant.Value, bool) {
	p := w.ByRel[rel]
	if p == nil {
		return nil, false
	}
	c, ok := p.Types.Scope().Lookup(name).(*types.Const)
	if !ok {
		return nil, false
	}
	return c.Val(), true
}

// liquidV7 gathers the two constants that select the Liquid protocol-7 branch.
type liquidV7 struct {
	lbtc    string
	version int64
}

func getLiquidV7(c *an.Check) (liquidV7, bool) {
	lv, ok1 := constOf(c.W, "swap", "l_btc_chain")
	pv, ok2 := constOf(c.W, "swap", "PEERSWAP_PROTOCOL_VERSION")
	if !ok1 || !ok2 || lv.Kind() != constant.String {
		c.Anchor("constants swap.l_btc_chain / swap.PEERSWAP_PROTOCOL_VERSION do not resolve")
		return liquidV7{}, false
	}
	v, _ := constant.Int64Val(pv)
	return liquidV7{lbtc: constant.StringVal(lv), version: v}, true
}

// notLiquidV7 reports whether fact f says "this is NOT a Liquid v7 swap" on its
// edge: chain != "lbtc" or protocol version != 7.
func (l liquidV7) notLiquidV7(f an.Fact) bool {
	if f.NonNum && f.Rel == "!=" && an.EqIs(f, "!=", ").GetChain", strconv.Quote(l.lbtc)) {
		return true
	}
	if !f.NonNum && f.Rel == "!=" {
		return an.MatchLin(f, an.LinSpec{Rel: "!=", Terms: map[string]int64{").GetProtocolVersion": 1}, Const: -l.version})
	}
	return false
}

// isLiquid / isV7 positive facts.
func (l liquidV7) isLiquid(f an.Fact) bool {
	return f.NonNum && an.EqIs(f, "==", ").GetChain", strconv.Quote(l.lbtc))
}

func (l liquidV7) isV7(f an.Fact) bool {
	return !f.NonNum && an.MatchLin(f, an.LinSpec{Rel: "==", Terms: map[string]int64{").GetProtocolVersion": 1}, Const: -l.version})
}

// cutEdges returns the edges of fn whose fact satisfies pred.
func cutEdges(w *an.World, fn *ssa.Function, pred func(an.Fact) bool) map[an.Edge]bool {
	out := map[an.Edge]bool{}
	for _, f := range w.Facts(fn) {
		if pred(f) {
			out[f.Edge] = true
		}
	}
	return out
}

// reachableWithCut: is target's block reachable from the entry once the cut
// edges are removed and without passing *through* an instruction of via?
func reachableAvoiding(target ssa.Instruction, via []ssa.Instruction, cut map[an.Edge]bool) bool {
	fn := target.Parent()
	tb, ti := target.Block(), an.InstrIndex(target)
	stop := map[*ssa.BasicBlock]bool{}
	for _, v := range via {
		if v.Parent() != fn {
			continue
		}
		if v.Block() == tb {
			if an.InstrIndex(v) < ti {
				return false
			}
			continue
		}
		stop[v.Block()] = true
	}
	reach := an.ReachBlocks([]*ssa.BasicBlock{fn.Blocks[0]}, cut, stop)
	return reach[tb]
}

// structField finds a field of a named struct with its tag.
func structField(n *types.Named, field string) (*types.Var, string, bool) {
	st, ok := n.Underlying().(*types.Struct)
	if !ok {
		return nil, "", false
	}
	for i := 0; i < st.NumFields(); i++ {
		if st.Field(i).Name() == field {
			return st.Field(i), st.Tag(i), true
		}
	}
	return nil, "", false
}

// ---- idempotence guards: the "already done" region must be pure -------------------------

// Service interfaces of package swap whose methods talk to the outside world
// (chain, wallet, lightning node, peers, disk). Validator is deliberately not in
// the list: ValidateTx / GetCSVHeight / TxIdFromHex are pure functions of the
// persisted record (confirmed by reading both validators).
var impureServiceIfaces = map[string]bool{
	"TxWatcher": true, "LightningClient": true, "Wallet": true, "Policy": true,
	"Messenger": true, "MessengerManager": true, "Store": true, "TimeOutService": true, "RequestedSwapsStore": true,
}

func isImpureServiceCall(name string) bool {
	if !strings.HasPrefix(name, "iface:swap.") {
		return false
	}
	parts := strings.Split(strings.TrimPrefix(name, "iface:swap."), ".")
	return len(parts) == 2 && impureServiceIfaces[parts[0]]
}

// impureCallsIn lists the calls to outside services made in the given blocks of
// fn, directly or through in-module static callees.
func impureCallsIn(w *an.World, fn *ssa.Function, region map[*ssa.BasicBlock]bool) []string {
	var out []string
	for _, call := range an.Calls(fn) {
		if !region[call.Block()] {
			continue
		}
		ci := w.Info(call)
		if isImpureServiceCall(ci.Name) {
			out = append(out, strings.TrimPrefix(ci.Name, "iface:")+" at "+w.Pos(call.Pos()))
			continue
		}
		if ci.Static != nil && w.InModule(ci.Static) && ci.Static.Blocks != nil {
			for _, ef := range w.Summary(ci.Static).Effects {
				if isImpureServiceCall(ef.Name) {
					out = append(out, strings.TrimPrefix(ef.Name, "iface:")+" (via "+w.FuncName(ci.Static)+") at "+w.Pos(call.Pos()))
					break
				}
			}
		}
	}
	sort.Strings(out)
	return out
}

// alreadyDoneRegion returns the blocks of fn that can execute while the
// persisted result field `field` ("SwapData.X") is already set: everything
// reachable from the entry once every edge carrying the fact `field == zero` is
// removed. The effect guarded by that fact is not in the region.
func alreadyDoneRegion(w *an.World, fn *ssa.Function, field string) map[*ssa.BasicBlock]bool {
	cut := cutEdges(w, fn, func(f an.Fact) bool {
		return f.NonNum && f.Rel == "==" && (an.EqIs(f, "==", "field:"+field, `""`) || an.EqIs(f, "==", "field:"+field, "nil")) && !strings.Contains(f.L+f.R, ">")
	})
	if len(fn.Blocks) == 0 {
		return nil
	}
	return an.ReachBlocks([]*ssa.BasicBlock{fn.Blocks[0]}, cut, nil)
}
